import SJ.Model.Machine
import SJ.Gen.Token
/-!
# `Value` under `arbitrary_precision`: the private Number token (value/de.rs, number.rs, de.rs)

`Model.Machine` reads every JSON object as an object. The crate, built with `arbitrary_precision`, does not:

```rust
// value/de.rs, impl Deserialize for Value, ValueVisitor
fn visit_map<V>(self, mut visitor: V) -> Result<Value, V::Error> where V: MapAccess<'de> {
    match tri!(visitor.next_key_seed(KeyClassifier)) {
        #[cfg(feature = "arbitrary_precision")]
        Some(KeyClass::Number) => {
            let number: NumberFromString = tri!(visitor.next_value());
            Ok(Value::Number(number.value))
        }
        …
        Some(KeyClass::Map(first_key)) => { let mut values = Map::new(); values.insert(first_key, tri!(visitor.next_value())); … }
        None => Ok(Value::Object(Map::new())),
    } }
// KeyClassifier: deserializer.deserialize_str(self);  visit_str / visit_string on the DECODED key:
    match s { #[cfg(feature = "arbitrary_precision")] crate::number::TOKEN => Ok(KeyClass::Number), … _ => Ok(KeyClass::Map(s.to_owned())) }
// number.rs
impl<'de> de::Deserialize<'de> for NumberFromString {
    fn deserialize<D>(deserializer: D) -> Result<NumberFromString, D::Error> {
        … fn expecting(..) { formatter.write_str("string containing a number") }
          fn visit_str<E>(self, s: &str) -> Result<NumberFromString, E> { let n = tri!(s.parse().map_err(de::Error::custom)); Ok(NumberFromString { value: n }) }
        deserializer.deserialize_str(Visitor) } }
// de.rs
impl FromStr for Number { fn from_str(s: &str) -> result::Result<Self, Self::Err> { Deserializer::from_str(s).parse_any_signed_number().map(Into::into) } }
// de.rs, deserialize_any
b'{' => { check_recursion! { self.eat_char(); let ret = visitor.visit_map(MapAccess::new(self)); }
          match (ret, self.end_map()) { (Ok(ret), Ok(())) => Ok(ret), (Err(err), _) | (_, Err(err)) => Err(err) } }
```

So: after the FIRST key of an object has been read (by the very code the machine transcribes: `MapAccess::next_key_seed`,
`MapKey`, `parse_str`) and its decoded text equals `number::TOKEN`, the rest of the object is read by
`MapAccess::next_value_seed` (`parse_object_colon`, then `NumberFromString::deserialize` = `deserialize_str`), and
`end_map` must find `}` next. `MachineAp` is `Model.Machine` with this reading added as four extra phases (`TPhase`),
entered at the `:` that follows such a key; everywhere else it IS the machine (`step1` below calls `Machine.step1`), so
depth budget, duplicate keys, `preserve_order`, positions of every other error are the machine's.

Errors that the machine does not have:
* `Step.data` — serde's `invalid type: …, expected string containing a number` (a `Data`-classified `Message`; the wording
  is serde's and is not modelled), positioned by `deserialize_str`'s `fix_position` = `self.error(code)` at the reader
  state after `peek_invalid_type` consumed the offending scalar (`Adj.excl` when a byte is only peeked: `[`, `{`, the byte
  that ended a number);
* `Step.custom c line col` — `Number::from_str` failed with code `c` at `(line, col)` OF THE DECODED STRING; the error
  passes `de::Error::custom`, i.e. `make_error(msg.to_string())`, which parses `" at line L column C"` back out of the
  message: the result is `Message(<message of c>)` (category `Data`) at `(L, C)`, and `fix_position` leaves it alone
  (`line ≠ 0`).
When `visit_map` fails, `end_map()` still runs but its result is dropped (`(Err(err), _)`): nothing observable.
-/
namespace SJ.Model.MachineAp
open SJ SJ.Gen SJ.Model.Machine

/-- `number::TOKEN` -/
def token : Bytes := Gen.numberToken

/-! ## `Number::from_str` -/

/-- the machine's number scanner is the transcription of `scan_integer` / `scan_number` / `scan_decimal` /
    `scan_exponent` (`parse_any_number` under `arbitrary_precision`); `Number::from_str` runs the same Rust functions on
    a `StrRead` over the string -/
def numEnv : Env := { cfg := { ap := true }, src := .str, tgt := .value }

/-- sites that have CONSUMED the offending byte (`scan_or_eof` then `self.error`) — after `-`, after `e`/`E` and after
    the exponent's sign — as opposed to `peek_error` with the byte still unread (a digit after a leading `0`, a
    non-digit after `.`) -/
def consumedSite : NPhase → Bool
  | .afterMinus | .expStart | .expSign => true
  | _ => false

/-- ```rust
fn parse_any_signed_number(&mut self) -> Result<ParserNumber> {
    let peek = match tri!(self.peek()) { Some(b) => b, None => return Err(self.peek_error(ErrorCode::EofWhileParsingValue)) };
    let value = match peek {
        b'-' => { self.eat_char(); self.parse_any_number(false) }
        b'0'..=b'9' => self.parse_any_number(true),
        _ => Err(self.peek_error(ErrorCode::InvalidNumber)),
    };
    let value = match tri!(self.peek()) { Some(_) => Err(self.peek_error(ErrorCode::InvalidNumber)), None => value };
    match value { Ok(value) => Ok(value), Err(err) => Err(self.fix_position(err)) } }
```
`n`: scanner state after `i` bytes. The result is the error code and the index its position counts (`StrRead`:
`error` = `position_of_index(index)`, `peek_error` = `position_of_index(min(len, index + 1))`). Whatever `value` was,
a byte left unread turns the result into `InvalidNumber` at `index + 1`: that differs from the scanner's own error
only where the scanner had consumed the offending byte and another byte follows. -/
def fromStrLoop (n : NumSt) (i : Nat) : Bytes → Except (Code × Nat) Unit
  | [] =>
    match n.phase with
    | .afterMinus | .fracStart | .expStart | .expSign => .error (.EofWhileParsingValue, i)
    | _ => .ok ()
  | b :: bs =>
    match stepNum numEnv { mode := .num n, stack := [] } n b with
    | .next s' =>
      match s'.mode with
      | .num n' => fromStrLoop n' (i + 1) bs
      | _ => .error (.InvalidNumber, i + 1)                 -- unreachable
    | .again _ => .error (.InvalidNumber, i + 1)            -- the literal is complete and a byte follows
    | .err c _ =>
      if consumedSite n.phase && !bs.isEmpty then .error (.InvalidNumber, i + 2) else .error (c, i + 1)

/-- `Number::from_str(txt)`: `ok` iff `txt` is exactly one number literal (no sign `+`, no whitespace, no leading
    zeros); the `Number` then keeps `txt` verbatim (`ParserNumber::String(buf)`, or `U64`/`I64` re-printed by `itoa` to
    the same digits; `-0` stays `-0`) -/
def fromStr (txt : Bytes) : Except (Code × Nat) Unit :=
  match txt with
  | [] => .error (.EofWhileParsingValue, 0)
  | b :: bs =>
    if b == 0x2d || isDigit b then
      match startValue numEnv { mode := .val .top, stack := [] } b with
      | .next s' =>
        match s'.mode with
        | .num n => fromStrLoop n 1 bs
        | _ => .error (.InvalidNumber, 1)                   -- unreachable
      | _ => .error (.InvalidNumber, 1)                     -- unreachable
    else .error (.InvalidNumber, 1)

/-- the error of `Number::from_str`, `none` when it succeeds (decidable form for kernel-evaluated examples) -/
def fromStrErr (txt : Bytes) : Option (Code × Nat) :=
  match fromStr txt with
  | .ok _ => none
  | .error e => some e

/-! ## states -/

/-- reading the value of an object whose first key is the token -/
inductive TPhase where
  /-- `deserialize_str`: `parse_whitespace`, then `"` or `peek_invalid_type` -/
  | val
  /-- `parse_str` of the string that holds the number -/
  | str (st : StrSt)
  /-- `peek_invalid_type` consuming a scalar that is not a string (the machine on a scratch state without stack) -/
  | other (inner : Machine.St)
  /-- `end_map` after `Number::from_str` succeeded on `txt` -/
  | endMap (txt : Bytes)
deriving Repr

inductive St where
  | base (s : Machine.St)
  /-- `stack`: the open containers AROUND the token object -/
  | tok (p : TPhase) (stack : List Frame)
deriving Repr

inductive Step where
  | next (s : St)
  | again (s : St)
  | err (c : Code) (a : Adj)
  | data (a : Adj)
  | custom (c : Code) (line col : Nat)
deriving Repr

/-- the `:` after the first key of an object, that key being the token: `some` of the stack around the object -/
def triggered (env : Env) (s : Machine.St) (b : UInt8) : Option (List Frame) :=
  if env.cfg.ap && env.tgt = .value && b == 0x3a then
    match s.mode, s.stack with
    | .afterKey, .obj [] key :: fs => if key = token then some fs else none
    | _, _ => none
  else none

def scratch (m : Mode) : Machine.St := { mode := m, stack := [] }

/-- ```rust
fn deserialize_str<V>(self, visitor: V) -> Result<V::Value> {
    let peek = match tri!(self.parse_whitespace()) { Some(b) => b, None => return Err(self.peek_error(ErrorCode::EofWhileParsingValue)) };
    let value = match peek {
        b'"' => { self.eat_char(); self.scratch.clear();
                  match tri!(self.read.parse_str(&mut self.scratch)) { Reference::Borrowed(s) => visitor.visit_borrowed_str(s), Reference::Copied(s) => visitor.visit_str(s) } }
        _ => Err(self.peek_invalid_type(&visitor)),
    };
    match value { Ok(value) => Ok(value), Err(err) => Err(self.fix_position(err)) } }
fn peek_invalid_type(&mut self, exp: &dyn Expected) -> Error {
    let err = match self.peek_or_null().unwrap_or(b'\x00') {
        b'n' => { self.eat_char(); if let Err(err) = self.parse_ident(b"ull") { return err; } de::Error::invalid_type(Unexpected::Unit, exp) }
        b't' => …  b'f' => …
        b'-' => { self.eat_char(); match self.parse_any_number(false) { Ok(n) => n.invalid_type(exp), Err(err) => return err } }
        b'0'..=b'9' => match self.parse_any_number(true) { Ok(n) => n.invalid_type(exp), Err(err) => return err },
        b'"' => …
        b'[' => de::Error::invalid_type(Unexpected::Seq, exp),
        b'{' => de::Error::invalid_type(Unexpected::Map, exp),
        _ => self.peek_error(ErrorCode::ExpectedSomeValue),
    };
    self.fix_position(err) }
fn end_map(&mut self) -> Result<()> {
    match tri!(self.parse_whitespace()) {
        Some(b'}') => { self.eat_char(); Ok(()) }
        Some(b',') => Err(self.peek_error(ErrorCode::TrailingComma)),
        Some(_) => Err(self.peek_error(ErrorCode::TrailingCharacters)),
        None => Err(self.peek_error(ErrorCode::EofWhileParsingObject)),
    } }
``` -/
def stepTok (env : Env) (p : TPhase) (fs : List Frame) (b : UInt8) : Step :=
  match p with
  | .val =>
    if isWs b then .next (.tok .val fs)
    else if b == 0x22 then .next (.tok (.str {}) fs)
    else if b == 0x5b || b == 0x7b then .data .excl
    else
      match startValue env (scratch (.val .top)) b with
      | .next s' => .next (.tok (.other s') fs)
      | .again _ => .err .ExpectedSomeValue .incl          -- unreachable
      | .err c a => .err c a
  | .str st =>
    match stepStr env (scratch (.str st)) st b with
    | .next s' =>
      match s'.mode with
      | .str st' => .next (.tok (.str st') fs)
      | .done (.str txt) =>
        -- `visitor.visit_str(s)`: `s.parse::<Number>().map_err(de::Error::custom)`
        match fromStr txt with
        | .ok () => .next (.tok (.endMap txt) fs)
        | .error (c, k) => .custom c (lineCol txt k).1 (lineCol txt k).2
      | _ => .err .ExpectedSomeValue .incl                 -- unreachable
    | .again _ => .err .ExpectedSomeValue .incl            -- unreachable
    | .err c a => .err c a
  | .other inner =>
    match Machine.step1 env inner b with
    | .next s' =>
      match s'.mode with
      | .done _ => .data .incl                              -- a literal: its last byte has been consumed
      | _ => .next (.tok (.other s') fs)
    | .again _ => .data .excl                               -- a number ended: `b` is only peeked
    | .err c a => .err c a
  | .endMap txt =>
    if isWs b then .next (.tok (.endMap txt) fs)
    else if b == 0x7d then .next (.base (complete fs (.num (.lit txt))))
    else if b == 0x2c then .err .TrailingComma .incl
    else .err .TrailingCharacters .incl

def liftStep : Machine.Step → Step
  | .next s => .next (.base s)
  | .again s => .again (.base s)
  | .err c a => .err c a

def step1 (env : Env) (s : St) (b : UInt8) : Step :=
  match s with
  | .base s =>
    match triggered env s b with
    | some fs => .next (.tok .val fs)
    | none => liftStep (Machine.step1 env s b)
  | .tok p fs => stepTok env p fs b

/-- what a failed step reports -/
inductive Fail where
  | err (c : Code) (a : Adj)
  | data (a : Adj)
  | custom (c : Code) (line col : Nat)
deriving Repr

def step (env : Env) (s : St) (b : UInt8) : Except Fail St :=
  match step1 env s b with
  | .next s' => .ok s'
  | .err c a => .error (.err c a)
  | .data a => .error (.data a)
  | .custom c l k => .error (.custom c l k)
  | .again s' =>
    match step1 env s' b with
    | .next s'' => .ok s''
    | .err c a => .error (.err c a)
    | .data a => .error (.data a)
    | .custom c l k => .error (.custom c l k)
    | .again _ => .error (.err .ExpectedSomeValue .incl)     -- unreachable, as in the machine

/-! ## end of input -/

inductive FinErr where
  | err (c : Code)
  | data
deriving Repr

def finish (env : Env) : St → Except FinErr JV
  | .base s =>
    match Machine.finish env s with
    | .ok v => .ok v
    | .error c => .error (.err c)
  | .tok .val _ => .error (.err .EofWhileParsingValue)
  | .tok (.str _) _ => .error (.err .EofWhileParsingString)
  | .tok (.other inner) _ =>
    -- `parse_ident`: `EofWhileParsingValue`; `parse_any_number`: the literal is complete (`invalid type`) or cut
    match Machine.finish env inner with
    | .ok _ => .error .data
    | .error c => .error (.err c)
  | .tok (.endMap _) _ => .error (.err .EofWhileParsingObject)

/-! ## running -/

inductive Outcome where
  | ok (v : JV)
  /-- `Error::syntax(code, line, column)`; `idx`: number of bytes of the input the position counts -/
  | err (c : Code) (idx : Nat)
  /-- serde's `invalid type: …, expected string containing a number` (`Data`), at `idx` bytes of the input -/
  | data (idx : Nat)
  /-- `Number::from_str`'s error through `de::Error::custom`: the message of `c`, category `Data`, at the line and
      column OF THE DECODED STRING -/
  | custom (c : Code) (line col : Nat)
deriving Repr

def run (env : Env) (s : St) (i : Nat) : Bytes → Outcome
  | [] =>
    match finish env s with
    | .ok v => .ok v
    | .error (.err c) => .err c i
    | .error .data => .data i
  | b :: bs =>
    match step env s b with
    | .ok s' => run env s' (i + 1) bs
    | .error (.err c a) => .err c (errIdx env a i)
    | .error (.data a) => .data (errIdx env a i)
    | .error (.custom c l k) => .custom c l k

def init : St := .base Machine.init

/-- `from_str` / `from_slice` / `from_reader` into `Value` (or `IgnoredAny`, for which nothing changes) -/
def parseTop (env : Env) (bs : Bytes) : Outcome := run env init 0 bs

/-- the machine's outcomes among `MachineAp`'s -/
def ofMachine : Machine.Outcome → Outcome
  | .ok v => .ok v
  | .err c i => .err c i

def Outcome.isOk (o : Outcome) (v : JV) : Bool :=
  match o with
  | .ok v' => JV.beq v' v
  | _ => false
def Outcome.isErr (o : Outcome) (c : Code) (idx : Nat) : Bool :=
  match o with
  | .err c' i => c' == c && i == idx
  | _ => false
def Outcome.isData (o : Outcome) (idx : Nat) : Bool :=
  match o with
  | .data i => i == idx
  | _ => false
def Outcome.isCustom (o : Outcome) (c : Code) (line col : Nat) : Bool :=
  match o with
  | .custom c' l k => c' == c && l == line && k == col
  | _ => false

end SJ.Model.MachineAp
