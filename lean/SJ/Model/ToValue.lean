import SJ.Spec.Program
import SJ.Spec.Denote
import SJ.Gen.ToValue
import SJ.Model.Machine
/-!
# Model of `serde_json::to_value`: `value::Serializer`, its compound builders, `value::ser::MapKeySerializer`

Transcribes `src/value/ser.rs` 58–715 (`impl serde::Serializer for Serializer`, `SerializeVec`,
`SerializeTupleVariant`, `SerializeMap`, `SerializeStructVariant`, `MapKeySerializer`),
`src/value/from.rs` 30–62 (`From<f32>` / `From<f64> for Value`) and `src/number.rs` 183–198, 235–282,
320–336, 737–792 (`Number::from_f64`, `from_f32`, `from_i128`, `from_u128`, `impl From<{integer}> for
Number`), entry point by entry point, on serializer programs `SVal` (`SJ/Spec/Program.lean`): the
*second* implementation of the `Serializer` trait, independent of the text serializer `SJ.Model.Ser`.

Maps are `Map<String, Value>` = `BTreeMap` (default) or `IndexMap` (`preserve_order`); a map is built by
inserting the entries in call order, which is `Model.Machine.mkObj` (fold of `btInsert` / `ixInsert`).

**Out of scope** (as for C03): `serialize_struct` with the private names `$serde_json::private::Number`
(`arbitrary_precision`) / `$serde_json::private::RawValue` (`raw_value`) switches to
`SerializeMap::Number` / `RawValue` and `NumberValueEmitter` / `RawValueEmitter`. The program type does
not record type names, so these are not programs of the modelled fragment; the constructor `numberLit`
(what `Number`'s own `Serialize` does under `arbitrary_precision`) is given the value it has there
(`Number::from_str` on a number literal keeps the text) but is excluded from the C15 theorems
(`inScope`). The `expect("serialize_value called before serialize_key")` panic cannot happen for
programs (keys and values alternate by construction).
Import-free (only `SJ.Spec`, `SJ.Gen`, `SJ.Model`).
-/
namespace SJ.Model.ToValue
open SJ SJ.Spec.Program SJ.Spec.Denote
open SJ.Model.Machine (Cfg mkObj)

/-! ## numbers -/

/-- `f as f64` for a finite `f32`, on the IEEE-754 bit patterns (the conversion is exact): sign kept;
    a normal number keeps its 23 fraction bits (shifted to the top of the 52) and its exponent is
    re-biased (127 → 1023, i.e. `+ 896`); a subnormal `m · 2^-149` with `k = ⌊log2 m⌋` becomes the normal
    number `2^(k-149) · (1 + (m - 2^k)/2^k)`; zero stays zero. -/
def f32to64 (b : UInt32) : UInt64 :=
  let s := (b >>> 31).toNat
  let e := ((b >>> 23) &&& 0xff).toNat
  let m := (b &&& 0x7fffff).toNat
  if e == 0 then
    if m == 0 then UInt64.ofNat (s * 2 ^ 63)
    else UInt64.ofNat (s * 2 ^ 63 + (874 + Nat.log2 m) * 2 ^ 52 + (m - 2 ^ Nat.log2 m) * 2 ^ (52 - Nat.log2 m))
  else UInt64.ofNat (s * 2 ^ 63 + (e + 896) * 2 ^ 52 + m * 2 ^ 29)

/-- `impl From<i8|i16|i32|i64|isize> for Number` (`impl_from_signed!`; with `arbitrary_precision` also
    `i128`):
```rust
#[cfg(not(feature = "arbitrary_precision"))] { if i < 0 { N::NegInt(i as i64) } else { N::PosInt(i as u64) } }
#[cfg(feature = "arbitrary_precision")]      { itoa::Buffer::new().format(i).to_owned() }
``` -/
def numOfSigned (cfg : Cfg) (ext : Ext) (n : Int) : Num :=
  if cfg.ap then .lit (ext.itoa n) else if n < 0 then .neg n else .pos n.toNat

/-- `impl From<u8|u16|u32|u64|usize> for Number` (`impl_from_unsigned!`; with `arbitrary_precision`
    also `u128`): `N::PosInt(u as u64)`, or the `itoa` text -/
def numOfUnsigned (cfg : Cfg) (ext : Ext) (n : Int) : Num :=
  if cfg.ap then .lit (ext.itoa n) else .pos n.toNat

/-- `u64::try_from(value).is_ok()` -/
def fitsU64 (n : Int) : Bool := decide (0 ≤ n) && decide (n < 2 ^ 64)
/-- `i64::try_from(value).is_ok()` -/
def fitsI64 (n : Int) : Bool := decide (-(2 ^ 63) ≤ n) && decide (n < 2 ^ 63)

/-- the twelve integer entry points:
```rust
fn serialize_i8(self, value: i8) -> Result<Value> { self.serialize_i64(value as i64) }     // i16, i32 alike
fn serialize_i64(self, value: i64) -> Result<Value> { Ok(Value::Number(value.into())) }
fn serialize_u8(self, value: u8) -> Result<Value> { self.serialize_u64(value as u64) }     // u16, u32 alike
fn serialize_u64(self, value: u64) -> Result<Value> { Ok(Value::Number(value.into())) }
fn serialize_i128(self, value: i128) -> Result<Value> {
    #[cfg(feature = "arbitrary_precision")] { Ok(Value::Number(value.into())) }
    #[cfg(not(feature = "arbitrary_precision"))] {
        if let Ok(value) = u64::try_from(value) { Ok(Value::Number(value.into())) }
        else if let Ok(value) = i64::try_from(value) { Ok(Value::Number(value.into())) }
        else { Err(Error::syntax(ErrorCode::NumberOutOfRange, 0, 0)) } } }
fn serialize_u128(self, value: u128) -> Result<Value> {
    #[cfg(feature = "arbitrary_precision")] { Ok(Value::Number(value.into())) }
    #[cfg(not(feature = "arbitrary_precision"))] {
        if let Ok(value) = u64::try_from(value) { Ok(Value::Number(value.into())) }
        else { Err(Error::syntax(ErrorCode::NumberOutOfRange, 0, 0)) } } }
``` -/
def intValue (cfg : Cfg) (ext : Ext) (w : IntW) (n : Int) : Except SerErr JV :=
  match w with
  | .i8 | .i16 | .i32 | .i64 => .ok (.num (numOfSigned cfg ext n))
  | .u8 | .u16 | .u32 | .u64 => .ok (.num (numOfUnsigned cfg ext n))
  | .i128 =>
    if cfg.ap then .ok (.num (numOfSigned cfg ext n))
    else if fitsU64 n then .ok (.num (numOfUnsigned cfg ext n))
    else if fitsI64 n then .ok (.num (numOfSigned cfg ext n))
    else .error .numberOutOfRange
  | .u128 =>
    if cfg.ap then .ok (.num (numOfUnsigned cfg ext n))
    else if fitsU64 n then .ok (.num (numOfUnsigned cfg ext n))
    else .error .numberOutOfRange

/-- `serialize_f64` = `Value::from(f64)` = `Number::from_f64(f).map_or(Value::Null, Value::Number)`:
```rust
pub fn from_f64(f: f64) -> Option<Number> {
    if f.is_finite() { let n = { #[cfg(not(ap))] { N::Float(f) } #[cfg(ap)] { ryu::Buffer::new().format_finite(f).to_owned() } };
                       Some(Number { n }) } else { None } }
``` -/
def f64Value (cfg : Cfg) (ext : Ext) (b : UInt64) : JV :=
  if finite64 b then .num (if cfg.ap then .lit (ext.ryu64 b) else .float b) else .null

/-- `serialize_f32` = `Value::from(f32)` = `Number::from_f32(f).map_or(Value::Null, Value::Number)`:
    `N::Float(f as f64)` — the value is widened —, or with `arbitrary_precision` the **f32** `ryu` text -/
def f32Value (cfg : Cfg) (ext : Ext) (b : UInt32) : JV :=
  if finite32 b then .num (if cfg.ap then .lit (ext.ryu32 b) else .float (f32to64 b)) else .null

/-! ## `value::ser::MapKeySerializer` (448–648) -/

/-- `impl serde::Serializer for MapKeySerializer` with `type Ok = String`:
```rust
fn serialize_unit_variant(self, _, _, variant: &'static str) -> Result<String> { Ok(variant.to_owned()) }
fn serialize_newtype_struct<T>(self, _, value: &T) -> Result<String> { value.serialize(self) }
fn serialize_bool(self, value: bool) -> Result<String> { Ok(if value { "true" } else { "false" }.to_owned()) }
fn serialize_i8(self, value: i8) -> Result<String> { Ok(itoa::Buffer::new().format(value).to_owned()) }   // … u128
fn serialize_f32(self, value: f32) -> Result<String> {
    if value.is_finite() { Ok(ryu::Buffer::new().format_finite(value).to_owned()) } else { Err(float_key_must_be_finite()) } }
fn serialize_f64 …                                                                                         // alike
fn serialize_char(self, value: char) -> Result<String> { Ok({ let mut s = String::new(); s.push(value); s }) }
fn serialize_str(self, value: &str) -> Result<String> { Ok(value.to_owned()) }
fn collect_str<T>(self, value: &T) -> Result<String> { Ok(value.to_string()) }
fn serialize_some<T>(self, value: &T) -> Result<String> { value.serialize(self) }
// bytes, unit, unit_struct, newtype_variant, none, seq, tuple, tuple_struct, tuple_variant, map, struct,
// struct_variant:                                                       Err(key_must_be_a_string())
``` -/
def keyVal (ext : Ext) : SVal → Except SerErr Bytes
  | .unitVariant v => .ok v
  | .newtypeStruct k => keyVal ext k
  | .bool b => .ok (if b then Gen.tvKeyTrue else Gen.tvKeyFalse)
  | .int _ n => .ok (ext.itoa n)
  | .f32 b => if finite32 b then .ok (ext.ryu32 b) else .error .floatKeyMustBeFinite
  | .f64 b => if finite64 b then .ok (ext.ryu64 b) else .error .floatKeyMustBeFinite
  | .char cp => .ok (utf8 cp)
  | .str s => .ok s
  | .collectStr s => .ok s
  | .some k => keyVal ext k
  | .bytes _ | .unit | .unitStruct | .newtypeVariant _ _ | .none | .seq _ _ | .tuple _
  | .tupleStruct _ | .tupleVariant _ _ | .map _ _ | .struct_ _ | .structVariant _ _
  | .numberLit _ => .error .keyMustBeAString
termination_by structural p => p

/-! ## `value::Serializer` (58–446, 650–715) -/

/-- `let mut values = Map::new(); values.insert(String::from(variant), payload); Value::Object(values)`
    (`serialize_newtype_variant`, `SerializeTupleVariant::end`, `SerializeStructVariant::end`) -/
def tagged (cfg : Cfg) (variant : Bytes) (payload : JV) : JV := mkObj cfg [(variant, payload)]

mutual
/-- `value.serialize(value::Serializer)` = `to_value(value)` for the program `value` -/
def toValue (cfg : Cfg) (ext : Ext) : SVal → Except SerErr JV
  | .bool b => .ok (.bool b)
  | .int w n => intValue cfg ext w n
  | .f32 b => .ok (f32Value cfg ext b)
  | .f64 b => .ok (f64Value cfg ext b)
  -- let mut s = String::new(); s.push(value); Ok(Value::String(s))
  | .char cp => .ok (.str (utf8 cp))
  | .str s => .ok (.str s)
  -- value.iter().map(|&b| Value::Number(b.into())).collect()
  | .bytes bs => .ok (.arr (bs.map fun b => .num (numOfUnsigned cfg ext b.toNat)))
  -- serialize_none / serialize_unit_struct = self.serialize_unit() = Ok(Value::Null)
  | .none => .ok .null
  | .some p => toValue cfg ext p
  | .unit => .ok .null
  | .unitStruct => .ok .null
  -- self.serialize_str(variant)
  | .unitVariant v => .ok (.str v)
  | .newtypeStruct p => toValue cfg ext p
  -- values.insert(String::from(variant), tri!(to_value(value)))
  | .newtypeVariant v p => (toValue cfg ext p).map (tagged cfg v)
  -- SerializeVec { vec }: push(tri!(to_value(value))) per element; end = Value::Array(vec)
  | .seq _ xs => (toValues cfg ext xs).map .arr
  | .tuple xs => (toValues cfg ext xs).map .arr
  | .tupleStruct xs => (toValues cfg ext xs).map .arr
  | .tupleVariant v xs => (toValues cfg ext xs).map fun ys => tagged cfg v (.arr ys)
  -- SerializeMap::Map { map, next_key }: serialize_key → MapKeySerializer; serialize_value → map.insert(key, to_value(value))
  | .map _ es => (toEntries cfg ext es).map (mkObj cfg)
  -- serialize_struct(name, len) = serialize_map(Some(len)); serialize_field = serialize_entry(key, value)
  | .struct_ fs => (toFields cfg ext fs).map (mkObj cfg)
  -- SerializeStructVariant { name, map }: map.insert(String::from(key), to_value(value)); end wraps
  | .structVariant v fs => (toFields cfg ext fs).map fun ms => tagged cfg v (mkObj cfg ms)
  -- Ok(Value::String(value.to_string()))
  | .collectStr s => .ok (.str s)
  -- out of scope (see the header)
  | .numberLit s => .ok (.num (.lit s))
termination_by structural p => p
/-- the elements in order; the first error aborts (`tri!`) -/
def toValues (cfg : Cfg) (ext : Ext) : List SVal → Except SerErr (List JV)
  | [] => .ok []
  | x :: xs =>
    match toValue cfg ext x with
    | .error e => .error e
    | .ok v =>
      match toValues cfg ext xs with
      | .error e => .error e
      | .ok vs => .ok (v :: vs)
/-- the `(key, value)` pairs handed to `map.insert`, in call order: for each entry first
    `key.serialize(MapKeySerializer)`, then `to_value(value)`; the first error aborts -/
def toEntries (cfg : Cfg) (ext : Ext) : List (SVal × SVal) → Except SerErr (List (Bytes × JV))
  | [] => .ok []
  | (k, v) :: es =>
    match keyVal ext k with
    | .error e => .error e
    | .ok kt =>
      match toValue cfg ext v with
      | .error e => .error e
      | .ok x =>
        match toEntries cfg ext es with
        | .error e => .error e
        | .ok ms => .ok ((kt, x) :: ms)
/-- struct / struct-variant fields: the key is the `&'static str` (through `MapKeySerializer::serialize_str`
    for a struct, `String::from(key)` for a struct variant — the same text) -/
def toFields (cfg : Cfg) (ext : Ext) : List (Bytes × SVal) → Except SerErr (List (Bytes × JV))
  | [] => .ok []
  | (n, v) :: fs =>
    match toValue cfg ext v with
    | .error e => .error e
    | .ok x =>
      match toFields cfg ext fs with
      | .error e => .error e
      | .ok ms => .ok ((n, x) :: ms)
end

end SJ.Model.ToValue
