import SJ.Model.ReadEscape
import SJ.Model.LineCol
import SJ.Model.Swar
import SJ.Model.Hex
import SJ.Spec.Utf8
/-!
# `SliceRead` and `StrRead` (`src/read.rs`): the string scanner of the slice source

`impl<'a> Read<'a> for SliceRead<'a>`: `parse_str`, `parse_str_raw`, `ignore_str`, `decode_hex_escape`, on
top of `SliceRead::parse_str_bytes` and `skip_to_escape` (the SWAR / memchr scan, `Model/Swar.lean`, proved
equal to the naive scan by C05). `StrRead` delegates every method to its `SliceRead` and differs in one
closure (`from_utf8_unchecked` instead of `as_str`).

The reader state is `Model.LineCol.SlicePos` (`slice`, `index` = index of the NEXT byte `next()`/`peek()`
return); `next`/`peek`/`discard`/`position` are the ones transcribed there. An error is `Res.err code r` with
the state `r` at the moment of `error(self, code)`: the position is `position_of_index(r.index)`
(`SlicePos.position`), so "the index of the error" is `r.index`.

`usize` is `Nat`. Slice indexing `self.slice[self.index]`, `&self.slice[start..self.index]`,
`self.slice[self.index..]` panics out of bounds in Rust; the model reads them with `getD` / `take` / `drop`
and `Proofs/ReadSlice.lean` shows that every index used is in bounds whenever `index ≤ slice.len()` on entry
(`Slice.Inv`), which every caller in `de.rs` guarantees.
-/
namespace SJ.Model.ReadSlice
open SJ SJ.Gen SJ.Model.LineCol SJ.Model.ReadEscape

/-- `pub struct SliceRead<'a> { slice: &'a [u8], index: usize, … }` -/
abbrev SliceRead := SlicePos

/-- `pub enum Reference<'b, 'c, T> { Borrowed(&'b T), Copied(&'c T) }`: `borrowed` is a subslice of the
    input, `copied` is the scratch space -/
inductive Reference where
  | borrowed (b : Bytes)
  | copied (b : Bytes)
deriving Repr, DecidableEq

/-- `Deref for Reference` -/
def Reference.bytes : Reference → Bytes
  | .borrowed b => b
  | .copied b => b

def Reference.isBorrowed : Reference → Bool
  | .borrowed _ => true
  | .copied _ => false

/-- `&self.slice[a..b]` -/
def sub (slice : Bytes) (a b : Nat) : Bytes := (slice.take b).drop a

/--
```rust
fn decode_hex_escape(&mut self) -> Result<u16> {
    match self.slice[self.index..] {
        [a, b, c, d, ..] => {
            self.index += 4;
            match decode_four_hex_digits(a, b, c, d) {
                Some(val) => Ok(val),
                None => error(self, ErrorCode::InvalidEscape),
            }
        }
        _ => {
            self.index = self.slice.len();
            error(self, ErrorCode::EofWhileParsingString)
        }
    }
}
```
The LENGTH of what is left is looked at first (the slice pattern needs four elements), the digits second:
fewer than four bytes before the end of the slice are `EofWhileParsingString` at the end of the input
whatever they are. -/
def decodeHexEscape (r : SliceRead) : Res Nat SliceRead :=
  match (r.slice.drop r.index).take Gen.sliceHexGroupLen with
  | [a, b, c, d] =>
    let r := { r with index := r.index + Gen.sliceHexGroupLen }
    match Model.Hex.decodeFourHex a b c d with
    | some val => .ok val r
    | none => .err .InvalidEscape r
  | _ => .err .EofWhileParsingString { r with index := r.slice.length }

/-- the `Read` methods the generic free functions call, as `SliceRead` implements them -/
def ops : ReadOps SliceRead :=
  { next := SlicePos.next, peek := SlicePos.peek, discard := SlicePos.discard, decodeHexEscape := decodeHexEscape }

/-- `self.skip_to_escape(forbid_control_characters)` (`Model.Swar.skipToEscape`: SWAR chunks, `memchr2`, slow tail) -/
def skipToEscape (r : SliceRead) (forbid : Bool) : SliceRead :=
  { r with index := Model.Swar.skipToEscape r.slice r.index forbid }

/--
```rust
fn as_str<'de, 's, R: Read<'de>>(read: &R, slice: &'s [u8]) -> Result<&'s str> {
    str::from_utf8(slice).or_else(|_| error(read, ErrorCode::InvalidUnicodeCodePoint))
}
```
`str::from_utf8` is `Spec.Utf8.validUtf8` (std, by its documented contract). Generic in the reader. -/
def asStr {ρ : Type} (r : ρ) (bytes : Bytes) : Res Bytes ρ :=
  if Spec.Utf8.validUtf8 bytes then .ok bytes r else .err .InvalidUnicodeCodePoint r

/-- the closure of `parse_str_raw`: `|_, bytes| Ok(bytes)`; also `StrRead::parse_str`'s
    `|_, bytes| Ok(unsafe { str::from_utf8_unchecked(bytes) })` -/
def noCheck {ρ : Type} (r : ρ) (bytes : Bytes) : Res Bytes ρ := .ok bytes r

/--
```rust
fn parse_str_bytes<'s, T, F>(&'s mut self, scratch: &'s mut Vec<u8>, validate: bool, result: F)
    -> Result<Reference<'a, 's, T>>
{
    // Index of the first byte not yet copied into the scratch space.
    let mut start = self.index;
    loop {
        self.skip_to_escape(validate);
        if self.index == self.slice.len() {
            return error(self, ErrorCode::EofWhileParsingString);
        }
        match self.slice[self.index] {
            b'"' => {
                if scratch.is_empty() {
                    // Fast path: return a slice of the raw JSON without any copying.
                    let borrowed = &self.slice[start..self.index];
                    self.index += 1;
                    return result(self, borrowed).map(Reference::Borrowed);
                } else {
                    scratch.extend_from_slice(&self.slice[start..self.index]);
                    self.index += 1;
                    return result(self, scratch).map(Reference::Copied);
                }
            }
            b'\\' => {
                scratch.extend_from_slice(&self.slice[start..self.index]);
                self.index += 1;
                tri!(parse_escape(self, validate, scratch));
                start = self.index;
            }
            _ => {
                self.index += 1;
                return error(self, ErrorCode::ControlCharacterWhileParsingString);
            }
        }
    }
}
```
One round of the `loop` per unit of fuel (every round that does not return moves `index` forward). -/
def parseStrLoop (validate : Bool) (result : SliceRead → Bytes → Res Bytes SliceRead) :
    Nat → SliceRead → Bytes → Nat → Res Reference SliceRead
  | 0, _, _, _ => .fuel
  | fuel + 1, r, scratch, start =>
    let r := skipToEscape r validate
    if r.index == r.slice.length then .err .EofWhileParsingString r
    else
      let ch := r.slice.getD r.index 0
      if ch == 0x22 then
        if scratch.isEmpty then
          let borrowed := sub r.slice start r.index
          let r := { r with index := r.index + 1 }
          match result r borrowed with
          | .ok b r => .ok (.borrowed b) r
          | .err c r => .err c r
          | .fuel => .fuel
        else
          let scratch := scratch ++ sub r.slice start r.index
          let r := { r with index := r.index + 1 }
          match result r scratch with
          | .ok b r => .ok (.copied b) r
          | .err c r => .err c r
          | .fuel => .fuel
      else if ch == 0x5c then
        let scratch := scratch ++ sub r.slice start r.index
        let r := { r with index := r.index + 1 }
        match parseEscape ops validate fuel r scratch with
        | .err c r => .err c r
        | .fuel => .fuel
        | .ok scratch r => parseStrLoop validate result fuel r scratch r.index
      else
        .err .ControlCharacterWhileParsingString { r with index := r.index + 1 }

/-- enough rounds for any input: every round but the last consumes a byte -/
def fuelFor (r : SliceRead) : Nat := r.slice.length - r.index + 1

/-- `SliceRead::parse_str_bytes(scratch, validate, result)` with the scratch space empty on entry
    (`de.rs` clears it before every call: `self.scratch.clear()`) -/
def parseStrBytes (validate : Bool) (result : SliceRead → Bytes → Res Bytes SliceRead) (r : SliceRead) :
    Res Reference SliceRead :=
  parseStrLoop validate result (fuelFor r) r [] r.index

/-- `SliceRead::parse_str`: `self.parse_str_bytes(scratch, true, as_str)` -/
def parseStr (r : SliceRead) : Res Reference SliceRead := parseStrBytes true asStr r

/-- `SliceRead::parse_str_raw`: `self.parse_str_bytes(scratch, false, |_, bytes| Ok(bytes))` -/
def parseStrRaw (r : SliceRead) : Res Reference SliceRead := parseStrBytes false noCheck r

/-- `StrRead::parse_str`:
```rust
self.delegate.parse_str_bytes(scratch, true, |_, bytes| {
    // The deserialization input came in as &str with a UTF-8 guarantee, and the \u-escapes are checked
    // along the way, so don't need to check here.
    Ok(unsafe { str::from_utf8_unchecked(bytes) })
})
``` -/
def strParseStr (r : SliceRead) : Res Reference SliceRead := parseStrBytes true noCheck r

/-- `StrRead::parse_str_raw`: `self.delegate.parse_str_raw(scratch)` -/
def strParseStrRaw (r : SliceRead) : Res Reference SliceRead := parseStrRaw r

/--
```rust
fn ignore_str(&mut self) -> Result<()> {
    loop {
        self.skip_to_escape(true);
        if self.index == self.slice.len() {
            return error(self, ErrorCode::EofWhileParsingString);
        }
        match self.slice[self.index] {
            b'"' => { self.index += 1; return Ok(()); }
            b'\\' => { self.index += 1; tri!(ignore_escape(self)); }
            _ => { self.index += 1; return error(self, ErrorCode::ControlCharacterWhileParsingString); }
        }
    }
}
``` -/
def ignoreStrLoop : Nat → SliceRead → Res Unit SliceRead
  | 0, _ => .fuel
  | fuel + 1, r =>
    let r := skipToEscape r true
    if r.index == r.slice.length then .err .EofWhileParsingString r
    else
      let ch := r.slice.getD r.index 0
      if ch == 0x22 then .ok () { r with index := r.index + 1 }
      else if ch == 0x5c then
        match ignoreEscape ops { r with index := r.index + 1 } with
        | .err c r => .err c r
        | .fuel => .fuel
        | .ok _ r => ignoreStrLoop fuel r
      else .err .ControlCharacterWhileParsingString { r with index := r.index + 1 }

/-- `SliceRead::ignore_str` (and `StrRead::ignore_str`, which delegates) -/
def ignoreStr (r : SliceRead) : Res Unit SliceRead := ignoreStrLoop (fuelFor r) r

end SJ.Model.ReadSlice
