import SJ.Spec.Value
import SJ.Gen.Error
import SJ.Gen.ReadEsc
/-!
# The free functions of `src/read.rs` that are generic over the `Read` trait

`next_or_eof`, `peek_or_eof`, `error`, `parse_escape`, `parse_unicode_escape`, `push_wtf8_codepoint`,
`ignore_escape` are written ONCE in the crate, generic in `R: Read<'de>`, and monomorphised for
`SliceRead` / `StrRead` / `IoRead`. They are transcribed once here, generic in a record `ReadOps ρ` of the
trait methods they call (`next`, `peek`, `discard`, `decode_hex_escape`), and instantiated by
`Model/ReadSlice.lean` and `Model/ReadIo.lean` with two different reader states `ρ` and two different
implementations of every method — as in the crate.

**Errors.** `error(read, reason)` is
```rust
fn error<'de, R, T>(read: &R, reason: ErrorCode) -> Result<T> {
    let position = read.position();
    Err(Error::syntax(reason, position.line, position.column))
}
```
so the outcome `Res.err reason r` keeps the reader state `r` AT THE MOMENT of the call; the position is
read off it by the reader's own `position()` (`SlicePos.position` / `IoPos.position` of `Model/LineCol.lean`).

**Not modelled.** `tri!(read.next())` / `tri!(read.peek())` also propagate an `Error::io` of a failing
`io::Read`; as in `Model/LineCol.lean` only the clean end of input is modelled here (failing readers are
`Model.IoFault`'s business). The `raw_value` buffer pushes of `IoRead` are irrelevant to strings.

**Loops.** `parse_unicode_escape` has a `loop` (it iterates only with `validate = false`: a lone leading
surrogate followed by another leading surrogate) and calls `parse_escape`, which calls it back; both are
bounded by a fuel argument (each round consumes at least six bytes; `Res.fuel` is unreachable with the fuel the
readers pass: the refinement theorems of `Props/C09Readers.lean` / `Props/C09ReadersRaw.lean` equate every outcome
with one of the machine's, none of which is `fuel`).

Data (escape letters, surrogate bounds, pair-combining constants) come from `SJ.Gen.ReadEsc`, regenerated
from the source on every run.
-/
namespace SJ.Model.ReadEscape
open SJ SJ.Gen

/-- `Result<α>` of a function that takes `&mut R`: the value or the error, and the reader afterwards -/
inductive Res (α ρ : Type) where
  | ok (a : α) (r : ρ)
  /-- `error(read, code)`: `Error::syntax(code, line, column)` with `read.position()` of the state `r` -/
  | err (c : Code) (r : ρ)
  /-- the model's fuel ran out (proved unreachable) -/
  | fuel
deriving Repr, DecidableEq

/-- the methods of `trait Read` that the free functions call -/
structure ReadOps (ρ : Type) where
  next : ρ → Option UInt8 × ρ
  peek : ρ → Option UInt8 × ρ
  discard : ρ → ρ
  decodeHexEscape : ρ → Res Nat ρ

variable {ρ : Type}

/--
```rust
fn next_or_eof<'de, R>(read: &mut R) -> Result<u8> {
    match tri!(read.next()) {
        Some(b) => Ok(b),
        None => error(read, ErrorCode::EofWhileParsingString),
    }
}
```
(`next` is the reader's `Read::next`) -/
def nextOrEof (next : ρ → Option UInt8 × ρ) (r : ρ) : Res UInt8 ρ :=
  match next r with
  | (some b, r') => .ok b r'
  | (none, r') => .err .EofWhileParsingString r'

/--
```rust
fn peek_or_eof<'de, R>(read: &mut R) -> Result<u8> {
    match tri!(read.peek()) {
        Some(b) => Ok(b),
        None => error(read, ErrorCode::EofWhileParsingString),
    }
}
``` -/
def peekOrEof (peek : ρ → Option UInt8 × ρ) (r : ρ) : Res UInt8 ρ :=
  match peek r with
  | (some b, r') => .ok b r'
  | (none, r') => .err .EofWhileParsingString r'

/--
```rust
fn push_wtf8_codepoint(n: u32, scratch: &mut Vec<u8>) {
    if n < 0x80 { scratch.push(n as u8); return; }
    scratch.reserve(4);
    unsafe {
        let ptr = scratch.as_mut_ptr().add(scratch.len());
        let encoded_len = match n {
            0..=0x7F => unreachable!(),
            0x80..=0x7FF => { ptr.write(((n >> 6) & 0b0001_1111) as u8 | 0b1100_0000); 2 }
            0x800..=0xFFFF => {
                ptr.write(((n >> 12) & 0b0000_1111) as u8 | 0b1110_0000);
                ptr.add(1).write(((n >> 6) & 0b0011_1111) as u8 | 0b1000_0000);
                3 }
            0x1_0000..=0x10_FFFF => {
                ptr.write(((n >> 18) & 0b0000_0111) as u8 | 0b1111_0000);
                ptr.add(1).write(((n >> 12) & 0b0011_1111) as u8 | 0b1000_0000);
                ptr.add(2).write(((n >> 6) & 0b0011_1111) as u8 | 0b1000_0000);
                4 }
            0x11_0000.. => unreachable!(),
        };
        ptr.add(encoded_len - 1).write((n & 0b0011_1111) as u8 | 0b1000_0000);
        scratch.set_len(scratch.len() + encoded_len);
    }
}
```
The scratch `Vec<u8>` is a byte list in push order. Every `as u8` is applied to a value already masked below
256. The arm `0x11_0000.. => unreachable!()` is modelled as "nothing is pushed"; callers pass a `u16` or a
combined pair, both below 0x110000 (`Proofs.ReadEscape.pushWtf8_eq`: equal to `Spec.Denote.utf8` there). -/
def pushWtf8Codepoint (n : Nat) (scratch : Bytes) : Bytes :=
  if n < 0x80 then scratch ++ [UInt8.ofNat n]
  else
    let last : UInt8 := UInt8.ofNat (n &&& 0b00111111) ||| 0b10000000
    if n ≤ 0x7FF then
      scratch ++ [UInt8.ofNat ((n >>> 6) &&& 0b00011111) ||| 0b11000000, last]
    else if n ≤ 0xFFFF then
      scratch ++ [UInt8.ofNat ((n >>> 12) &&& 0b00001111) ||| 0b11100000,
                  UInt8.ofNat ((n >>> 6) &&& 0b00111111) ||| 0b10000000, last]
    else if n ≤ 0x10FFFF then
      scratch ++ [UInt8.ofNat ((n >>> 18) &&& 0b00000111) ||| 0b11110000,
                  UInt8.ofNat ((n >>> 12) &&& 0b00111111) ||| 0b10000000,
                  UInt8.ofNat ((n >>> 6) &&& 0b00111111) ||| 0b10000000, last]
    else scratch

/--
```rust
fn parse_escape<'de, R: Read<'de>>(read: &mut R, validate: bool, scratch: &mut Vec<u8>) -> Result<()> {
    let ch = tri!(next_or_eof(read));
    match ch {
        b'"' => scratch.push(b'"'),
        b'\\' => scratch.push(b'\\'),
        b'/' => scratch.push(b'/'),
        b'b' => scratch.push(b'\x08'),
        b'f' => scratch.push(b'\x0c'),
        b'n' => scratch.push(b'\n'),
        b'r' => scratch.push(b'\r'),
        b't' => scratch.push(b'\t'),
        b'u' => return parse_unicode_escape(read, validate, scratch),
        _ => return error(read, ErrorCode::InvalidEscape),
    }
    Ok(())
}
```
`uni` is the call `parse_unicode_escape(read, validate, scratch)` (passed in so that the mutual recursion of
the two functions is structural in the fuel, see `uniLoop`). The arms are byte literals, hence disjoint: the
first matching one of `Gen.parseEscapeArms` is the one Rust takes. -/
def parseEscapeWith (ops : ReadOps ρ) (uni : ρ → Bytes → Res Bytes ρ) (r : ρ) (scratch : Bytes) : Res Bytes ρ :=
  match nextOrEof ops.next r with
  | .err c r => .err c r
  | .fuel => .fuel
  | .ok ch r =>
    match Gen.parseEscapeArms.find? (·.1 == ch) with
    | some (_, pushed) => .ok (scratch ++ [pushed]) r
    | none =>
      if ch == Gen.parseEscapeUni then uni r scratch
      else .err .InvalidEscape r

/--
```rust
fn parse_unicode_escape<'de, R: Read<'de>>(read: &mut R, validate: bool, scratch: &mut Vec<u8>) -> Result<()> {
    let mut n = tri!(read.decode_hex_escape());
    // Non-BMP characters are encoded as a sequence of two hex escapes, representing UTF-16 surrogates. If
    // deserializing a utf-8 string the surrogates are required to be paired, whereas deserializing a byte
    // string accepts lone surrogates.
    if validate && n >= 0xDC00 && n <= 0xDFFF {
        // XXX: This is actually a trailing surrogate.
        return error(read, ErrorCode::LoneLeadingSurrogateInHexEscape);
    }
    loop { … }            // `uniLoop`
}
```
`loop n r scratch` is the `loop` entered with the current `n`. -/
def parseUnicodeEscapeWith (ops : ReadOps ρ) (validate : Bool) (loop : Nat → ρ → Bytes → Res Bytes ρ)
    (r : ρ) (scratch : Bytes) : Res Bytes ρ :=
  match ops.decodeHexEscape r with
  | .err c r => .err c r
  | .fuel => .fuel
  | .ok n r =>
    if validate && n ≥ Gen.uniFirstTrailLo && n ≤ Gen.uniFirstTrailHi then
      .err .LoneLeadingSurrogateInHexEscape r
    else loop n r scratch

/-- the `loop` of `parse_unicode_escape`, one round per unit of fuel:
```rust
    loop {
        if n < 0xD800 || n > 0xDBFF {
            // Every u16 outside of the surrogate ranges is guaranteed to be a legal char.
            push_wtf8_codepoint(n as u32, scratch);
            return Ok(());
        }
        // n is a leading surrogate, we now expect a trailing surrogate.
        let n1 = n;
        if tri!(peek_or_eof(read)) == b'\\' {
            read.discard();
        } else {
            return if validate {
                read.discard();
                error(read, ErrorCode::UnexpectedEndOfHexEscape)
            } else {
                push_wtf8_codepoint(n1 as u32, scratch);
                Ok(())
            };
        }
        if tri!(peek_or_eof(read)) == b'u' {
            read.discard();
        } else {
            return if validate {
                read.discard();
                error(read, ErrorCode::UnexpectedEndOfHexEscape)
            } else {
                push_wtf8_codepoint(n1 as u32, scratch);
                // The \ prior to this byte started an escape sequence, so we need to parse that now. This
                // recursive call does not blow the stack on malicious input because the escape is not \u, so
                // it will be handled by one of the easy nonrecursive cases.
                parse_escape(read, validate, scratch)
            };
        }
        let n2 = tri!(read.decode_hex_escape());
        if n2 < 0xDC00 || n2 > 0xDFFF {
            if validate {
                return error(read, ErrorCode::LoneLeadingSurrogateInHexEscape);
            }
            push_wtf8_codepoint(n1 as u32, scratch);
            // If n2 is a leading surrogate, we need to restart.
            n = n2;
            continue;
        }
        // This value is in range U+10000..=U+10FFFF, which is always a valid codepoint.
        let n = ((((n1 - 0xD800) as u32) << 10) | (n2 - 0xDC00) as u32) + 0x1_0000;
        push_wtf8_codepoint(n, scratch);
        return Ok(());
    }
```
`n1 - 0xD800` and `n2 - 0xDC00` are `u16` subtractions that cannot underflow on this path (`n1 ≥ 0xD800`,
`n2 ≥ 0xDC00` have just been tested); `Nat` subtraction is exact there. -/
def uniLoop (ops : ReadOps ρ) (validate : Bool) : Nat → Nat → ρ → Bytes → Res Bytes ρ
  | 0, _, _, _ => .fuel
  | fuel + 1, n, r, scratch =>
    if n < Gen.uniLeadLo || n > Gen.uniLeadHi then .ok (pushWtf8Codepoint n scratch) r
    else
      let n1 := n
      match peekOrEof ops.peek r with
      | .err c r => .err c r
      | .fuel => .fuel
      | .ok ch r =>
        if ch != Gen.uniExpectBackslash then
          if validate then .err .UnexpectedEndOfHexEscape (ops.discard r)
          else .ok (pushWtf8Codepoint n1 scratch) r
        else
          let r := ops.discard r
          match peekOrEof ops.peek r with
          | .err c r => .err c r
          | .fuel => .fuel
          | .ok ch r =>
            if ch != Gen.uniExpectU then
              if validate then .err .UnexpectedEndOfHexEscape (ops.discard r)
              else
                parseEscapeWith ops (parseUnicodeEscapeWith ops validate (uniLoop ops validate fuel)) r
                  (pushWtf8Codepoint n1 scratch)
            else
              let r := ops.discard r
              match ops.decodeHexEscape r with
              | .err c r => .err c r
              | .fuel => .fuel
              | .ok n2 r =>
                if n2 < Gen.uniTrailLo || n2 > Gen.uniTrailHi then
                  if validate then .err .LoneLeadingSurrogateInHexEscape r
                  else uniLoop ops validate fuel n2 r (pushWtf8Codepoint n1 scratch)
                else
                  let n := (((n1 - Gen.uniPairSubLead) <<< Gen.uniPairShift) ||| (n2 - Gen.uniPairSubTrail))
                    + Gen.uniPairBase
                  .ok (pushWtf8Codepoint n scratch) r

/-- `parse_unicode_escape(read, validate, scratch)` -/
def parseUnicodeEscape (ops : ReadOps ρ) (validate : Bool) (fuel : Nat) (r : ρ) (scratch : Bytes) : Res Bytes ρ :=
  parseUnicodeEscapeWith ops validate (uniLoop ops validate fuel) r scratch

/-- `parse_escape(read, validate, scratch)`: the scratch space after the escape, and the reader -/
def parseEscape (ops : ReadOps ρ) (validate : Bool) (fuel : Nat) (r : ρ) (scratch : Bytes) : Res Bytes ρ :=
  parseEscapeWith ops (parseUnicodeEscape ops validate fuel) r scratch

/--
```rust
fn ignore_escape<'de, R>(read: &mut R) -> Result<()> {
    let ch = tri!(next_or_eof(read));
    match ch {
        b'"' | b'\\' | b'/' | b'b' | b'f' | b'n' | b'r' | b't' => {}
        b'u' => {
            // At this point we don't care if the codepoint is valid. We just want to consume it. We don't
            // actually know what is valid or not at this point, because that depends on if this string will
            // ultimately be parsed into a string or a byte buffer in the "real" parse.
            tri!(read.decode_hex_escape());
        }
        _ => { return error(read, ErrorCode::InvalidEscape); }
    }
    Ok(())
}
``` -/
def ignoreEscape (ops : ReadOps ρ) (r : ρ) : Res Unit ρ :=
  match nextOrEof ops.next r with
  | .err c r => .err c r
  | .fuel => .fuel
  | .ok ch r =>
    if Gen.ignoreEscapeLetters.contains ch then .ok () r
    else if ch == Gen.ignoreEscapeUni then
      match ops.decodeHexEscape r with
      | .err c r => .err c r
      | .fuel => .fuel
      | .ok _ r => .ok () r
    else .err .InvalidEscape r

end SJ.Model.ReadEscape
