import SJ.Spec.Value
/-!
# Line / column bookkeeping of the two kinds of reader (`src/iter.rs`, `src/read.rs`)

Every parser model of this development (`Model.Machine`, `Model.Typed`, `Model.Stream`, `Model.Raw`)
reports an error as a byte INDEX — "how many bytes the reported position counts". The crate turns
such an index into `Position { line, column }` in two unrelated ways, transcribed here:

* `IoRead` wraps `io::Bytes<R>` in `iter::LineColIterator`, which keeps three counters and updates
  them for every byte it hands out (`LCIter`, `LCIter.next`); `IoRead::position()` reads the counters
  off — whether or not the byte pulled last still sits in the peek slot `ch` (`IoPos`);
* `SliceRead::position_of_index(i)` recomputes line and column from scratch with `memchr`
  (`sliceLineCol`, `positionOfIndex`, `SlicePos`); `StrRead` delegates to it.

`Proofs/LineCol.lean` proves both equal to the specification `Model.Machine.lineCol`
(`Props/C11.lean`: `c11_iter_linecol`, `c11_slice_linecol`, …; `Props/C09LineCol.lean`).

`usize` arithmetic is modelled in `Nat`: the counters are bounded by the number of bytes read, which
fits a `usize` for every input that exists in memory or has been read so far. The one subtraction
that could underflow (`iter.byte_offset() - 1` in `IoRead::byte_offset`) is proved not to
(`Proofs.LineCol.Inv.byteOffset_no_underflow`).
-/
namespace SJ.Model.LineCol
open SJ

/-! ## `iter::LineColIterator`

```rust
pub struct LineColIterator<I> {
    iter: I,
    /// Index of the current line. Characters in the first line of the input
    /// (before the first newline character) are in line 1.
    line: usize,
    /// Index of the current column. The first character in the input and any
    /// characters immediately following a newline character are in column 1.
    /// The column is 0 immediately after a newline character has been read.
    col: usize,
    /// Byte offset of the start of the current line. This is the sum of lengths
    /// of all previous lines. ...
    start_of_line: usize,
}
pub fn new(iter: I) -> LineColIterator<I> { LineColIterator { iter, line: 1, col: 0, start_of_line: 0 } }
pub fn line(&self) -> usize { self.line }
pub fn col(&self) -> usize { self.col }
pub fn byte_offset(&self) -> usize { self.start_of_line + self.col }
```
-/

/-- the three counters of `LineColIterator` (the wrapped iterator is the unread input, kept in `IoPos`) -/
structure LCIter where
  line : Nat
  col : Nat
  startOfLine : Nat
deriving Repr, DecidableEq

/-- `LineColIterator::new` -/
def LCIter.new : LCIter := { line := 1, col := 0, startOfLine := 0 }

/-- `LineColIterator::byte_offset` -/
def LCIter.byteOffset (it : LCIter) : Nat := it.startOfLine + it.col

/-- what the wrapped `io::Bytes` answers: end of input, a byte, or an I/O error -/
inductive Pulled where
  | none
  | ok (b : UInt8)
  | err
deriving Repr, DecidableEq

/-- `<LineColIterator as Iterator>::next`, the counter updates (the item itself is passed through unchanged):
```rust
fn next(&mut self) -> Option<io::Result<u8>> {
    match self.iter.next() {
        None => None,
        Some(Ok(b'\n')) => {
            self.start_of_line += self.col + 1;
            self.line += 1;
            self.col = 0;
            Some(Ok(b'\n'))
        }
        Some(Ok(c)) => { self.col += 1; Some(Ok(c)) }
        Some(Err(e)) => Some(Err(e)),
    }
}
``` -/
def LCIter.onItem (it : LCIter) : Pulled → LCIter
  | .none => it
  | .ok b =>
    if b == 0x0a then { startOfLine := it.startOfLine + (it.col + 1), line := it.line + 1, col := 0 }
    else { it with col := it.col + 1 }
  | .err => it

/-- the counters after one more byte `b` has been handed out -/
def LCIter.next (it : LCIter) (b : UInt8) : LCIter := it.onItem (.ok b)

/-- the counters after the bytes `xs` have been handed out, in order -/
def LCIter.feed (it : LCIter) : Bytes → LCIter
  | [] => it
  | b :: r => (it.next b).feed r

/-! ## `read::IoRead`: the iterator plus the peek slot

```rust
pub struct IoRead<R> { iter: LineColIterator<io::Bytes<R>>, /// Temporary storage of peeked byte.
                       ch: Option<u8>, ... }
fn next(&mut self) -> Result<Option<u8>> {
    match self.ch.take() {
        Some(ch) => Ok(Some(ch)),
        None => match self.iter.next() { Some(Err(err)) => Err(Error::io(err)), Some(Ok(ch)) => Ok(Some(ch)), None => Ok(None) },
    }
}
fn peek(&mut self) -> Result<Option<u8>> {
    match self.ch {
        Some(ch) => Ok(Some(ch)),
        None => match self.iter.next() {
            Some(Err(err)) => Err(Error::io(err)),
            Some(Ok(ch)) => { self.ch = Some(ch); Ok(self.ch) }
            None => Ok(None),
        },
    }
}
fn discard(&mut self) { self.ch = None; }
fn position(&self) -> Position { Position { line: self.iter.line(), column: self.iter.col() } }
fn peek_position(&self) -> Position {
    // The LineColIterator updates its position during peek() so it has the right one here.
    self.position()
}
fn byte_offset(&self) -> usize {
    match self.ch { Some(_) => self.iter.byte_offset() - 1, None => self.iter.byte_offset() }
}
```
(the `raw_value` buffer pushes are irrelevant to positions and left out; a clean end of input — `io::Bytes`
answering `None` — is the only end modelled here, failing readers are `Model.IoFault`'s business and their
errors carry line 0, column 0: `Error::io`) -/
structure IoPos where
  iter : LCIter
  /-- the peek slot -/
  ch : Option UInt8
  /-- what the wrapped `io::Bytes` has not handed out yet -/
  rest : Bytes
deriving Repr, DecidableEq

/-- `IoRead::new(reader)` over a reader that will deliver `bs` -/
def IoPos.new (bs : Bytes) : IoPos := { iter := .new, ch := none, rest := bs }

/-- `self.iter.next()` on the wrapped, counting iterator -/
def IoPos.pull (r : IoPos) : Option UInt8 × IoPos :=
  match r.rest with
  | [] => (none, { r with iter := r.iter.onItem .none })
  | b :: rest => (some b, { r with iter := r.iter.onItem (.ok b), rest := rest })

/-- `IoRead::next` -/
def IoPos.next (r : IoPos) : Option UInt8 × IoPos :=
  match r.ch with
  | some c => (some c, { r with ch := none })
  | none => r.pull

/-- `IoRead::peek` -/
def IoPos.peek (r : IoPos) : Option UInt8 × IoPos :=
  match r.ch with
  | some c => (some c, r)
  | none =>
    match r.pull with
    | (some c, r') => (some c, { r' with ch := some c })
    | (none, r') => (none, r')

/-- `IoRead::discard` -/
def IoPos.discard (r : IoPos) : IoPos := { r with ch := none }

/-- `IoRead::position`: (line, column) -/
def IoPos.position (r : IoPos) : Nat × Nat := (r.iter.line, r.iter.col)

/-- `IoRead::peek_position` -/
def IoPos.peekPosition (r : IoPos) : Nat × Nat := r.position

/-- `IoRead::byte_offset` (`Nat` subtraction; no underflow on reachable states) -/
def IoPos.byteOffset (r : IoPos) : Nat :=
  match r.ch with
  | some _ => r.iter.byteOffset - 1
  | none => r.iter.byteOffset

/-- the calls a parser makes on its reader -/
inductive Op where
  | next
  | peek
  | discard
deriving Repr, DecidableEq

def IoPos.step (r : IoPos) : Op → IoPos
  | .next => r.next.2
  | .peek => r.peek.2
  | .discard => r.discard

def IoPos.run (r : IoPos) : List Op → IoPos
  | [] => r
  | o :: os => (r.step o).run os

/-- the reader over `bs` that has handed out `pulled` bytes, the last of which is still in the peek slot
    when `peeked` (and `pulled > 0`): what the driver reconstructs from a parser model's reader index -/
def IoPos.at (bs : Bytes) (pulled : Nat) (peeked : Bool) : IoPos :=
  { iter := LCIter.new.feed (bs.take pulled),
    ch := if peeked then (match pulled with | 0 => none | k + 1 => bs[k]?) else none,
    rest := bs.drop pulled }

/-- line and column a reader reports once it has handed out `pulled` bytes of `bs` -/
def readerLineCol (bs : Bytes) (pulled : Nat) : Nat × Nat := (IoPos.at bs pulled false).position

/-! ## `read::SliceRead::position_of_index`

```rust
fn position_of_index(&self, i: usize) -> Position {
    let start_of_line = match memchr::memrchr(b'\n', &self.slice[..i]) {
        Some(position) => position + 1,
        None => 0,
    };
    Position {
        line: 1 + memchr::memchr_iter(b'\n', &self.slice[..start_of_line]).count(),
        column: i - start_of_line,
    }
}
fn position(&self) -> Position { self.position_of_index(self.index) }
fn peek_position(&self) -> Position {
    // Cap it at slice.len() just in case the most recent call was next()
    // and it returned the last byte.
    self.position_of_index(cmp::min(self.slice.len(), self.index + 1))
}
fn byte_offset(&self) -> usize { self.index }
```

**Assumption (memchr's contract).** `memchr::memrchr(n, hay)` returns the greatest index at which `hay`
holds `n`, `None` when there is none; `memchr::memchr_iter(n, hay).count()` is the number of indices at
which `hay` holds `n`. The SIMD / SWAR implementations of the `memchr` crate are not modelled; the two
functions below are naive scans with that contract (`Proofs.LineCol.memrchr_some_iff`, `memrchr_none_iff`,
`memchrCount_eq_filter` state it of them). -/

/-- naive `memrchr`: one pass, remembering the last match (`i` = index of the head of the list) -/
def memrchrFrom (n : UInt8) : Bytes → Nat → Option Nat → Option Nat
  | [], _, last => last
  | b :: r, i, last => memrchrFrom n r (i + 1) (if b == n then some i else last)

def memrchr (n : UInt8) (hay : Bytes) : Option Nat := memrchrFrom n hay 0 none

/-- naive `memchr_iter(n, hay).count()` -/
def memchrCount (n : UInt8) : Bytes → Nat
  | [] => 0
  | b :: r => (if b == n then 1 else 0) + memchrCount n r

/-- the body of `position_of_index` (`&slice[..i]` as `take`; see `positionOfIndex` for the bounds check) -/
def sliceLineCol (bs : Bytes) (i : Nat) : Nat × Nat :=
  let startOfLine := match memrchr 0x0a (bs.take i) with
    | some position => position + 1
    | none => 0
  (1 + memchrCount 0x0a (bs.take startOfLine), i - startOfLine)

/-- `position_of_index` with Rust's slice indexing: `&self.slice[..i]` panics (`none`) when `i > len` -/
def positionOfIndex (bs : Bytes) (i : Nat) : Option (Nat × Nat) :=
  if i ≤ bs.length then some (sliceLineCol bs i) else none

/-- `SliceRead` as far as positions are concerned: the slice and `index` -/
structure SlicePos where
  slice : Bytes
  index : Nat
deriving Repr, DecidableEq

/-- `SliceRead::position` -/
def SlicePos.position (r : SlicePos) : Option (Nat × Nat) := positionOfIndex r.slice r.index

/-- `SliceRead::peek_position` -/
def SlicePos.peekPosition (r : SlicePos) : Option (Nat × Nat) :=
  positionOfIndex r.slice (min r.slice.length (r.index + 1))

/-- `SliceRead::byte_offset` -/
def SlicePos.byteOffset (r : SlicePos) : Nat := r.index

/-! `SliceRead`'s side of the three calls (the string scanners `parse_str_bytes` / `skip_to_escape` / `ignore_str`
move `index` in bulk; byte for byte that is `next`):
```rust
fn next(&mut self) -> Result<Option<u8>> {
    Ok(if self.index < self.slice.len() { let ch = self.slice[self.index]; self.index += 1; Some(ch) } else { None })
}
fn peek(&mut self) -> Result<Option<u8>> {
    Ok(if self.index < self.slice.len() { Some(self.slice[self.index]) } else { None })
}
fn discard(&mut self) { self.index += 1; }
``` -/
def SlicePos.next (r : SlicePos) : Option UInt8 × SlicePos :=
  if r.index < r.slice.length then (r.slice[r.index]?, { r with index := r.index + 1 }) else (none, r)

def SlicePos.peek (r : SlicePos) : Option UInt8 × SlicePos :=
  if r.index < r.slice.length then (r.slice[r.index]?, r) else (none, r)

def SlicePos.discard (r : SlicePos) : SlicePos := { r with index := r.index + 1 }

def SlicePos.step (r : SlicePos) : Op → SlicePos
  | .next => r.next.2
  | .peek => r.peek.2
  | .discard => r.discard

def SlicePos.run (r : SlicePos) : List Op → SlicePos
  | [] => r
  | o :: os => (r.step o).run os

/-- the discipline of `de.rs`: `eat_char()` (= `discard()`) is only ever called while a byte that `peek()` returned is
    pending. (On an `IoRead` that is `ch = Some(_)`; a `discard()` outside that discipline would be a no-op on the reader
    and an increment on the slice.) -/
def Disciplined : IoPos → List Op → Prop
  | _, [] => True
  | r, o :: os => (o = .discard → r.ch.isSome = true) ∧ Disciplined (r.step o) os

end SJ.Model.LineCol
