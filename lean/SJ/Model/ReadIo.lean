import SJ.Model.ReadEscape
import SJ.Model.ReadSlice
import SJ.Model.LineCol
import SJ.Model.Swar
import SJ.Model.Hex
import SJ.Spec.Utf8
/-!
# `IoRead` (`src/read.rs`): the string scanner of the reader source

`impl<'de, R: io::Read> Read<'de> for IoRead<R>`: `parse_str`, `parse_str_raw`, `ignore_str`,
`decode_hex_escape`, on top of `IoRead::parse_str_bytes` — a byte-by-byte loop that copies EVERY byte into the
scratch space (there is nothing to borrow from), shares no code with `SliceRead::parse_str_bytes`, and meets
the generic free functions (`parse_escape`, …, `Model/ReadEscape.lean`) through its own `next` / `peek` /
`discard` with the one-byte peek slot `ch`.

The reader state is `Model.LineCol.IoPos` (`iter`: the three counters of `LineColIterator`, `ch`: the peek
slot, `rest`: what `io::Bytes` has not handed out yet); `next`/`peek`/`discard`/`position` are the ones
transcribed there. An error is `Res.err code r` with the state `r` at the moment of `error(self, code)`: the
position is `(r.iter.line, r.iter.col)` (`IoPos.position`) and counts every byte PULLED from the iterator, a
byte waiting in the peek slot included — "the index of the error" is `r.iter.byteOffset`.

Only the clean end of input is modelled (`io::Bytes` answering `None`); `Error::io` of a failing reader is
`Model.IoFault`'s business. The `raw_value` buffer pushes in `next`/`discard` do not concern strings.
`asStr` / `noCheck` / `Reference` are shared with `Model/ReadSlice.lean` (`as_str` is one generic function in
the crate).
-/
namespace SJ.Model.ReadIo
open SJ SJ.Gen SJ.Model.LineCol SJ.Model.ReadEscape
open SJ.Model.ReadSlice (Reference asStr noCheck)

/-- `pub struct IoRead<R> { iter: LineColIterator<io::Bytes<R>>, ch: Option<u8>, … }` -/
abbrev IoRead := IoPos

/--
```rust
fn decode_hex_escape(&mut self) -> Result<u16> {
    let a = tri!(next_or_eof(self));
    let b = tri!(next_or_eof(self));
    let c = tri!(next_or_eof(self));
    let d = tri!(next_or_eof(self));
    match decode_four_hex_digits(a, b, c, d) {
        Some(val) => Ok(val),
        None => error(self, ErrorCode::InvalidEscape),
    }
}
```
Four bytes are PULLED first, whatever they are; the digits are looked at afterwards. An input that ends
before the fourth byte is `EofWhileParsingString` (raised by `next_or_eof`, after everything was pulled). -/
def decodeHexEscape (r : IoRead) : Res Nat IoRead :=
  match nextOrEof IoPos.next r with
  | .err c r => .err c r
  | .fuel => .fuel
  | .ok a r =>
    match nextOrEof IoPos.next r with
    | .err c r => .err c r
    | .fuel => .fuel
    | .ok b r =>
      match nextOrEof IoPos.next r with
      | .err c r => .err c r
      | .fuel => .fuel
      | .ok c r =>
        match nextOrEof IoPos.next r with
        | .err c r => .err c r
        | .fuel => .fuel
        | .ok d r =>
          match Model.Hex.decodeFourHex a b c d with
          | some val => .ok val r
          | none => .err .InvalidEscape r

/-- the `Read` methods the generic free functions call, as `IoRead` implements them -/
def ops : ReadOps IoRead :=
  { next := IoPos.next, peek := IoPos.peek, discard := IoPos.discard, decodeHexEscape := decodeHexEscape }

/--
```rust
fn parse_str_bytes<'s, T, F>(&'s mut self, scratch: &'s mut Vec<u8>, validate: bool, result: F) -> Result<T>
{
    loop {
        let ch = tri!(next_or_eof(self));
        if !is_escape(ch, true) {
            scratch.push(ch);
            continue;
        }
        match ch {
            b'"' => { return result(self, scratch); }
            b'\\' => { tri!(parse_escape(self, validate, scratch)); }
            _ => {
                if validate {
                    return error(self, ErrorCode::ControlCharacterWhileParsingString);
                }
                scratch.push(ch);
            }
        }
    }
}
```
`is_escape` is `Model.Swar.isEscape` (constants extracted from the source). One round per unit of fuel. -/
def parseStrLoop (validate : Bool) (result : IoRead → Bytes → Res Bytes IoRead) :
    Nat → IoRead → Bytes → Res Bytes IoRead
  | 0, _, _ => .fuel
  | fuel + 1, r, scratch =>
    match nextOrEof IoPos.next r with
    | .err c r => .err c r
    | .fuel => .fuel
    | .ok ch r =>
      if !Model.Swar.isEscape ch true then parseStrLoop validate result fuel r (scratch ++ [ch])
      else if ch == 0x22 then result r scratch
      else if ch == 0x5c then
        match parseEscape ops validate fuel r scratch with
        | .err c r => .err c r
        | .fuel => .fuel
        | .ok scratch r => parseStrLoop validate result fuel r scratch
      else if validate then .err .ControlCharacterWhileParsingString r
      else parseStrLoop validate result fuel r (scratch ++ [ch])

/-- bytes the reader can still deliver: the peek slot and what `io::Bytes` has left -/
def IoPos.pending (r : IoPos) : Nat := r.rest.length + (if r.ch.isSome then 1 else 0)

/-- enough rounds for any input: every round but the last consumes a byte -/
def fuelFor (r : IoRead) : Nat := IoPos.pending r + 1

/-- `IoRead::parse_str_bytes(scratch, validate, result)` with the scratch space empty on entry -/
def parseStrBytes (validate : Bool) (result : IoRead → Bytes → Res Bytes IoRead) (r : IoRead) : Res Bytes IoRead :=
  parseStrLoop validate result (fuelFor r) r []

/-- `IoRead::parse_str`: `self.parse_str_bytes(scratch, true, as_str).map(Reference::Copied)` -/
def parseStr (r : IoRead) : Res Reference IoRead :=
  match parseStrBytes true asStr r with
  | .ok b r => .ok (.copied b) r
  | .err c r => .err c r
  | .fuel => .fuel

/-- `IoRead::parse_str_raw`: `self.parse_str_bytes(scratch, false, |_, bytes| Ok(bytes)).map(Reference::Copied)` -/
def parseStrRaw (r : IoRead) : Res Reference IoRead :=
  match parseStrBytes false noCheck r with
  | .ok b r => .ok (.copied b) r
  | .err c r => .err c r
  | .fuel => .fuel

/--
```rust
fn ignore_str(&mut self) -> Result<()> {
    loop {
        let ch = tri!(next_or_eof(self));
        if !is_escape(ch, true) { continue; }
        match ch {
            b'"' => { return Ok(()); }
            b'\\' => { tri!(ignore_escape(self)); }
            _ => { return error(self, ErrorCode::ControlCharacterWhileParsingString); }
        }
    }
}
``` -/
def ignoreStrLoop : Nat → IoRead → Res Unit IoRead
  | 0, _ => .fuel
  | fuel + 1, r =>
    match nextOrEof IoPos.next r with
    | .err c r => .err c r
    | .fuel => .fuel
    | .ok ch r =>
      if !Model.Swar.isEscape ch true then ignoreStrLoop fuel r
      else if ch == 0x22 then .ok () r
      else if ch == 0x5c then
        match ignoreEscape ops r with
        | .err c r => .err c r
        | .fuel => .fuel
        | .ok _ r => ignoreStrLoop fuel r
      else .err .ControlCharacterWhileParsingString r

/-- `IoRead::ignore_str` -/
def ignoreStr (r : IoRead) : Res Unit IoRead := ignoreStrLoop (fuelFor r) r

end SJ.Model.ReadIo
