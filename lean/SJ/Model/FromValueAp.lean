import SJ.Model.FromValue
import SJ.Spec.SchemaAp
/-!
# `Value` targets under `arbitrary_precision`: the literals `Number::deserialize_any` does not hand back verbatim

`Value::deserialize(value)` visits a number through `Number::deserialize_any` (`Model.FromValue.numberAny`, quoted there): the
`as_u64 / as_i64 / as_u128 / as_i128` shortcuts re-render an integer literal from its value (the identity on every RFC 8259
integer literal but `-0`, which becomes `0`), the `as_f64` shortcut re-renders a literal with `ryu` when it equals `ryu`'s
or `f64::to_string`'s spelling of its value (the identity only for `ryu`'s spelling: `0.000001` becomes `1e-6`), and every
other literal travels verbatim through `visit_map(NumberDeserializer)`. `from_str::<Value>` keeps every literal. So
`from_value::<Value>(v) = v` exactly when every literal of `v` is `litFixed`; the others are the open findings
`C16-ap-negative-zero` (second half) and `C16-ap-display-form`. What `ryu` / `f64::to_string` print is external (`Ext.prints`).
-/
namespace SJ.Model.FromValue
open SJ

/-- `Number::deserialize_any` with `Value`'s visitor rebuilds the literal itself -/
def litFixed (ext : Ext) (l : Bytes) : Bool := numberAny { ap := true } ext (.lit l) == some (.lit l)

/-- a `Value` target meets a value one of whose literals is not rebuilt verbatim (to be used with `Schema.allPos`) -/
def apAnyMoved (ext : Ext) : Schema → JV → Bool
  | .any, v => !(v.allLits (litFixed ext))
  | _, _ => false

end SJ.Model.FromValue
