import SJ.Model.FromValue
import SJ.Spec.SchemaAp
import SJ.Model.NumberAp
/-!
# `Value` targets under `arbitrary_precision`: the literals `Number::deserialize_any` does not hand back verbatim

`Value::deserialize(value)` visits a number through `Number::deserialize_any` (`Model.FromValue.numberAny`, quoted there): the
`as_u64 / as_i64 / as_u128 / as_i128` shortcuts re-render an integer literal from its value (the identity on every RFC 8259
integer literal but `-0`, which becomes `0`), the `as_f64` shortcut re-renders a literal with `ryu` when it equals `ryu`'s
or `f64::to_string`'s spelling of its value (the identity only for `ryu`'s spelling: `0.000001` becomes `1e-6`), and every
other literal travels verbatim through `visit_map(NumberDeserializer)`. `from_str::<Value>` keeps every literal. So
`from_value::<Value>(v) = v` exactly when every literal of `v` is `litFixed`; the others are the open findings
`C16-ap-negative-zero` (second half) and `C16-ap-display-form`. What `ryu` / `f64::to_string` print is external (`Ext.prints`).
-/
namespace SJ.Model.FromValue
open SJ

/-- `Number::deserialize_any` with `Value`'s visitor rebuilds the literal itself -/
def litFixed (ext : Ext) (l : Bytes) : Bool := numberAny { ap := true } ext (.lit l) == some (.lit l)

/-- a `Value` target meets a value one of whose literals is not rebuilt verbatim (to be used with `Schema.allPos`) -/
def apAnyMoved (ext : Ext) : Schema → JV → Bool
  | .any, v => !(v.allLits (litFixed ext))
  | _, _ => false

/-! ## executable forms for the driver

`Spec.litNearest` expands `10^e` for the written exponent `e`; the driver evaluates the same tests through
`Model.NumberAp.asF64` (`Number::as_f64`: the nearest binary64, `None` unless finite), whose guards answer a literal like
`1e999999999` without computing the power — equal on every number literal (`SJ.Proofs.NumberAp.asF64_bytes`,
`litNearest_bytes`), hence everywhere: `SJ.Proofs.Typed.apNonFiniteX_eq`, `apAccurateX_eq`, `c16ApExcluded_eq`. -/

/-- `Spec.litNearest`, through `Number::as_f64` on a number literal (what a `Value` holds) -/
def litNearestX (l : Bytes) : Option UInt64 :=
  if Spec.Number.isNumber l then Model.NumberAp.asF64 l else litNearest l

def apNonFiniteX : Schema → JV → Bool
  | .f64, .num (.lit l) => (litNearestX l).isNone
  | _, _ => false

def apAccurateX (fr : Bool) : Schema → JV → Bool
  | .f64, .num (.lit l) => accOpt (litNearestX l) (litConv fr l)
  | _, _ => true

/-- the (schema, value) pair lies in one of the three open `arbitrary_precision` findings of C16 -/
def c16ApExcluded (ext : Ext) (s : Schema) (v : JV) : Bool :=
  !(s.allPos (fun s v => !apNegZero s v) v) || !(s.allPos (fun s v => !apNonFiniteX s v) v) ||
    !(s.allPos (fun s v => !apAnyMoved ext s v) v)

end SJ.Model.FromValue
