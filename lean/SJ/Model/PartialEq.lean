import SJ.Spec.Value
import SJ.Spec.Ieee
import SJ.Spec.PrimEq
import SJ.Gen.PartialEq
import SJ.Model.TypedInt
/-!
# Model of `impl PartialEq<T> for Value` (src/value/partial_eq.rs)

```rust
fn eq_i64(value: &Value, other: i64) -> bool { value.as_i64() == Some(other) }
fn eq_u64(value: &Value, other: u64) -> bool { value.as_u64() == Some(other) }
fn eq_f32(value: &Value, other: f32) -> bool { match value { Value::Number(n) => n.as_f32() == Some(other), _ => false } }
fn eq_f64(value: &Value, other: f64) -> bool { value.as_f64() == Some(other) }
fn eq_bool(value: &Value, other: bool) -> bool { value.as_bool() == Some(other) }
fn eq_str(value: &Value, other: &str) -> bool { value.as_str() == Some(other) }

macro_rules! partialeq_numeric { ($($eq:ident [$($ty:ty)*])*) => { $($(
    impl PartialEq<$ty> for Value { fn eq(&self, other: &$ty) -> bool { $eq(self, *other as _) } }
    impl PartialEq<Value> for $ty { fn eq(&self, other: &Value) -> bool { $eq(other, *self as _) } }
    … for &'a Value, &'a mut Value …
)*)* } }
partialeq_numeric! { eq_i64[i8 i16 i32 i64 isize] eq_u64[u8 u16 u32 u64 usize] eq_f32[f32] eq_f64[f64] eq_bool[bool] }
```

Which row a type sits in (`Gen.eqFnOf`), the parameter type of each function (`Gen.eqFnParam`, the
target of the `as _` cast) and the accessor it calls (`Gen.eqFnAccessor`) are regenerated from the
source; the cast itself is Rust's `as`: integer → integer wraps modulo 2^64 into the target's range,
integer → float and `f64 → f32` round to nearest-even, same type is the identity.
Default build only (`arbitrary_precision` parses the literal text in its accessors).
-/
namespace SJ.Model.PartialEq
open SJ SJ.Spec.Ieee

/-- a comparand before the cast: an integer of one of the ten integer types (as its mathematical
    value), a float (bits) or a bool -/
inductive Comparand where
  | int (x : Int)
  | f32 (bits : UInt32)
  | f64 (bits : UInt64)
  | bool (b : Bool)
deriving Repr

/-- a value of one of the parameter types -/
inductive Casted where
  | i64 (x : Int)
  | u64 (x : Int)
  | f32 (bits : UInt32)
  | f64 (bits : UInt64)
  | bool (b : Bool)
deriving Repr

/-- `x as i64` for any integer of at most 64 bits: reduce modulo 2^64 into [-2^63, 2^63) -/
def wrapI64 (x : Int) : Int := (x + 9223372036854775808) % 18446744073709551616 - 9223372036854775808
/-- `x as u64`: reduce modulo 2^64 into [0, 2^64) -/
def wrapU64 (x : Int) : Int := x % 18446744073709551616

/-- `*other as _`, `_` being the parameter type. `none`: a combination the pinned table does not
    use and this model does not cover (float → integer, `f32 → f64`, `bool` → number). -/
def castTo : Gen.EqParam → Comparand → Option Casted
  | .i64, .int x => some (.i64 (wrapI64 x))
  | .u64, .int x => some (.u64 (wrapU64 x))
  | .f64, .int x => some (.f64 (Spec.PrimEq.intAsF64 x))
  | .f32, .int x => some (.f32 (Spec.PrimEq.intAsF32 x))
  | .f32, .f32 b => some (.f32 b)
  | .f64, .f64 b => some (.f64 b)
  | .f32, .f64 b => some (.f32 (F64.toF32 b))
  | .bool, .bool b => some (.bool b)
  | _, _ => none

/-- `Number::as_f64` / `as_f32`: `PosInt(n) => n as f64`, `NegInt(n) => n as f64`, `Float(n) => n` (`n as f32`) -/
def asF64 : Num → Option UInt64 := Spec.PrimEq.numAsF64
def asF32 : Num → Option UInt32 := Spec.PrimEq.numAsF32

/-- `value.as_*()` (for `eq_f32`: `match value { Value::Number(n) => n.as_f32(), _ => … false }`) -/
def accessor : Gen.EqAccessor → JV → Option Casted
  | .as_i64, .num n => (Model.TypedInt.asI64 n).map .i64
  | .as_u64, .num n => (Model.TypedInt.asU64 n).map .u64
  | .as_f64, .num n => (asF64 n).map .f64
  | .as_f32, .num n => (asF32 n).map .f32
  | .as_bool, .bool b => some (.bool b)
  | _, _ => none

/-- `==` of the parameter type (integers, `bool`: equality; floats: the IEEE comparison) -/
def castedEq : Casted → Casted → Bool
  | .i64 a, .i64 b => decide (a = b)
  | .u64 a, .u64 b => decide (a = b)
  | .f32 a, .f32 b => Spec.PrimEq.ieeeEq32 a b
  | .f64 a, .f64 b => Spec.PrimEq.ieeeEq64 a b
  | .bool a, .bool b => a == b
  | _, _ => false

/-- `$eq(value, other as _)`: `value.as_x() == Some(other as _)` -/
def eqFn (f : Gen.EqFn) (c : Comparand) (v : JV) : Bool :=
  match castTo (Gen.eqFnParam f) c with
  | none => false
  | some o =>
    match accessor (Gen.eqFnAccessor f) v with
    | some a => castedEq a o
    | none => false

/-- `value == other` for `other : ty`, `ty` a type of the `partialeq_numeric!` table -/
def eqPrim (ty : Gen.PrimTy) (c : Comparand) (v : JV) : Bool := eqFn (Gen.eqFnOf ty) c v

/-- `value == other` for `other: &str` / `str` / `String`: `value.as_str() == Some(other)` -/
def eqStr (s : Bytes) : JV → Bool
  | .str t => t == s
  | _ => false

end SJ.Model.PartialEq
