import SJ.Model.PartialEq
import SJ.Model.NumberAp
/-!
# `impl PartialEq<T> for Value` under `arbitrary_precision` (src/value/partial_eq.rs over src/number.rs)

The functions `eq_i64 … eq_bool`, the `partialeq_numeric!` dispatch and the `as _` casts are the ones of
`SJ.Model.PartialEq` (same source text in both builds); what changes is what the accessors compute:
`Value::as_i64` = `match self { Value::Number(n) => n.as_i64(), _ => None }` with `n.as_i64() = self.n.parse().ok()`
and so on (`SJ.Model.NumberAp`). `eq_f32` calls the crate-private `Number::as_f32` =
`self.n.parse::<f32>().ok().filter(|f| f.is_finite())`.
`eqPrimCfg ap` picks the build.
-/
namespace SJ.Model.PartialEqAp
open SJ SJ.Model.PartialEq

/-- `value.as_*()` with string-backed numbers -/
def accessor : Gen.EqAccessor → JV → Option Casted
  | .as_i64, .num n => ((NumberAp.textOf n).bind NumberAp.asI64).map .i64
  | .as_u64, .num n => ((NumberAp.textOf n).bind NumberAp.asU64).map .u64
  | .as_f64, .num n => ((NumberAp.textOf n).bind NumberAp.asF64).map .f64
  | .as_f32, .num n => ((NumberAp.textOf n).bind NumberAp.asF32).map .f32
  | .as_bool, .bool b => some (.bool b)
  | _, _ => none

/-- `$eq(value, other as _)` -/
def eqFn (f : Gen.EqFn) (c : Comparand) (v : JV) : Bool :=
  match castTo (Gen.eqFnParam f) c with
  | none => false
  | some o =>
    match accessor (Gen.eqFnAccessor f) v with
    | some a => castedEq a o
    | none => false

def eqPrim (ty : Gen.PrimTy) (c : Comparand) (v : JV) : Bool := eqFn (Gen.eqFnOf ty) c v

/-- `value == other` in the build with (`ap = true`) or without `arbitrary_precision` -/
def eqPrimCfg (ap : Bool) (ty : Gen.PrimTy) (c : Comparand) (v : JV) : Bool :=
  if ap then eqPrim ty c v else PartialEq.eqPrim ty c v

end SJ.Model.PartialEqAp
