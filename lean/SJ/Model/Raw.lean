import SJ.Model.Stream
/-!
# `RawValue` capture at top level (src/de.rs `deserialize_raw_value`, src/read.rs raw buffering)

```rust
fn deserialize_raw_value<V>(&mut self, visitor: V) -> Result<V::Value> {
    tri!(self.parse_whitespace());
    self.read.begin_raw_buffering();      // slice: remember index; reader: start an owned buffer
    tri!(self.ignore_value());
    self.read.end_raw_buffering(visitor)  // slice[start..index] (from_utf8 on byte sources)
}
```
followed by `Deserializer::end()` (only whitespace may follow).
-/
namespace SJ.Model.Raw
open SJ SJ.Gen SJ.Model.Machine SJ.Model.Stream

inductive ROut where
  | ok (start stop : Nat)             -- captured text is `bs[start..stop]`
  | err (c : Code) (idx : Nat)
deriving Repr

def trailing (i : Nat) : Bytes → Option Nat
  | [] => none
  | b :: r => if isWs b then trailing (i + 1) r else some i

/-- `from_str/from_slice/from_reader::<Box<RawValue>>` (or `&RawValue`) -/
def rawTop (cfg : Cfg) (src : Src) (bs : Bytes) : ROut :=
  let env : Env := { cfg := cfg, src := src, tgt := .ignored }
  let (r, p) := skipWs bs 0
  match runPrefix env init p r with
  | .err c idx => .err c idx
  | .ok _ e =>
    let captured := r.take (e - p)
    if src != .str && !Spec.Utf8.validUtf8 captured then .err .InvalidUnicodeCodePoint e
    else match trailing e (r.drop (e - p)) with
      | none => .ok p e
      | some i => .err .TrailingCharacters (i + 1)

end SJ.Model.Raw
