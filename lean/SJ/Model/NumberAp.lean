import SJ.Spec.Value
import SJ.Spec.Ieee
import SJ.Spec.Decimal
import SJ.Spec.Number
import SJ.Spec.Schema
import SJ.Model.FromValue
import SJ.Model.TypedInt
/-!
# `serde_json::Number` in both representations (src/number.rs)

```rust
pub struct Number { n: N }
#[cfg(not(feature = "arbitrary_precision"))] enum N { PosInt(u64), /* Always less than zero. */ NegInt(i64), /* Always finite. */ Float(f64) }
#[cfg(feature = "arbitrary_precision")]      type N = String;
```
The default representation is `SJ.Num.pos / .neg / .float` with the accessors of `SJ.Model.TypedInt`
(`asI64 … isU64`) and `SJ.Spec.PrimEq.numAsF64`; this file adds the `arbitrary_precision` one — a
`Number` is its text, `SJ.Num.lit s` — with every accessor computed as the Rust computes it, by
`str::parse` on the text:

```rust
pub fn is_i64(&self) -> bool { self.as_i64().is_some() }            // arbitrary_precision arms
pub fn is_u64(&self) -> bool { self.as_u64().is_some() }
pub fn is_f64(&self) -> bool {
    for c in self.n.chars() { if c == '.' || c == 'e' || c == 'E' { return self.n.parse::<f64>().ok().map_or(false, f64::is_finite); } }
    false }
pub fn as_i64(&self) -> Option<i64> { self.n.parse().ok() }
pub fn as_u64(&self) -> Option<u64> { self.n.parse().ok() }
pub fn as_f64(&self) -> Option<f64> { self.n.parse::<f64>().ok().filter(|float| float.is_finite()) }
pub fn as_i128(&self) -> Option<i128> { self.n.parse().ok() }
pub fn as_u128(&self) -> Option<u128> { self.n.parse().ok() }
pub(crate) fn as_f32(&self) -> Option<f32> { self.n.parse::<f32>().ok().filter(|float| float.is_finite()) }
pub fn from_f64(f: f64) -> Option<Number> { if f.is_finite() { Some(Number { n: ryu::Buffer::new().format_finite(f).to_owned() }) } else { None } }
pub fn from_i128(i: i128) -> Option<Number> { Some(Number { n: i.to_string() }) }
pub fn from_u128(i: u128) -> Option<Number> { Some(Number { n: i.to_string() }) }
pub fn as_str(&self) -> &str { &self.n }
impl Display for Number { fn fmt(..) { Display::fmt(&self.n, formatter) } }
```

External code, modelled by its documented semantics (trusted base, recorded in `tools/props.py`):

* `<iN/uN as FromStr>::from_str` (`core::num::from_str_radix(src, 10)`): an optional `+` — or `-` for
  the signed types — then at least one ASCII digit and nothing else; the value must fit
  (`FromValue.rustParseInt`, shared with `Number`'s `Deserializer` impl and the 128-bit text path).
  Consequences the property cares about: `"-0".parse::<i64>() == Ok(0)`, `"-0".parse::<u64>()` is an
  error, `"+1"` is accepted (never a stored literal), leading zeros are accepted (never stored).
* `<f64 as FromStr>::from_str` (`core::num::dec2flt`): grammar
  `[+-]? ( inf | infinity | nan | ( Digit+ | Digit+ '.' Digit* | Digit* '.' Digit+ ) ( [eE] [+-]? Digit+ )? )`,
  letters case-insensitive; the result is the *correctly rounded* binary64 of the decimal value
  (round to nearest, ties to even), overflowing to `±inf` and underflowing to `±0` — this is std's
  documented contract and is ASSUMED here: the model rounds the exact rational with
  `Spec.Ieee.roundNE64`. (std's exponent accumulator saturates at 65 536, which cannot matter for a
  text of fewer than 65 000 bytes.) Same for `f32` with `roundNE32`.

Guards against astronomically large powers of ten (`f64OfLit`) keep the function cheap for the driver;
`SJ.Proofs.NumberAp.f64OfLit_eq` proves they do not change the result.
-/
namespace SJ.Model.NumberAp
open SJ SJ.Spec.Ieee SJ.Spec.Decimal

/-! ## `str::parse::<iN/uN>()` -/

/-- `self.n.parse::<iN/uN>().ok()` -/
def parseInt (w : IntTy) (s : Bytes) : Option Int := Model.FromValue.rustParseInt w s

/-! ## `str::parse::<f64>()` / `::<f32>()` -/

/-- dec2flt, the exponent part: nothing, or `[eE] [+-]? Digit+` up to the end of the text -/
def floatExp (neg : Bool) (int frac rest : Bytes) : Option NumLit :=
  match rest with
  | [] => some ⟨neg, int, frac, false, []⟩
  | c :: r =>
    if c == 0x65 || c == 0x45 then
      let (eneg, r) := match r with
        | 0x2d :: r' => (true, r')
        | 0x2b :: r' => (false, r')
        | _ => (false, r)
      let (ex, r') := takeDigits r
      if ex.isEmpty || !r'.isEmpty then none else some ⟨neg, int, frac, eneg, ex⟩
    else none

/-- the fraction: `'.' Digit*` or nothing; returns the digits and the unread text -/
def floatFrac (rest : Bytes) : Bytes × Bytes :=
  match rest with
  | 0x2e :: r => takeDigits r
  | _ => ([], rest)

/-- dec2flt after the sign: `Digit* ['.' Digit*]` with at least one digit, then the exponent part -/
def floatRest (neg : Bool) (bs : Bytes) : Option NumLit :=
  let int := (takeDigits bs).1
  let frac := (floatFrac (takeDigits bs).2).1
  if int.isEmpty && frac.isEmpty then none
  else floatExp neg int frac (floatFrac (takeDigits bs).2).2

/-- the numeral part of dec2flt's grammar: `[+-]? (Digit* ['.' Digit*]) ([eE] [+-]? Digit+)?` with at least
    one digit before the exponent; the pieces as a `NumLit` (digits as written) -/
def floatParts (bs : Bytes) : Option NumLit :=
  match bs with
  | 0x2d :: r => floatRest true r
  | 0x2b :: r => floatRest false r
  | _ => floatRest false bs

/-- correctly rounded binary64 of `± digits · 10^netExp`, `±inf` on overflow.
    The three guards answer without computing a power of ten when the result is decided anyway:
    a zero significand; a value `≥ 10^401`; a value `< 10^-400`. -/
def f64OfLit (l : NumLit) : UInt64 :=
  if l.sigVal == 0 then F64.zero l.neg
  else if l.netExp > 400 then F64.inf l.neg
  else if l.netExp + (l.digits.length : Int) < -400 then F64.zero l.neg
  else (roundNE64 l.neg l.exact.1 l.exact.2).getD (F64.inf l.neg)

def f32Zero (neg : Bool) : UInt32 := if neg then 0x80000000 else 0

/-- correctly rounded binary32, same guards -/
def f32OfLit (l : NumLit) : UInt32 :=
  if l.sigVal == 0 then f32Zero l.neg
  else if l.netExp > 400 then F32.inf l.neg
  else if l.netExp + (l.digits.length : Int) < -400 then f32Zero l.neg
  else (roundNE32 l.neg l.exact.1 l.exact.2).getD (F32.inf l.neg)

def lower (b : UInt8) : UInt8 := if 0x41 ≤ b && b ≤ 0x5a then b + 0x20 else b

/-- dec2flt `parse_inf_nan` on the text after the sign: `some true` = infinity, `some false` = NaN -/
def infNan (s : Bytes) : Option Bool :=
  let t := s.map lower
  if t == [0x69, 0x6e, 0x66] || t == [0x69, 0x6e, 0x66, 0x69, 0x6e, 0x69, 0x74, 0x79] then some true
  else if t == [0x6e, 0x61, 0x6e] then some false
  else none

/-- sign and the text after it, as dec2flt splits them -/
def signOf (s : Bytes) : Bool × Bytes :=
  match s with
  | 0x2d :: r => (true, r)
  | 0x2b :: r => (false, r)
  | _ => (false, s)

/-- `s.parse::<f64>()`; `none` = `Err(ParseFloatError)` -/
def parseF64 (s : Bytes) : Option UInt64 :=
  match floatParts s with
  | some l => some (f64OfLit l)
  | none =>
    match infNan (signOf s).2 with
    | some true => some (F64.inf (signOf s).1)
    | some false => some (if (signOf s).1 then 0xfff8000000000000 else F64.nan)
    | none => none

/-- `s.parse::<f32>()` -/
def parseF32 (s : Bytes) : Option UInt32 :=
  match floatParts s with
  | some l => some (f32OfLit l)
  | none =>
    match infNan (signOf s).2 with
    | some true => some (F32.inf (signOf s).1)
    | some false => some (if (signOf s).1 then 0xffc00000 else F32.nan)
    | none => none

/-! ## the accessors on the text -/

def asI64 (s : Bytes) : Option Int := parseInt .i64 s
def asU64 (s : Bytes) : Option Int := parseInt .u64 s
def asI128 (s : Bytes) : Option Int := parseInt .i128 s
def asU128 (s : Bytes) : Option Int := parseInt .u128 s
def isI64 (s : Bytes) : Bool := (asI64 s).isSome
def isU64 (s : Bytes) : Bool := (asU64 s).isSome

/-- `.filter(|float| float.is_finite())` -/
def finite64 : Option UInt64 → Option UInt64
  | some b => if F64.isFinite b then some b else none
  | none => none
def finite32 : Option UInt32 → Option UInt32
  | some b => if F32.isFinite b then some b else none
  | none => none

def asF64 (s : Bytes) : Option UInt64 := finite64 (parseF64 s)
def asF32 (s : Bytes) : Option UInt32 := finite32 (parseF32 s)

/-- the loop of `is_f64` returns at the first `.`, `e` or `E` -/
def hasFloatChar (s : Bytes) : Bool := s.any fun c => c == 0x2e || c == 0x65 || c == 0x45

def isF64 (s : Bytes) : Bool := if hasFloatChar s then (asF64 s).isSome else false

/-! ## constructors, `as_str`, `Display` -/

/-- `from_i128` / `from_u128` / `From<iN/uN>`: `i.to_string()` resp. `itoa` — the plain decimal digits -/
def ofInt (i : Int) : Bytes := Spec.Number.decimal i

/-- `from_f64` (`ryu` is a parameter: what `ryu::Buffer::format_finite` prints) -/
def ofF64 (ryu : UInt64 → Bytes) (b : UInt64) : Option Bytes := if F64.isFinite b then some (ryu b) else none

/-- `as_str()`, `Display`, and (through the private struct token) `Serialize`: the text itself -/
def display (s : Bytes) : Bytes := s

/-! ## both representations behind one interface (the driver picks by the configuration tag) -/

/-- the text of a `Number` of an `arbitrary_precision` build. A wire `Num` that is not `.lit` is read as
    what `Number::from(u64/i64)` stores there (`itoa`'s digits); a `.float` has no text without `ryu`. -/
def textOf : Num → Option Bytes := Model.FromValue.litOf

def numAsI64 (ap : Bool) (n : Num) : Option Int :=
  if ap then (textOf n).bind asI64 else Model.TypedInt.asI64 n
def numAsU64 (ap : Bool) (n : Num) : Option Int :=
  if ap then (textOf n).bind asU64 else Model.TypedInt.asU64 n
def numAsI128 (ap : Bool) (n : Num) : Option Int :=
  if ap then (textOf n).bind asI128 else Model.TypedInt.asI128 n
def numAsU128 (ap : Bool) (n : Num) : Option Int :=
  if ap then (textOf n).bind asU128 else Model.TypedInt.asU128 n
def numIsI64 (ap : Bool) (n : Num) : Bool := (numAsI64 ap n).isSome
def numIsU64 (ap : Bool) (n : Num) : Bool := (numAsU64 ap n).isSome

/-- `Number::as_f64` of the default build: `PosInt(n) => Some(n as f64)`, `NegInt(n) => Some(n as f64)`, `Float(n) => Some(n)` -/
def defaultAsF64 : Num → Option UInt64
  | .pos n => some (F64.roundOrInf false n 1)
  | .neg k => some (F64.roundOrInf (decide (k < 0)) k.natAbs 1)
  | .float b => some b
  | .lit _ => none

def defaultAsF32 : Num → Option UInt32
  | .pos n => some (F32.roundOrInf false n 1)
  | .neg k => some (F32.roundOrInf (decide (k < 0)) k.natAbs 1)
  | .float b => some (F64.toF32 b)
  | .lit _ => none

def numAsF64 (ap : Bool) (n : Num) : Option UInt64 :=
  if ap then (textOf n).bind asF64 else defaultAsF64 n
def numAsF32 (ap : Bool) (n : Num) : Option UInt32 :=
  if ap then (textOf n).bind asF32 else defaultAsF32 n

/-- `is_f64`: default `Float(_) => true`, `PosInt | NegInt => false` -/
def numIsF64 (ap : Bool) (n : Num) : Bool :=
  if ap then (match textOf n with | some s => isF64 s | none => false)
  else match n with
    | .float _ => true
    | _ => false

end SJ.Model.NumberAp
