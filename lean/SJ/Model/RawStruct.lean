import SJ.Model.RawNested
/-!
# `RawValue` as a struct field: `#[derive(Deserialize)] struct S { a: Box<RawValue>, b: Option<Box<RawValue>>, c: T, … }`

The struct machinery is the typed model's (`SJ.Model.Typed`: `deserialize_struct`, `MapAccess`, `has_next_key`,
`parse_object_colon`, `end_map`, `SeqAccess`, `end_seq`, `fix_position`, `check_recursion!`) and the visitor is the one
`serde_derive` generates (`Typed.structLoop` / `structVisitMap` / `tupleLoop`: field identifiers through
`deserialize_identifier`, first match in `FIELDS`; `duplicate_field`; an unknown field is skipped through `IgnoredAny`
unless `deny_unknown_fields`; `missing_field`). `Spec/Schema.lean` has no `RawValue` leaf, so the loops are repeated here
over field TYPES (`FieldTy`) instead of schemas — the same code with the per-field deserialiser chosen by

* `raw`: `Box<RawValue>` / `&RawValue` — `deserialize_newtype_struct(TOKEN, …)` → `deserialize_raw_value` (`RawNested.deRaw`);
* `optRaw`: `Option<Box<RawValue>>` — `deserialize_option`: `null` ↦ `None`, anything else `visit_some(self)` → `deRaw`;
* `typed s`: any `RawValue`-free type of the typed universe (`Typed.deTyped`).

```rust
// serde_derive, for `struct S { f0: T0, f1: T1, … }`  (visit_map; `__Field::__ignore` = unknown name)
while let Some(key) = map.next_key::<__Field>()? {
    match key {
        __Field::__field0 => { if f0.is_some() { return Err(duplicate_field("f0")); } f0 = Some(map.next_value::<T0>()?); }
        …
        _ => { let _ = map.next_value::<IgnoredAny>()?; } } }
let f0 = match f0 { Some(v) => v, None => serde::__private::de::missing_field("f0")? };   // Option<_> ↦ None, else Err
// serde::__private::de::missing_field: T::deserialize(MissingFieldDeserializer): `deserialize_option` ↦ visit_none,
// everything else (`deserialize_newtype_struct` of RawValue included, by forward_to_deserialize_any!) ↦ Err(missing_field)
// visit_seq:  let f0 = match seq.next_element::<T0>()? { Some(v) => v, None => return Err(invalid_length(0, …)) }; …
```

Import-free (only `SJ.Model.*`).
-/
namespace SJ.Model.RawStruct
open SJ SJ.Gen SJ.Model.Typed SJ.Model.RawNested
open SJ.Model.FromValue (R fail nameIndex missingField)
open SJ.Model.Stream (skipWs)

inductive FieldTy where
  | raw
  | optRaw
  | typed (s : Schema)
deriving Inhabited

/-- ```rust
fn deserialize_option<V>(self, visitor: V) -> Result<V::Value> {
    match tri!(self.parse_whitespace()) {
        Some(b'n') => { self.eat_char(); tri!(self.parse_ident(b"ull")); visitor.visit_none() }
        _ => visitor.visit_some(self), } }
``` with `Option<Box<RawValue>>`'s visitor (`visit_some(d)` = `Box::<RawValue>::deserialize(d).map(Some)`); as `deTyped … (.option _)` -/
def deOptRaw (env : Env) (rest : Bytes) (pos : Nat) : TOut :=
  match skipWs rest pos with
  | ([], p) => if env.flt then .io else (deRaw env [] p).map .some
  | (b :: r, p) =>
    if b == 0x6e then (parseIdent env Gen.identNull r (p + 1)).bind fun _ r' p' => .ok .none r' p'
    else (deRaw env (b :: r) p).map .some

/-- `T::deserialize(&mut *de)` for a field of type `T`, with `t` typed containers open -/
def deField (env : Env) (t : Nat) : FieldTy → Bytes → Nat → TOut
  | .raw => deRaw env
  | .optRaw => deOptRaw env
  | .typed s => deTyped env (Schema.size s + 1) t s

/-- `serde::__private::de::missing_field` -/
def missing : FieldTy → R
  | .raw => fail
  | .optRaw => .ok .none
  | .typed s => missingField s

def names (fs : List (Bytes × FieldTy)) : List Bytes := fs.map (·.1)

/-- derive's `visit_map` loop (`Typed.structLoop` with the field deserialiser chosen by `FieldTy`) -/
def fieldLoop (env : Env) (t : Nat) (fs : List (Bytes × FieldTy)) (deny : Bool) :
    Nat → Bool → List (Option TVal) → Bytes → Nat → Res (List (Option TVal))
  | 0, _, _, _, _ => .fuel
  | n + 1, first, slots, rest, pos =>
    (hasNextKey env first rest pos).bind fun more r p =>
      if !more then .ok slots r p
      else
        (parseStr env (r.drop 1) (p + 1)).bind fun name r1 p1 =>
          match nameIndex (names fs) name with
          | some i =>
            (match slots.getD i none with
             | some _ => .raw r1 p1                                           -- duplicate_field
             | none =>
               (parseObjectColon env r1 p1).bind fun _ r2 p2 =>
                 match fs[i]? with
                 | some (_, ty) =>
                   (deField env t ty r2 p2).bind fun v r3 p3 => fieldLoop env t fs deny n false (slots.set i (some v)) r3 p3
                 | none => .raw r2 p2)                                        -- not reached: `i` indexes `fs`
          | none =>
            if deny then .raw r1 p1                                           -- unknown_field
            else
              (parseObjectColon env r1 p1).bind fun _ r2 p2 =>
                (ignoreValue env r2 p2).bind fun _ r3 p3 => fieldLoop env t fs deny n false slots r3 p3

/-- every missing field through `missing_field` (`FromValue.finishFields`) -/
def finishSlots : List (Bytes × FieldTy) → List (Option TVal) → Except Unit (List TVal)
  | [], _ => .ok []
  | (_, ty) :: fs, slots =>
    match (match slots.headD none with | some v => (.ok v : R) | none => missing ty) with
    | .error e => .error e
    | .ok v =>
      match finishSlots fs slots.tail with
      | .error e => .error e
      | .ok vs => .ok (v :: vs)

def fieldVisitMap (env : Env) (t : Nat) (fs : List (Bytes × FieldTy)) (deny : Bool) (rest : Bytes) (pos : Nat) : TOut :=
  (fieldLoop env t fs deny (rest.length + 1) true (fs.map fun _ => none) rest pos).bind fun slots r p =>
    match finishSlots fs slots with
    | .ok vs => .ok (.struct_ vs) r p
    | .error _ => .raw r p

/-- derive's `visit_seq` (`Typed.tupleLoop`): every field in order, `invalid_length(i)` when the `i`-th is missing -/
def fieldSeqLoop (env : Env) (t : Nat) : List (Bytes × FieldTy) → Bool → List TVal → Bytes → Nat → Res (List TVal)
  | [], _, acc, rest, pos => .ok acc.reverse rest pos
  | (_, ty) :: fs, first, acc, rest, pos =>
    (nextElement env (deField env t ty) first rest pos).bind fun o r p =>
      match o with
      | none => .raw r p
      | some v => fieldSeqLoop env t fs false (v :: acc) r p

/-- `deserialize_struct(name, FIELDS, visitor)` (`Typed.deStruct`) -/
def deRawStruct (env : Env) (t : Nat) (fs : List (Bytes × FieldTy)) (deny : Bool) (rest : Bytes) (pos : Nat) : TOut :=
  withPeek env .EofWhileParsingValue rest pos fun b r p =>
    if b == 0x5b then
      if tooDeep env t then .err .RecursionLimitExceeded (p + 1)
      else closeWith env (endSeq env) ((fieldSeqLoop env (t + 1) fs true [] r (p + 1)).map .struct_)
    else if b == 0x7b then
      if tooDeep env t then .err .RecursionLimitExceeded (p + 1)
      else closeWith env (endMap env) (fieldVisitMap env (t + 1) fs deny r (p + 1))
    else peekInvalidType env (b :: r) p

/-- `from_str` / `from_slice` / `from_reader::<S>` -/
def rawStructTop (env : Env) (fs : List (Bytes × FieldTy)) (deny : Bool) (bs : Bytes) : Top :=
  finishTop env (deRawStruct env 0 fs deny bs 0)

end SJ.Model.RawStruct
