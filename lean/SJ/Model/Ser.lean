import SJ.Spec.Program
import SJ.Spec.Denote
import SJ.Gen.Ser
import SJ.Model.EscapeLocal
/-!
# Model of the text serializer: `Serializer`, `Compound`, `MapKeySerializer`, the two `Formatter`s

Transcribes `src/ser.rs` 61–1151 (`impl ser::Serializer for &mut Serializer<W, F>`, `State`,
`Compound` and its seven `Serialize*` impls, `MapKeySerializer`) and 1556–2079 (`trait Formatter`
default methods = `CompactFormatter`, `impl Formatter for PrettyFormatter`), `indent` (2268),
`impl Serialize for Value` (`src/value/ser.rs` 11–36), `impl Serialize for Number`
(`src/number.rs` 369–393) and `Display for Value` (`src/value/mod.rs` 197–257).

The result of running a program is the **exact list of buffers** handed to the writer — one list
element per `write_all` call, in order (empty buffers included: `indent` with an empty indent string
still calls `write_all`). Literal byte strings come from `SJ.Gen` (extracted from the source).

`usize` arithmetic: `current_indent -= 1` is modelled on `Nat` (truncating) together with a sticky
flag `underflow` that records a decrement at 0 (a panic in builds with overflow checks, a wrap-around
to `usize::MAX` and a practically endless `indent` loop otherwise — in both cases no output).
`begin_*`/`end_*` are balanced by `Serializer` for programs with exact hints, so the flag is never set
for them (`SJ.Props.C03.c03_no_underflow`); a non-empty seq/map announced as `Some(0)` does set it.
Import-free (only `SJ.Spec`, `SJ.Gen`, `SJ.Model`).
-/
namespace SJ.Model.Ser
open SJ SJ.Model.EscapeLocal
export SJ.Spec.Program (IntW SVal SerErr Ext ExtOK finite32 finite64)

/-- `enum State { Empty, First, Rest }` of `Compound::Map` -/
inductive State where
  | empty | first | rest
deriving DecidableEq, Repr, Inhabited

/-- which `Formatter`: `CompactFormatter`, or `PrettyFormatter::with_indent(indent)` -/
inductive Fmt where
  | compact
  | pretty (indent : Bytes)
deriving Repr

/-- `PrettyFormatter`'s mutable fields (`CompactFormatter` has none: it ignores this) -/
structure FState where
  currentIndent : Nat
  hasValue : Bool
  /-- not a field of the Rust struct: set when `current_indent -= 1` is executed at 0 -/
  underflow : Bool := false
deriving DecidableEq, Repr, Inhabited

/-- `PrettyFormatter::with_indent`: `current_indent: 0, has_value: false` -/
def FState.init : FState := { currentIndent := 0, hasValue := false }

/-- `self.current_indent -= 1` -/
def FState.decIndent (st : FState) : FState :=
  { st with currentIndent := st.currentIndent - 1, underflow := st.underflow || st.currentIndent == 0 }

/-- buffers written and the formatter state afterwards -/
structure W where
  bufs : List Bytes
  st : FState
deriving Repr, Inhabited

/-- … plus the `Compound::Map` state -/
structure WS where
  bufs : List Bytes
  state : State
  st : FState
deriving Repr, Inhabited

/-- run `k` after `a` -/
def W.andThen (a : W) (k : FState → W) : W := { bufs := a.bufs ++ (k a.st).bufs, st := (k a.st).st }

/-- a stateless write -/
def write (bufs : List Bytes) (st : FState) : W := { bufs := bufs, st := st }

/-! ## `Formatter` methods

```rust
fn indent<W>(wr: &mut W, n: usize, s: &[u8]) -> io::Result<()> { for _ in 0..n { tri!(wr.write_all(s)); } Ok(()) }
``` -/
def indentBufs (n : Nat) (s : Bytes) : List Bytes := List.replicate n s

/-- ```rust
// default                                   // PrettyFormatter
writer.write_all(b"[")                       self.current_indent += 1; self.has_value = false; writer.write_all(b"[")
``` -/
def beginArray : Fmt → FState → W
  | .compact, st => { bufs := [Gen.cBeginArray], st := st }
  | .pretty _, st =>
    { bufs := [Gen.pBeginArray], st := { st with currentIndent := st.currentIndent + 1, hasValue := false } }

/-- ```rust
// default                                   // PrettyFormatter
writer.write_all(b"]")                       self.current_indent -= 1;
                                             if self.has_value { tri!(writer.write_all(b"\n"));
                                                 tri!(indent(writer, self.current_indent, self.indent)); }
                                             writer.write_all(b"]")
``` -/
def endArray : Fmt → FState → W
  | .compact, st => { bufs := [Gen.cEndArray], st := st }
  | .pretty ind, st =>
    let st := st.decIndent
    { bufs := (if st.hasValue then [Gen.pEndArrayNl] ++ indentBufs st.currentIndent ind else []) ++ [Gen.pEndArray],
      st := st }

/-- ```rust
// default                                   // PrettyFormatter
if first { Ok(()) }                          tri!(writer.write_all(if first { b"\n" } else { b",\n" }));
else { writer.write_all(b",") }              indent(writer, self.current_indent, self.indent)
``` -/
def beginArrayValue : Fmt → Bool → FState → W
  | .compact, first, st => { bufs := if first then [] else [Gen.cArrayValueRest], st := st }
  | .pretty ind, first, st =>
    { bufs := [if first then Gen.pArrayValueFirst else Gen.pArrayValueRest] ++ indentBufs st.currentIndent ind,
      st := st }

/-- default: `Ok(())`; pretty: `self.has_value = true; Ok(())` -/
def endArrayValue : Fmt → FState → W
  | .compact, st => { bufs := [], st := st }
  | .pretty _, st => { bufs := [], st := { st with hasValue := true } }

/-- as `begin_array` with `b"{"` -/
def beginObject : Fmt → FState → W
  | .compact, st => { bufs := [Gen.cBeginObject], st := st }
  | .pretty _, st =>
    { bufs := [Gen.pBeginObject], st := { st with currentIndent := st.currentIndent + 1, hasValue := false } }

/-- as `end_array` with `b"}"` -/
def endObject : Fmt → FState → W
  | .compact, st => { bufs := [Gen.cEndObject], st := st }
  | .pretty ind, st =>
    let st := st.decIndent
    { bufs := (if st.hasValue then [Gen.pEndObjectNl] ++ indentBufs st.currentIndent ind else []) ++ [Gen.pEndObject],
      st := st }

/-- as `begin_array_value` -/
def beginObjectKey : Fmt → Bool → FState → W
  | .compact, first, st => { bufs := if first then [] else [Gen.cObjectKeyRest], st := st }
  | .pretty ind, first, st =>
    { bufs := [if first then Gen.pObjectKeyFirst else Gen.pObjectKeyRest] ++ indentBufs st.currentIndent ind,
      st := st }

/-- `Ok(())` in both formatters (`PrettyFormatter` does not override it) -/
def endObjectKey : Fmt → FState → W
  | _, st => { bufs := [], st := st }

/-- default `writer.write_all(b":")`; pretty `writer.write_all(b": ")` -/
def beginObjectValue : Fmt → FState → W
  | .compact, st => { bufs := [Gen.cObjectValue], st := st }
  | .pretty _, st => { bufs := [Gen.pObjectValue], st := st }

/-- default: `Ok(())`; pretty: `self.has_value = true; Ok(())` -/
def endObjectValue : Fmt → FState → W
  | .compact, st => { bufs := [], st := st }
  | .pretty _, st => { bufs := [], st := { st with hasValue := true } }

def writeNull : Bytes := Gen.serNull
def writeBool (b : Bool) : Bytes := if b then Gen.serTrue else Gen.serFalse

/-- `value.encode_utf8(&mut buf)` -/
def encodeUtf8 (cp : Nat) : Bytes := Spec.Denote.utf8 cp

/-- ```rust
fn write_byte_array(&mut self, writer, value: &[u8]) -> io::Result<()> {
    tri!(self.begin_array(writer));
    let mut first = true;
    for byte in value {
        tri!(self.begin_array_value(writer, first));
        tri!(self.write_u8(writer, *byte));
        tri!(self.end_array_value(writer));
        first = false;
    }
    self.end_array(writer)
}
``` -/
def byteArrayLoop (ext : Ext) (f : Fmt) : Bytes → Bool → FState → W
  | [], _, st => { bufs := [], st := st }
  | byte :: rest, first, st =>
    (((beginArrayValue f first st).andThen (write [ext.itoa byte.toNat])).andThen (endArrayValue f)).andThen
      (byteArrayLoop ext f rest false)

def writeByteArray (ext : Ext) (f : Fmt) (value : Bytes) (st : FState) : W :=
  ((beginArray f st).andThen (byteArrayLoop ext f value true)).andThen (endArray f)

/-! ## `Serializer` -/

/-- ```rust
fn serialize_seq(self, len: Option<usize>) -> Result<Self::SerializeSeq> {
    tri!(self.formatter.begin_array(&mut self.writer).map_err(Error::io));
    if len == Some(0) {
        tri!(self.formatter.end_array(&mut self.writer).map_err(Error::io));
        Ok(Compound::Map { ser: self, state: State::Empty })
    } else {
        Ok(Compound::Map { ser: self, state: State::First })
    }
}
``` -/
def serializeSeq (f : Fmt) (len : Option Nat) (st : FState) : WS :=
  let a := beginArray f st
  if len == some 0 then
    let b := a.andThen (endArray f)
    { bufs := b.bufs, state := .empty, st := b.st }
  else { bufs := a.bufs, state := .first, st := a.st }

/-- `serialize_map`: the same with `begin_object` / `end_object` -/
def serializeMap (f : Fmt) (len : Option Nat) (st : FState) : WS :=
  let a := beginObject f st
  if len == some 0 then
    let b := a.andThen (endObject f)
    { bufs := b.bufs, state := .empty, st := b.st }
  else { bufs := a.bufs, state := .first, st := a.st }

/-- the common prefix of `serialize_newtype_variant`, `serialize_tuple_variant`,
    `serialize_struct_variant`:
```rust
tri!(self.formatter.begin_object(&mut self.writer).map_err(Error::io));
tri!(self.formatter.begin_object_key(&mut self.writer, true).map_err(Error::io));
tri!(self.serialize_str(variant));
tri!(self.formatter.end_object_key(&mut self.writer).map_err(Error::io));
tri!(self.formatter.begin_object_value(&mut self.writer).map_err(Error::io));
``` -/
def variantOpen (f : Fmt) (variant : Bytes) (st : FState) : W :=
  ((((beginObject f st).andThen (beginObjectKey f true)).andThen (write (escapeStr variant))).andThen
    (endObjectKey f)).andThen (beginObjectValue f)

/-- `SerializeSeq::end` (also tuple, tuple struct):
```rust
Compound::Map { ser, state } => match state {
    State::Empty => Ok(()),
    _ => ser.formatter.end_array(&mut ser.writer).map_err(Error::io),
}
``` -/
def seqEnd (f : Fmt) (state : State) (st : FState) : W :=
  match state with
  | .empty => write [] st
  | _ => endArray f st

/-- `SerializeMap::end` (also struct) -/
def mapEnd (f : Fmt) (state : State) (st : FState) : W :=
  match state with
  | .empty => write [] st
  | _ => endObject f st

/-- `SerializeTupleVariant::end`:
```rust
match state { State::Empty => {} _ => tri!(ser.formatter.end_array(&mut ser.writer).map_err(Error::io)) }
tri!(ser.formatter.end_object_value(&mut ser.writer).map_err(Error::io));
ser.formatter.end_object(&mut ser.writer).map_err(Error::io)
``` -/
def tupleVariantEnd (f : Fmt) (state : State) (st : FState) : W :=
  ((seqEnd f state st).andThen (endObjectValue f)).andThen (endObject f)

/-- `SerializeStructVariant::end`: the same with `end_object` inside -/
def structVariantEnd (f : Fmt) (state : State) (st : FState) : W :=
  ((mapEnd f state st).andThen (endObjectValue f)).andThen (endObject f)

/-- what the caller does once the elements of a seq / tuple / tuple struct opened by `o` have been
    serialised (`res`): propagate the error (`tri!`), or call `end` -/
def finishSeq (f : Fmt) (o : WS) (res : Except SerErr WS) : Except SerErr W :=
  match res with
  | .error e => .error e
  | .ok r => .ok ((W.mk (o.bufs ++ r.bufs) r.st).andThen (seqEnd f r.state))

/-- likewise for a map / struct -/
def finishMap (f : Fmt) (o : WS) (res : Except SerErr WS) : Except SerErr W :=
  match res with
  | .error e => .error e
  | .ok r => .ok ((W.mk (o.bufs ++ r.bufs) r.st).andThen (mapEnd f r.state))

/-- `serialize_newtype_variant` after the payload: `end_object_value`, `end_object` -/
def finishNewtypeVariant (f : Fmt) (a : W) (res : Except SerErr W) : Except SerErr W :=
  match res with
  | .error e => .error e
  | .ok r => .ok (((W.mk (a.bufs ++ r.bufs) r.st).andThen (endObjectValue f)).andThen (endObject f))

/-- tuple variant: `a` = the `{"variant":` prefix, `o` = the inner `serialize_seq` -/
def finishTupleVariant (f : Fmt) (a : W) (o : WS) (res : Except SerErr WS) : Except SerErr W :=
  match res with
  | .error e => .error e
  | .ok r => .ok ((W.mk (a.bufs ++ o.bufs ++ r.bufs) r.st).andThen (tupleVariantEnd f r.state))

/-- struct variant -/
def finishStructVariant (f : Fmt) (a : W) (o : WS) (res : Except SerErr WS) : Except SerErr W :=
  match res with
  | .error e => .error e
  | .ok r => .ok ((W.mk (a.bufs ++ o.bufs ++ r.bufs) r.st).andThen (structVariantEnd f r.state))

/-- `begin_string`, one number/bool buffer, `end_string` (keys of scalar type) -/
def quoted (text : Bytes) : List Bytes := [Gen.serBeginString, text, Gen.serEndString]

/-- `collect_str`: `begin_string`, `format_escaped_str_contents` per `write_str` of the `Display`
    impl (the program records the text as one piece), `end_string` -/
def collectStr (s : Bytes) : List Bytes := [Gen.serBeginString] ++ escapeContents s ++ [Gen.serEndString]

/-- `impl ser::Serializer for MapKeySerializer` (771–1151): what is written for a key, or the error.
    `str`, `unit_variant`, `char`, `collect_str` go to the main serializer's string path;
    `newtype_struct` and `some` forward to `self`; bool / integers / finite floats are wrapped in
    `begin_string` … `end_string`; non-finite floats are `float_key_must_be_finite()`; everything
    else is `key_must_be_a_string()`. None of the `Formatter` methods used touches its state. -/
def keySer (ext : Ext) : SVal → Except SerErr (List Bytes)
  | .str s => .ok (escapeStr s)
  | .unitVariant v => .ok (escapeStr v)
  | .newtypeStruct k => keySer ext k
  | .bool b => .ok (quoted (writeBool b))
  | .int _ n => .ok (quoted (ext.itoa n))
  | .f32 b => if !finite32 b then .error .floatKeyMustBeFinite else .ok (quoted (ext.ryu32 b))
  | .f64 b => if !finite64 b then .error .floatKeyMustBeFinite else .ok (quoted (ext.ryu64 b))
  | .char cp => .ok (escapeStr (encodeUtf8 cp))
  | .some k => keySer ext k
  | .collectStr s => .ok (collectStr s)
  | .bytes _ | .unit | .unitStruct | .newtypeVariant _ _ | .none | .seq _ _ | .tuple _
  | .tupleStruct _ | .tupleVariant _ _ | .map _ _ | .struct_ _ | .structVariant _ _
  | .numberLit _ => .error .keyMustBeAString
termination_by structural p => p

mutual
/-- `value.serialize(&mut *ser)` for the program `value` -/
def ser (ext : Ext) (f : Fmt) : SVal → FState → Except SerErr W
  | .bool b, st => .ok (write [writeBool b] st)
  | .int _ n, st => .ok (write [ext.itoa n] st)
  -- match value.classify() { Nan | Infinite => write_null, _ => write_f32 }
  | .f32 b, st => .ok (write [if finite32 b then ext.ryu32 b else writeNull] st)
  | .f64 b, st => .ok (write [if finite64 b then ext.ryu64 b else writeNull] st)
  | .char cp, st => .ok (write (escapeStr (encodeUtf8 cp)) st)
  | .str s, st => .ok (write (escapeStr s) st)
  | .bytes bs, st => .ok (writeByteArray ext f bs st)
  | .none, st => .ok (write [writeNull] st)
  | .some p, st => ser ext f p st
  | .unit, st => .ok (write [writeNull] st)
  | .unitStruct, st => .ok (write [writeNull] st)
  | .unitVariant v, st => .ok (write (escapeStr v) st)
  | .newtypeStruct p, st => ser ext f p st
  | .newtypeVariant v p, st =>
    let a := variantOpen f v st
    finishNewtypeVariant f a (ser ext f p a.st)
  | .seq hint xs, st =>
    let o := serializeSeq f hint st
    finishSeq f o (serElems ext f xs o.state o.st)
  | .tuple xs, st =>
    let o := serializeSeq f (some xs.length) st
    finishSeq f o (serElems ext f xs o.state o.st)
  | .tupleStruct xs, st =>
    let o := serializeSeq f (some xs.length) st
    finishSeq f o (serElems ext f xs o.state o.st)
  | .tupleVariant v xs, st =>
    let a := variantOpen f v st
    let o := serializeSeq f (some xs.length) a.st
    finishTupleVariant f a o (serElems ext f xs o.state o.st)
  | .map hint es, st =>
    let o := serializeMap f hint st
    finishMap f o (serEntries ext f es o.state o.st)
  | .struct_ fs, st =>
    let o := serializeMap f (some fs.length) st
    finishMap f o (serFields ext f fs o.state o.st)
  | .structVariant v fs, st =>
    let a := variantOpen f v st
    let o := serializeMap f (some fs.length) a.st
    finishStructVariant f a o (serFields ext f fs o.state o.st)
  | .collectStr s, st => .ok (write (collectStr s) st)
  -- arbitrary_precision: Compound::Number → NumberStrEmitter::serialize_str → write_number_str
  | .numberLit s, st => .ok (write [s] st)
termination_by structural p => p

/-- `SerializeSeq::serialize_element` for each element:
```rust
tri!(ser.formatter.begin_array_value(&mut ser.writer, *state == State::First).map_err(Error::io));
*state = State::Rest;
tri!(value.serialize(&mut **ser));
ser.formatter.end_array_value(&mut ser.writer).map_err(Error::io)
``` -/
def serElems (ext : Ext) (f : Fmt) : List SVal → State → FState → Except SerErr WS
  | [], state, st => .ok { bufs := [], state := state, st := st }
  | x :: xs, state, st =>
    let a := beginArrayValue f (state == .first) st
    match ser ext f x a.st with
    | .error e => .error e
    | .ok r =>
      let c := endArrayValue f r.st
      match serElems ext f xs .rest c.st with
      | .error e => .error e
      | .ok t => .ok { bufs := a.bufs ++ r.bufs ++ c.bufs ++ t.bufs, state := t.state, st := t.st }

/-- `SerializeMap::serialize_key` then `serialize_value` for each entry:
```rust
tri!(ser.formatter.begin_object_key(&mut ser.writer, *state == State::First).map_err(Error::io));
*state = State::Rest;
tri!(key.serialize(MapKeySerializer { ser: *ser }));
ser.formatter.end_object_key(&mut ser.writer).map_err(Error::io)
// serialize_value:
tri!(ser.formatter.begin_object_value(&mut ser.writer).map_err(Error::io));
tri!(value.serialize(&mut **ser));
ser.formatter.end_object_value(&mut ser.writer).map_err(Error::io)
``` -/
def serEntries (ext : Ext) (f : Fmt) : List (SVal × SVal) → State → FState → Except SerErr WS
  | [], state, st => .ok { bufs := [], state := state, st := st }
  | (k, v) :: es, state, st =>
    let a := beginObjectKey f (state == .first) st
    match keySer ext k with
    | .error e => .error e
    | .ok kb =>
      let b := (W.mk (a.bufs ++ kb) a.st |>.andThen (endObjectKey f)).andThen (beginObjectValue f)
      match ser ext f v b.st with
      | .error e => .error e
      | .ok r =>
        let c := endObjectValue f r.st
        match serEntries ext f es .rest c.st with
        | .error e => .error e
        | .ok t => .ok { bufs := b.bufs ++ r.bufs ++ c.bufs ++ t.bufs, state := t.state, st := t.st }

/-- `SerializeStruct::serialize_field(key, value)` = `SerializeMap::serialize_entry(self, key, value)`
    with a `&'static str` key (→ `MapKeySerializer::serialize_str` → `format_escaped_str`) -/
def serFields (ext : Ext) (f : Fmt) : List (Bytes × SVal) → State → FState → Except SerErr WS
  | [], state, st => .ok { bufs := [], state := state, st := st }
  | (k, v) :: fs, state, st =>
    let a := beginObjectKey f (state == .first) st
    let b := (W.mk (a.bufs ++ escapeStr k) a.st |>.andThen (endObjectKey f)).andThen (beginObjectValue f)
    match ser ext f v b.st with
    | .error e => .error e
    | .ok r =>
      let c := endObjectValue f r.st
      match serFields ext f fs .rest c.st with
      | .error e => .error e
      | .ok t => .ok { bufs := b.bufs ++ r.bufs ++ c.bufs ++ t.bufs, state := t.state, st := t.st }
end

/-- `to_writer` / `to_vec` / `to_string`: `Serializer::new(writer)` (= `CompactFormatter`) -/
def serCompact (ext : Ext) (p : SVal) : Except SerErr (List Bytes) :=
  (ser ext .compact p FState.init).map (·.bufs)

/-- `Serializer::with_formatter(writer, PrettyFormatter::with_indent(indent))`;
    `to_writer_pretty` is `indent = b"  "` -/
def serPretty (ext : Ext) (indent : Bytes) (p : SVal) : Except SerErr (List Bytes) :=
  (ser ext (.pretty indent) p FState.init).map (·.bufs)

/-- does `current_indent -= 1` underflow while pretty-printing `p`? (then there is no output: panic,
    or wrap-around and an endless loop) -/
def prettyUnderflows (ext : Ext) (indent : Bytes) (p : SVal) : Bool :=
  match ser ext (.pretty indent) p FState.init with
  | .ok r => r.st.underflow
  | .error _ => false

/-! ## `impl Serialize for Value`

```rust
Value::Null => serializer.serialize_unit(),
Value::Bool(b) => serializer.serialize_bool(*b),
Value::Number(n) => n.serialize(serializer),      // PosInt → serialize_u64, NegInt → serialize_i64, Float → serialize_f64
Value::String(s) => serializer.serialize_str(s),
Value::Array(v) => v.serialize(serializer),       // Vec<T>: collect_seq → serialize_seq(Some(len))
Value::Object(m) => { let mut map = tri!(serializer.serialize_map(Some(m.len())));
                      for (k, v) in m { tri!(map.serialize_entry(k, v)); } map.end() }
``` -/
mutual
def ofValue : JV → SVal
  | .null => .unit
  | .bool b => .bool b
  | .num (.pos n) => .int .u64 n
  | .num (.neg n) => .int .i64 n
  | .num (.float b) => .f64 b
  | .num (.lit s) => .numberLit s
  | .str s => .str s
  | .arr xs => .seq (some xs.length) (ofValues xs)
  | .obj kvs => .map (some kvs.length) (ofMembers kvs)
def ofValues : List JV → List SVal
  | [] => []
  | x :: xs => ofValue x :: ofValues xs
def ofMembers : List (Bytes × JV) → List (SVal × SVal)
  | [] => []
  | (k, v) :: kvs => (.str k, ofValue v) :: ofMembers kvs
end

/-- the default indent of `to_string_pretty` / `{:#}`: `PrettyFormatter::new()` = `with_indent(b"  ")` -/
def defaultIndent : Bytes := [0x20, 0x20]

/-- `format!("{}", v)`: `Display for Value` runs `to_writer` into a `fmt::Formatter` adapter -/
def display (ext : Ext) (v : JV) : Except SerErr (List Bytes) := serCompact ext (ofValue v)
/-- `format!("{:#}", v)`: `to_writer_pretty` through the same adapter -/
def displayAlt (ext : Ext) (v : JV) : Except SerErr (List Bytes) := serPretty ext defaultIndent (ofValue v)

end SJ.Model.Ser
