import SJ.Spec.Ieee
import SJ.Spec.Decimal
import SJ.Gen.Pow10
/-!
# The default (non-`float_roundtrip`) number → f64 path of `src/de.rs`

Transcribes `parse_integer`, `parse_number`, `parse_long_integer`, `parse_decimal`,
`parse_decimal_overflow`, `parse_exponent`, `parse_exponent_overflow` and `f64_from_parts` in their
`#[cfg(not(feature = "float_roundtrip"))]` variants, as folds over the digit strings of a literal.
Floats are bit patterns; `*`, `/`, `as f64`, `as f32` are "exact result, rounded once to nearest-even"
(`Spec.Ieee`); a float literal `1eN` in the source is its correctly rounded value (rustc).

The literal is assumed grammatical (`NumLit.WF`; the byte-level grammar errors belong to the
parser machine). `none` = `Err(NumberOutOfRange)`.
-/
namespace SJ.Model.FloatDefault
open SJ SJ.Spec.Ieee SJ.Spec.Decimal

def u64Max : Nat := 2 ^ 64 - 1      -- u64::MAX
def i32Max : Nat := 2 ^ 31 - 1      -- i32::MAX
def i32Min : Int := -(2 ^ 31)       -- i32::MIN

/-- ```
    macro_rules! overflow {
        ($a:ident * 10 + $b:ident, $c:expr) => {
            match $c { c => $a >= c / 10 && ($a > c / 10 || $b > c % 10), }
        };
    }
    ```
    The body is re-translated from the source on every run (`Gen.overflowMacro`);
    `Proofs.FloatDefault.overflow_eq` proves it equal to `a * 10 + b > c` for a digit `b`. -/
def overflow (a b c : Nat) : Bool := Gen.overflowMacro a b c

/-- a float literal `1e<k>` of the source: rustc rounds it correctly (recorded assumption);
    an out-of-range literal does not compile, modelled as `+∞` -/
def litPow10 (k : Nat) : UInt64 := F64.roundOrInf false (10 ^ k) 1

/-- `POW10.get(i)`: entry `i` of the table is the literal `1e<Gen.pow10Exps[i]>` -/
def pow10 (i : Nat) : Option UInt64 := (Gen.pow10Exps[i]?).map litPow10

/-- `exponent.wrapping_abs() as usize` for `exponent : i32` on a 64-bit target:
    `i32::MIN.wrapping_abs() = i32::MIN`, which sign-extends to `2^64 − 2^31` -/
def wrappingAbsUsize (exponent : Int) : Nat :=
  if exponent = i32Min then 2 ^ 64 - 2 ^ 31 else exponent.natAbs

/-- `i32::saturating_add` / `saturating_sub` applied to the exact result -/
def satI32 (x : Int) : Int := if x > (i32Max : Int) then i32Max else if x < i32Min then i32Min else x

inductive LoopResult where
  | done (f : UInt64)
  | outOfRange
  | outOfFuel
deriving Repr, DecidableEq

/-- ```
    let mut f = significand as f64;
    loop {
        match POW10.get(exponent.wrapping_abs() as usize) {
            Some(&pow) => {
                if exponent >= 0 {
                    f *= pow;
                    if f.is_infinite() { return Err(self.error(ErrorCode::NumberOutOfRange)); }
                } else {
                    f /= pow;
                }
                break;
            }
            None => {
                if f == 0.0 { break; }
                if exponent >= 0 { return Err(self.error(ErrorCode::NumberOutOfRange)); }
                f /= 1e308;
                exponent += 308;
            }
        }
    }
    Ok(if positive { f } else { -f })
    ```
    The `None` arm raises a negative `exponent` by `Gen.fromPartsStep`, so `fuelFor exponent` rounds
    suffice (`Proofs.FloatDefault.loop_fuel`: `outOfFuel` is unreachable). -/
def loop : Nat → UInt64 → Int → LoopResult
  | 0, _, _ => .outOfFuel
  | fuel + 1, f, exponent =>
    match pow10 (wrappingAbsUsize exponent) with
    | some pow =>
      if exponent ≥ 0 then
        let f := F64.mul f pow
        if F64.isInf f then .outOfRange else .done f
      else .done (F64.div f pow)
    | none =>
      if F64.isZero f then .done f
      else if exponent ≥ 0 then .outOfRange
      else loop fuel (F64.div f (litPow10 Gen.fromPartsBigExp)) (exponent + Gen.fromPartsStep)

/-- enough rounds for the loop: each `None` round adds `fromPartsStep` to a negative exponent -/
def fuelFor (exponent : Int) : Nat := exponent.natAbs + 2

/-- `f64_from_parts(positive, significand, exponent)` of the default build
    (`significand < 2^64`, `exponent` an `i32`); `none` = `NumberOutOfRange` -/
def f64FromParts (positive : Bool) (significand : Nat) (exponent : Int) : Option UInt64 :=
  match loop (fuelFor exponent) (F64.ofU64 significand) exponent with
  | .done f => some (if positive then f else F64.neg f)
  | .outOfRange => none
  | .outOfFuel => none

/-! ## Digit collection -/

/-- The digit loop of `parse_integer` after the first (non-zero) digit:
    ```
    c @ b'0'..=b'9' => {
        let digit = (c - b'0') as u64;
        if overflow!(significand * 10 + digit, u64::MAX) {
            return Ok(ParserNumber::F64(tri!(self.parse_long_integer(positive, significand))));
        }
        self.eat_char();
        significand = significand * 10 + digit;
    }
    ```
    Returns the significand and the digits not consumed (from the first overflowing one on). -/
def intLoop (significand : Nat) : Bytes → Nat × Bytes
  | [] => (significand, [])
  | c :: cs =>
    let digit := digitVal c
    if overflow significand digit u64Max then (significand, c :: cs)
    else intLoop (significand * 10 + digit) cs

/-- `parse_long_integer` (default build): every remaining integer digit is dropped and counted,
    `exponent += 1` -/
def longIntegerExponent (rest : Bytes) : Int := rest.length

/-- The digit loop of `parse_decimal`:
    ```
    while let c @ b'0'..=b'9' = tri!(self.peek_or_null()) {
        let digit = (c - b'0') as u64;
        if overflow!(significand * 10 + digit, u64::MAX) {
            let exponent = exponent_before_decimal_point + exponent_after_decimal_point;
            return self.parse_decimal_overflow(positive, significand, exponent);
        }
        self.eat_char();
        significand = significand * 10 + digit;
        exponent_after_decimal_point -= 1;
    }
    ```
    `parse_decimal_overflow` (default build) ignores all further digits, so on overflow the loop just
    stops. Returns `(significand, exponent_after_decimal_point)`. -/
def fracLoop (significand : Nat) (expAfter : Int) : Bytes → Nat × Int
  | [] => (significand, expAfter)
  | c :: cs =>
    let digit := digitVal c
    if overflow significand digit u64Max then (significand, expAfter)
    else fracLoop (significand * 10 + digit) (expAfter - 1) cs

/-- The digit loop of `parse_exponent` after its first digit:
    ```
    while let c @ b'0'..=b'9' = tri!(self.peek_or_null()) {
        self.eat_char();
        let digit = (c - b'0') as i32;
        if overflow!(exp * 10 + digit, i32::MAX) {
            let zero_significand = significand == 0;
            return self.parse_exponent_overflow(positive, zero_significand, positive_exp);
        }
        exp = exp * 10 + digit;
    }
    ```
    `none` = the call of `parse_exponent_overflow`. -/
def expLoop (exp : Nat) : Bytes → Option Nat
  | [] => some exp
  | c :: cs =>
    let digit := digitVal c
    if overflow exp digit i32Max then none else expLoop (exp * 10 + digit) cs

/-- what the digit collection hands on -/
inductive Parts where
  /-- `ParserNumber::U64(significand)` -/
  | u64 (n : Nat)
  /-- `ParserNumber::I64(neg)`, `n < 0` -/
  | i64 (n : Int)
  /-- `ParserNumber::F64(-(significand as f64))`: `-0` and negative integers below `i64::MIN` -/
  | negInt (n : Nat)
  /-- a call `f64_from_parts(positive, significand, exponent)` -/
  | parts (positive : Bool) (significand : Nat) (exponent : Int)
  /-- a call `parse_exponent_overflow(positive, zero_significand, positive_exp)` -/
  | expOverflow (positive zeroSignificand positiveExp : Bool)
  /-- not a grammatical literal (cannot come out of `NumLit.parse`) -/
  | invalid
deriving Repr, DecidableEq

/-- `parse_exponent(positive, significand, starting_exp)`:
    ```
    let final_exp = if positive_exp { starting_exp.saturating_add(exp) }
                    else { starting_exp.saturating_sub(exp) };
    self.f64_from_parts(positive, significand, final_exp)
    ``` -/
def parseExponent (l : NumLit) (positive : Bool) (significand : Nat) (startingExp : Int) : Parts :=
  match l.expDigits with
  | [] => .invalid
  | c :: cs =>
    match expLoop (digitVal c) cs with
    | none => .expOverflow positive (significand == 0) (!l.expNeg)
    | some exp =>
      let finalExp := if !l.expNeg then satI32 (startingExp + exp) else satI32 (startingExp - exp)
      .parts positive significand finalExp

/-- `parse_decimal(positive, significand, exponent_before_decimal_point)` followed by
    ```
    match tri!(self.peek_or_null()) {
        b'e' | b'E' => self.parse_exponent(positive, significand, exponent),
        _ => self.f64_from_parts(positive, significand, exponent),
    }
    ```
    (the same continuation ends `parse_decimal_overflow`). -/
def parseDecimal (l : NumLit) (positive : Bool) (significand : Nat) (expBefore : Int) : Parts :=
  let (significand, expAfter) := fracLoop significand 0 l.fracDigits
  let exponent := expBefore + expAfter
  if l.expDigits.isEmpty then .parts positive significand exponent
  else parseExponent l positive significand exponent

/-- `parse_integer(positive)` → `parse_number` / `parse_long_integer`:
    ```
    b'.' => ParserNumber::F64(tri!(self.parse_decimal(positive, significand, 0))),
    b'e' | b'E' => ParserNumber::F64(tri!(self.parse_exponent(positive, significand, 0))),
    _ => {
        if positive { ParserNumber::U64(significand) } else {
            let neg = (significand as i64).wrapping_neg();
            // Convert into a float if we underflow, or on `-0`.
            if neg >= 0 { ParserNumber::F64(-(significand as f64)) } else { ParserNumber::I64(neg) }
        }
    }
    ``` -/
def partsOfLiteral (l : NumLit) : Parts :=
  let positive := !l.neg
  match l.intDigits with
  | [] => .invalid
  | c :: cs =>
    if c == 0x30 && !cs.isEmpty then .invalid else    -- "There can be only one leading '0'."
    let (significand, rest) := intLoop (digitVal c) cs
    if !l.fracDigits.isEmpty then parseDecimal l positive significand (longIntegerExponent rest)
    else if !l.expDigits.isEmpty then parseExponent l positive significand (longIntegerExponent rest)
    else if !rest.isEmpty then .parts positive significand (longIntegerExponent rest)
    else if positive then .u64 significand
    else
      -- `(significand as i64).wrapping_neg() >= 0` ⇔ significand = 0 or significand > 2^63
      if significand = 0 || significand > 2 ^ 63 then .negInt significand
      else .i64 (-(significand : Int))

/-- the `Bool × Nat × Int` view asked for by the parser machine: `(positive, significand, exponent)` of
    the `f64_from_parts` call a float-path literal ends in; `.error ()` when there is no such call -/
def Parts.toExcept : Parts → Except Unit (Bool × Nat × Int)
  | .parts p s e => .ok (p, s, e)
  | _ => .error ()

/-- ```
    fn parse_exponent_overflow(&mut self, positive: bool, zero_significand: bool, positive_exp: bool) -> Result<f64> {
        // Error instead of (plus or minus) infinity.
        if !zero_significand && positive_exp { return Err(self.error(ErrorCode::NumberOutOfRange)); }
        while let b'0'..=b'9' = tri!(self.peek_or_null()) { self.eat_char(); }
        Ok(if positive { 0.0 } else { -0.0 })
    }
    ``` -/
def parseExponentOverflow (positive zeroSignificand positiveExp : Bool) : Option UInt64 :=
  if !zeroSignificand && positiveExp then none else some (F64.zero (!positive))

/-- the `f64` handed to `visit_f64`, or obtained from `visit_u64`/`visit_i64` by `as f64`
    (serde's `f64` visitor; `Value`'s `as_f64` does the same on `PosInt`/`NegInt`) -/
def Parts.toF64 : Parts → Option UInt64
  | .u64 n => some (F64.ofU64 n)
  | .i64 n => some (F64.neg (F64.ofU64 n.natAbs))
  | .negInt n => some (F64.neg (F64.ofU64 n))
  | .parts p s e => f64FromParts p s e
  | .expOverflow p z pe => parseExponentOverflow p z pe
  | .invalid => none

/-- what `from_str::<f64>(literal)` returns in the default build; `none` = `NumberOutOfRange` -/
def floatOfLiteral (l : NumLit) : Option UInt64 := (partsOfLiteral l).toF64

/-- serde's `f32` visitor: `visit_f64(v) = v as f32`, but `visit_u64(v)`/`visit_i64(v)` cast the
    *integer* directly (`v as f32`), not via `f64` -/
def Parts.toF32 : Parts → Option UInt32
  | .u64 n => some (F32.ofU64 n)
  | .i64 n => some (F32.neg (F32.ofU64 n.natAbs))
  | p => p.toF64.map F64.toF32

/-- what `from_str::<f32>(literal)` returns in the default build -/
def f32OfLiteral (l : NumLit) : Option UInt32 := (partsOfLiteral l).toF32

end SJ.Model.FloatDefault
