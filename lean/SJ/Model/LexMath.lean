import SJ.Gen.Lexical
import SJ.Gen.LexMath
/-!
# `src/lexical/math.rs`: the limb arithmetic of `Bigint`

A transcription, function by function, of `math.rs` for the configuration the sandbox compiles
(`build.rs` emits `fast_arithmetic="64"` on every 64-bit target, hence `type Limb = u64; type Wide = u128;`).
A `Vec<Limb>` is a `List Nat` (little-endian, each entry `< 2^64`); every place where the Rust arithmetic
wraps (`overflowing_add`, `overflowing_sub`, `<<` on a limb, the `as_limb` cast) has the wrap written out.

Panics. The Rust can panic in a few places (all unreachable from `serde_json`'s public API, reachable through
the `pub(crate)` trait `Math`): `y[0]` of an empty slice in `long_mul`, `x.len() - xstart` / `x[xstart..]` in
`large::iadd_impl` when `xstart > x.len()`, `x[xstart]` in `small::isub_impl`, `large_powers[bit_length - 1]`
in `imul_pow5`, `r0 << 64` in `u64_to_hi64_*` when the top limb is zero. Functions that can panic return
`Option` and `none` **is** the panic. The arithmetic-overflow ones (`usize` subtraction, shift by the full
width) are panics under `overflow-checks` (debug builds and the profile the harness is compiled with); a plain
release build wraps instead — whenever the model returns `some`, no overflow happened, so both builds agree.
`karatsuba_mul` recurses on a non-structural measure: it takes a fuel argument (`none` when exhausted;
`Proofs/LexMathKara.lean` shows `fuel > y.len()` is always enough).

Import-free (only `SJ.Gen.*`).
-/
namespace SJ.Model.LexMath
open SJ.Gen

abbrev Limbs := List Nat

/-- the number a limb vector denotes: `Σ l[i] · 2^(64 i)` -/
def value : Limbs → Nat
  | [] => 0
  | x :: xs => x + 2 ^ 64 * value xs

/-- every entry is a `u64` -/
def Valid (l : Limbs) : Prop := ∀ x ∈ l, x < 2 ^ 64

/-- executable form of `Valid` (for the driver) -/
def validB (l : Limbs) : Bool := l.all (· < 2 ^ 64)

/-- no most-significant zero limb (`small::normalize` is the identity) -/
def Normal (l : Limbs) : Prop := l.getLast? ≠ some 0

def normalB (l : Limbs) : Bool := l.getLast? != some 0

/-- `as_limb` (`Limb::as_cast`): truncation to `u64` -/
def limb (x : Nat) : Nat := x % 2 ^ 64

/-- arithmetic in `Wide = u128` -/
def wide (x : Nat) : Nat := x % 2 ^ 128

/-! ## `mod scalar` -/
namespace scalar

/-- `pub fn add(x: Limb, y: Limb) -> (Limb, bool) { x.overflowing_add(y) }` -/
def add (x y : Nat) : Nat × Bool := (limb (x + y), decide (2 ^ 64 ≤ x + y))

/-- `pub fn iadd(x: &mut Limb, y: Limb) -> bool { let t = add(*x, y); *x = t.0; t.1 }` — the new `*x` and the flag -/
def iadd (x y : Nat) : Nat × Bool := add x y

/-- `pub fn sub(x: Limb, y: Limb) -> (Limb, bool) { x.overflowing_sub(y) }` -/
def sub (x y : Nat) : Nat × Bool := (limb (x + 2 ^ 64 - y), decide (x < y))

/-- `pub fn isub(x: &mut Limb, y: Limb) -> bool { let t = sub(*x, y); *x = t.0; t.1 }` -/
def isub (x y : Nat) : Nat × Bool := sub x y

/-- ```
    pub fn mul(x: Limb, y: Limb, carry: Limb) -> (Limb, Limb) {
        let z: Wide = as_wide(x) * as_wide(y) + as_wide(carry);
        let bits = mem::size_of::<Limb>() * 8;
        (as_limb(z), as_limb(z >> bits))
    }``` -/
def mul (x y carry : Nat) : Nat × Nat :=
  let z := wide (wide (wide x * wide y) + wide carry)
  (limb z, limb (z >>> 64))

/-- `pub fn imul(x: &mut Limb, y: Limb, carry: Limb) -> Limb { let t = mul(*x, y, carry); *x = t.0; t.1 }` -/
def imul (x y carry : Nat) : Nat × Nat := mul x y carry

end scalar

/-! ## `mod small` -/
namespace small

/-- `pub fn normalize(x: &mut Vec<Limb>) { while x.last() == Some(&0) { x.pop(); } }` -/
def normalize (x : Limbs) : Limbs := (x.reverse.dropWhile (· == 0)).reverse

/-- the loop of `iadd_impl` (and its epilogue), on the limbs from index `size` on:
    `while carry && size < x.len() { carry = scalar::iadd(&mut x[size], 1); size += 1; }  if carry { x.push(1); }` -/
def carryLoop : Bool → Limbs → Limbs
  | false, xs => xs
  | true, [] => [1]
  | true, x :: xs => let t := scalar.iadd x 1; t.1 :: carryLoop t.2 xs

/-- ```
    pub fn iadd_impl(x: &mut Vec<Limb>, y: Limb, xstart: usize) {
        if x.len() <= xstart { x.push(y); }
        else {
            let mut carry = scalar::iadd(&mut x[xstart], y);
            let mut size = xstart + 1;
            while carry && size < x.len() { carry = scalar::iadd(&mut x[size], 1); size += 1; }
            if carry { x.push(1); }
        }
    }``` -/
def iaddImpl (x : Limbs) (y : Nat) (xstart : Nat) : Limbs :=
  if x.length ≤ xstart then x ++ [y]
  else
    match x.drop xstart with
    | [] => x ++ [y]
    | xi :: rest => let t := scalar.iadd xi y; x.take xstart ++ t.1 :: carryLoop t.2 rest

/-- `pub fn iadd(x: &mut Vec<Limb>, y: Limb) { iadd_impl(x, y, 0); }` -/
def iadd (x : Limbs) (y : Nat) : Limbs := iaddImpl x y 0

/-- the loop of `isub_impl`: `while carry && size < x.len() { carry = scalar::isub(&mut x[size], 1); size += 1; }` -/
def borrowLoop : Bool → Limbs → Limbs
  | false, xs => xs
  | true, [] => []
  | true, x :: xs => let t := scalar.isub x 1; t.1 :: borrowLoop t.2 xs

/-- ```
    pub fn isub_impl(x: &mut Vec<Limb>, y: Limb, xstart: usize) {
        debug_assert!(x.len() > xstart && (x[xstart] >= y || x.len() > xstart + 1));
        let mut carry = scalar::isub(&mut x[xstart], y);
        let mut size = xstart + 1;
        while carry && size < x.len() { carry = scalar::isub(&mut x[size], 1); size += 1; }
        normalize(x);
    }```  `x[xstart]` panics when `xstart ≥ x.len()`. -/
def isubImpl (x : Limbs) (y : Nat) (xstart : Nat) : Option Limbs :=
  match x.drop xstart with
  | [] => none
  | xi :: rest => let t := scalar.isub xi y; some (normalize (x.take xstart ++ t.1 :: borrowLoop t.2 rest))

/-- the loop of `imul` and its epilogue:
    `for xi in &mut *x { carry = scalar::imul(xi, y, carry); }  if carry != 0 { x.push(carry); }` -/
def imulLoop (y : Nat) : Nat → Limbs → Limbs
  | carry, [] => if carry != 0 then [carry] else []
  | carry, x :: xs => let t := scalar.imul x y carry; t.1 :: imulLoop y t.2 xs

/-- ```
    pub fn imul(x: &mut Vec<Limb>, y: Limb) {
        let mut carry: Limb = 0;
        for xi in &mut *x { carry = scalar::imul(xi, y, carry); }
        if carry != 0 { x.push(carry); }
    }``` -/
def imul (x : Limbs) (y : Nat) : Limbs := imulLoop y 0 x

/-- `pub fn mul(x: &[Limb], y: Limb) -> Vec<Limb> { let mut z = Vec::default(); z.extend_from_slice(x); imul(&mut z, y); z }` -/
def mul (x : Limbs) (y : Nat) : Limbs := imul x y

/-- `u64::leading_zeros` -/
def lz64 (x : Nat) : Nat := if x == 0 then 64 else 63 - Nat.log2 x

/-- `pub fn leading_zeros(x: &[Limb]) -> usize { x.last().map_or(0, |x| x.leading_zeros() as usize) }` -/
def leadingZeros (x : Limbs) : Nat :=
  match x.getLast? with
  | none => 0
  | some l => lz64 l

/-- ```
    pub fn bit_length(x: &[Limb]) -> usize {
        let bits = mem::size_of::<Limb>() * 8;
        let nlz = leading_zeros(x);
        bits.checked_mul(x.len()).map_or_else(usize::max_value, |v| v - nlz)
    }```  (vectors of `2^58` limbs, where `checked_mul` fails, are out of scope) -/
def bitLength (x : Limbs) : Nat := 64 * x.length - leadingZeros x

/-- the loop of `ishl_bits` and its epilogue:
    ```
    for xi in &mut *x { let tmp = *xi; *xi <<= lshift; *xi |= prev >> rshift; prev = tmp; }
    let carry = prev >> rshift;
    if carry != 0 { x.push(carry); }``` -/
def ishlBitsLoop (n : Nat) : Nat → Limbs → Limbs
  | prev, [] => let carry := prev >>> (64 - n); if carry != 0 then [carry] else []
  | prev, x :: xs => (limb (x <<< n) ||| (prev >>> (64 - n))) :: ishlBitsLoop n x xs

/-- ```
    pub fn ishl_bits(x: &mut Vec<Limb>, n: usize) {
        let bits = mem::size_of::<Limb>() * 8;
        debug_assert!(n < bits);
        if n == 0 { return; }
        let rshift = bits - n;  let lshift = n;  let mut prev: Limb = 0;
        … the loop …
    }``` -/
def ishlBits (x : Limbs) (n : Nat) : Limbs := if n == 0 then x else ishlBitsLoop n 0 x

/-- `pub fn ishl_limbs(x: &mut Vec<Limb>, n: usize) { debug_assert!(n != 0); if !x.is_empty() { x.reserve(n); x.splice(..0, iter::repeat(0).take(n)); } }` -/
def ishlLimbs (x : Limbs) (n : Nat) : Limbs := if !x.isEmpty then List.replicate n 0 ++ x else x

/-- ```
    pub fn ishl(x: &mut Vec<Limb>, n: usize) {
        let bits = mem::size_of::<Limb>() * 8;
        let rem = n % bits;  let div = n / bits;
        ishl_bits(x, rem);
        if div != 0 { ishl_limbs(x, div); }
    }``` -/
def ishl (x : Limbs) (n : Nat) : Limbs :=
  let rem := n % 64
  let div := n / 64
  let x := ishlBits x rem
  if div != 0 then ishlLimbs x div else x

end small

/-! ## `mod large` -/
namespace large

/-- the loop of `compare` over `x.iter().rev().zip(y.iter().rev())` -/
def compareLoop : List (Nat × Nat) → Ordering
  | [] => .eq
  | (xi, yi) :: r => if xi > yi then .gt else if xi < yi then .lt else compareLoop r

/-- ```
    pub fn compare(x: &[Limb], y: &[Limb]) -> cmp::Ordering {
        if x.len() > y.len() { Greater } else if x.len() < y.len() { Less }
        else {
            for (&xi, &yi) in x.iter().rev().zip(y.iter().rev()) {
                if xi > yi { return Greater; } else if xi < yi { return Less; }
            }
            Equal
        }
    }``` -/
def compare (x y : Limbs) : Ordering :=
  if x.length > y.length then .gt
  else if x.length < y.length then .lt
  else compareLoop (x.reverse.zip y.reverse)

/-- `pub fn less(x, y) -> bool { compare(x, y) == cmp::Ordering::Less }` -/
def less (x y : Limbs) : Bool := compare x y == .lt

/-- `pub fn greater_equal(x, y) -> bool { !less(x, y) }` -/
def greaterEqual (x y : Limbs) : Bool := !less x y

/-- `Vec::resize(n, 0)` -/
def resize (x : Limbs) (n : Nat) : Limbs := if n ≤ x.length then x.take n else x ++ List.replicate (n - x.length) 0

/-- the loop of `iadd_impl` over `x[xstart..].iter_mut().zip(y.iter())`:
    ```
    let mut tmp = scalar::iadd(xi, *yi);
    if carry { tmp |= scalar::iadd(xi, 1); }
    carry = tmp;```  returns the new `x[xstart..]` and the final carry -/
def iaddLoop : Limbs → Limbs → Bool → Limbs × Bool
  | xi :: xs, yi :: ys, carry =>
    let t := scalar.iadd xi yi
    let t := if carry then (let u := scalar.iadd t.1 1; (u.1, t.2 || u.2)) else t
    let r := iaddLoop xs ys t.2
    (t.1 :: r.1, r.2)
  | xs, _, carry => (xs, carry)

/-- ```
    pub fn iadd_impl(x: &mut Vec<Limb>, y: &[Limb], xstart: usize) {
        if y.len() > x.len() - xstart { x.resize(y.len() + xstart, 0); }
        let mut carry = false;
        for (xi, yi) in x[xstart..].iter_mut().zip(y.iter()) { … }
        if carry { small::iadd_impl(x, 1, y.len() + xstart); }
    }```  `x.len() - xstart` (checked) / `x[xstart..]` panic when `xstart > x.len()`. -/
def iaddImpl (x y : Limbs) (xstart : Nat) : Option Limbs :=
  if x.length < xstart then none
  else
    let x := if y.length > x.length - xstart then resize x (y.length + xstart) else x
    let r := iaddLoop (x.drop xstart) y false
    let x := x.take xstart ++ r.1
    some (if r.2 then small.iaddImpl x 1 (y.length + xstart) else x)

/-- `pub fn iadd(x: &mut Vec<Limb>, y: &[Limb]) { iadd_impl(x, y, 0); }` (`xstart = 0` never panics) -/
def iadd (x y : Limbs) : Limbs := (iaddImpl x y 0).getD []

/-- `pub fn add(x: &[Limb], y: &[Limb]) -> Vec<Limb> { let mut z = Vec::default(); z.extend_from_slice(x); iadd(&mut z, y); z }` -/
def add (x y : Limbs) : Limbs := iadd x y

/-- the loop of `isub` over `x.iter_mut().zip(y.iter())`:
    `let mut tmp = scalar::isub(xi, *yi); if carry { tmp |= scalar::isub(xi, 1); } carry = tmp;` -/
def isubLoop : Limbs → Limbs → Bool → Limbs × Bool
  | xi :: xs, yi :: ys, carry =>
    let t := scalar.isub xi yi
    let t := if carry then (let u := scalar.isub t.1 1; (u.1, t.2 || u.2)) else t
    let r := isubLoop xs ys t.2
    (t.1 :: r.1, r.2)
  | xs, _, carry => (xs, carry)

/-- ```
    pub fn isub(x: &mut Vec<Limb>, y: &[Limb]) {
        debug_assert!(greater_equal(x, y));
        let mut carry = false;
        for (xi, yi) in x.iter_mut().zip(y.iter()) { … }
        if carry { small::isub_impl(x, 1, y.len()); } else { small::normalize(x); }
    }``` -/
def isub (x y : Limbs) : Option Limbs :=
  let r := isubLoop x y false
  if r.2 then small.isubImpl r.1 1 y.length else some (small.normalize r.1)

/-- the loop of `long_mul`: `for (i, &yi) in y[1..].iter().enumerate() { let zi = small::mul(x, yi); iadd_impl(&mut z, &zi, i + 1); }` -/
def longMulLoop (x : Limbs) : Limbs → Nat → Limbs → Option Limbs
  | [], _, z => some z
  | yi :: ys, i, z => do
    let zi := small.mul x yi
    let z ← iaddImpl z zi (i + 1)
    longMulLoop x ys (i + 1) z

/-- ```
    fn long_mul(x: &[Limb], y: &[Limb]) -> Vec<Limb> {
        let mut z: Vec<Limb> = small::mul(x, y[0]);
        z.resize(x.len() + y.len(), 0);
        for (i, &yi) in y[1..].iter().enumerate() { … }
        small::normalize(&mut z);
        z
    }```  `y[0]` panics on an empty `y`. -/
def longMul (x y : Limbs) : Option Limbs :=
  match y with
  | [] => none
  | y0 :: ys => do
    let z := small.mul x y0
    let z := resize z (x.length + y.length)
    let z ← longMulLoop x ys 0 z
    some (small.normalize z)

/-- `pub fn karatsuba_split(z: &[Limb], m: usize) -> (&[Limb], &[Limb]) { (&z[..m], &z[m..]) }`; the slices panic when
    `m > z.len()` -/
def karatsubaSplit (z : Limbs) (m : Nat) : Option (Limbs × Limbs) :=
  if z.length < m then none else some (z.take m, z.drop m)

/-- the loop of `karatsuba_uneven_mul`, with the multiplication it calls as a parameter (it is `karatsuba_mul`):
    ```
    while !y.is_empty() {
        let m = x.len().min(y.len());
        let (yl, yh) = karatsuba_split(y, m);
        let prod = karatsuba_mul(x, yl);
        iadd_impl(&mut result, &prod, start);
        y = yh;  start += m;
    }```  `k` bounds the number of iterations (`y.len() + 1` is enough unless `x` is empty, and then `karatsuba_mul(x, [])`
    panics in the first iteration). -/
def unevenLoop (kmul : Limbs → Limbs → Option Limbs) (x : Limbs) : Nat → Limbs → Limbs → Nat → Option Limbs
  | 0, _, _, _ => none
  | k + 1, y, result, start =>
    if y.isEmpty then some result
    else do
      let m := min x.length y.length
      let (yl, yh) ← karatsubaSplit y m
      let prod ← kmul x yl
      let result ← iaddImpl result prod start
      unevenLoop kmul x k yh result (start + m)

/-- ```
    fn karatsuba_uneven_mul(x: &[Limb], mut y: &[Limb]) -> Vec<Limb> {
        let mut result = Vec::<Limb>::default();
        result.resize(x.len() + y.len(), 0);
        let mut start = 0;
        while !y.is_empty() { … }
        small::normalize(&mut result);
        result
    }``` -/
def karatsubaUnevenMul (kmul : Limbs → Limbs → Option Limbs) (x y : Limbs) : Option Limbs := do
  let result := resize [] (x.length + y.length)
  let result ← unevenLoop kmul x (y.length + 1) y result 0
  some (small.normalize result)

/-- ```
    fn karatsuba_mul(x: &[Limb], y: &[Limb]) -> Vec<Limb> {
        if y.len() <= KARATSUBA_CUTOFF { long_mul(x, y) }
        else if x.len() < y.len() / 2 { karatsuba_uneven_mul(x, y) }
        else {
            let m = y.len() / 2;
            let (xl, xh) = karatsuba_split(x, m);
            let (yl, yh) = karatsuba_split(y, m);
            let sumx = add(xl, xh);
            let sumy = add(yl, yh);
            let z0 = karatsuba_mul(xl, yl);
            let mut z1 = karatsuba_mul(&sumx, &sumy);
            let z2 = karatsuba_mul(xh, yh);
            isub(&mut z1, &z2);
            isub(&mut z1, &z0);
            let len = z0.len().max(m + z1.len()).max(2 * m + z2.len());
            let mut result = z0;
            result.reserve_exact(len - result.len());
            iadd_impl(&mut result, &z1, m);
            iadd_impl(&mut result, &z2, 2 * m);
            result
        }
    }```  (`reserve_exact` only changes the capacity.) The first argument is the fuel. -/
def karatsubaMul : Nat → Limbs → Limbs → Option Limbs
  | 0, _, _ => none
  | fuel + 1, x, y =>
    if y.length ≤ karatsubaCutoff then longMul x y
    else if x.length < y.length / 2 then karatsubaUnevenMul (karatsubaMul fuel) x y
    else do
      let m := y.length / 2
      let (xl, xh) ← karatsubaSplit x m
      let (yl, yh) ← karatsubaSplit y m
      let sumx := add xl xh
      let sumy := add yl yh
      let z0 ← karatsubaMul fuel xl yl
      let z1 ← karatsubaMul fuel sumx sumy
      let z2 ← karatsubaMul fuel xh yh
      let z1 ← isub z1 z2
      let z1 ← isub z1 z0
      let result := z0
      let result ← iaddImpl result z1 m
      let result ← iaddImpl result z2 (2 * m)
      some result

/-- enough fuel for `karatsuba_mul(x, y)`: the length of `y` strictly decreases along every recursive call -/
def karatsubaFuel (_x y : Limbs) : Nat := y.length + 1

/-- `fn karatsuba_mul_fwd(x, y) -> Vec<Limb> { if x.len() < y.len() { karatsuba_mul(x, y) } else { karatsuba_mul(y, x) } }` -/
def karatsubaMulFwd (x y : Limbs) : Option Limbs :=
  if x.length < y.length then karatsubaMul (karatsubaFuel x y) x y else karatsubaMul (karatsubaFuel y x) y x

/-- `pub fn imul(x: &mut Vec<Limb>, y: &[Limb]) { if y.len() == 1 { small::imul(x, y[0]); } else { *x = karatsuba_mul_fwd(x, y); } }` -/
def imul (x y : Limbs) : Option Limbs :=
  match y with
  | [y0] => some (small.imul x y0)
  | _ => karatsubaMulFwd x y

/-- `large::mul` does not exist in `math.rs`; the test entry point of the harness is `imul` on a copy -/
def mul (x y : Limbs) : Option Limbs := imul x y

end large

/-! ## `small::imul_pow5` (after `mod large`: it calls `large::imul`) -/
namespace small

/-- `while n >= step { imul(x, power); n -= step; }` (fuel = the initial `n`) -/
def pow5SmallLoop (step power : Nat) : Nat → Limbs → Nat → Limbs × Nat
  | 0, x, n => (x, n)
  | fuel + 1, x, n => if n ≥ step then pow5SmallLoop step power fuel (imul x power) (n - step) else (x, n)

/-- ```
    while n != 0 {
        if n & bit != 0 { debug_assert!(idx < large_powers.len()); large::imul(x, large_powers[idx]); n ^= bit; }
        idx += 1;  bit <<= 1;
    }```  (`n < 2^32`: 33 iterations are enough; `large_powers[idx]` panics when out of range) -/
def pow5LargeLoop : Nat → Limbs → Nat → Nat → Nat → Option Limbs
  | 0, x, _, _, n => if n == 0 then some x else none
  | fuel + 1, x, idx, bit, n =>
    if n == 0 then some x
    else if n &&& bit != 0 then do
      let p ← largePow5Limbs[idx]?
      let x ← large.imul x p
      pow5LargeLoop fuel x (idx + 1) (bit <<< 1) (n ^^^ bit)
    else pow5LargeLoop fuel x (idx + 1) (bit <<< 1) n

/-- ```
    pub fn imul_pow5(x: &mut Vec<Limb>, n: u32) {
        use super::large::KARATSUBA_CUTOFF;
        let small_powers = POW5_LIMB;  let large_powers = large_powers::POW5;
        if n == 0 { return; }
        let bit_length = 32 - n.leading_zeros() as usize;
        debug_assert!(bit_length != 0 && bit_length <= large_powers.len());
        if x.len() + large_powers[bit_length - 1].len() < 2 * KARATSUBA_CUTOFF {
            let step = small_powers.len() - 1;  let power = small_powers[step];  let mut n = n as usize;
            while n >= step { imul(x, power); n -= step; }
            imul(x, small_powers[n]);
        } else {
            let mut idx: usize = 0;  let mut bit: usize = 1;  let mut n = n as usize;
            while n != 0 { … }
        }
    }```  `large_powers[bit_length - 1]` panics for `n ≥ 2^14`. -/
def imulPow5 (x : Limbs) (n : Nat) : Option Limbs :=
  if n == 0 then some x
  else
    let bitLength := Nat.log2 n + 1
    match largePow5Limbs[bitLength - 1]? with
    | none => none
    | some lp =>
      if x.length + lp.length < 2 * karatsubaCutoff then
        let step := pow5_64.length - 1
        let power := pow5_64.getD step 0
        let r := pow5SmallLoop step power n x n
        some (imul r.1 (pow5_64.getD r.2 0))
      else pow5LargeLoop 33 x 0 1 n

end small

/-! ## `HI64` -/

/-- `pub fn nonzero<T: Integer>(x: &[T], rindex: usize) -> bool { let len = x.len(); let slc = &x[..len - rindex]; slc.iter().rev().any(|&x| x != T::ZERO) }` -/
def nonzero (x : Limbs) (rindex : Nat) : Bool := (x.take (x.length - rindex)).reverse.any (· != 0)

/-- `fn u64_to_hi64_1(r0: u64) -> (u64, bool) { debug_assert!(r0 != 0); let ls = r0.leading_zeros(); (r0 << ls, false) }`;
    `r0 << 64` (for `r0 = 0`) is a checked overflow -/
def u64ToHi64_1 (r0 : Nat) : Option (Nat × Bool) :=
  let ls := small.lz64 r0
  if 64 ≤ ls then none else some (limb (r0 <<< ls), false)

/-- ```
    fn u64_to_hi64_2(r0: u64, r1: u64) -> (u64, bool) {
        debug_assert!(r0 != 0);
        let ls = r0.leading_zeros();  let rs = 64 - ls;
        let v = match ls { 0 => r0, _ => (r0 << ls) | (r1 >> rs), };
        let n = r1 << ls != 0;
        (v, n)
    }``` -/
def u64ToHi64_2 (r0 r1 : Nat) : Option (Nat × Bool) :=
  let ls := small.lz64 r0
  let rs := 64 - ls
  if 64 ≤ ls then none
  else
    let v := if ls == 0 then r0 else limb (r0 <<< ls) ||| (r1 >>> rs)
    let n := limb (r1 <<< ls) != 0
    some (v, n)

/-- `impl Hi64<u64> for [u64]`:
    ```
    fn hi64_1(&self) -> (u64, bool) { let r0 = self[0]; u64_to_hi64_1(r0) }
    fn hi64_2(&self) -> (u64, bool) { let r0 = self[self.len() - 1]; let r1 = self[self.len() - 2];
                                      let (v, n) = u64_to_hi64_2(r0, r1); (v, n || nonzero(self, 2)) }
    fn hi64_3(&self) -> (u64, bool) { self.hi64_2() }
    fn hi64(&self) -> (u64, bool) { match self.as_ref().len() { 0 => (0, false), 1 => self.hi64_1(), 2 => self.hi64_2(), _ => self.hi64_3() } }
    ``` -/
def hi64 (x : Limbs) : Option (Nat × Bool) :=
  match x.reverse with
  | [] => some (0, false)
  | [r0] => u64ToHi64_1 r0
  | r0 :: r1 :: _ => do
    let (v, n) ← u64ToHi64_2 r0 r1
    some (v, n || nonzero x 2)

/-! ## `trait Math` (the operations `bhcomp.rs` uses on `Bigint`) -/
namespace Math

/-- `fn compare(&self, y: &Self) -> cmp::Ordering { large::compare(self.data(), y.data()) }` -/
def compare (x y : Limbs) : Ordering := large.compare x y
/-- `fn hi64(&self) -> (u64, bool) { self.data().as_slice().hi64() }` -/
def hi64 (x : Limbs) : Option (Nat × Bool) := LexMath.hi64 x
/-- `fn bit_length(&self) -> usize { small::bit_length(self.data()) }` -/
def bitLength (x : Limbs) : Nat := small.bitLength x
/-- `fn normalize(&mut self) { small::normalize(self.data_mut()); }` -/
def normalize (x : Limbs) : Limbs := small.normalize x
/-- `fn from_u64(x: u64) -> Self { let mut v = Self::default(); let slc = split_u64(x); v.data_mut().extend_from_slice(&slc); v.normalize(); v }`
    with `fn split_u64(x: u64) -> [Limb; 1] { [as_limb(x)] }` -/
def fromU64 (x : Nat) : Limbs := normalize [limb x]
/-- `fn iadd_small(&mut self, y: Limb) { small::iadd(self.data_mut(), y); }` -/
def iaddSmall (x : Limbs) (y : Nat) : Limbs := small.iadd x y
/-- `fn imul_small(&mut self, y: Limb) { small::imul(self.data_mut(), y); }` -/
def imulSmall (x : Limbs) (y : Nat) : Limbs := small.imul x y
/-- `fn ishl(&mut self, n: usize) { small::ishl(self.data_mut(), n); }` -/
def ishl (x : Limbs) (n : Nat) : Limbs := small.ishl x n
/-- `fn imul_pow2(&mut self, n: u32) { self.ishl(n as usize); }` -/
def imulPow2 (x : Limbs) (n : Nat) : Limbs := ishl x n
/-- `fn imul_pow5(&mut self, n: u32) { small::imul_pow5(self.data_mut(), n); }` -/
def imulPow5 (x : Limbs) (n : Nat) : Option Limbs := small.imulPow5 x n
/-- `fn imul_pow10(&mut self, n: u32) { self.imul_pow5(n); self.imul_pow2(n); }` -/
def imulPow10 (x : Limbs) (n : Nat) : Option Limbs := (imulPow5 x n).map (imulPow2 · n)

end Math

end SJ.Model.LexMath
