import SJ.Spec.Utf8
import SJ.Model.Ser
/-!
# `impl Display for Value` — the `io::Write` adapter over a `fmt::Formatter` (C03)

Transcribes `src/value/mod.rs` 197–257 and `impl Display for Number` (`src/number.rs` 347–361).

```rust
impl Display for Value {
    fn fmt(&self, f: &mut fmt::Formatter) -> fmt::Result {
        struct WriterFormatter<'a, 'b: 'a> { inner: &'a mut fmt::Formatter<'b> }
        impl<'a, 'b> io::Write for WriterFormatter<'a, 'b> {
            fn write(&mut self, buf: &[u8]) -> io::Result<usize> {
                // Safety: the serializer below only emits valid utf8 when using the default formatter.
                let s = unsafe { str::from_utf8_unchecked(buf) };
                tri!(self.inner.write_str(s).map_err(io_error));
                Ok(buf.len())
            }
            fn flush(&mut self) -> io::Result<()> { Ok(()) }
        }
        fn io_error(_: fmt::Error) -> io::Error { io::Error::new(io::ErrorKind::Other, "fmt error") }
        let alternate = f.alternate();
        let mut wr = WriterFormatter { inner: f };
        if alternate { super::ser::to_writer_pretty(&mut wr, self).map_err(|_| fmt::Error) }   // {:#}
        else         { super::ser::to_writer(&mut wr, self).map_err(|_| fmt::Error) }          // {}
    }
}
```

**The sink.** A `fmt::Formatter` is, for this code, its `alternate` flag and the `fmt::Write` it
forwards `write_str` to (`Formatter::write_str` is `self.buf.write_str(data)`). The sink is modelled as
the list of `&str` fragments it has accepted in *successful* `write_str` calls, in order, plus an
arbitrary *policy* deciding from that list and the next fragment whether the call fails
(`Err(fmt::Error)`). `String` (the sink of `format!` / `to_string`) never fails; a sink with a byte
budget `m` (the analogue of `Model.IoFault.writeFault`, but `write_str` is all-or-nothing: a `&str`
cannot be split at an arbitrary byte) is `Sink.budget m`. What a sink does with the fragment of the
failing call is its own business and is not recorded.

**`from_utf8_unchecked`.** Its safety precondition — the buffer is valid UTF-8 *on its own* — is
modelled like `current_indent -= 1` in `Model.Ser`: a sticky flag `ub` is set when `write` is called
with a buffer that is not valid UTF-8. `SJ.Props.C03.c03_display_utf8_safe` shows it is never set.

**`write_all`** (std's default, by its documented code):
```rust
while !buf.is_empty() {
    match self.write(buf) {
        Ok(0) => return Err(io::const_error!(ErrorKind::WriteZero, "failed to write whole buffer")),
        Ok(n) => buf = &buf[n..],
        Err(ref e) if e.is_interrupted() => {}
        Err(e) => return Err(e),
    }
}
Ok(())
```
so an empty buffer makes **no** `write` call, and since `WriterFormatter::write` returns either
`Ok(buf.len())` (never 0 for a non-empty buffer) or an error of kind `Other` (never `Interrupted`), a
non-empty buffer makes exactly one. The serializer `tri!`s every `write_all`, so the run over the
buffer list of `Model.Ser` stops at the first failure; `to_writer*` never call `flush`.
Import-free (only `SJ.Spec`, `SJ.Model`).
-/
namespace SJ.Model.Display
open SJ SJ.Model.Ser

/-- `fmt::Error` (a unit struct) -/
inductive FmtError where
  | error
deriving DecidableEq, Repr, Inhabited

/-- the `io::Error` made by `io_error`: `io::Error::new(io::ErrorKind::Other, "fmt error")` -/
inductive IoError where
  | other
deriving DecidableEq, Repr, Inhabited

/-- the `fmt::Write` behind the `fmt::Formatter`: fragments accepted so far; `fails acc frag` = the
    `write_str(frag)` call made when `acc` has been accepted returns `Err(fmt::Error)` -/
structure Sink where
  accepted : List Bytes := []
  fails : List Bytes → Bytes → Bool

/-- a sink that never fails (`String`) -/
def Sink.unbounded : Sink := { fails := fun _ _ => false }

/-- a sink that accepts whole fragments while their total length stays within `m` bytes -/
def Sink.budget (m : Nat) : Sink := { fails := fun acc frag => decide (m < acc.flatten.length + frag.length) }

/-- `self.inner.write_str(s)` -/
def Sink.writeStr (s : Sink) (frag : Bytes) : Except FmtError Sink :=
  if s.fails s.accepted frag then .error .error else .ok { s with accepted := s.accepted ++ [frag] }

/-- the reference behaviour the adapter is measured against: hand the fragments to the sink one
    `write_str` at a time until one is rejected — (the sink afterwards, was one rejected?) -/
def Sink.feed (s : Sink) : List Bytes → Sink × Bool
  | [] => (s, false)
  | f :: fs =>
    match s.writeStr f with
    | .error _ => (s, true)
    | .ok s' => s'.feed fs

/-- the `&str` fragments a buffer list becomes: `write_all` of an empty buffer calls nothing -/
def frags (bufs : List Bytes) : List Bytes := bufs.filter (fun b => !b.isEmpty)

/-- `WriterFormatter { inner }`, plus the flag (not a Rust field): `from_utf8_unchecked` has been applied
    to a buffer that is not valid UTF-8 -/
structure Adapter where
  inner : Sink
  ub : Bool := false

/-- `WriterFormatter::write`: the result is `Ok(buf.len())` or `Err(io_error(fmt::Error))` -/
def Adapter.write (a : Adapter) (buf : Bytes) : Adapter × Except IoError Nat :=
  -- let s = unsafe { str::from_utf8_unchecked(buf) };
  let a := { a with ub := a.ub || !Spec.Utf8.validUtf8 buf }
  -- tri!(self.inner.write_str(s).map_err(io_error));
  match a.inner.writeStr buf with
  | .error _ => (a, .error .other)
  | .ok s => ({ a with inner := s }, .ok buf.length)

/-- `WriterFormatter::flush`: `Ok(())` -/
def Adapter.flush (a : Adapter) : Adapter × Except IoError Unit := (a, .ok ())

/-- `io::Write::write_all` over this `write` (see the module comment) -/
def Adapter.writeAll (a : Adapter) (buf : Bytes) : Adapter × Except IoError Unit :=
  if buf.isEmpty then (a, .ok ())
  else match a.write buf with
    | (a', .ok _) => (a', .ok ())          -- `n = buf.len()`: `&buf[n..]` is empty, the loop ends
    | (a', .error e) => (a', .error e)     -- kind `Other`: not retried

/-- the serializer's `write_all` calls in order, each under `tri!` -/
def Adapter.writeBufs (a : Adapter) : List Bytes → Adapter × Except IoError Unit
  | [] => (a, .ok ())
  | b :: bs =>
    match a.writeAll b with
    | (a', .ok ()) => a'.writeBufs bs
    | (a', .error e) => (a', .error e)

/-- `<Value as Display>::fmt(&v, f)` where `f.alternate() = alternate` and `f` forwards to `sink`.
    `to_writer` = `Serializer::new`, `to_writer_pretty` = `Serializer::pretty` (`PrettyFormatter::new()`,
    indent `b"  "`); `.map_err(|_| fmt::Error)` turns the `Error::io` of a failed `write_all` — and a
    serializer error, of which a `Value` has none (`c03_display` / `c03_error_iff`: that arm is dead) —
    into `fmt::Error`. Returns the adapter afterwards (its sink and the `ub` flag). -/
def fmtValue (ext : Ext) (v : JV) (alternate : Bool) (sink : Sink) : Adapter × Except FmtError Unit :=
  let wr : Adapter := { inner := sink }
  match (if alternate then serPretty ext defaultIndent (ofValue v) else serCompact ext (ofValue v)) with
  | .error _ => (wr, .error .error)
  | .ok bufs =>
    match wr.writeBufs bufs with
    | (wr', .ok ()) => (wr', .ok ())
    | (wr', .error _) => (wr', .error .error)

/-- `format!("{}", v)` (`alternate = false`) / `format!("{:#}", v)`: the sink is a fresh `String`;
    `none` = the "a Display implementation returned an error unexpectedly" panic of `ToString` / `format!` -/
def format (ext : Ext) (v : JV) (alternate : Bool) : Option Bytes :=
  match fmtValue ext v alternate Sink.unbounded with
  | (wr, .ok ()) => some wr.inner.accepted.flatten
  | (_, .error _) => none

/-- `serde_json::to_string(&v)`: `to_vec` (compact serializer into a `Vec<u8>`) then
    `String::from_utf8_unchecked` — the bytes are the concatenated buffers -/
def toString (ext : Ext) (v : JV) : Except SerErr Bytes := (serCompact ext (ofValue v)).map List.flatten

/-- `serde_json::to_string_pretty(&v)`: `PrettyFormatter::new()`, two-space indent -/
def toStringPretty (ext : Ext) (v : JV) : Except SerErr Bytes :=
  (serPretty ext defaultIndent (ofValue v)).map List.flatten

/-! ## `impl Display for Number`

```rust
#[cfg(not(feature = "arbitrary_precision"))]
fn fmt(&self, formatter: &mut fmt::Formatter) -> fmt::Result {
    match self.n {
        N::PosInt(u) => formatter.write_str(itoa::Buffer::new().format(u)),
        N::NegInt(i) => formatter.write_str(itoa::Buffer::new().format(i)),
        N::Float(f) => formatter.write_str(ryu::Buffer::new().format_finite(f)),
    }
}
#[cfg(feature = "arbitrary_precision")]
fn fmt(&self, formatter: &mut fmt::Formatter) -> fmt::Result { Display::fmt(&self.n, formatter) }
```
`Display for String` is `f.pad(s)`, which for `{}` (no width, no precision) is `f.write_str(s)`; the
default build ignores width / precision altogether. One `write_str` call in every case. -/

/-- the text of a `Number` in either representation (`Model.NumberAp.display` for the literal) -/
def numberText (ext : Ext) : Num → Bytes
  | .pos n => ext.itoa n
  | .neg k => ext.itoa k
  | .float b => ext.ryu64 b
  | .lit s => s

/-- `<Number as Display>::fmt(&n, f)` for `{}` -/
def fmtNumber (ext : Ext) (n : Num) (sink : Sink) : Except FmtError Sink := sink.writeStr (numberText ext n)

end SJ.Model.Display
