import SJ.Spec.Value
import SJ.Spec.Grammar
import SJ.Spec.Denote
import SJ.Spec.Utf8
import SJ.Gen.Error
import SJ.Gen.De
import SJ.Model.Num
/-!
# The text deserializer of `src/de.rs` + `src/read.rs` as a byte-step machine

`step : St → UInt8 → Except (Code × Adj) St` consumes one input byte, `finish` is what happens at end
of input, `run` is the fold. Each Rust `peek()`/`next()` decision is one transition; the error code
is the Rust `ErrorCode`; `Adj` records whether the reported index includes the byte that triggered
the error (`error()` after `next()`, or `peek_error()` after `peek()`) or not (`error()` while the
byte is only peeked) — a reader counts a peeked byte, a slice does not, so `excl` sites are exactly
where the sources report different columns.

Targets: `value` = `deserialize_any` with `Value`'s visitor; `ignored` = `ignore_value`
(`IgnoredAny`, unknown fields, and the scanner under `RawValue`).

Recursion in Rust (`check_recursion!`) is the height of the explicit stack. See DESIGN.md App. A.
-/
namespace SJ.Model.Machine
open SJ SJ.Gen SJ.Model.Num

structure Cfg where
  po : Bool := false          -- preserve_order
  fr : Bool := false          -- float_roundtrip
  ap : Bool := false          -- arbitrary_precision
  limitOff : Bool := false    -- unbounded_depth + disable_recursion_limit()
deriving Repr, DecidableEq, Inhabited

inductive Src where | str | slice | reader deriving Repr, DecidableEq, Inhabited
inductive Tgt where | value | ignored deriving Repr, DecidableEq, Inhabited
inductive Adj where | incl | excl deriving Repr, DecidableEq

structure Env where
  cfg : Cfg
  src : Src
  tgt : Tgt
deriving Repr, Inhabited

/-! ## lexical classes (the whitespace set is the one extracted from `parse_whitespace`) -/

def isWs (b : UInt8) : Bool := Gen.wsBytes.contains b
def isDigit (b : UInt8) : Bool := 0x30 ≤ b && b ≤ 0x39

/-! ## sub-states -/

inductive NPhase where
  | afterMinus | zero | int | fracStart | frac | expStart | expSign | exp
deriving Repr, DecidableEq

/-- number being scanned (digit lists reversed) -/
structure NumSt where
  phase : NPhase
  neg : Bool := false
  int : Bytes := []
  hasFrac : Bool := false
  frac : Bytes := []
  hasExp : Bool := false
  expNeg : Bool := false
  expDigits : Bytes := []
  raw : Bytes := []
deriving Repr

def NumSt.parts (n : NumSt) : Parts :=
  { neg := n.neg, int := n.int.reverse,
    frac := if n.hasFrac then some n.frac.reverse else none,
    exp := if n.hasExp then some (n.expNeg, n.expDigits.reverse) else none,
    raw := n.raw.reverse }

inductive EscSt where
  | none
  | bs                                                    -- after `\`
  | hex (acc : List UInt8) (lead : Option Nat)            -- after `\u`, hex bytes so far (< 4)
  | lead1 (n1 : Nat)                                      -- leading surrogate read: expect `\`
  | lead2 (n1 : Nat)                                      -- … then `u`
deriving Repr

/-- string being scanned; `out` is the decoded text so far, reversed -/
structure StrSt where
  out : Bytes := []
  esc : EscSt := .none
  isKey : Bool := false
  escaped : Bool := false
deriving Repr

inductive ValCtx where | top | arrFirst | arrNext | objVal deriving Repr, DecidableEq

inductive Mode where
  | val (ctx : ValCtx)          -- expecting a value (whitespace is skipped)
  | lit (rest : Bytes) (v : JV)
  | num (n : NumSt)
  | str (s : StrSt)
  | afterElem                   -- array: after an element
  | objFirst                    -- after `{`
  | objNextKey                  -- after `,` in an object
  | afterKey                    -- after a key: expect `:`
  | afterMember                 -- object: after a member's value
  | done (v : JV)               -- top-level value complete
deriving Repr

inductive Frame where
  | arr (elems : List JV)                                -- reversed
  | obj (members : List (Bytes × JV)) (key : Bytes)      -- reversed; key of the pending member
deriving Repr

structure St where
  mode : Mode
  stack : List Frame := []
deriving Repr

inductive Step where
  | next (s : St)               -- byte consumed
  | again (s : St)              -- byte not consumed (a number ended): re-dispatch
  | err (c : Code) (a : Adj)
deriving Repr

/-! ## building values -/

def bytesLt : Bytes → Bytes → Bool
  | [], [] => false
  | [], _ :: _ => true
  | _ :: _, [] => false
  | a :: as, b :: bs => if a < b then true else if a > b then false else bytesLt as bs

/-- `BTreeMap::insert`: ascending by bytes (Rust `String` order), existing key replaced -/
def btInsert (k : Bytes) (v : JV) : List (Bytes × JV) → List (Bytes × JV)
  | [] => [(k, v)]
  | (k', v') :: r =>
    if k = k' then (k, v) :: r
    else if bytesLt k k' then (k, v) :: (k', v') :: r
    else (k', v') :: btInsert k v r

/-- `IndexMap::insert`: existing key keeps its position, new key goes last -/
def ixInsert (k : Bytes) (v : JV) : List (Bytes × JV) → List (Bytes × JV)
  | [] => [(k, v)]
  | (k', v') :: r => if k = k' then (k', v) :: r else (k', v') :: ixInsert k v r

/-- `ValueVisitor::visit_map`: insert the members in source order -/
def mkObj (cfg : Cfg) (ms : List (Bytes × JV)) : JV :=
  .obj (ms.foldl (fun m kv => if cfg.po then ixInsert kv.1 kv.2 m else btInsert kv.1 kv.2 m) [])

/-- `ParserNumber::visit` into a `Value` -/
def numValue (env : Env) (n : NumSt) : Except Code JV :=
  let p := n.parts
  if env.cfg.ap then
    -- `parse_any_number` (arbitrary_precision): the literal text is kept as written (an integer
    -- literal is re-printed from the u64/i64 it parses to, which is the same text; `-0` stays `-0`)
    let txt := p.raw
    .ok (.num (.lit txt))
  else
    match (if env.cfg.fr then convertRoundtrip p else convertDefault p) with
    | .u64 k => .ok (.num (.pos k))
    | .i64 k => .ok (.num (.neg k))
    | .f64 b => .ok (.num (.float b))
    | .outOfRange => .error .NumberOutOfRange
    | .outOfFuel => .error .NumberOutOfRange     -- proved unreachable (C14)

/-! ## transitions -/

/-- a value `v` is complete in the current context -/
def complete (stack : List Frame) (v : JV) : St :=
  match stack with
  | [] => { mode := .done v, stack := [] }
  | .arr es :: fs => { mode := .afterElem, stack := .arr (v :: es) :: fs }
  | .obj ms k :: fs => { mode := .afterMember, stack := .obj ((k, v) :: ms) k :: fs }

def closeArr (env : Env) (s : St) : Step :=
  match s.stack with
  | .arr es :: fs => .next (complete fs (if env.tgt = .value then .arr es.reverse else .null))
  | _ => .err .ExpectedSomeValue .incl        -- unreachable by the shape invariant

def closeObj (env : Env) (s : St) : Step :=
  match s.stack with
  | .obj ms _ :: fs => .next (complete fs (if env.tgt = .value then mkObj env.cfg ms.reverse else .null))
  | _ => .err .ExpectedSomeValue .incl        -- unreachable by the shape invariant

def depthExceeded (env : Env) (s : St) : Bool :=
  env.tgt = .value && !env.cfg.limitOff && s.stack.length + 1 ≥ Gen.remainingDepthInit

def startValue (env : Env) (s : St) (b : UInt8) : Step :=
  if b == 0x6e then .next { s with mode := .lit Gen.identNull .null }
  else if b == 0x74 then .next { s with mode := .lit Gen.identTrue (if env.tgt = .value then .bool true else .null) }
  else if b == 0x66 then .next { s with mode := .lit Gen.identFalse (if env.tgt = .value then .bool false else .null) }
  else if b == 0x2d then .next { s with mode := .num { phase := .afterMinus, neg := true, raw := [b] } }
  else if b == 0x30 then .next { s with mode := .num { phase := .zero, int := [b], raw := [b] } }
  else if isDigit b then .next { s with mode := .num { phase := .int, int := [b], raw := [b] } }
  else if b == 0x22 then .next { s with mode := .str {} }
  else if b == 0x5b then
    if depthExceeded env s then .err .RecursionLimitExceeded .incl
    else .next { mode := .val .arrFirst, stack := .arr [] :: s.stack }
  else if b == 0x7b then
    if depthExceeded env s then .err .RecursionLimitExceeded .incl
    else .next { mode := .objFirst, stack := .obj [] [] :: s.stack }
  else .err .ExpectedSomeValue .incl

/-- the number is complete (a non-number byte is peeked, or end of input) -/
def endNumber (env : Env) (s : St) (n : NumSt) : Except (Code × Adj) St :=
  if env.tgt = .value then
    match numValue env n with
    | .ok v => .ok (complete s.stack v)
    | .error c => .error (c, .incl)       -- `peek_error`: the terminator is peeked (or end of input)
  else .ok (complete s.stack .null)

def hexDigitVal (b : UInt8) : Option Nat :=
  if Spec.Grammar.isHex b then some (Spec.Grammar.hexVal b) else none

/-- `decode_four_hex_digits` (positional value, or `none` if any byte is not a hex digit) -/
def hex4 : List UInt8 → Option Nat
  | [a, b, c, d] =>
    match hexDigitVal a, hexDigitVal b, hexDigitVal c, hexDigitVal d with
    | some x, some y, some z, some w => some (x * 4096 + y * 256 + z * 16 + w)
    | _, _, _, _ => none
  | _ => none

def stepNum (env : Env) (s : St) (n : NumSt) (b : UInt8) : Step :=
  let push (n : NumSt) : NumSt := { n with raw := b :: n.raw }
  let stay (n : NumSt) : Step := .next { s with mode := .num n }
  let finish : Step :=
    match endNumber env s n with
    | .ok s' => .again s'
    | .error (c, a) => .err c a
  match n.phase with
  | .afterMinus =>
    if b == 0x30 then stay { push n with phase := .zero, int := [b] }
    else if isDigit b then stay { push n with phase := .int, int := [b] }
    else .err .InvalidNumber .incl
  | .zero =>
    if isDigit b then .err .InvalidNumber .incl
    else if b == 0x2e then stay { push n with phase := .fracStart, hasFrac := true }
    else if b == 0x65 || b == 0x45 then stay { push n with phase := .expStart, hasExp := true }
    else finish
  | .int =>
    if isDigit b then stay { push n with int := b :: n.int }
    else if b == 0x2e then stay { push n with phase := .fracStart, hasFrac := true }
    else if b == 0x65 || b == 0x45 then stay { push n with phase := .expStart, hasExp := true }
    else finish
  | .fracStart =>
    if isDigit b then stay { push n with phase := .frac, frac := [b] }
    else .err .InvalidNumber .incl
  | .frac =>
    if isDigit b then stay { push n with frac := b :: n.frac }
    else if b == 0x65 || b == 0x45 then stay { push n with phase := .expStart, hasExp := true }
    else finish
  | .expStart =>
    if b == 0x2b then stay { push n with phase := .expSign }
    else if b == 0x2d then stay { push n with phase := .expSign, expNeg := true }
    else if isDigit b then stay { push n with phase := .exp, expDigits := [b] }
    else .err .InvalidNumber .incl
  | .expSign =>
    if isDigit b then stay { push n with phase := .exp, expDigits := [b] }
    else .err .InvalidNumber .incl
  | .exp =>
    if isDigit b then
      let n' := { push n with expDigits := b :: n.expDigits }
      -- `parse_exponent`: the digit is consumed, then the i32 `overflow!` guard fires
      if env.tgt = .value && !env.cfg.ap && expOverflows n'.expDigits.reverse
          && !((n.int.reverse ++ n.frac.reverse).all (· == 0x30)) && !n.expNeg then
        .err .NumberOutOfRange .incl
      else stay n'
    else finish

/-- end of a string literal: `as_str` (UTF-8 check on byte sources), then key or value -/
def endStr (env : Env) (s : St) (st : StrSt) : Step :=
  let bytes := st.out.reverse
  if env.tgt = .value && env.src != .str && !Spec.Utf8.validUtf8 bytes then
    .err .InvalidUnicodeCodePoint .incl
  else if st.isKey then
    match s.stack with
    | .obj ms _ :: fs => .next { mode := .afterKey, stack := .obj ms bytes :: fs }
    | _ => .err .ExpectedSomeValue .incl      -- unreachable
  else .next (complete s.stack (if env.tgt = .value then .str bytes else .null))

def stepStr (env : Env) (s : St) (st : StrSt) (b : UInt8) : Step :=
  let stay (st : StrSt) : Step := .next { s with mode := .str st }
  let pushCp (cp : Nat) : Step := stay { st with out := (Spec.Denote.utf8 cp).reverse ++ st.out, esc := .none }
  match st.esc with
  | .none =>
    if b == 0x22 then endStr env s st
    else if b == 0x5c then stay { st with esc := .bs, escaped := true }
    else if b < 0x20 then
      -- `parse_str_bytes` and `ignore_str` (slice and reader) advance past the byte before reporting
      .err .ControlCharacterWhileParsingString .incl
    else stay { st with out := b :: st.out }
  | .bs =>
    if b == 0x75 then stay { st with esc := .hex [] none }
    else if Spec.Grammar.isSimpleEscape b then
      stay { st with out := Spec.Denote.simpleEscape b :: st.out, esc := .none }
    else .err .InvalidEscape .incl
  | .hex acc lead =>
    let acc' := acc ++ [b]
    if acc'.length < 4 then stay { st with esc := .hex acc' lead }
    else
      match hex4 acc' with
      | none => .err .InvalidEscape .incl
      | some n =>
        if env.tgt = .ignored then stay { st with esc := .none }      -- `ignore_escape`
        else
          match lead with
          | none =>
            if 0xDC00 ≤ n && n ≤ 0xDFFF then .err .LoneLeadingSurrogateInHexEscape .incl
            else if 0xD800 ≤ n && n ≤ 0xDBFF then stay { st with esc := .lead1 n }
            else pushCp n
          | some n1 =>
            if n < 0xDC00 || n > 0xDFFF then .err .LoneLeadingSurrogateInHexEscape .incl
            else pushCp (0x10000 + (n1 - 0xD800) * 0x400 + (n - 0xDC00))
  | .lead1 n1 =>
    if b == 0x5c then stay { st with esc := .lead2 n1 } else .err .UnexpectedEndOfHexEscape .incl
  | .lead2 n1 =>
    if b == 0x75 then stay { st with esc := .hex [] (some n1) } else .err .UnexpectedEndOfHexEscape .incl

def step1 (env : Env) (s : St) (b : UInt8) : Step :=
  match s.mode with
  | .val ctx =>
    if isWs b then .next s
    else if b == 0x5d && ctx = .arrFirst then closeArr env s
    else if b == 0x5d && ctx = .arrNext then
      -- `has_next_element`: TrailingComma; `ignore_value` re-enters the value dispatch
      .err (if env.tgt = .value then .TrailingComma else .ExpectedSomeValue) .incl
    else startValue env s b
  | .lit rest v =>
    match rest with
    | [] => .err .ExpectedSomeIdent .incl      -- unreachable: completed literals leave this mode
    | e :: es =>
      if b == e then (if es.isEmpty then .next (complete s.stack v) else .next { s with mode := .lit es v })
      else .err .ExpectedSomeIdent .incl
  | .num n => stepNum env s n b
  | .str st => stepStr env s st b
  | .afterElem =>
    if isWs b then .next s
    else if b == 0x2c then .next { s with mode := .val .arrNext }
    else if b == 0x5d then closeArr env s
    else .err .ExpectedListCommaOrEnd .incl
  | .objFirst =>
    if isWs b then .next s
    else if b == 0x7d then closeObj env s
    else if b == 0x22 then .next { s with mode := .str { isKey := true } }
    else .err .KeyMustBeAString .incl
  | .objNextKey =>
    if isWs b then .next s
    else if b == 0x22 then .next { s with mode := .str { isKey := true } }
    else if b == 0x7d && env.tgt = .value then .err .TrailingComma .incl
    else .err .KeyMustBeAString .incl
  | .afterKey =>
    if isWs b then .next s
    else if b == 0x3a then .next { s with mode := .val .objVal }
    else .err .ExpectedColon .incl
  | .afterMember =>
    if isWs b then .next s
    else if b == 0x2c then .next { s with mode := .objNextKey }
    else if b == 0x7d then closeObj env s
    else .err .ExpectedObjectCommaOrEnd .incl
  | .done _ =>
    if isWs b then .next s else .err .TrailingCharacters .incl

/-- one input byte; a number may end on it, in which case the byte is dispatched once more -/
def step (env : Env) (s : St) (b : UInt8) : Except (Code × Adj) St :=
  match step1 env s b with
  | .next s' => .ok s'
  | .err c a => .error (c, a)
  | .again s' =>
    match step1 env s' b with
    | .next s'' => .ok s''
    | .err c a => .error (c, a)
    | .again _ => .error (.ExpectedSomeValue, .incl)     -- proved unreachable

/-! ## end of input -/

/-- what happens when the input ends in state `s` -/
def finishMode (env : Env) (s : St) : Except Code JV :=
  match s.mode with
  | .done v => .ok v
  | .val .arrFirst => .error .EofWhileParsingList
  | .val _ => .error .EofWhileParsingValue
  | .lit _ _ => .error .EofWhileParsingValue
  | .num _ => .error .EofWhileParsingValue      -- replaced in `finish` for complete numbers
  | .str _ => .error .EofWhileParsingString
  | .afterElem => .error .EofWhileParsingList
  | .objFirst => .error .EofWhileParsingObject
  | .objNextKey => .error (if env.tgt = .value then .EofWhileParsingValue else .EofWhileParsingObject)
  | .afterKey => .error .EofWhileParsingObject
  | .afterMember => .error .EofWhileParsingObject

def finish (env : Env) (s : St) : Except Code JV :=
  match s.mode with
  | .num n =>
    match n.phase with
    | .afterMinus | .fracStart | .expStart | .expSign =>
      -- `parse_integer`/`parse_decimal`/`parse_exponent` and (since the fix recorded in
      -- known_findings.json) `ignore_integer`/`ignore_decimal`/`ignore_exponent`
      .error .EofWhileParsingValue
    | _ =>
      match endNumber env s n with
      | .ok s' => finishMode env s'
      | .error (c, _) => .error c
  | _ => finishMode env s

/-! ## running -/

inductive Outcome where
  | ok (v : JV)
  | err (c : Code) (idx : Nat)       -- idx: number of bytes the reported position counts
deriving Repr

/-- index reported for an error raised while looking at byte number `i` (0-based) -/
def errIdx (env : Env) (a : Adj) (i : Nat) : Nat :=
  match env.src, a with
  | .reader, _ => i + 1            -- a reader has pulled the byte, peeked or not
  | _, .incl => i + 1
  | _, .excl => i

def run (env : Env) (s : St) (i : Nat) : Bytes → Outcome
  | [] => match finish env s with
    | .ok v => .ok v
    | .error c => .err c i
  | b :: bs => match step env s b with
    | .ok s' => run env s' (i + 1) bs
    | .error (c, a) => .err c (errIdx env a i)

/-- Bool-valued tests on outcomes (for kernel-evaluated examples: `decide +kernel`) -/
def Outcome.isErr (o : Outcome) (c : Code) (idx : Nat) : Bool :=
  match o with
  | .err c' i => c' == c && i == idx
  | .ok _ => false
def Outcome.isOk (o : Outcome) (v : JV) : Bool :=
  match o with
  | .ok v' => JV.beq v' v
  | .err _ _ => false

def init : St := { mode := .val .top }

/-- `from_str` / `from_slice` / `from_reader` into `Value` or `IgnoredAny` -/
def parseTop (env : Env) (bs : Bytes) : Outcome := run env init 0 bs

/-- `position_of_index` / `LineColIterator`: line = 1 + newlines before `idx`,
    column = bytes since the last newline -/
def lineCol (bs : Bytes) (idx : Nat) : Nat × Nat :=
  (bs.take idx).foldl (fun (lc : Nat × Nat) b => if b == 0x0a then (lc.1 + 1, 0) else (lc.1, lc.2 + 1)) (1, 0)

end SJ.Model.Machine
