import SJ.Model.Ser
import SJ.Gen.Error
/-!
# `io::Write` under the serializer: `write`, `write_all`, `to_writer` (C13, writer clause)

**The writer.** An `io::Write` is, for this code, its `write` method (`to_writer*` never call `flush`,
`write_vectored` or `write_fmt`; every byte goes through `write_all`, see below). It is modelled as a
state machine with an *arbitrary policy*: the result of each `write(buf)` call is a function of the
whole history of earlier calls (buffers offered and results returned) and of the buffer offered now,

* `Ok(n)` with `0 < n ≤ buf.len()` — the first `n` bytes are accepted (a *short write* when `n < buf.len()`),
* `Ok(0)`,
* `Err(e)` with `e.kind() == ErrorKind::Interrupted`,
* `Err(e)` of any other kind;

an `io::Error` is its kind plus an opaque payload (message, OS code, boxed custom error: `IoError.payload`),
so that "the same error" can be told from "an error of the same kind". What the writer does with the
bytes of a call it fails is its own business; *accepted* means: counted in a returned `Ok(n)`. A policy
that answers `Ok(n)` with `n > buf.len()` breaks the contract of `io::Write::write` ("If the return
value is `Ok(n)` then it must be guaranteed that `n <= buf.len()`"); `write_all` then panics in
`&buf[n..]` — outcome `panic` below, so the model is total over all policies.

**`write_all`** — std's provided method, `library/std/src/io/mod.rs` (identical in the toolchain's
stable 1.95.0 sources as rendered in `share/doc/rust/html/src/std/io/mod.rs.html` and in the nightly
`rust-src` component installed here, line 1857):
```rust
fn write_all(&mut self, mut buf: &[u8]) -> Result<()> {
    while !buf.is_empty() {
        match self.write(buf) {
            Ok(0) => {
                return Err(Error::WRITE_ALL_EOF);
            }
            Ok(n) => buf = &buf[n..],
            Err(ref e) if e.is_interrupted() => {}
            Err(e) => return Err(e),
        }
    }
    Ok(())
}
// library/std/src/io/error.rs
pub(crate) const WRITE_ALL_EOF: Self = const_error!(ErrorKind::WriteZero, "failed to write whole buffer");
pub(crate) fn is_interrupted(&self) -> bool { /* kind == ErrorKind::Interrupted (EINTR for an OS error) */ }
```
A writer that answers `Interrupted` for ever makes this loop run for ever. The model is total by
*fuel*: `writeAll fuel` watches at most `fuel` calls of `write` per `write_all`; if the loop is still
running then, the outcome is `hang` (everything proved below holds for every `fuel`, hence at every
moment of an endless run).

**The serializer's side** (`src/ser.rs`). The writer is reached only through `writer.write_all(..)` in
the `Formatter` methods (trait defaults 1556–1960, `PrettyFormatter` 1990–2079, `indent` 2268) and every
such call is either the tail expression of its method or under `tri!` (`src/lib.rs` 406:
`match $e { Ok(val) => val, Err(err) => return Err(err) }`). Every `Formatter` call in `impl Serializer
for &mut Serializer`, `Compound` (`SerializeSeq` … `SerializeStructVariant`), `MapKeySerializer`,
`NumberStrEmitter`, `RawValueStrEmitter` is `.map_err(Error::io)` and then either the tail expression or
under `tri!`; `format_escaped_str` / `format_escaped_str_contents` `tri!` every fragment and escape and
return the last one; `collect_str` turns a failed `write_str` into `Err(fmt::Error)`, keeps the
`io::Error` in the adapter and returns `Err(Error::io(adapter.error.expect(..)))` (for a `Display`
implementation that propagates the `fmt::Error` it is given — std's do; `Model.Ser` records the text of
a `collect_str` as one `write_str`); `impl Serialize for Value` / `Number` `tri!`s every call. No
`let _ =`, `.ok()`, `if let Err` or `unwrap_or` on a `Result` occurs in `src/ser.rs` (re-checked mechanically on every
run: `SJ.Gen.Write`, `c13_every_write_checked`). Hence: the
serializer performs the `write_all` calls whose arguments are the buffer list of `Model.Ser`
(`W.bufs`, one element per call, in order — that list does not depend on what the writer answers),
stops at the first one that fails, makes no further call, and returns
```rust
pub fn io(error: io::Error) -> Self {                         // src/error.rs 326
    Error { err: Box::new(ErrorImpl { code: ErrorCode::Io(error), line: 0, column: 0 }) }
}
```
of the very `io::Error` that `write_all` returned (`classify()` = `Category::Io`, `io_error_kind()` =
`Some(error.kind())`, and `io::Error::from(err)` gives the `io::Error` back: `Gen.intoIoKeepsInner`,
`c13_into_io_error`). This "runs the list, stops at the first failure" step is `runBufs`; that the
crate behaves so is the modelling claim tied by the correspondence op `wfault` (and attacked by the
mutation tests of `docs/WRITER-NOTES.md`), the same way `Model.Display.Adapter.writeBufs` is for
`fmt::Write`.

Programs whose serialisation fails by itself (`SerErr`: a key that is not a string, a non-finite float
key) have written some buffers before that error; `Model.Ser` does not say which, so `toWriter` is
`.error e` for them (nothing is claimed about the writer).
Import-free (only `SJ.Model.Ser`, `SJ.Gen.Error`).
-/
namespace SJ.Model.Write
open SJ SJ.Model.Ser

/-- `io::ErrorKind` as far as this code tells kinds apart: `write_all` tests for `Interrupted` and makes
    `WriteZero`; every other kind is an opaque tag -/
inductive Kind where
  | interrupted
  | writeZero
  | other (tag : Nat)
deriving DecidableEq, Repr, Inhabited

/-- an `io::Error`: its kind and everything else about it (opaque) -/
structure IoError where
  kind : Kind
  payload : Nat := 0
deriving DecidableEq, Repr, Inhabited

/-- `e.is_interrupted()` -/
def IoError.isInterrupted (e : IoError) : Bool := e.kind == .interrupted

/-- `io::Error::WRITE_ALL_EOF` -/
def writeAllEof : IoError := { kind := .writeZero, payload := 0 }

/-- the result of one `write(buf)` call -/
inductive WRes where
  | ok (n : Nat)
  | err (e : IoError)
deriving DecidableEq, Repr, Inhabited

/-- one `write` call: the buffer offered and the answer -/
structure Call where
  buf : Bytes
  res : WRes
deriving DecidableEq, Repr, Inhabited

/-- is this answer a failure of `write_all` (anything but progress or `Interrupted`)? -/
def WRes.fatal (buf : Bytes) : WRes → Bool
  | .ok 0 => true
  | .ok n => decide (buf.length < n)
  | .err e => !e.isInterrupted

/-- the writer: what it has accepted, every `write` call so far, every buffer `write_all` was called
    with so far (an observer's record, not something a writer sees), and its policy -/
structure Writer where
  accepted : Bytes := []
  log : List Call := []
  handed : List Bytes := []
  policy : List Call → Bytes → WRes

/-- number of `write` calls so far -/
def Writer.calls (w : Writer) : Nat := w.log.length

/-- a writer that takes everything (`Vec<u8>`) -/
def Writer.vec : Writer := { policy := fun _ buf => .ok buf.length }

/-- `self.write(buf)` -/
def Writer.write (w : Writer) (buf : Bytes) : Writer × WRes :=
  let r := w.policy w.log buf
  ({ w with
      accepted := w.accepted ++ (match r with | .ok n => buf.take n | .err _ => []),
      log := w.log ++ [{ buf := buf, res := r }] }, r)

/-- how a `write_all` (and a whole serialisation) ends as far as the writer is concerned -/
inductive Out where
  | ok
  | err (e : IoError)
  /-- the loop is still running after `fuel` calls -/
  | hang
  /-- `&buf[n..]` with `n > buf.len()` -/
  | panic
deriving DecidableEq, Repr, Inhabited

/-- the loop of `write_all` (see the module comment), at most `fuel` iterations -/
def writeLoop : Nat → Writer → Bytes → Writer × Out
  | fuel, w, buf =>
    -- while !buf.is_empty()
    if buf.isEmpty then (w, .ok) else
    match fuel with
    | 0 => (w, .hang)
    | fuel + 1 =>
      match w.write buf with
      | (w', .ok 0) => (w', .err writeAllEof)                                   -- Ok(0) => return Err(WRITE_ALL_EOF)
      | (w', .ok n) => if n ≤ buf.length then writeLoop fuel w' (buf.drop n)    -- Ok(n) => buf = &buf[n..]
                       else (w', .panic)
      | (w', .err e) => if e.isInterrupted then writeLoop fuel w' buf           -- Err(ref e) if e.is_interrupted() => {}
                        else (w', .err e)                                       -- Err(e) => return Err(e)

/-- `writer.write_all(buf)` -/
def Writer.writeAll (fuel : Nat) (w : Writer) (buf : Bytes) : Writer × Out :=
  writeLoop fuel { w with handed := w.handed ++ [buf] } buf

/-- the serializer's `write_all` calls in order, each under `tri!` (or the tail expression) -/
def Writer.runBufs (fuel : Nat) (w : Writer) : List Bytes → Writer × Out
  | [] => (w, .ok)
  | b :: bs =>
    match w.writeAll fuel b with
    | (w', .ok) => w'.runBufs fuel bs
    | (w', o) => (w', o)

/-- the `Result<()>` of `to_writer` -/
inductive Res where
  | ok
  /-- `Err(Error::io(e))`: `classify() == Category::Io`, `io_error_kind() == Some(e.kind)` -/
  | io (e : IoError)
  | hang
  | panic
deriving DecidableEq, Repr, Inhabited

def Res.ofOut : Out → Res
  | .ok => .ok
  | .err e => .io e        -- `.map_err(Error::io)`
  | .hang => .hang
  | .panic => .panic

/-- `io::Error::from(err)` for the error of a `Res.io` (`impl From<Error> for io::Error`:
    `if let ErrorCode::Io(err) = j.err.code { err }` — `Gen.intoIoKeepsInner`) -/
def Res.intoIo : Res → Option IoError
  | .io e => if Gen.intoIoKeepsInner then some e else none
  | _ => none

/-- `to_writer(w, &p)` (`fmt = .compact`: `Serializer::new`) / `to_writer_pretty` (`fmt = .pretty [0x20, 0x20]`:
    `Serializer::pretty`) / `Serializer::with_formatter(w, PrettyFormatter::with_indent(indent))`:
    `.error e` = the serialisation fails by itself (not modelled on the writer's side, see the module
    comment); otherwise the writer afterwards and the result -/
def toWriter (fuel : Nat) (ext : Ext) (fmt : Fmt) (p : SVal) (w : Writer) : Except SerErr (Writer × Res) :=
  match ser ext fmt p FState.init with
  | .error e => .error e
  | .ok r => let (w', o) := w.runBufs fuel r.bufs; .ok (w', Res.ofOut o)

/-! ## script policies (the policies of the correspondence op `wfault`)

The answer to call number `j` is item `j` of a script; after the script, `tail` for ever. -/

/-- one item of a script -/
inductive Resp where
  /-- `Ok(min(n, buf.len()))`, `n ≥ 1` -/
  | short (n : Nat)
  /-- `Ok(0)` -/
  | zero
  /-- `Err(Interrupted)` -/
  | intr
  /-- `Err(e)` with `e.kind() == kind` -/
  | fail (kind : Kind)
deriving DecidableEq, Repr, Inhabited

def Resp.answer (buf : Bytes) : Resp → WRes
  | .short n => .ok (min n buf.length)
  | .zero => .ok 0
  | .intr => .err { kind := .interrupted }
  | .fail k => .err { kind := k }

def scriptPolicy (script : List Resp) (tail : Resp) : List Call → Bytes → WRes :=
  fun log buf => ((script[log.length]?).getD tail).answer buf

def Writer.script (script : List Resp) (tail : Resp) : Writer := { policy := scriptPolicy script tail }

/-! ## the byte-budget writer (the writer of `Model.IoFault.writeFault`) -/

/-- bytes accepted in a history of calls -/
def acceptedLen : List Call → Nat
  | [] => 0
  | c :: cs => (match c.res with | .ok n => min n c.buf.length | .err _ => 0) + acceptedLen cs

/-- accepts whatever it is offered until it holds `m` bytes (the last accepted call may be a short write), then
    answers every call with `Err(e)` -/
def budgetPolicy (m : Nat) (e : IoError) : List Call → Bytes → WRes :=
  fun log buf => if acceptedLen log < m then .ok (min buf.length (m - acceptedLen log)) else .err e

def Writer.budget (m : Nat) (e : IoError) : Writer := { policy := budgetPolicy m e }

end SJ.Model.Write
