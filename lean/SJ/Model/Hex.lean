import SJ.Spec.Str
import SJ.Gen.Hex
/-!
# Model of `decode_four_hex_digits` and its tables (`src/read.rs`)

`i16`/`i32` are two's complement bit vectors (`BitVec 16`, `BitVec 32`); the cast `as i32` is sign
extension, `|` and `<<` are the bit-vector operations, `>= 0` is the signed comparison. In
particular `-1` is all ones, so OR-ing it into the code point makes the result negative: the
"single sign bit check" of the source is modelled as it is written.
-/
namespace SJ.Model.Hex
open SJ

/-- the statement's hex-digit value (`0-9`, `a-f`, `A-F`); defined in `SJ.Spec.Str` -/
abbrev hexDigitVal (b : UInt8) : Option Nat := Spec.Str.hexDigitVal b

/--
```rust
const fn decode_hex_val_slow(val: u8) -> Option<u8> {
    match val {
        b'0'..=b'9' => Some(val - b'0'),
        b'A'..=b'F' => Some(val - b'A' + 10),
        b'a'..=b'f' => Some(val - b'a' + 10),
        _ => None,
    }
}
```
first matching range arm, in source order -/
def decodeHexValSlow (val : UInt8) : Option UInt8 :=
  match Gen.hexRanges.find? (fun r => r.1 ≤ val && val ≤ r.2.1) with
  | some (_, _, base, add) => some (val - base + UInt8.ofNat add)
  | none => none

/--
```rust
const fn build_hex_table(shift: usize) -> [i16; 256] {
    let mut table = [0; 256];
    let mut ch = 0;
    while ch < 256 {
        table[ch] = match decode_hex_val_slow(ch as u8) {
            Some(val) => (val as i16) << shift,
            None => -1,
        };
        ch += 1;
    }
    table
}
```
entries as the integers the `i16`s denote -/
def buildHexTable (shift : Nat) : List Int :=
  (List.range Gen.hexTableSize).map fun ch =>
    match decodeHexValSlow (UInt8.ofNat ch) with
    | some val => (BitVec.ofNat 16 val.toNat <<< shift).toInt
    | none => (BitVec.ofInt 16 Gen.hexSentinel).toInt

/-- `HEXk[x as usize] as i32` with `k` the table number (the tables have 256 entries, so the index
    is in bounds). -/
def lookup (k : Nat) (x : UInt8) : BitVec 32 :=
  (BitVec.ofInt 16 ((if k == 0 then Gen.hex0 else Gen.hex1).getD x.toNat 0)).signExtend 32

/--
```rust
fn decode_four_hex_digits(a: u8, b: u8, c: u8, d: u8) -> Option<u16> {
    let a = HEX1[a as usize] as i32;
    let b = HEX0[b as usize] as i32;
    let c = HEX1[c as usize] as i32;
    let d = HEX0[d as usize] as i32;
    let codepoint = ((a | b) << 8) | c | d;
    // A single sign bit check.
    if codepoint >= 0 { Some(codepoint as u16) } else { None }
}
```
-/
def decodeFourHex (a b c d : UInt8) : Option Nat :=
  let a := lookup (Gen.hexArgTables.getD 0 0) a
  let b := lookup (Gen.hexArgTables.getD 1 0) b
  let c := lookup (Gen.hexArgTables.getD 2 0) c
  let d := lookup (Gen.hexArgTables.getD 3 0) d
  let codepoint : BitVec 32 := ((a ||| b) <<< Gen.hexHighShift) ||| c ||| d
  if BitVec.sle 0#32 codepoint then some (codepoint.setWidth 16).toNat else none

end SJ.Model.Hex
