import SJ.Model.RawStruct
/-!
# Successive `T::deserialize(&mut de)` calls on ONE `Deserializer` (raw_value builds)

```rust
let mut de = serde_json::Deserializer::from_reader(rd);          // or from_str / from_slice
let a = Box::<RawValue>::deserialize(&mut de);                   // `deserialize_raw_value` (`RawNested.deRaw`)
let b = Box::<RawValue>::deserialize(&mut de);                   // starts where the first call stopped reading
```
No `end()` in between: every call skips whitespace, captures one value and leaves the reader just past it (for a
number: with its terminator peeked, not consumed, and — `IoRead` — not in the raw buffer: `begin_raw_buffering` is
`self.raw_buffer = Some(Vec::new())`, a fresh buffer per capture). As long as every call succeeds the calls are the typed
model's element deserialiser threaded through the remaining input (`Res.ok v rest pos`). Where the reader stands after
a FAILED call is not modelled (each error site of de.rs / read.rs stops reading at its own place): the sequence ends
with the first item that is not a value.

Import-free (only `SJ.Model.*`).
-/
namespace SJ.Model.RawSeq
open SJ SJ.Model.Typed

/-- at most `k` calls of the item deserialiser `de`, each on what the previous one left: the results up to and including
    the first one that is not a value -/
def seqItems (de : Bytes → Nat → TOut) : Nat → Bytes → Nat → List TOut
  | 0, _, _ => []
  | k + 1, rest, pos =>
    match de rest pos with
    | .ok v r p => .ok v r p :: seqItems de k r p
    | e => [e]

/-- `Box::<RawValue>::deserialize(&mut de)`, `k` times -/
def rawItems (env : Env) (k : Nat) (bs : Bytes) : List TOut := seqItems (SJ.Model.RawNested.deRaw env) k bs 0

/-- `S::deserialize(&mut de)`, `k` times, for a derived struct `S` with fields `fs` (`deserialize_struct`, which also applies
    `fix_position` to a visitor error) -/
def structItems (env : Env) (fs : List (Bytes × SJ.Model.RawStruct.FieldTy)) (deny : Bool) (k : Nat) (bs : Bytes) : List TOut :=
  seqItems (SJ.Model.RawStruct.deRawStruct env 0 fs deny) k bs 0

end SJ.Model.RawSeq
