import SJ.Model.Stream
/-!
# The `remaining_depth` counter of `Deserializer`, made explicit, along a stream

`Model.Machine` represents the recursion of `deserialize_any` by the height of its explicit stack and
tests the limit against that height. The Rust code keeps a counter in the `Deserializer` — which a
`StreamDeserializer` owns for its whole life, so the counter persists from item to item:

```rust
pub struct Deserializer<R> { read: R, scratch: Vec<u8>, remaining_depth: u8, … }      // new(): remaining_depth: 128
macro_rules! check_recursion {
    ($this:ident $($body:tt)*) => {
        if_checking_recursion_limit! {                    // unbounded_depth: `if !$this.disable_recursion_limit { … }`
            $this.remaining_depth -= 1;
            if $this.remaining_depth == 0 { return Err($this.peek_error(ErrorCode::RecursionLimitExceeded)); }
        }
        $this $($body)*                                   // self.eat_char(); let ret = visitor.visit_seq(SeqAccess::new(self));
        if_checking_recursion_limit! { $this.remaining_depth += 1; }
    };
}
// deserialize_any: b'[' => { check_recursion! { … } match (ret, self.end_seq()) { … } }      b'{' likewise
```
The decrement happens when `[` / `{` is peeked (before `eat_char`); the increment when the visitor has
returned — with `Ok` at the closing bracket, or with ANY `Err` (the body stores `ret`, it does not use
`?`), so an error unwinds through every open container and each one restores its unit; only the early
`return Err(RecursionLimitExceeded)` leaves its own decrement behind. `ignore_value` (skipped content)
is iterative and does not touch the counter.

`step1D` is `Machine.step1` with that counter threaded beside it (the limit is tested on the COUNTER; the
body runs `step1` with the stack-height test switched off), `runPrefixD` / `nextD` / `historyD` are
`Stream.runPrefix` / `next` / `history` over it. That they are the same functions as the uninstrumented
ones and that the counter is 128 at the start of every item is `SJ.Props.C14.c14_stream_depth_restored`.
Import-free.
-/
namespace SJ.Model.StreamDepth
open SJ SJ.Gen SJ.Model.Machine SJ.Model.Stream

/-- is `check_recursion!` active? (`Value` target with the limit enabled) -/
def counting (env : Env) : Bool := env.tgt = .value && !env.cfg.limitOff

/-- the byte is the `[` / `{` of the container arms of `deserialize_any` (a value is expected) -/
def opensContainer (s : St) (b : UInt8) : Bool :=
  match s.mode with
  | .val _ => b == 0x5b || b == 0x7b
  | _ => false

/-- the environment of the body of `check_recursion!`: no limit test of its own -/
def bodyEnv (env : Env) : Env := { env with cfg := { env.cfg with limitOff := true } }

/-- the step left a container: `visit_seq` / `visit_map` has returned `Ok` (`]` / `}` seen) -/
def closesContainer (s : St) (r : Step) : Bool :=
  match r with
  | .next s' => s'.stack.length < s.stack.length
  | _ => false

/-- one byte, with `d` = `remaining_depth` before it -/
def step1D (env : Env) (s : St) (d : Nat) (b : UInt8) : Step × Nat :=
  if counting env && opensContainer s b then
    let d' := d - 1
    if d' == 0 then (.err .RecursionLimitExceeded .incl, d')
    else (step1 (bodyEnv env) s b, d')
  else
    let r := step1 env s b
    (r, if counting env && closesContainer s r then d + 1 else d)

/-- an error unwinds through the open containers; each restores its unit -/
def unwind (env : Env) (s : St) (d : Nat) : Nat := if counting env then d + s.stack.length else d

inductive POutD where
  | ok (v : JV) (next : Nat) (d : Nat)
  | err (c : Code) (idx : Nat) (d : Nat)      -- `d`: the counter after the error has propagated out
deriving Repr

/-- `Stream.runPrefix` with the counter -/
def runPrefixD (env : Env) (s : St) (d : Nat) (i : Nat) : Bytes → POutD
  | [] => match finish env s with
    | .ok v => .ok v i d
    | .error c => .err c i (unwind env s d)
  | b :: bs =>
    match step1D env s d b with
    | (.err c a, d') => .err c (errIdx env a i) (unwind env s d')
    | (.next s', d') =>
      (match s'.mode with
       | .done v => .ok v (i + 1) d'
       | _ => runPrefixD env s' d' (i + 1) bs)
    | (.again s', d') =>
      (match s'.mode with
       | .done v => .ok v i d'
       | _ =>
         match step1D env s' d' b with
         | (.err c a, d'') => .err c (errIdx env a i) (unwind env s' d'')
         | (.next s'', d'') =>
           (match s''.mode with
            | .done v => .ok v (i + 1) d''
            | _ => runPrefixD env s'' d'' (i + 1) bs)
         | (.again _, d'') => .err .ExpectedSomeValue (i + 1) d'')

/-- stream state + the deserializer's `remaining_depth` -/
structure SSD where
  ss : SS
  depth : Nat
deriving Repr

/-- `Stream.next` with the counter: the item is parsed with whatever budget the previous items left -/
def nextD (env : Env) (st : SSD) : Item × SSD :=
  if st.ss.failed then (.none, st)
  else
    let (r, p) := skipWs st.ss.rest st.ss.pos
    match r with
    | [] => (.none, { st with ss := { st.ss with rest := [], pos := p, offset := p } })
    | b :: _ =>
      match runPrefixD env init st.depth p r with
      | .err c idx d => (.err c idx, { ss := { st.ss with rest := r, pos := p, offset := p, failed := true }, depth := d })
      | .ok v e d =>
        let rest' := r.drop (e - p)
        let st' : SSD := { ss := { rest := rest', pos := e, offset := e, failed := false }, depth := d }
        if isSelfDelineated b then (.ok v, st')
        else
          match rest' with
          | [] => (.ok v, st')
          | c :: _ =>
            if isStreamDelim c then (.ok v, st')
            else (.err .TrailingCharacters (e + 1), st')

/-- `Deserializer::new`: `remaining_depth: 128` (the extracted constant) -/
def startD (bs : Bytes) : SSD := { ss := start bs, depth := Gen.remainingDepthInit }

/-- `k` calls of `next()`: the item, `byte_offset()`, and `remaining_depth` after each -/
def historyD (env : Env) : Nat → SSD → List (Item × Nat × Nat)
  | 0, _ => []
  | k + 1, st => let (it, st') := nextD env st; (it, st'.ss.offset, st'.depth) :: historyD env k st'

end SJ.Model.StreamDepth
