import SJ.Model.LexBhLimbs
/-!
# `lexical` + `de.rs` under `float_roundtrip`, with `Bigint` as limb vectors

`Model.Lexical.deFloatRoundtrip` runs `bhcomp.rs` with `Bigint` abstracted by a natural number. Here the same pipeline
(`fallback_path`, `parse_concise_float`, `parse_truncated_float`, the leaves of `de.rs`) is written once more with the
slow path as it is compiled: `Model.LexBhLimbs.bhcompL`, i.e. `bhcomp.rs` over `Vec<Limb>` through the trait `Math` of
`math.rs`. `none` is a panic of the limb code. Everything else is shared with `Model.Lexical`.
`Props.C07Total.c07_correct_limbs`: it never panics and returns `deFloatRoundtrip`.
-/
namespace SJ.Model.LexicalLimbs
open SJ SJ.Gen SJ.Model.Num SJ.Model.Lexical SJ.Model.LexBhLimbs

/-- `fallback_path` (quoted at `Model.Lexical.fallbackPath`), `bhcomp` on limb vectors -/
def fallbackPathL (c : FC) (integer fraction : Bytes) (mantissa : Nat) (exponent mantissaExp : Int)
    (truncated : Bool) : Option Nat :=
  let (fp, valid) := moderatePath c mantissa mantissaExp truncated
  if valid then some (intoFloat c fp)
  else
    let b := intoDownwardFloat c fp
    if isSpecial c b then some b else bhcompL c b integer fraction exponent

/-- `parse_concise_float` (quoted at `Model.Lexical.parseConciseFloat`) -/
def parseConciseFloatL (single : Bool) (mantissa : Nat) (mantExp : Int) : Option Nat :=
  let c := fc single
  match fastPath single mantissa mantExp with
  | some f => some f
  | none =>
    let (fp, valid) := moderatePath c mantissa mantExp false
    if valid then some (intoFloat c fp)
    else
      let b := intoDownwardFloat c fp
      if isSpecial c b then some b else bhcompL c b (itoa mantissa) [] mantExp

/-- `parse_truncated_float` (quoted at `Model.Lexical.parseTruncatedFloat`) -/
def parseTruncatedFloatL (single : Bool) (integer fraction : Bytes) (exponent : Int) : Option Nat :=
  let c := fc single
  let fraction := trimTrailingZeros fraction
  let (mantissa, truncated) := truncatedMantissa (integer ++ fraction) 0
  let mantExp := mantissaExponent exponent fraction.length truncated
  fallbackPathL c integer fraction mantissa exponent mantExp true

/-- the leaves of `de.rs` (`Model.Lexical.runCall`) -/
def runCallL (single positive : Bool) : Call → Option NRes
  | .number r => some r
  | .expOverflow zeroSig positiveExp => some (exponentOverflow positive zeroSig positiveExp)
  | .concise sig e => (parseConciseFloatL single sig e).map (finishFloat single positive)
  | .truncated integer fraction e => (parseTruncatedFloatL single integer fraction e).map (finishFloat single positive)

/-- `Model.Lexical.deFloatRoundtrip` with the big-integer slow path on limb vectors -/
def deFloatRoundtripL (single : Bool) (p : Parts) : Option NRes := runCallL single (!p.neg) (deCall single p)

end SJ.Model.LexicalLimbs
