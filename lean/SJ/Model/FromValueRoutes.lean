import SJ.Gen.FromValue
/-!
# The routing of `src/value/de.rs` that `SJ.Model.FromValue` was transcribed from

`tools/extract.py` (`gen_fromvalue`) regenerates `SJ.Gen.route…` from the source on every run: for each
method of the two `Deserializer` impls, of `Map` / `&Map`, of the two variant accesses and of
`MapKeyDeserializer`, either the method it delegates to (`->m`), the macro that defines it (`!m`), or
the `Value::K => callee` arms of its `match`; the `forward_to_deserialize_any!` lists; the leftover
checks of `visit_array` / `visit_array_ref`; the first-byte guard of numeric keys.
The tables below are the state the hand-written transcription corresponds to; `routing_tied`
(`SJ.Props.C16.c16_routing_tied`) fails to build when the source routes differently, which means the
model has to be re-read against the code. (A fingerprint, not a proof of the transcription: the
correspondence run is what compares behaviours.)
-/
namespace SJ.Model.FromValue.Expected


/-- `impl<'de> serde::Deserializer<'de> for Value{` -/
def routeOwned : List (String × String) := [("deserialize_any", "Null=>visitor.visit_unit;Bool=>visitor.visit_bool;Number=>n.deserialize_any;String=>visitor.visit_string;Array=>visit_array;Object=>v.deserialize_any"), ("deserialize_i8", "!deserialize_number"), ("deserialize_i16", "!deserialize_number"), ("deserialize_i32", "!deserialize_number"), ("deserialize_i64", "!deserialize_number"), ("deserialize_i128", "!deserialize_number"), ("deserialize_u8", "!deserialize_number"), ("deserialize_u16", "!deserialize_number"), ("deserialize_u32", "!deserialize_number"), ("deserialize_u64", "!deserialize_number"), ("deserialize_u128", "!deserialize_number"), ("deserialize_f32", "!deserialize_number"), ("deserialize_f64", "!deserialize_number"), ("deserialize_option", "Null=>visitor.visit_none;_=>visitor.visit_some"), ("deserialize_enum", "Object=>value.deserialize_enum;String=>visitor.visit_enum;_=>Err"), ("deserialize_newtype_struct", "visitor.visit_newtype_struct(self)"), ("deserialize_bool", "Bool=>visitor.visit_bool;_=>Err"), ("deserialize_char", "->deserialize_string"), ("deserialize_str", "->deserialize_string"), ("deserialize_string", "String=>visitor.visit_string;_=>Err"), ("deserialize_bytes", "->deserialize_byte_buf"), ("deserialize_byte_buf", "String=>visitor.visit_string;Array=>visit_array;_=>Err"), ("deserialize_unit", "Null=>visitor.visit_unit;_=>Err"), ("deserialize_unit_struct", "->deserialize_unit"), ("deserialize_seq", "Array=>visit_array;_=>Err"), ("deserialize_tuple", "->deserialize_seq"), ("deserialize_tuple_struct", "->deserialize_seq"), ("deserialize_map", "Object=>v.deserialize_any;_=>Err"), ("deserialize_struct", "Array=>visit_array;Object=>v.deserialize_any;_=>Err"), ("deserialize_identifier", "->deserialize_string"), ("deserialize_ignored_any", "visitor.visit_unit()")]
def routeOwnedForward : String := ""
/-- `impl<'de> serde::Deserializer<'de> for &'de Value{` -/
def routeRef : List (String × String) := [("deserialize_any", "Null=>visitor.visit_unit;Bool=>visitor.visit_bool;Number=>n.deserialize_any;String=>visitor.visit_borrowed_str;Array=>visit_array_ref;Object=>v.deserialize_any"), ("deserialize_i8", "!deserialize_value_ref_number"), ("deserialize_i16", "!deserialize_value_ref_number"), ("deserialize_i32", "!deserialize_value_ref_number"), ("deserialize_i64", "!deserialize_value_ref_number"), ("deserialize_i128", "!deserialize_number"), ("deserialize_u8", "!deserialize_value_ref_number"), ("deserialize_u16", "!deserialize_value_ref_number"), ("deserialize_u32", "!deserialize_value_ref_number"), ("deserialize_u64", "!deserialize_value_ref_number"), ("deserialize_u128", "!deserialize_number"), ("deserialize_f32", "!deserialize_value_ref_number"), ("deserialize_f64", "!deserialize_value_ref_number"), ("deserialize_option", "Null=>visitor.visit_none;_=>visitor.visit_some"), ("deserialize_enum", "Object=>value.deserialize_enum;String=>visitor.visit_enum;_=>Err"), ("deserialize_newtype_struct", "visitor.visit_newtype_struct(self)"), ("deserialize_bool", "Bool=>visitor.visit_bool;_=>Err"), ("deserialize_char", "->deserialize_str"), ("deserialize_str", "String=>visitor.visit_borrowed_str;_=>Err"), ("deserialize_string", "->deserialize_str"), ("deserialize_bytes", "String=>visitor.visit_borrowed_str;Array=>visit_array_ref;_=>Err"), ("deserialize_byte_buf", "->deserialize_bytes"), ("deserialize_unit", "Null=>visitor.visit_unit;_=>Err"), ("deserialize_unit_struct", "->deserialize_unit"), ("deserialize_seq", "Array=>visit_array_ref;_=>Err"), ("deserialize_tuple", "->deserialize_seq"), ("deserialize_tuple_struct", "->deserialize_seq"), ("deserialize_map", "Object=>v.deserialize_any;_=>Err"), ("deserialize_struct", "Array=>visit_array_ref;Object=>v.deserialize_any;_=>Err"), ("deserialize_identifier", "->deserialize_str"), ("deserialize_ignored_any", "visitor.visit_unit()")]
def routeRefForward : String := ""
/-- `impl<'de> serde::Deserializer<'de> for Map<String,Value>{` -/
def routeMapOwned : List (String × String) := [("deserialize_any", "if remaining == 0 { Ok(map) } else { Err(serde::de::Error::invalid_length( len, &'fewer elements in map', ))"), ("deserialize_enum", "None=>Err;second=>Err"), ("deserialize_ignored_any", "visitor.visit_unit()")]
def routeMapOwnedForward : String := "bool i8 i16 i32 i64 i128 u8 u16 u32 u64 u128 f32 f64 char str string bytes byte_buf option unit unit_struct newtype_struct seq tuple tuple_struct map struct identifier"
/-- `impl<'de> serde::Deserializer<'de> for &'de Map<String,Value>{` -/
def routeMapRef : List (String × String) := [("deserialize_any", "if remaining == 0 { Ok(map) } else { Err(serde::de::Error::invalid_length( len, &'fewer elements in map', ))"), ("deserialize_enum", "None=>Err;second=>Err"), ("deserialize_ignored_any", "visitor.visit_unit()")]
def routeMapRefForward : String := "bool i8 i16 i32 i64 i128 u8 u16 u32 u64 u128 f32 f64 char str string bytes byte_buf option unit unit_struct newtype_struct seq tuple tuple_struct map struct identifier"
/-- `impl<'de> VariantAccess<'de> for VariantDeserializer{` -/
def routeVariantOwned : List (String × String) := [("unit_variant", "Some=>Deserialize::deserialize;None=>Ok"), ("newtype_variant_seed", "Some=>seed.deserialize;None=>Err"), ("tuple_variant", "SomeArray=>visitor.visit_unit;_=>Err;None=>Err;else=>visit_array"), ("struct_variant", "SomeObject=>v.deserialize_any;_=>Err;None=>Err")]
def routeVariantOwnedForward : String := ""
/-- `impl<'de> VariantAccess<'de> for VariantRefDeserializer<'de>{` -/
def routeVariantRef : List (String × String) := [("unit_variant", "Some=>Deserialize::deserialize;None=>Ok"), ("newtype_variant_seed", "Some=>seed.deserialize;None=>Err"), ("tuple_variant", "SomeArray=>visitor.visit_unit;_=>Err;None=>Err;else=>visit_array_ref"), ("struct_variant", "SomeObject=>v.deserialize_any;_=>Err;None=>Err")]
def routeVariantRefForward : String := ""
/-- `impl<'de> serde::Deserializer<'de> for MapKeyDeserializer<'de>{` -/
def routeMapKey : List (String × String) := [("deserialize_any", "BorrowedCowStrDeserializer::new(self.key).deserialize_any(visitor)"), ("deserialize_i8", "!deserialize_numeric_key"), ("deserialize_i16", "!deserialize_numeric_key"), ("deserialize_i32", "!deserialize_numeric_key"), ("deserialize_i64", "!deserialize_numeric_key"), ("deserialize_u8", "!deserialize_numeric_key"), ("deserialize_u16", "!deserialize_numeric_key"), ("deserialize_u32", "!deserialize_numeric_key"), ("deserialize_u64", "!deserialize_numeric_key"), ("deserialize_f32", "!deserialize_numeric_key"), ("deserialize_f64", "!deserialize_numeric_key"), ("deserialize_f32", "!deserialize_numeric_key(do_deserialize_f32)"), ("deserialize_i128", "!deserialize_numeric_key(do_deserialize_i128)"), ("deserialize_u128", "!deserialize_numeric_key(do_deserialize_u128)"), ("deserialize_bool", "if self.key == 'true' { visitor.visit_bool(true) } else if self.key == 'false' { visitor.visit_bool(false) } else { Err(serde::de::Error::invalid_type( Unexpected::Str(&self.key), &visitor, ))"), ("deserialize_option", "visitor.visit_some(self)"), ("deserialize_newtype_struct", "visitor.visit_newtype_struct(self)"), ("deserialize_enum", "self.key .into_deserializer() .deserialize_enum(name, variants, visitor)")]
def routeMapKeyForward : String := "char str string bytes byte_buf unit unit_struct seq tuple tuple_struct map struct identifier ignored_any"
def visitArrayCheck : String := "remaining == 0"
def visitArrayRefCheck : String := "remaining == 0"
def numericKeyGuard : String := "b'0'..=b'9' | b'-'"


end SJ.Model.FromValue.Expected

namespace SJ.Model.FromValue
open SJ.Gen

/-- the source routes exactly as the transcription assumes -/
def RoutingTied : Prop :=
  routeOwned = Expected.routeOwned ∧ routeRef = Expected.routeRef ∧
  routeMapOwned = Expected.routeMapOwned ∧ routeMapRef = Expected.routeMapRef ∧
  routeMapOwnedForward = Expected.routeMapOwnedForward ∧ routeMapRefForward = Expected.routeMapRefForward ∧
  routeVariantOwned = Expected.routeVariantOwned ∧ routeVariantRef = Expected.routeVariantRef ∧
  routeMapKey = Expected.routeMapKey ∧ routeMapKeyForward = Expected.routeMapKeyForward ∧
  visitArrayCheck = Expected.visitArrayCheck ∧ visitArrayRefCheck = Expected.visitArrayRefCheck ∧
  numericKeyGuard = Expected.numericKeyGuard

end SJ.Model.FromValue
