import SJ.Model.Machine
/-!
# `StreamDeserializer` (src/de.rs `impl Iterator for StreamDeserializer`) on top of the machine

```rust
fn next(&mut self) -> Option<Result<T>> {
    if R::should_early_return_if_failed && self.failed { return None; }
    match self.de.parse_whitespace() {
        Ok(None) => { self.offset = self.de.read.byte_offset(); None }
        Ok(Some(b)) => {
            let self_delineated_value = match b { b'[' | b'"' | b'{' => true, _ => false };
            self.offset = self.de.read.byte_offset();
            let result = de::Deserialize::deserialize(&mut self.de);
            Some(match result {
                Ok(value) => { self.offset = self.de.read.byte_offset();
                               if self_delineated_value { Ok(value) } else { self.peek_end_of_value().map(|()| value) } }
                Err(e) => { self.de.read.set_failed(&mut self.failed); Err(e) } }) }
        Err(e) => { self.de.read.set_failed(&mut self.failed); Some(Err(e)) } } }
```
`set_failed`: a reader sets the flag; a slice truncates itself at the current index, so that the
next `parse_whitespace` sees end of input. Either way every later `next()` is `None`.
-/
namespace SJ.Model.Stream
open SJ SJ.Gen SJ.Model.Machine

/-- result of reading one value from the head of `bs` (no leading whitespace), starting at
    absolute index `i`: the value and the index just past it, or the error with its reported index -/
inductive POut where
  | ok (v : JV) (next : Nat)
  | err (c : Code) (idx : Nat)
deriving Repr

/-- run the machine until the top-level value is complete (`Deserialize::deserialize` without `end()`) -/
def runPrefix (env : Env) (s : St) (i : Nat) : Bytes → POut
  | [] => match finish env s with
    | .ok v => .ok v i
    | .error c => .err c i
  | b :: bs =>
    match step1 env s b with
    | .err c a => .err c (errIdx env a i)
    | .next s' =>
      match s'.mode with
      | .done v => .ok v (i + 1)
      | _ => runPrefix env s' (i + 1) bs
    | .again s' =>
      match s'.mode with
      | .done v => .ok v i                   -- a top-level number ended: `b` is only peeked
      | _ =>
        match step1 env s' b with
        | .err c a => .err c (errIdx env a i)
        | .next s'' =>
          match s''.mode with
          | .done v => .ok v (i + 1)
          | _ => runPrefix env s'' (i + 1) bs
        | .again _ => .err .ExpectedSomeValue (i + 1)      -- unreachable (C14)

def skipWs : Bytes → Nat → Bytes × Nat
  | [], i => ([], i)
  | b :: r, i => if isWs b then skipWs r (i + 1) else (b :: r, i)

structure SS where
  rest : Bytes          -- unread input
  pos : Nat             -- its absolute index
  offset : Nat          -- `byte_offset()`
  failed : Bool         -- reader: the flag; slice: the input was truncated
deriving Repr

inductive Item where
  | none
  | ok (v : JV)
  | err (c : Code) (idx : Nat)
deriving Repr

def isSelfDelineated (b : UInt8) : Bool := Gen.selfDelineated.contains b
def isStreamDelim (b : UInt8) : Bool := Gen.streamDelims.contains b

/-- one call of `next()` -/
def next (env : Env) (st : SS) : Item × SS :=
  if st.failed then
    -- reader: early return; slice: `parse_whitespace` at the truncated end sets offset := index.
    -- The offset after a failure is not part of any property; it is left unchanged in the model.
    (.none, st)
  else
    let (r, p) := skipWs st.rest st.pos
    match r with
    | [] => (.none, { st with rest := [], pos := p, offset := p })
    | b :: _ =>
      match runPrefix env init p r with
      | .err c idx => (.err c idx, { st with rest := r, pos := p, offset := p, failed := true })
      | .ok v e =>
        let rest' := r.drop (e - p)
        let st' : SS := { rest := rest', pos := e, offset := e, failed := false }
        if isSelfDelineated b then (.ok v, st')
        else
          match rest' with
          | [] => (.ok v, st')
          | d :: _ =>
            if isStreamDelim d then (.ok v, st')
            else (.err .TrailingCharacters (e + 1), st')     -- `peek_end_of_value`: not a failure of the stream

def start (bs : Bytes) : SS := { rest := bs, pos := 0, offset := 0, failed := false }

/-- `k` calls of `next()`, each followed by `byte_offset()` -/
def history (env : Env) : Nat → SS → List (Item × Nat)
  | 0, _ => []
  | k + 1, st => let (it, st') := next env st; (it, st'.offset) :: history env k st'

end SJ.Model.Stream
