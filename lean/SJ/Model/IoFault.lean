import SJ.Model.Machine
import SJ.Model.Stream
import SJ.Model.Ser
import SJ.Model.Raw
/-!
# I/O faults (C13)

**Reader side.** The input is a byte sequence followed, instead of end of input, by an I/O error of
kind `k` (`io::Bytes` retries `Interrupted` itself, so interrupted reads are invisible here). The
deserializer works byte by byte, so: if a step fails on one of the delivered bytes the result is
that error and the faulty read is never issued; otherwise the machine asks for another byte
(every state does — even `done` asks, because `from_reader` calls `end()`), receives the fault and
returns `Error::io` (`tri!` on every `peek`/`next`).

**Writer side.** The serializer hands a list of buffers to `write_all`; a writer that accepts `m`
bytes in total and then fails with kind `k` has received exactly the first `m` bytes of the
concatenation (`write_all` loops over short writes — std), and serialization returns `Io k` iff
`m` is less than the total length.
-/
namespace SJ.Model.IoFault
open SJ SJ.Gen SJ.Model.Machine

inductive ROut where
  | err (c : Code) (idx : Nat)       -- a step failed before the fault was reached
  | io                               -- the fault was delivered and surfaced as `Error::io`
deriving Repr

/-- `from_reader` over `bs` followed by an I/O error -/
def runFault (env : Env) (s : St) (i : Nat) : Bytes → ROut
  | [] => .io
  | b :: bs => match step env s b with
    | .ok s' => runFault env s' (i + 1) bs
    | .error (c, a) => .err c (errIdx env a i)

def parseFault (env : Env) (bs : Bytes) : ROut := runFault env init 0 bs

/-- `from_reader::<Box<RawValue>>` over `bs` followed by an I/O error (raw_value builds): `deserialize_raw_value` skips
    whitespace, starts the reader's raw buffer, skips one value, checks the buffer with `String::from_utf8`, then
    `end()` reads on. Every point at which the clean run would have met the end of input (an `Eof…` code, or success:
    `end()` and the number scanner both ask for one more byte) meets the fault instead; an error on a delivered byte
    (syntax, invalid UTF-8 of the captured text, trailing characters) is reported as in the clean run. -/
def rawFault (cfg : Cfg) (bs : Bytes) : ROut :=
  match SJ.Model.Raw.rawTop cfg .reader bs with
  | .ok _ _ => .io
  | .err c idx => if Gen.classify c == .eof then .io else .err c idx

/-- writer that accepts `m` bytes then fails: (bytes accepted, failed?) -/
def writeFault (bufs : List Bytes) (m : Nat) : Bytes × Bool :=
  let all := bufs.flatten
  (all.take m, decide (m < all.length))

end SJ.Model.IoFault
