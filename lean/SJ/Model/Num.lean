import SJ.Spec.Value
import SJ.Spec.Ieee
import SJ.Gen.Pow10
/-!
# Number conversion of the text deserializer (`src/de.rs`), as functions of the scanned literal

The byte-step machine (`Model.Machine`) scans a number literal into its parts (sign, integer
digits, fraction digits, exponent sign and digits) and reports syntax errors itself; the functions
here transcribe what `parse_integer`, `parse_number`, `parse_decimal`, `parse_exponent`,
`parse_long_integer`, `parse_decimal_overflow`, `parse_exponent_overflow`, `f64_from_parts`
(default build) compute from those digits, as folds with the same accumulators and the same
`overflow!` guard. Under `float_roundtrip` the float is the correctly rounded value (that lexical
delivers it is property C07); under `arbitrary_precision` the literal text is kept.
-/
namespace SJ.Model.Num
open SJ SJ.Spec.Ieee

structure Parts where
  neg : Bool
  int : Bytes                     -- integer digits (ASCII)
  frac : Option Bytes             -- digits after `.`
  exp : Option (Bool × Bytes)     -- (exponent is negative, digits)
  raw : Bytes                     -- the literal as written
deriving Repr, Inhabited

def dig (b : UInt8) : Nat := b.toNat - 0x30

/-- `overflow!(a * 10 + b, c)` exactly as written: `a >= c / 10 && (a > c / 10 || b > c % 10)` -/
def overflowMacro (a b c : Nat) : Bool := a ≥ c / 10 && (a > c / 10 || b > c % 10)

def u64Max : Nat := 2 ^ 64 - 1
def i32Max : Nat := 2 ^ 31 - 1

def clampI32 (x : Int) : Int := if x > 2147483647 then 2147483647 else if x < -2147483648 then -2147483648 else x

/-- a float literal `1e<k>` of the source: rustc rounds it correctly (an out-of-range literal does not
    compile; modelled as `+∞`) -/
def lit10 (k : Nat) : UInt64 := (roundNE64 false (10 ^ k) 1).getD (F64.inf false)

/-- `POW10.get(i)`: the table is re-extracted from `src/de.rs` on every run (`Gen.pow10Exps`: entry `i`
    is the literal `1e<pow10Exps[i]>`, as written); `None` beyond its end -/
def pow10 (i : Nat) : Option UInt64 := (Gen.pow10Exps[i]?).map lit10

inductive FRes where
  | ok (bits : UInt64)
  | outOfRange
  | outOfFuel
deriving Repr, DecidableEq

/-- `f64_from_parts` (non-`float_roundtrip`), loop transcribed with explicit fuel:
    ```
    match POW10.get(exponent.wrapping_abs() as usize) {
        Some(&pow) => { if exponent >= 0 { f *= pow; if f.is_infinite() { return Err(NumberOutOfRange) } }
                        else { f /= pow; } break; }
        None => { if f == 0.0 { break; } if exponent >= 0 { return Err(NumberOutOfRange) }
                  f /= 1e308; exponent += 308; }
    }
    ```
    (`1e308` / `308` are `Gen.fromPartsBigExp` / `Gen.fromPartsStep`, re-extracted as well). -/
def f64FromPartsLoop : Nat → UInt64 → Int → FRes
  | 0, _, _ => .outOfFuel
  | fuel + 1, f, exponent =>
    let idx := exponent.natAbs      -- `exponent.wrapping_abs() as usize`; i32::MIN ↦ 2^31 (as usize: huge) — out of table either way
    match pow10 idx with
    | some pow =>
      if exponent ≥ 0 then
        let f' := F64.mul f pow
        if F64.isInf f' then .outOfRange else .ok f'
      else .ok (F64.div f pow)
    | none =>
      if F64.isZero f then .ok f
      else if exponent ≥ 0 then .outOfRange
      else f64FromPartsLoop fuel (F64.div f (lit10 Gen.fromPartsBigExp)) (exponent + Gen.fromPartsStep)

def f64FromParts (positive : Bool) (significand : Nat) (exponent : Int) : FRes :=
  match f64FromPartsLoop ((exponent.natAbs / Gen.fromPartsStep) + 3) (F64.ofU64 significand) exponent with
  | .ok f => .ok (if positive then f else F64.neg f)
  | r => r

/-- result of scanning one literal (`ParserNumber` or the error) -/
inductive NRes where
  | u64 (n : Nat)
  | i64 (n : Int)
  | f64 (bits : UInt64)
  | outOfRange
  | outOfFuel
deriving Repr, DecidableEq

def ofF (r : FRes) : NRes :=
  match r with
  | .ok b => .f64 b
  | .outOfRange => .outOfRange
  | .outOfFuel => .outOfFuel

/-- `parse_exponent_overflow` -/
def exponentOverflow (positive zeroSig positiveExp : Bool) : NRes :=
  if !zeroSig && positiveExp then .outOfRange
  else .f64 (if positive then 0 else F64.neg 0)

/-- `parse_exponent` after the `e`: digits folded with the i32 `overflow!` guard -/
def parseExponent (positive : Bool) (sig : Nat) (startExp : Int) (expNeg : Bool) (ds : Bytes) : NRes :=
  match ds with
  | [] => .outOfFuel   -- unreachable: the machine guarantees a digit
  | d :: rest =>
    let rec go (exp : Nat) : Bytes → Option Nat
      | [] => some exp
      | c :: cs => if overflowMacro exp (dig c) i32Max then none else go (exp * 10 + dig c) cs
    match go (dig d) rest with
    | none => exponentOverflow positive (sig == 0) (!expNeg)
    | some exp =>
      let finalExp := if !expNeg then clampI32 (startExp + exp) else clampI32 (startExp - exp)
      ofF (f64FromParts positive sig finalExp)

/-- `parse_decimal` (after the `.`) including `parse_decimal_overflow` -/
def parseDecimal (positive : Bool) (sig : Nat) (expBefore : Int) (fds : Bytes)
    (exp : Option (Bool × Bytes)) : NRes :=
  let rec go (sig : Nat) (expAfter : Int) : Bytes → Nat × Int
    | [] => (sig, expAfter)
    | c :: cs =>
      if overflowMacro sig (dig c) u64Max then (sig, expAfter)     -- further digits are dropped
      else go (sig * 10 + dig c) (expAfter - 1) cs
  let (sig', expAfter) := go sig 0 fds
  let exponent := expBefore + expAfter
  match exp with
  | some (en, eds) => parseExponent positive sig' exponent en eds
  | none => ofF (f64FromParts positive sig' exponent)

/-- `parse_integer` / `parse_number` / `parse_long_integer` for the default build -/
def convertDefault (p : Parts) : NRes :=
  let positive := !p.neg
  -- integer digits with the u64 `overflow!` guard; on overflow the rest only counts
  let rec goInt (sig : Nat) : Bytes → Nat × Option Nat
    | [] => (sig, none)
    | c :: cs =>
      if overflowMacro sig (dig c) u64Max then (sig, some (c :: cs).length)
      else goInt (sig * 10 + dig c) cs
  let (sig, over) := goInt 0 p.int
  match over with
  | some extra =>
    -- parse_long_integer: `exponent` = number of dropped integer digits
    match p.frac, p.exp with
    | some fds, e => parseDecimal positive sig extra fds e
    | none, some (en, eds) => parseExponent positive sig extra en eds
    | none, none => ofF (f64FromParts positive sig extra)
  | none =>
    match p.frac, p.exp with
    | some fds, e => parseDecimal positive sig 0 fds e
    | none, some (en, eds) => parseExponent positive sig 0 en eds
    | none, none =>
      if positive then .u64 sig
      else
        -- `(significand as i64).wrapping_neg()`, float if that is ≥ 0 (underflow or `-0`)
        let asI64 : Int := if sig ≥ 2 ^ 63 then (sig : Int) - 2 ^ 64 else sig
        let negv : Int := if asI64 == -(2 ^ 63) then asI64 else -asI64
        if negv ≥ 0 then .f64 (F64.neg (F64.ofU64 sig)) else .i64 negv

def natOfDigits (ds : Bytes) : Nat := ds.foldl (fun a d => a * 10 + dig d) 0

/-- exact value of the literal as |x| = num/den, or a verdict when the exponent is astronomically
    large (so that no power is ever computed beyond ±1100 decimal orders) -/
inductive Exact where
  | zero
  | huge          -- ≥ 10^400
  | tiny          -- < 10^-400, non-zero
  | rat (num den : Nat)

def exact (p : Parts) : Exact :=
  let fds := p.frac.getD []
  let n := natOfDigits (p.int ++ fds)
  if n == 0 then .zero else
  let e : Int := (match p.exp with
    | some (en, eds) => if en then -(natOfDigits eds : Int) else natOfDigits eds
    | none => 0) - fds.length
  let digits := (toString n).length
  if e + digits > 400 then .huge
  else if e + digits < -400 then .tiny
  else if e ≥ 0 then .rat (n * 10 ^ e.toNat) 1 else .rat n (10 ^ (-e).toNat)

/-- integer classification shared by all builds (no fraction/exponent): U64, I64 or float -/
def intClass (p : Parts) : Option NRes :=
  match p.frac, p.exp with
  | none, none =>
    let n := natOfDigits p.int
    if !p.neg then (if n < 2 ^ 64 then some (.u64 n) else none)
    else if n == 0 then none
    else if n ≤ 2 ^ 63 then some (.i64 (-(n : Int))) else none
  | _, _ => none

/-- exponent-digit overflow rule of `parse_exponent`/`parse_long_exponent` (both builds) -/
def expOverflows (eds : Bytes) : Bool :=
  match eds with
  | [] => false
  | d :: rest =>
    let rec go (exp : Nat) : Bytes → Bool
      | [] => false
      | c :: cs => if overflowMacro exp (dig c) i32Max then true else go (exp * 10 + dig c) cs
    go (dig d) rest

/-- `float_roundtrip` build: integers as in the default build, floats correctly rounded
    (that lexical computes exactly this is property C07). -/
def convertRoundtrip (p : Parts) : NRes :=
  match intClass p with
  | some r => r
  | none =>
    let allZero := (p.int ++ p.frac.getD []).all (· == 0x30)
    match p.exp with
    | some (en, eds) =>
      if expOverflows eds then exponentOverflow (!p.neg) allZero (!en)
      else conv p
    | none => conv p
where
  conv (p : Parts) : NRes :=
    match exact p with
    | .zero => .f64 (F64.zero p.neg)
    | .tiny => .f64 (F64.zero p.neg)
    | .huge => .outOfRange
    | .rat n d =>
      -- (`exact` never yields a zero denominator; the test keeps kernel reduction from unfolding
      --  `roundNE64` on open terms — it gets stuck here instead)
      match (if d == 0 then none else roundNE64 p.neg n d) with
      | some b => .f64 b
      | none => .outOfRange

end SJ.Model.Num
