import SJ.Model.Machine
import SJ.Model.Display
/-!
# `RawValue` ⇄ `Value`: `to_value(&raw)` and `from_value::<Box<RawValue>>(v)` (feature `raw_value`)

**`to_value(&raw)`** — `src/raw.rs` + `src/value/ser.rs`:
```rust
impl Serialize for RawValue {                       // raw.rs
    fn serialize<S>(&self, serializer: S) -> Result<S::Ok, S::Error> {
        let mut s = tri!(serializer.serialize_struct(TOKEN, 1));
        tri!(s.serialize_field(TOKEN, &self.json));
        s.end() } }
// value/ser.rs, impl serde::Serializer for Serializer (= `to_value`)
fn serialize_struct(self, name: &'static str, len: usize) -> Result<Self::SerializeStruct> {
    match name { …
        #[cfg(feature = "raw_value")]
        crate::raw::TOKEN => Ok(SerializeMap::RawValue { out_value: None }),
        _ => self.serialize_map(Some(len)), } }
// impl serde::ser::SerializeStruct for SerializeMap
fn serialize_field<T>(&mut self, key: &'static str, value: &T) -> Result<()> { match self { …
    SerializeMap::RawValue { out_value } => {
        if key == crate::raw::TOKEN { *out_value = Some(tri!(value.serialize(RawValueEmitter))); Ok(()) }
        else { Err(invalid_raw_value()) } } } }
fn end(self) -> Result<Value> { match self { …
    SerializeMap::RawValue { out_value, .. } => Ok(out_value.expect("raw value was not emitted")), } }
// impl serde::ser::Serializer for RawValueEmitter   (every other method: Err(invalid_raw_value()))
fn serialize_str(self, value: &str) -> Result<Value> { crate::from_str(value) }
```
So `to_value(&raw)` IS `from_str::<Value>(raw.get())`: the text is parsed — from a `&str`, as a whole document
(`Deserializer::end()` included) — with the full `Value` parser: surrogate pairing, number range and the
recursion limit are checked here although the scanner that delimited the `RawValue` did not check them, so
`to_value` of a valid `RawValue` can fail, with the error `from_str` gives (positions relative to the text).

**`from_value::<Box<RawValue>>(v)`** — `src/value/de.rs` + `src/raw.rs`:
```rust
// impl<'de> serde::Deserializer<'de> for Value   (and for &'de Value, identically)
fn deserialize_newtype_struct<V>(self, name: &'static str, visitor: V) -> Result<V::Value, Error> {
    #[cfg(feature = "raw_value")]
    { if name == crate::raw::TOKEN {
        return visitor.visit_map(crate::raw::OwnedRawDeserializer { raw_value: Some(self.to_string()) }); } }
    let _ = name;
    visitor.visit_newtype_struct(self) }
// raw.rs: Box<RawValue>::deserialize = deserializer.deserialize_newtype_struct(TOKEN, BoxedVisitor);
// BoxedVisitor::visit_map: next_key::<RawKey>() (OwnedRawDeserializer yields the TOKEN key once) then
//   next_value_seed(BoxedFromString) → String::into_deserializer().deserialize_str → visit_string(s)
//   → RawValue::from_owned(s.into_boxed_str())
```
`self.to_string()` is `ToString` through `impl Display for Value`, i.e. the compact serializer run through the
`fmt::Formatter` adapter (`Model.Display.format … false`; `none` there is `ToString`'s "Display implementation
returned an error" panic — which `c03_display` shows cannot happen). The text is NOT re-validated: it is valid
JSON because the serializer writes valid JSON (C03).

Import-free (only `SJ.Model.*`).
-/
namespace SJ.Model.RawConv
open SJ SJ.Model.Machine SJ.Model.Ser

/-- `serde_json::to_value(&raw)` where `raw.get() = text` -/
def toValueRaw (cfg : Cfg) (text : Bytes) : Outcome := parseTop ⟨cfg, .str, .value⟩ text

/-- `serde_json::from_value::<Box<RawValue>>(v)` (also `Box::<RawValue>::deserialize(&v)`): the text of the result;
    `none` = `ToString`'s panic -/
def fromValueRaw (ext : Ext) (v : JV) : Option Bytes := SJ.Model.Display.format ext v false

end SJ.Model.RawConv
