import SJ.Model.Lexical
import SJ.Model.LexMath
/-!
# `src/lexical/bhcomp.rs` over limb vectors

`Model.Lexical` transcribes `bhcomp.rs` with `Bigint` abstracted by a natural number. Here the same four functions
(`parse_mantissa`, `large_atof`, `small_atof`, `bhcomp`) are transcribed once more with `Bigint` as what it is — a
`Vec<Limb>` operated on by the trait `Math` of `math.rs` (`Model.LexMath.Math.*`). Everything that is not big-integer
arithmetic (`bh_extended`, `round_to_native`, `into_float`, `next_positive`, …) is shared with `Model.Lexical`.
`Proofs/LexMathBh.lean` shows that the two transcriptions agree (`Props.C07.c07_limbs_refine_nat`).

`none` = a panic of the limb code (`imul_pow5` with an exponent `≥ 2^14`, the Karatsuba path on operands it cannot
handle, `hi64` of a vector with a zero top limb) — see `Model/LexMath.lean`.
-/
namespace SJ.Model.LexBhLimbs
open SJ SJ.Gen SJ.Model.Num SJ.Model.Lexical SJ.Model.LexMath

/-- `x as u32` of an `i32` -/
def asU32 (x : Int) : Nat := (x % 2 ^ 32).toNat

/-- the loop of `parse_mantissa` (`Model.Lexical.parseMantissaLoop` with `result: Bigint` as limbs):
    `if counter == step { result.imul_small(small_powers[counter]); result.iadd_small(value); counter = 0; value = 0; }` -/
def parseMantissaLoopL (maxDigits step : Nat) : Bytes → Nat → Nat → Nat → Limbs → Nat × Nat × Nat × Limbs
  | [], counter, value, i, result => (counter, value, i, result)
  | d :: ds, counter, value, i, result =>
    let (result, counter, value) :=
      if counter == step then (Math.iaddSmall (Math.imulSmall result (pow10_64.getD counter 0)) value, 0, 0)
      else (result, counter, value)
    let value := value * 10 + dig d
    let i := i + 1
    let counter := counter + 1
    if i == maxDigits then (counter, value, i, result)
    else parseMantissaLoopL maxDigits step ds counter value i result

/-- `fn parse_mantissa<F>(integer: &[u8], fraction: &[u8]) -> Bigint` (quoted at `Model.Lexical.parseMantissa`);
    `Bigint::default()` is the empty vector -/
def parseMantissaL (c : FC) (integer fraction : Bytes) : Limbs :=
  let step := pow10_64.length - 2
  let maxDigits := c.maxDigits - 1
  let (counter, value, i, result) := parseMantissaLoopL maxDigits step (integer ++ fraction) 0 0 0 []
  let result := if counter != 0 then Math.iaddSmall (Math.imulSmall result (pow10_64.getD counter 0)) value else result
  if i < integer.length + fraction.length then
    let result := Math.imulSmall result 10
    if ((integer ++ fraction).drop i).any (· != 0x30) then Math.iaddSmall result 1 else result
  else result

/-- `fn large_atof<F>(mantissa: Bigint, exponent: i32) -> F`:
    `bigmant.imul_pow10(exponent as u32); let (mant, is_truncated) = bigmant.hi64(); let exp = bigmant.bit_length() as i32 - 64; …` -/
def largeAtofL (c : FC) (mantissa : Limbs) (exponent : Int) : Option Nat := do
  let bigmant ← Math.imulPow10 mantissa (asU32 exponent)
  let (mant, isTruncated) ← Math.hi64 bigmant
  let exp : Int := (Math.bitLength bigmant : Int) - 64
  some (intoFloatBits c (roundToNative c (bhRoundNearestTieEven isTruncated) { mant := mant, exp := exp }))

/-- `fn small_atof<F>(mantissa: Bigint, exponent: i32, f: F) -> F`:
    ```
    let mut theor_digits = Bigint::from_u64(theor.mant);
    if halfradix_exp != 0 { theor_digits.imul_pow5(halfradix_exp as u32); }
    if radix_exp != 0 { … }                                                   // radix_exp = 0
    if binary_exp > 0 { theor_digits.imul_pow2(binary_exp as u32); } else if binary_exp < 0 { real_digits.imul_pow2(-binary_exp as u32); }
    match real_digits.compare(&theor_digits) { Greater => f.next_positive(), Less => f, Equal => f.round_positive_even() }``` -/
def smallAtofL (c : FC) (mantissa : Limbs) (exponent : Int) (f : Nat) : Option Nat := do
  let theor := bhExtended c f
  let theorDigits := Math.fromU64 theor.mant
  let binaryExp := theor.exp - exponent
  let halfradixExp := -exponent
  let theorDigits ← if halfradixExp != 0 then Math.imulPow5 theorDigits (asU32 halfradixExp) else some theorDigits
  let theorDigits := if binaryExp > 0 then Math.imulPow2 theorDigits (asU32 binaryExp) else theorDigits
  let realDigits := if binaryExp < 0 then Math.imulPow2 mantissa (asU32 (-binaryExp)) else mantissa
  match Math.compare realDigits theorDigits with
  | .gt => some (nextPositive c f)
  | .lt => some f
  | .eq => some (roundPositiveEven c f)

/-- `fn bhcomp<F>(b: F, integer: &[u8], mut fraction: &[u8], exponent: i32) -> F` (quoted at `Model.Lexical.bhcomp`) -/
def bhcompL (c : FC) (b : Nat) (integer fraction : Bytes) (exponent : Int) : Option Nat :=
  let integerDigits := integer.length
  let fractionDigits := fraction.length
  let (digitsStart, fraction) :=
    if integerDigits == 0 then
      let start := (fraction.takeWhile (· == 0x30)).length
      (start, fraction.drop start)
    else (0, fraction)
  let sciExp := scientificExponent exponent integerDigits digitsStart
  let count := min c.maxDigits (integerDigits + fractionDigits - digitsStart)
  let scaledExponent : Int := sciExp + 1 - count
  let mantissa := parseMantissaL c integer fraction
  if scaledExponent ≥ 0 then largeAtofL c mantissa scaledExponent else smallAtofL c mantissa scaledExponent b

end SJ.Model.LexBhLimbs
