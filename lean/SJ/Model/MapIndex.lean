import SJ.Spec.AMap
import SJ.Gen.Map
/-!
# Model of `serde_json::Map` under `preserve_order`: `MapImpl = IndexMap<String, Value>`

What `src/map.rs` does in this build (quoted):

```rust
pub fn insert(&mut self, k: String, v: Value) -> Option<Value> { self.map.insert(k, v) }
pub fn shift_insert(&mut self, index: usize, k: String, v: Value) -> Option<Value> { self.map.shift_insert(index, k, v) }
pub fn remove<Q>(&mut self, key: &Q) -> Option<Value> {
    #[cfg(feature = "preserve_order")] return self.swap_remove(key);          // Gen.mapRemoveFwd
    …
}
pub fn remove_entry<Q>(&mut self, key: &Q) -> Option<(String, Value)> {
    #[cfg(feature = "preserve_order")] return self.swap_remove_entry(key);    // Gen.mapRemoveEntryFwd
    …
}
pub fn swap_remove / swap_remove_entry / shift_remove / shift_remove_entry   => self.map.<same name>(key)
pub fn append(&mut self, other: &mut Self) {
    #[cfg(feature = "preserve_order")]
    self.map.extend(mem::replace(&mut other.map, MapImpl::default()));
}
pub fn retain<F>(&mut self, f: F) { self.map.retain(f); }
pub fn sort_keys(&mut self) { #[cfg(feature = "preserve_order")] self.map.sort_unstable_keys(); }
impl OccupiedEntry { pub fn remove(self) -> Value { #[cfg(feature = "preserve_order")] return self.swap_remove(); … }
                     pub fn remove_entry(self) -> (String, Value) { … return self.swap_remove_entry(); … } }   // Gen.occRemove*Fwd
impl Entry { pub fn or_insert(self, default: Value) -> &'a mut Value {
    match self { Entry::Vacant(entry) => entry.insert(default), Entry::Occupied(entry) => entry.into_mut() } } }
impl PartialEq for Map<String, Value> { fn eq(&self, other: &Self) -> bool { self.map.eq(&other.map) } }
```

`IndexMap` (indexmap 2.x) is modelled by its documented semantics on the entry vector:
`insert`: "if an equivalent key already exists in the map: the key remains and retains in its
place in the order, its corresponding value is updated … if no equivalent key existed: the new
key-value pair is inserted, last in order"; `swap_remove`: "like `Vec::swap_remove`, the pair is
removed by swapping it with the last element of the map and popping it off"; `shift_remove`:
"like `Vec::remove`, the pair is removed by shifting all of the elements that follow it";
`shift_insert(index, k, v)`: existing key — value updated, key *moved* to `index` (panics unless
`index < len`), new key — inserted at `index` shifting the rest (panics unless `index <= len`);
`extend` = `insert` for each pair in order; `retain`: "the elements are visited in order, and
remaining elements keep their order"; `sort_unstable_keys`: sort by key; `==`:
`self.len() == other.len() && self.iter().all(|(k, v)| other.get(k).map_or(false, |w| *v == *w))`.
-/
namespace SJ.Model.MapIndex
open SJ SJ.Spec.AMap

abbrev IMap (V : Type) := List (Bytes × V)

variable {V : Type}

def get (k : Bytes) (m : IMap V) : Option V := lookup k m

/-- `IndexMap::insert` (also `VacantEntry::insert` / `OccupiedEntry::insert`) -/
def insert (k : Bytes) (v : V) : IMap V → IMap V × Option V
  | [] => ([(k, v)], none)
  | (k', v') :: r =>
    if k' = k then ((k', v) :: r, some v')
    else let (r', old) := insert k v r; ((k', v') :: r', old)

/-- `IndexMap::shift_remove_entry` -/
def shiftRemove (k : Bytes) : IMap V → IMap V × Option V
  | [] => ([], none)
  | (k', v') :: r =>
    if k' = k then (r, some v')
    else let (r', old) := shiftRemove k r; ((k', v') :: r', old)

/-- `IndexMap::swap_remove_entry`: the last entry takes the place of the removed one -/
def swapRemove (k : Bytes) : IMap V → IMap V × Option V
  | [] => ([], none)
  | (k', v') :: r =>
    if k' = k then (swapTail r, some v')
    else let (r', old) := swapRemove k r; ((k', v') :: r', old)

def flavourOfCode (c : Nat) : Flavour := if c = 0 then .swap else .shift

/-- which `IndexMap` removal a call ends up in (`Gen.*` are re-extracted from `map.rs` every run) -/
def resolve (fl : Flavour) (sh : Shape) (via : Via) : Flavour :=
  match fl with
  | .swap => .swap
  | .shift => .shift
  | .plain => match via, sh with
    | .map, .value => flavourOfCode Gen.mapRemoveFwd
    | .map, .entry => flavourOfCode Gen.mapRemoveEntryFwd
    | .occupied, .value => flavourOfCode Gen.occRemoveFwd
    | .occupied, .entry => flavourOfCode Gen.occRemoveEntryFwd

def removeWith (fl : Flavour) (k : Bytes) (m : IMap V) : IMap V × Option V :=
  match fl with
  | .shift => shiftRemove k m
  | _ => swapRemove k m

/-- `IndexMap::shift_insert`; `none` = the index assertion fails (panic before any mutation) -/
def shiftInsert (i : Nat) (k : Bytes) (v : V) (m : IMap V) : Option (IMap V × Option V) :=
  match get k m with
  | some old => if i < m.length then some (insertAt i (k, v) (shiftRemove k m).1, some old) else none
  | none => if i ≤ m.length then some (insertAt i (k, v) m, none) else none

/-- `IndexMap::extend` = `insert` for each pair in order -/
def insertMany (m : IMap V) : List (Bytes × V) → IMap V
  | [] => m
  | (k, v) :: r => insertMany (insert k v m).1 r

def retain (p : Bytes → V → Bool) (m : IMap V) : IMap V := m.filter fun kv => p kv.1 kv.2

/-- insertion of an entry into a list ascending by key -/
def insEntry (kv : Bytes × V) : IMap V → IMap V
  | [] => [kv]
  | a :: r => if ltB kv.1 a.1 then kv :: a :: r else a :: insEntry kv r

/-- `sort_unstable_keys` / `sort_unstable_by(|a, b| a.0.cmp(b.0))` (keys are distinct, so the
    result does not depend on the algorithm) -/
def sortEntries : IMap V → IMap V
  | [] => []
  | kv :: r => insEntry kv (sortEntries r)

def sortKeys (m : IMap V) : IMap V := if Gen.mapSortKeysSorts then sortEntries m else m

/-- `IndexMap::eq` -/
def beq (eqv : V → V → Bool) (m₁ m₂ : IMap V) : Bool :=
  m₁.length == m₂.length &&
    m₁.all fun kv => match get kv.1 m₂ with
      | some w => eqv kv.2 w
      | none => false

def step (o : Op V) (m : IMap V) : IMap V × Ret V :=
  match o with
  | .insert k v => let (m', old) := insert k v m; (m', .optV old)
  | .shiftInsert i k v => match shiftInsert i k v m with
      | some (m', old) => (m', .optV old)
      | none => (m, .panic)
  | .remove fl sh via k => let (m', old) := removeWith (resolve fl sh via) k m; (m', removeRet sh k old)
  | .get k => (m, .optV (get k m))
  | .contains k => (m, .bool (get k m).isSome)
  | .len => (m, .nat m.length)
  | .isEmpty => (m, .bool (m.length == 0))
  | .clear => ([], .unit)
  | .append o => (if Gen.mapAppendAsDocumented then insertMany m o else m, .unit)
  | .extend o => (insertMany m o, .unit)
  | .retain p => (retain p m, .unit)
  | .sortKeys => (sortKeys m, .unit)
  | .entryOrInsert k v => match get k m with
      | some x => (m, .val x)
      | none => ((insert k v m).1, .val v)
  | .entryInsert k v => let (m', old) := insert k v m; (m', .optV old)
  | .entryModify k v w => match get k m with
      | some _ => ((insert k v m).1, .val v)
      | none => ((insert k w m).1, .val w)
  | .setMut k v => match get k m with
      | some x => ((insert k v m).1, .optV (some x))
      | none => (m, .optV none)
  | .index k => match get k m with
      | some x => (m, .val x)
      | none => (m, .panic)
  | .indexSet k v => match get k m with
      | some _ => ((insert k v m).1, .unit)
      | none => (m, .panic)
  | .iter => (m, .kvs m)
  | .iterRev => (m, .kvs m.reverse)
  | .keys => (m, .keys (m.map (·.1)))
  | .values => (m, .vals (m.map (·.2)))

/-- run a history from the state `m`, collecting the return values -/
def runFrom (m : IMap V) : List (Op V) → IMap V × List (Ret V)
  | [] => (m, [])
  | o :: os =>
    let (m', r) := step o m
    let (m'', rs) := runFrom m' os
    (m'', r :: rs)

/-- a history applied to `Map::new()` -/
def run (ops : List (Op V)) : IMap V × List (Ret V) := runFrom [] ops

inductive Reachable : IMap V → Prop where
  | new : Reachable []
  | step (o : Op V) {m : IMap V} : Reachable m → Reachable (step o m).1

end SJ.Model.MapIndex
