import SJ.Spec.Value
import SJ.Gen.Index
import SJ.Model.Machine
import SJ.Model.ValueOps
/-!
# Model of `Value::get` / `get_mut` / `Index` / `IndexMut` / `take` (src/value/index.rs, src/value/mod.rs)

```rust
pub fn get<I: Index>(&self, index: I) -> Option<&Value> { index.index_into(self) }
pub fn get_mut<I: Index>(&mut self, index: I) -> Option<&mut Value> { index.index_into_mut(self) }
pub fn take(&mut self) -> Value { mem::replace(self, Value::Null) }

impl<I: Index> ops::Index<I> for Value {
    fn index(&self, index: I) -> &Value { static NULL: Value = Value::Null; index.index_into(self).unwrap_or(&NULL) } }
impl<I: Index> ops::IndexMut<I> for Value {
    fn index_mut(&mut self, index: I) -> &mut Value { index.index_or_insert(self) } }
```

The sealed trait `Index` has four implementors: `usize`, `str`, `String` (forwards to `self[..]`)
and `&T` (forwards to `**self`). A probe is a term of `Probe`; the forwarding impls are the
constructors `.string` and `.ref`.

A `&mut Value` result is modelled by the document it points into plus the location (`Loc`) of the
node inside it; a panic is the explicit outcome `Res.panic`. Constants that are *data* in the source
(what a missing `Index` yields, what `or_insert` inserts, what `take` leaves, whether `Null` is
first turned into an object) come from `SJ.Gen.Index`.
-/
namespace SJ.Model.ValueIndex
open SJ SJ.Model.ValueOps SJ.Model.Machine

/-- the `Value` a constructor code extracted by `gen_index` stands for
    (`0 = Value::Null`, `1 = Value::Bool(false)`, `2 = Value::Bool(true)`; anything else was reported as MISSING) -/
def valueOfCode : Nat → JV
  | 0 => .null
  | 1 => .bool false
  | 2 => .bool true
  | _ => .str [0x3f]

inductive Probe where
  | usize (i : Nat)
  | str (k : Bytes)
  | string (k : Bytes)      -- `impl Index for String`: `self[..].index_*(v)`
  | ref (p : Probe)         -- `impl<T: ?Sized + Index> Index for &T`: `(**self).index_*(v)`
deriving Repr

inductive Res (α : Type) where
  | ok (a : α)
  | panic
deriving Repr

/-- where a returned `&mut Value` points, relative to the document it was obtained from -/
inductive Loc where
  | key (k : Bytes)
  | idx (i : Nat)
deriving Repr, DecidableEq

/-! ### `impl Index for usize` -/

/-- `match v { Value::Array(vec) => vec.get(*self), _ => None }` -/
def usizeIndexInto (i : Nat) : JV → Option JV
  | .arr vec => vec[i]?
  | _ => none

/-- `match v { Value::Array(vec) => vec.get_mut(*self), _ => None }`, then `*r = x`:
    the document afterwards -/
def usizeIndexIntoMutSet (i : Nat) (x : JV) : JV → Option JV
  | .arr vec => (vecUpd (fun _ => some x) i vec).map .arr
  | _ => none

/-- ```rust
    match v { Value::Array(vec) => { let len = vec.len();
                  vec.get_mut(*self).unwrap_or_else(|| panic!("cannot access index {} of JSON array of length {}", self, len)) }
              _ => panic!("cannot access index {} of JSON {}", self, Type(v)) }
    ``` -/
def usizeIndexOrInsert (i : Nat) : JV → Res (JV × Loc)
  | .arr vec =>
    match vec[i]? with
    | some _ => .ok (.arr vec, .idx i)
    | none => .panic
  | _ => .panic

/-! ### `impl Index for str` -/

/-- `match v { Value::Object(map) => map.get(self), _ => None }` -/
def strIndexInto (k : Bytes) : JV → Option JV
  | .obj map => mapGet k map
  | _ => none

/-- `match v { Value::Object(map) => map.get_mut(self), _ => None }`, then `*r = x` -/
def strIndexIntoMutSet (k : Bytes) (x : JV) : JV → Option JV
  | .obj map => (mapUpd k (fun _ => some x) map).map .obj
  | _ => none

/-- `Map::insert` of the configured container -/
def mapInsert (po : Bool) (k : Bytes) (v : JV) (map : List (Bytes × JV)) : List (Bytes × JV) :=
  if po then ixInsert k v map else btInsert k v map

/-- `map.entry(key).or_insert(default)`: an occupied entry keeps its value, a vacant one inserts -/
def entryOrInsert (po : Bool) (k : Bytes) (dflt : JV) (map : List (Bytes × JV)) : List (Bytes × JV) :=
  match mapGet k map with
  | some _ => map
  | none => mapInsert po k dflt map

/-- ```rust
    if let Value::Null = v { *v = Value::Object(Map::new()); }
    match v { Value::Object(map) => map.entry(self.to_owned()).or_insert(Value::Null),
              _ => panic!("cannot access key {:?} in JSON {}", self, Type(v)) }
    ``` -/
def strIndexOrInsert (po : Bool) (k : Bytes) (v : JV) : Res (JV × Loc) :=
  let v := match v with
    | .null => if Gen.nullBecomesObject then JV.obj [] else JV.null
    | v => v
  match v with
  | .obj map => .ok (.obj (entryOrInsert po k (valueOfCode Gen.orInsertCode) map), .key k)
  | _ => .panic

/-! ### the trait, with its forwarding impls -/

def indexInto : Probe → JV → Option JV
  | .usize i, v => usizeIndexInto i v
  | .str k, v => strIndexInto k v
  | .string k, v => strIndexInto k v
  | .ref p, v => indexInto p v

def indexIntoMutSet : Probe → JV → JV → Option JV
  | .usize i, x, v => usizeIndexIntoMutSet i x v
  | .str k, x, v => strIndexIntoMutSet k x v
  | .string k, x, v => strIndexIntoMutSet k x v
  | .ref p, x, v => indexIntoMutSet p x v

def indexOrInsert (po : Bool) : Probe → JV → Res (JV × Loc)
  | .usize i, v => usizeIndexOrInsert i v
  | .str k, v => strIndexOrInsert po k v
  | .string k, v => strIndexOrInsert po k v
  | .ref p, v => indexOrInsert po p v

/-- `Value::get` -/
def get (p : Probe) (v : JV) : Option JV := indexInto p v
/-- `Value::get_mut(p).map(|r| *r = x)`: the document afterwards -/
def getMutSet (p : Probe) (x : JV) (v : JV) : Option JV := indexIntoMutSet p x v
/-- `&value[p]`: `index.index_into(self).unwrap_or(&NULL)` -/
def index (p : Probe) (v : JV) : JV :=
  match indexInto p v with
  | some r => r
  | none => valueOfCode Gen.indexMissCode
/-- `&mut value[p]` -/
def indexMut (po : Bool) (p : Probe) (v : JV) : Res (JV × Loc) := indexOrInsert po p v

def getKey (k : Bytes) (v : JV) : Option JV := get (.str k) v
def getIdx (i : Nat) (v : JV) : Option JV := get (.usize i) v
def indexKey (k : Bytes) (v : JV) : JV := index (.str k) v
def indexIdx (i : Nat) (v : JV) : JV := index (.usize i) v
def indexMutKey (po : Bool) (k : Bytes) (v : JV) : Res (JV × Loc) := indexMut po (.str k) v
def indexMutIdx (i : Nat) (v : JV) : Res (JV × Loc) := indexMut false (.usize i) v

/-- read through a location -/
def readLoc : Loc → JV → Option JV
  | .key k, .obj m => mapGet k m
  | .idx i, .arr l => l[i]?
  | _, _ => none

/-- write through a location -/
def writeLoc (x : JV) : Loc → JV → JV
  | .key k, .obj m => .obj ((mapUpd k (fun _ => some x) m).getD m)
  | .idx i, .arr l => .arr ((vecUpd (fun _ => some x) i l).getD l)
  | _, v => v

/-- `mem::replace(self, Value::Null)`: (returned value, what is left behind) -/
def take (v : JV) : JV × JV := (v, valueOfCode Gen.takeReplacementCode)

/-- `doc.pointer_mut(p).map(Value::take)`: what was taken and the document afterwards -/
def takeAt (doc : JV) (p : Bytes) : Option (JV × JV) :=
  match pointer doc p with
  | none => none
  | some node => (pointerSet doc p (take node).2).map fun doc' => ((take node).1, doc')

end SJ.Model.ValueIndex
