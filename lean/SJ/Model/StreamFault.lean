import SJ.Model.Stream
/-!
# `StreamDeserializer` over a reader that fails (C13)

The input is `bs` followed, instead of end of input, by an I/O error (`Model.IoFault`'s reading of a failing reader:
`io::Bytes` retries `Interrupted`, every byte of `bs` is delivered, the read after the last one fails). `next()` is
`Model.Stream.next` (src/de.rs quoted there) with every point at which the clean run meets the end of input meeting the
fault instead:

* `parse_whitespace` runs out of input: `Err(e) => { self.de.read.set_failed(&mut self.failed); Some(Err(e)) }`;
* `Deserialize::deserialize` asks for a byte beyond the delivered ones (inside a value; after the digits of a number,
  whose scanner peeks for a further digit): the failing read returns `Error::io` there (`tri!`), `set_failed`;
* `true` / `false` / `null` end with the delivered bytes: `deserialize` succeeds, then
  ```rust
  fn peek_end_of_value(&mut self) -> Result<()> {
      let peek = match self.de.peek() {
          Ok(peek) => peek,
          Err(err) => { self.de.read.set_failed(&mut self.failed); return Err(err); } };
  ```
  Either way the item is the I/O error and the stream has failed;
* `if R::should_early_return_if_failed && self.failed { return None; }` — `IoRead` sets the flag (`set_failed`), and
  `impl<'a, 'de, R: Read<'de>> Read<'de> for &'a mut R` forwards both the constant and `set_failed`, so a stream that
  borrows its input source ends in the same way: after the first failed item every call is `None`, whatever the
  reader would deliver next (a reader that fails once and then recovers included).
-/
namespace SJ.Model.StreamFault
open SJ SJ.Gen SJ.Model.Machine SJ.Model.Stream

inductive FItem where
  | none
  | ok (v : JV)
  | err (c : Code) (idx : Nat)
  | io
deriving Repr

/-- result of reading one value from the head of the delivered bytes, the read after the last of them failing -/
inductive PF where
  | ok (v : JV) (next : Nat)
  | err (c : Code) (idx : Nat)
  | io
deriving Repr

/-- `Model.Stream.runPrefix` with the failing read in the place of the end of input: a value that is complete without
    looking further (`]`, `}`, `"`, the last letter of a literal) is returned; whenever one more byte is asked for
    (inside a value, or after the digits of a number — also of one that would be out of range) the answer is `Error::io` -/
def runPrefixF (env : Env) (s : St) (i : Nat) : Bytes → PF
  | [] => .io
  | b :: bs =>
    match step1 env s b with
    | .err c a => .err c (errIdx env a i)
    | .next s' =>
      match s'.mode with
      | .done v => .ok v (i + 1)
      | _ => runPrefixF env s' (i + 1) bs
    | .again s' =>
      match s'.mode with
      | .done v => .ok v i
      | _ =>
        match step1 env s' b with
        | .err c a => .err c (errIdx env a i)
        | .next s'' =>
          match s''.mode with
          | .done v => .ok v (i + 1)
          | _ => runPrefixF env s'' (i + 1) bs
        | .again _ => .err .ExpectedSomeValue (i + 1)      -- unreachable (C14)

/-- one call of `next()` over `st.rest` followed by an I/O error -/
def nextF (env : Env) (st : SS) : FItem × SS :=
  if st.failed then (.none, st)
  else
    let (r, p) := skipWs st.rest st.pos
    match r with
    | [] => (.io, { st with rest := [], pos := p, failed := true })
    | b :: _ =>
      match runPrefixF env init p r with
      | .io => (.io, { st with rest := r, pos := p, offset := p, failed := true })
      | .err c idx => (.err c idx, { st with rest := r, pos := p, offset := p, failed := true })
      | .ok v e =>
        let rest' := r.drop (e - p)
        let st' : SS := { rest := rest', pos := e, offset := e, failed := false }
        if isSelfDelineated b then (.ok v, st')
        else
          match rest' with
          | [] => (.io, { st' with failed := true })       -- `peek_end_of_value`: the peek fails, `set_failed`
          | d :: _ =>
            if isStreamDelim d then (.ok v, st')
            else (.err .TrailingCharacters (e + 1), st')

/-- `k` calls of `next()` -/
def historyF (env : Env) : Nat → SS → List FItem
  | 0, _ => []
  | k + 1, st => let (it, st') := nextF env st; it :: historyF env k st'

end SJ.Model.StreamFault
