import SJ.Model.StreamTyped
import SJ.Model.StreamDepth
/-!
# The `remaining_depth` counter of `Deserializer`, threaded through the TYPED deserializer and along a typed stream

`Model.Typed.deTyped` passes the number `t` of typed containers that are open DOWNWARD as a parameter and tests the
recursion limit on it (`tooDeep env t`); `Model.StreamTyped.nextT` reads every item at `t = 0`. The Rust code has no such
parameter: it keeps a counter in the `Deserializer`, which a `StreamDeserializer` owns for its whole life —

```rust
pub struct Deserializer<R> { read: R, scratch: Vec<u8>, remaining_depth: u8, … }      // new(): remaining_depth: 128
macro_rules! check_recursion {
    ($this:ident $($body:tt)*) => {
        if_checking_recursion_limit! {                    // unbounded_depth: `if !$this.disable_recursion_limit { … }`
            $this.remaining_depth -= 1;
            if $this.remaining_depth == 0 { return Err($this.peek_error(ErrorCode::RecursionLimitExceeded)); }
        }
        $this $($body)*
        if_checking_recursion_limit! { $this.remaining_depth += 1; }
    };
}
```

and the macro is used at seven sites, each time with a body of the form `self.eat_char(); let ret = visitor.visit_…(…);`
— an assignment, NOT `tri!` — so the `+= 1` runs whether the visitor returned `Ok` or `Err`:

| site (src/de.rs)                         | after the macro                                                              |
|------------------------------------------|------------------------------------------------------------------------------|
| `deserialize_any` `[` / `{`              | `match (ret, self.end_seq()/end_map()) { … }`                                |
| `deserialize_seq` `[` (tuple, tuple_struct, bytes) | `match (ret, self.end_seq()) { … }`                                |
| `deserialize_map` `{`                    | `match (ret, self.end_map()) { … }`                                          |
| `deserialize_struct` `[` / `{`           | `match (ret, self.end_seq()/end_map()) { … }`                                |
| `deserialize_enum` `{`                   | `let value = tri!(ret); match tri!(self.parse_whitespace()) { Some(b'}') … }` |

The only exit that skips the increment is the macro's own `return Err(RecursionLimitExceeded)`: that container's unit is
lost, every enclosing container still restores its own. Nothing else in `de.rs` writes `remaining_depth`.

This file is the model with the counter threaded as STATE: every function returns the counter next to its result
(`RD α = Res α × Nat`), `checkRecursion` transcribes the macro, the limit is tested on the COUNTER `d` (never on `t`), and
the stream keeps the counter between calls of `next()` (`nextTD`: the item is read with whatever budget the previous items
left). The parameter `t` survives for one purpose only: it is the number of padding frames under the byte-step machine when
a nested `Value` is read (how `Model.Typed.runPfx` recognises the end of the nested value); the machine's own limit test is
the counter's (`StreamDepth.step1D`). Scalars, strings, keys, `end_seq` / `end_map`, `ignore_value` (iterative) do not
touch the counter and are the functions of `Model.Typed`.

`SJ.Props.StreamTypedDepth`: `deTypedD` is `deTyped` with the counter restored (`c14_typed_depth_restored`), and
`historyTD` is `historyT` with the counter at 128 before every item that is read (`c14_typed_stream_depth_restored`,
`c12_typed_items_full_budget`). Import-free.
-/
namespace SJ.Model.StreamTypedDepth
open SJ SJ.Gen SJ.Model.Typed
open SJ.Model.Machine (St Frame Mode Step step1 errIdx init)
open SJ.Model.FromValue (R visitCharStr nameIndex finishFields bytesOfInts)
open SJ.Model.Stream (SS skipWs isSelfDelineated isStreamDelim start)
open SJ.Model.StreamDepth (step1D)
open SJ.Model.StreamTyped (TItem failAt)

/-- is `check_recursion!` active? (`if_checking_recursion_limit!`) -/
def counting (env : Env) : Bool := !env.cfg.limitOff

/-- a result together with `remaining_depth` after it -/
abbrev RD (α : Type) := Res α × Nat

/-- `tri!(step)` for a step that does not touch the counter (`d`: the counter now) -/
def bindD {α β : Type} (r : Res α) (d : Nat) (k : α → Bytes → Nat → RD β) : RD β :=
  match r with
  | .ok a rest pos => k a rest pos
  | .err c i => (.err c i, d)
  | .data i => (.data i, d)
  | .raw r p => (.raw r p, d)
  | .io => (.io, d)
  | .fuel => (.fuel, d)

/-- `tri!(step)` for a step that returns the counter; the continuation goes on with it -/
def bindDD {α β : Type} (o : RD α) (k : α → Bytes → Nat → Nat → RD β) : RD β :=
  bindD o.1 o.2 fun a rest pos => k a rest pos o.2

def mapD {α β : Type} (f : α → β) (o : RD α) : RD β := (o.1.map f, o.2)

/-- `check_recursion! { body }` with the opening byte peeked at index `p`: the early `return` leaves the decrement behind;
    the body's result is stored (`let ret = …`), then the counter is incremented whatever it is -/
def checkRecursion {α : Type} (env : Env) (d : Nat) (p : Nat) (body : Nat → RD α) : RD α :=
  if counting env then
    let d1 := d - 1
    if d1 == 0 then (.err .RecursionLimitExceeded (p + 1), d1)
    else
      let o := body d1
      (o.1, o.2 + 1)
  else body d

/-! ## a nested `Value`: the machine with the counter -/

/-- an error leaves `deserialize_any` through every container the MACHINE has open (those above the `t` padding frames);
    each restores its unit -/
def unwindT (menv : Machine.Env) (t : Nat) (s : St) (d : Nat) : Nat :=
  if StreamDepth.counting menv then d + (s.stack.length - t) else d

/-- `Typed.runPfx` with the counter: `step1D` instead of `step1` -/
def runPfxD (menv : Machine.Env) (flt : Bool) (t : Nat) (s : St) (d : Nat) (i : Nat) : Bytes → MOut × Nat
  | [] =>
    if flt then (.io, unwindT menv t s d) else
    match finishT menv t s with
    | .ok v => (.ok v i, d)
    | .error c => (.err c i, unwindT menv t s d)
  | b :: bs =>
    match step1D menv s d b with
    | (.err c a, d') => (.err c (errIdx menv a i), unwindT menv t s d')
    | (.next s', d') =>
      (match completed t s' with
       | some v => (.ok v (i + 1), d')
       | none => runPfxD menv flt t s' d' (i + 1) bs)
    | (.again s', d') =>
      (match completed t s' with
       | some v => (.ok v i, d')
       | none =>
         match step1D menv s' d' b with
         | (.err c a, d'') => (.err c (errIdx menv a i), unwindT menv t s' d'')
         | (.next s'', d'') =>
           (match completed t s'' with
            | some v => (.ok v (i + 1), d'')
            | none => runPfxD menv flt t s'' d'' (i + 1) bs)
         | (.again _, d'') => (.err .ExpectedSomeValue (i + 1), unwindT menv t s' d''))

/-- `Typed.machine` with the counter -/
def machineD (menv : Machine.Env) (flt : Bool) (t : Nat) (s : St) (d : Nat) (rest : Bytes) (pos : Nat) : RD JV :=
  match runPfxD menv flt t s d pos rest with
  | (.ok v e, d') => (.ok v (rest.drop (e - pos)) e, d')
  | (.err c i, d') => (.err c i, d')
  | (.io, d') => (.io, d')

/-! ## sequences -/

/-- `next_element_seed`: `has_next_element` does not touch the counter, `seed.deserialize(&mut *self.de)` may -/
def nextElementD (env : Env) (de : Nat → Bytes → Nat → RD TVal) (first : Bool) (d : Nat) (rest : Bytes) (pos : Nat) :
    RD (Option TVal) :=
  bindD (hasNextElement env first rest pos) d fun more r p =>
    if more then mapD some (de d r p) else (.ok none r p, d)

def seqLoopD (env : Env) (de : Nat → Bytes → Nat → RD TVal) : Nat → Bool → List TVal → Nat → Bytes → Nat → RD (List TVal)
  | 0, _, _, d, _, _ => (.fuel, d)
  | n + 1, first, acc, d, rest, pos =>
    bindDD (nextElementD env de first d rest pos) fun o r p d' =>
      match o with
      | none => (.ok acc.reverse r p, d')
      | some v => seqLoopD env de n false (v :: acc) d' r p

def tupleLoopD (env : Env) (de : Schema → Nat → Bytes → Nat → RD TVal) :
    List Schema → Bool → List TVal → Nat → Bytes → Nat → RD (List TVal)
  | [], _, acc, d, rest, pos => (.ok acc.reverse rest pos, d)
  | s :: ss, first, acc, d, rest, pos =>
    bindDD (nextElementD env (de s) first d rest pos) fun o r p d' =>
      match o with
      | none => (.raw r p, d')
      | some v => tupleLoopD env de ss false (v :: acc) d' r p

/-- `deserialize_seq`: the macro, then `match (ret, self.end_seq())` and `fix_position` (`closeWith`, counter untouched) -/
def deSeqD (env : Env) (d : Nat) (visit : Nat → Bytes → Nat → RD TVal) (rest : Bytes) (pos : Nat) : RD TVal :=
  match skipWs rest pos with
  | ([], p) => (atEof env .EofWhileParsingValue p, d)
  | (b :: r, p) =>
    if b == 0x5b then
      let o := checkRecursion env d p fun d1 => visit d1 r (p + 1)
      (closeWith env (endSeq env) o.1, o.2)
    else (peekInvalidType env (b :: r) p, d)

/-- `deserialize_bytes`: a string does not count; `b'[' => self.deserialize_seq(visitor)` -/
def deBytesD (env : Env) (d : Nat) (rest : Bytes) (pos : Nat) : RD TVal :=
  match skipWs rest pos with
  | ([], p) => (atEof env .EofWhileParsingValue p, d)
  | (b :: r, p) =>
    if b == 0x22 then ((parseStrRaw env r (p + 1)).map .bytes, d)
    else if b == 0x5b then
      deSeqD env d (fun d1 r' p' => mapD (fun ys => .bytes (bytesOfInts ys))
        (seqLoopD env (fun d2 r2 p2 => (deNumber env (.int .u8) r2 p2, d2)) (r'.length + 1) true [] d1 r' p')) (b :: r) p
    else (peekInvalidType env (b :: r) p, d)

/-! ## maps and structs -/

def mapLoopD (env : Env) (k : KeyKind) (de : Nat → Bytes → Nat → RD TVal) :
    Nat → Bool → List (TVal × TVal) → Nat → Bytes → Nat → RD (List (TVal × TVal))
  | 0, _, _, d, _, _ => (.fuel, d)
  | n + 1, first, acc, d, rest, pos =>
    bindD (hasNextKey env first rest pos) d fun more r p =>
      if !more then (.ok acc.reverse r p, d)
      else
        bindD (deKey env k r p) d fun kv r1 p1 =>
          bindD (parseObjectColon env r1 p1) d fun _ r2 p2 =>
            bindDD (de d r2 p2) fun v r3 p3 d' => mapLoopD env k de n false ((kv, v) :: acc) d' r3 p3

def deMapD (env : Env) (d : Nat) (visit : Nat → Bytes → Nat → RD TVal) (rest : Bytes) (pos : Nat) : RD TVal :=
  match skipWs rest pos with
  | ([], p) => (atEof env .EofWhileParsingValue p, d)
  | (b :: r, p) =>
    if b == 0x7b then
      let o := checkRecursion env d p fun d1 => visit d1 r (p + 1)
      (closeWith env (endMap env) o.1, o.2)
    else (peekInvalidType env (b :: r) p, d)

def structLoopD (env : Env) (de : Schema → Nat → Bytes → Nat → RD TVal) (fs : List (Bytes × Schema)) (deny : Bool) :
    Nat → Bool → List (Option TVal) → Nat → Bytes → Nat → RD (List (Option TVal))
  | 0, _, _, d, _, _ => (.fuel, d)
  | n + 1, first, slots, d, rest, pos =>
    bindD (hasNextKey env first rest pos) d fun more r p =>
      if !more then (.ok slots r p, d)
      else
        bindD (parseStr env (r.drop 1) (p + 1)) d fun name r1 p1 =>
          match nameIndex (fieldNames fs) name with
          | some i =>
            (match slots.getD i none with
             | some _ => (.raw r1 p1, d)
             | none =>
               bindD (parseObjectColon env r1 p1) d fun _ r2 p2 =>
                 match fs[i]? with
                 | some (_, s) =>
                   bindDD (de s d r2 p2) fun v r3 p3 d' => structLoopD env de fs deny n false (slots.set i (some v)) d' r3 p3
                 | none => (.raw r2 p2, d))
          | none =>
            if deny then (.raw r1 p1, d)
            else
              bindD (parseObjectColon env r1 p1) d fun _ r2 p2 =>
                bindD (ignoreValue env r2 p2) d fun _ r3 p3 => structLoopD env de fs deny n false slots d r3 p3

def structVisitMapD (env : Env) (de : Schema → Nat → Bytes → Nat → RD TVal) (fs : List (Bytes × Schema)) (deny : Bool)
    (d : Nat) (rest : Bytes) (pos : Nat) : RD TVal :=
  bindDD (structLoopD env de fs deny (rest.length + 1) true (fs.map fun _ => none) d rest pos) fun slots r p d' =>
    match finishFields fs slots with
    | .ok vs => (.ok (.struct_ vs) r p, d')
    | .error _ => (.raw r p, d')

/-- `deserialize_struct`: two sites of the macro. `de t' s d'`: schema `s` with `t'` padding frames and counter `d'` -/
def deStructD (env : Env) (t : Nat) (d : Nat) (de : Nat → Schema → Nat → Bytes → Nat → RD TVal) (fs : List (Bytes × Schema))
    (deny : Bool) (rest : Bytes) (pos : Nat) : RD TVal :=
  match skipWs rest pos with
  | ([], p) => (atEof env .EofWhileParsingValue p, d)
  | (b :: r, p) =>
    if b == 0x5b then
      let o := checkRecursion env d p fun d1 => mapD .struct_ (tupleLoopD env (de (t + 1)) (fs.map (·.2)) true [] d1 r (p + 1))
      (closeWith env (endSeq env) o.1, o.2)
    else if b == 0x7b then
      let o := checkRecursion env d p fun d1 => structVisitMapD env (de (t + 1)) fs deny d1 r (p + 1)
      (closeWith env (endMap env) o.1, o.2)
    else (peekInvalidType env (b :: r) p, d)

/-! ## enums -/

def dePayloadD (env : Env) (t : Nat) (d : Nat) (de : Nat → Schema → Nat → Bytes → Nat → RD TVal) (sh : VariantShape)
    (rest : Bytes) (pos : Nat) : RD TVal :=
  match sh with
  | .unit => (deUnit env rest pos, d)
  | .newtype s => de t s d rest pos
  | .tuple ss => deSeqD env d (fun d1 r p => mapD .seq (tupleLoopD env (de (t + 1)) ss true [] d1 r p)) rest pos
  | .struct_ fs => deStructD env t d de fs false rest pos

/-- `deserialize_enum`: in the `{` arm the macro's body is `let ret = visitor.visit_enum(VariantAccess::new(self));`
    (`variant_seed`: the identifier and the colon; then the payload through `VariantAccess`; the derived visitor wraps it
    in the variant), the counter is restored, and only then `let value = tri!(ret);` and the closing brace follow -/
def deEnumD (env : Env) (t : Nat) (d : Nat) (de : Nat → Schema → Nat → Bytes → Nat → RD TVal) (vs : List (Bytes × VariantShape))
    (rest : Bytes) (pos : Nat) : RD TVal :=
  match skipWs rest pos with
  | ([], p) => (atEof env .EofWhileParsingValue p, d)
  | (b :: r, p) =>
    if b == 0x7b then
      let ret := checkRecursion env d p fun d1 =>
        bindD (deVariantId env (variantNames vs) r (p + 1)) d1 fun iv r1 p1 =>
          let i := match iv with | .int i => i.toNat | _ => 0
          bindD (parseObjectColon env r1 p1) d1 fun _ r2 p2 =>
            match vs[i]? with
            | none => (.raw r2 p2, d1)
            | some (_, sh) => mapD (fun payload => TVal.variant i payload) (dePayloadD env (t + 1) d1 de sh r2 p2)
      bindDD ret fun value r3 p3 d' =>
        match skipWs r3 p3 with
        | ([], q) => (atEof env .EofWhileParsingObject q, d')
        | (c :: r4, q) =>
          if c == 0x7d then (.ok value r4 (q + 1), d')
          else (.err .ExpectedSomeValue (errorIdx env (c :: r4) q true), d')
    else if b == 0x22 then
      ((deVariantId env (variantNames vs) (b :: r) p).bind fun iv r1 p1 =>
        let i := match iv with | .int i => i.toNat | _ => 0
        match vs[i]? with
        | some (_, VariantShape.unit) => .ok (.variant i .unit) r1 p1
        | _ => .raw r1 p1, d)
    else (.err .ExpectedSomeValue (p + 1), d)

/-! ## the entry points -/

/-- `Typed.deTyped` with `remaining_depth = d` on entry; returns the counter on exit -/
def deTypedD (env : Env) : Nat → Nat → Nat → Schema → Bytes → Nat → RD TVal
  | 0, _, d, _, _, _ => (.fuel, d)
  | f + 1, t, d, s, rest, pos =>
    match s with
    | .bool => (deBool env rest pos, d)
    | .int w => (deInt env w rest pos, d)
    | .f64 => (deNumber env .f64 rest pos, d)
    | .f32 => (deNumber env .f32 rest pos, d)
    | .char => (deStr env visitCharStr rest pos, d)
    | .string => (deStr env (fun x => .ok (.str x)) rest pos, d)
    | .bytes => deBytesD env d rest pos
    | .option s' =>
      (match skipWs rest pos with
       | ([], p) => if env.flt then (.io, d) else mapD .some (deTypedD env f t d s' [] p)
       | (b :: r, p) =>
         if b == 0x6e then ((parseIdent env Gen.identNull r (p + 1)).bind fun _ r' p' => .ok .none r' p', d)
         else mapD .some (deTypedD env f t d s' (b :: r) p))
    | .unit => (deUnit env rest pos, d)
    | .unitStruct => (deUnit env rest pos, d)
    | .newtype s' => deTypedD env f t d s' rest pos
    | .seq s' =>
      deSeqD env d (fun d1 r p => mapD .seq
        (seqLoopD env (fun d2 => deTypedD env f (t + 1) d2 s') (r.length + 1) true [] d1 r p)) rest pos
    | .tuple ss =>
      deSeqD env d (fun d1 r p => mapD .seq
        (tupleLoopD env (fun s2 d2 => deTypedD env f (t + 1) d2 s2) ss true [] d1 r p)) rest pos
    | .map k s' =>
      deMapD env d (fun d1 r p => mapD .map
        (mapLoopD env k (fun d2 => deTypedD env f (t + 1) d2 s') (r.length + 1) true [] d1 r p)) rest pos
    | .struct_ fs deny => deStructD env t d (fun t2 s2 d2 => deTypedD env f t2 d2 s2) fs deny rest pos
    | .enum_ vs => deEnumD env t d (fun t2 s2 d2 => deTypedD env f t2 d2 s2) vs rest pos
    /- ignore_value is iterative: no `check_recursion!` -/
    | .ignored => ((ignoreValue env rest pos).map fun _ => .ignored, d)
    /- Value::deserialize = deserialize_any(ValueVisitor): the machine, its limit test on the counter -/
    | .any =>
      mapD .any (machineD (valEnv env) env.flt t { mode := .val .top, stack := padStack t } d rest pos)

/-! ## the stream: the `Deserializer` (and its counter) lives across the items -/

/-- stream state + the deserializer's `remaining_depth` -/
structure SST where
  ss : SS
  depth : Nat
deriving Repr

/-- `StreamTyped.nextT` with the counter: `T::deserialize(&mut self.de)` starts with the budget the previous calls left
    (no typed container is open between items: `t = 0`); `parse_whitespace`, `peek_end_of_value`, `set_failed` do not
    touch it -/
def nextTD (env : Env) (s : Schema) (st : SST) : TItem × SST :=
  if st.ss.failed then (.none, st)
  else
    match skipWs st.ss.rest st.ss.pos with
    | ([], p) =>
      if env.flt then (.io, { ss := { rest := [], pos := p, offset := st.ss.offset, failed := true }, depth := st.depth })
      else (.none, { ss := { rest := [], pos := p, offset := p, failed := false }, depth := st.depth })
    | (b :: r, p) =>
      match deTypedD env (Schema.size s + 1) 0 st.depth s (b :: r) p with
      | (.ok v rest' e, d') =>
        let st' : SS := { rest := rest', pos := e, offset := e, failed := false }
        if isSelfDelineated b then (.ok v, { ss := st', depth := d' })
        else
          (match rest' with
           | [] => if env.flt then (.io, { ss := { st' with failed := true }, depth := d' }) else (.ok v, { ss := st', depth := d' })
           | c :: _ =>
             if isStreamDelim c then (.ok v, { ss := st', depth := d' })
             else (.err .TrailingCharacters (e + 1), { ss := st', depth := d' }))
      | (.err c i, d') => (.err c i, { ss := failAt (b :: r) p, depth := d' })
      | (.data i, d') => (.data (some i), { ss := failAt (b :: r) p, depth := d' })
      | (.raw _ _, d') => (.data none, { ss := failAt (b :: r) p, depth := d' })
      | (.io, d') => (.io, { ss := failAt (b :: r) p, depth := d' })
      | (.fuel, d') => (.fuel, { ss := failAt (b :: r) p, depth := d' })

/-- `Deserializer::new`: `remaining_depth: 128` (the extracted constant) -/
def startTD (bs : Bytes) : SST := { ss := start bs, depth := Gen.remainingDepthInit }

/-- `k` calls of `next()`: the item, `byte_offset()`, and `remaining_depth` after each -/
def historyTD (env : Env) (s : Schema) : Nat → SST → List (TItem × Nat × Nat)
  | 0, _ => []
  | k + 1, st => let (it, st') := nextTD env s st; (it, st'.ss.offset, st'.depth) :: historyTD env s k st'

/-- the state after `k` calls -/
def stateAfterTD (env : Env) (s : Schema) : Nat → SST → SST
  | 0, st => st
  | k + 1, st => stateAfterTD env s k (nextTD env s st).2

end SJ.Model.StreamTypedDepth
