import SJ.Spec.AMap
import SJ.Spec.ValueEq
import SJ.Gen.Map
import SJ.Model.MapBTree
import SJ.Model.MapIndex
/-!
# Model of `==`, `Hash` and `sort_all_objects` on `serde_json::Value`

```rust
#[derive(Clone, Eq, PartialEq, Hash)] pub enum Value { Null, Bool(bool), Number(Number), String(String), Array(Vec<Value>), Object(Map<String, Value>) }
#[derive(Clone, PartialEq, Eq, Hash)] pub struct Number { n: N }
impl PartialEq for N { fn eq(&self, other: &Self) -> bool { match (self, other) {
    (N::PosInt(a), N::PosInt(b)) => a == b, (N::NegInt(a), N::NegInt(b)) => a == b,
    (N::Float(a), N::Float(b)) => a == b, _ => false } } }
impl Hash for N { fn hash<H: Hasher>(&self, h: &mut H) { match *self {
    N::PosInt(i) => i.hash(h), N::NegInt(i) => i.hash(h),
    N::Float(f) => { if f == 0.0f64 { 0.0f64.to_bits().hash(h); } else { f.to_bits().hash(h); } } } } }
impl Hash for Map<String, Value> { fn hash<H: Hasher>(&self, state: &mut H) {
    #[cfg(not(feature = "preserve_order"))] { self.map.hash(state); }
    #[cfg(feature = "preserve_order")] {
        let mut kv = Vec::from_iter(&self.map);
        kv.sort_unstable_by(|a, b| a.0.cmp(b.0));
        kv.hash(state); } } }
pub fn sort_all_objects(&mut self) { #[cfg(feature = "preserve_order")] { match self {
    Value::Object(map) => { map.sort_keys(); map.values_mut().for_each(Value::sort_all_objects); }
    Value::Array(list) => { list.iter_mut().for_each(Value::sort_all_objects); }
    _ => {} } } }
```

`derive(Hash)` on an enum hashes `discriminant_value(self)` (an `isize`) and then the fields;
`str::hash` is `write(bytes); write_u8(0xff)`; slices, `Vec` and `BTreeMap` hash
`write_length_prefix(len)` (= `write_usize`) and then the elements; a tuple hashes its fields.
The *hasher input* is modelled as the list of `Hasher::write_*` calls (`HW`); the harness records
exactly that list with a recording `Hasher`.
-/
namespace SJ.Model.ValueEq
open SJ SJ.Spec.AMap

/-! ## numbers -/

/-- IEEE-754 classification of a bit pattern is shared with the specification -/
abbrev isNaN := Spec.ValueEq.isNaNBits
abbrev isZero := Spec.ValueEq.isZeroBits

/-- `f64 == f64` on bit patterns (IEEE-754: NaN equals nothing, `+0.0 == -0.0`) -/
def feq (a b : UInt64) : Bool := !isNaN a && !isNaN b && (a == b || (isZero a && isZero b))

/-- `impl PartialEq for N` (and `String == String` for the arbitrary_precision literal) -/
def numEq : Num → Num → Bool
  | .pos a, .pos b => a == b
  | .neg a, .neg b => a == b
  | .float a, .float b => feq a b
  | .lit a, .lit b => a == b
  | _, _ => false

/-- calls made on the `Hasher` -/
inductive HW where
  | isize (n : Nat)      -- enum discriminant
  | u8 (b : Nat)
  | u64 (n : Nat)
  | i64 (n : Int)
  | usize (n : Nat)
  | bytes (bs : Bytes)   -- `Hasher::write`
deriving DecidableEq, Repr

/-- `0.0f64 == f` -/
def eqZero (b : UInt64) : Bool := feq b 0

/-- `impl Hash for N` -/
def hashNum : Num → List HW
  | .pos n => [.u64 n]
  | .neg n => [.i64 n]
  | .float b => if Gen.numHashZeroNormalised && eqZero b then [.u64 0] else [.u64 b.toNat]
  | .lit s => [.bytes s, .u8 0xff]

def hashStr (s : Bytes) : List HW := [.bytes s, .u8 0xff]

/-! ## `==` on values -/

mutual
/-- `po = true`: objects are `IndexMap`s (order-free comparison by lookup);
    `po = false`: `BTreeMap`s (pairwise comparison of the ascending sequences). -/
def beqJV (po : Bool) : JV → JV → Bool
  | .null, .null => true
  | .bool a, .bool b => a == b
  | .num a, .num b => numEq a b
  | .str a, .str b => a == b
  | .arr xs, .arr ys => beqList po xs ys
  | .obj m₁, .obj m₂ => if po then m₁.length == m₂.length && beqAll po m₁ m₂ else beqZip po m₁ m₂
  | _, _ => false
/-- `Vec<Value> == Vec<Value>` -/
def beqList (po : Bool) : List JV → List JV → Bool
  | [], [] => true
  | x :: xs, y :: ys => beqJV po x y && beqList po xs ys
  | _, _ => false
/-- `BTreeMap::eq`: equal length and equal pairs position by position -/
def beqZip (po : Bool) : List (Bytes × JV) → List (Bytes × JV) → Bool
  | [], [] => true
  | (k, v) :: r, (k', v') :: r' => k == k' && beqJV po v v' && beqZip po r r'
  | _, _ => false
/-- `IndexMap::eq` (after the length test): every pair of `self` is found in `other` -/
def beqAll (po : Bool) : List (Bytes × JV) → List (Bytes × JV) → Bool
  | [], _ => true
  | (k, v) :: r, m₂ =>
    (match lookup k m₂ with
      | some w => beqJV po v w
      | none => false) && beqAll po r m₂
end

/-! ## hasher input -/

/-- `(k, v).hash` for the pairs of one object, given the hasher input of each value -/
def hashPairs : List (Bytes × List HW) → List HW
  | [] => []
  | (k, h) :: r => hashStr k ++ h ++ hashPairs r

mutual
def hashJV (po : Bool) : JV → List HW
  | .null => [.isize 0]
  | .bool b => [.isize 1, .u8 (if b then 1 else 0)]
  | .num n => .isize 2 :: hashNum n
  | .str s => .isize 3 :: hashStr s
  | .arr xs => .isize 4 :: .usize xs.length :: hashList po xs
  | .obj m =>
    -- preserve_order: `Vec::from_iter(&self.map)` sorted by key, hashed as a slice;
    -- default: `BTreeMap::hash` — both are `len` then every `(key, value)` in that sequence
    let hs := hashMembers po m
    .isize 5 :: .usize m.length ::
      hashPairs (if po && Gen.mapHashSortsEntries then MapIndex.sortEntries hs else hs)
def hashList (po : Bool) : List JV → List HW
  | [] => []
  | x :: xs => hashJV po x ++ hashList po xs
def hashMembers (po : Bool) : List (Bytes × JV) → List (Bytes × List HW)
  | [] => []
  | (k, v) :: r => (k, hashJV po v) :: hashMembers po r
end

/-! ## `sort_all_objects` -/

mutual
/-- `po = false`: the body is compiled out — the identity. -/
def sortAllPO : JV → JV
  | .arr xs => .arr (sortAllList xs)
  | .obj m => .obj (MapIndex.sortKeys (sortAllMembers m))
  | v => v
def sortAllList : List JV → List JV
  | [] => []
  | x :: xs => sortAllPO x :: sortAllList xs
def sortAllMembers : List (Bytes × JV) → List (Bytes × JV)
  | [] => []
  | (k, v) :: r => (k, sortAllPO v) :: sortAllMembers r
end

def sortAll (po : Bool) (v : JV) : JV := if po && Gen.sortAllRecurses then sortAllPO v else v

end SJ.Model.ValueEq
