import SJ.Spec.Value
import SJ.Gen.Escape
/-!
# Model of the serializer's string escaping (`src/ser.rs`)

`format_escaped_str`, `format_escaped_str_contents`, `CharEscape::from_escape_table`,
`Formatter::{begin_string, end_string, write_string_fragment, write_char_escape}` (the default
methods, which `CompactFormatter` and `PrettyFormatter` both inherit).

The result is the exact list of buffers handed to `writer.write_all`, in order. All data (the
`ESCAPE` table, the symbol constants, the match arms of `from_escape_table`, the byte strings of
`write_char_escape`, `HEX_DIGITS`) come from `SJ.Gen.Escape`, regenerated from the source.
-/
namespace SJ.Model.Escape
open SJ

/-- `&value[a..b]` -/
def slice (value : Bytes) (a b : Nat) : Bytes := (value.take b).drop a

/-- `ESCAPE[byte as usize]` (the array has 256 entries, so the index is always in bounds:
    `Proofs.Escape.escapeTable_length`). -/
def escapeOf (byte : UInt8) : UInt8 := Gen.escapeTable.getD byte.toNat 0

/--
```rust
fn from_escape_table(escape: u8, byte: u8) -> CharEscape {
    match escape {
        self::BB => CharEscape::Backspace, …, self::UU => CharEscape::AsciiControl(byte),
        _ => unreachable!(),
    }
}
```
First matching arm in source order; `none` is the `unreachable!()` panic. -/
def fromEscapeTable (escape byte : UInt8) : Option Gen.CharEscape :=
  (Gen.fromEscapeTableArms.find? (·.1 == escape)).map (·.2 byte)

/--
```rust
let s = match char_escape {
    Quote => b"\\\"", …, Tab => b"\\t",
    AsciiControl(byte) => {
        static HEX_DIGITS: [u8; 16] = *b"0123456789abcdef";
        let bytes = &[b'\\', b'u', b'0', b'0',
            HEX_DIGITS[(byte >> 4) as usize], HEX_DIGITS[(byte & 0xF) as usize]];
        return writer.write_all(bytes);
    }
};
writer.write_all(s)
```
One `write_all` in either case. -/
def writeCharEscape (ce : Gen.CharEscape) : Bytes :=
  match Gen.writeCharEscapeFixed ce, ce with
  | some s, _ => s
  | none, .AsciiControl byte =>
    Gen.asciiControlPrefix ++
      [Gen.hexDigits.getD (byte >>> UInt8.ofNat Gen.asciiControlHiShift).toNat 0,
       Gen.hexDigits.getD (byte &&& Gen.asciiControlLoMask).toNat 0]
  | none, _ => []

/--
```rust
let bytes = value.as_bytes();
let mut start = 0;
for (i, &byte) in bytes.iter().enumerate() {
    let escape = ESCAPE[byte as usize];
    if escape == 0 { continue; }
    if start < i { tri!(formatter.write_string_fragment(writer, &value[start..i])); }
    let char_escape = CharEscape::from_escape_table(escape, byte);
    tri!(formatter.write_char_escape(writer, char_escape));
    start = i + 1;
}
if start == bytes.len() { return Ok(()); }
formatter.write_string_fragment(writer, &value[start..])
```
`contents value rest i start` = the buffers written from iteration `i` on, where `rest` is what the
iterator has not yet yielded. The `unreachable!()` of `from_escape_table` is modelled as "the loop
writes nothing more"; it is proved unreachable for the regenerated table
(`c05_escape_table`: every non-zero entry is matched by an arm). -/
def contents (value : Bytes) : Bytes → Nat → Nat → List Bytes
  | [], _, start =>
    if start == value.length then [] else [slice value start value.length]
  | byte :: rest, i, start =>
    let escape := escapeOf byte
    if escape == Gen.escapeNone then contents value rest (i + 1) start
    else
      (if start < i then [slice value start i] else []) ++
        match fromEscapeTable escape byte with
        | none => []
        | some ce => writeCharEscape ce :: contents value rest (i + 1) (i + 1)

/--
```rust
tri!(formatter.begin_string(writer));
tri!(format_escaped_str_contents(writer, formatter, value));
formatter.end_string(writer)
```
The exact list of buffers handed to the writer for `value` (given as its UTF-8 bytes). -/
def formatEscapedStr (s : Bytes) : List Bytes :=
  [Gen.beginString] ++ contents s s 0 0 ++ [Gen.endString]

/-- everything `format_escaped_str` writes, concatenated -/
def escapedBytes (s : Bytes) : Bytes := (formatEscapedStr s).flatten

end SJ.Model.Escape
