import SJ.Model.Ser
/-!
# Serialising `RawValue` (feature `raw_value`): the magic-struct route of `src/ser.rs`

```rust
// src/raw.rs
pub const TOKEN: &str = "$serde_json::private::RawValue";
impl Serialize for RawValue {
    fn serialize<S>(&self, serializer: S) -> Result<S::Ok, S::Error> {
        let mut s = tri!(serializer.serialize_struct(TOKEN, 1));
        tri!(s.serialize_field(TOKEN, &self.json));
        s.end() } }
// src/ser.rs, impl ser::Serializer for &mut Serializer<W, F>
fn serialize_struct(self, name: &'static str, len: usize) -> Result<Self::SerializeStruct> {
    match name {
        crate::number::TOKEN => Ok(Compound::Number { ser: self }),      // arbitrary_precision
        crate::raw::TOKEN => Ok(Compound::RawValue { ser: self }),       // raw_value: NOTHING is written
        _ => self.serialize_map(Some(len)), } }
// impl ser::SerializeStruct for Compound
fn serialize_field<T>(&mut self, key: &'static str, value: &T) -> Result<()> {
    match self { …
        Compound::RawValue { ser, .. } => {
            if key == crate::raw::TOKEN { value.serialize(RawValueStrEmitter(ser)) } else { Err(invalid_raw_value()) } } } }
fn end(self) -> Result<()> { match self { … Compound::RawValue { .. } => Ok(()), } }
// impl ser::Serializer for RawValueStrEmitter  (every other method: Err(custom("expected RawValue")))
fn serialize_str(self, value: &str) -> Result<()> {
    let RawValueStrEmitter(serializer) = self;
    serializer.formatter.write_raw_fragment(&mut serializer.writer, value).map_err(Error::io) }
// trait Formatter (not overridden by PrettyFormatter)
fn write_raw_fragment<W>(&mut self, writer: &mut W, fragment: &str) -> io::Result<()> { writer.write_all(fragment.as_bytes()) }
// impl ser::Serializer for MapKeySerializer
fn serialize_struct(self, _name: &'static str, _len: usize) -> Result<Self::SerializeStruct> { Err(key_must_be_a_string()) }
```

So a `RawValue` hands its text to the writer in ONE `write_all`, through either formatter, and does
not touch the formatter's state; as a map key it is `KeyMustBeAString`.

`RVal` = serializer programs in which a `RawValue` may stand at any position: the container
constructors of `SVal` over `RVal` children, `raw text` for `impl Serialize for RawValue`, and
`leaf p` for any `RawValue`-free program `p : SVal` (run by `Model.Ser.ser`, unchanged). `serR`
repeats the container arms of `Model.Ser.ser` (same `Formatter` / `Compound` helpers) — that it is
the same function on `RawValue`-free programs, and in general equals `ser` on the program in which
every `raw t` is replaced by the `arbitrary_precision` number leaf `numberLit t` (the two magic
routes write alike), is `SJ.Proofs.RawSer.serR_erase`.

Import-free (only `SJ.Model.Ser`).
-/
namespace SJ.Model.SerRaw
open SJ SJ.Model.Ser SJ.Model.EscapeLocal

inductive RVal where
  /-- a program without `RawValue` inside -/
  | leaf (p : SVal)
  /-- `impl Serialize for RawValue` with `self.json = text` -/
  | raw (text : Bytes)
  | some (p : RVal)
  | newtypeStruct (p : RVal)
  | newtypeVariant (variant : Bytes) (p : RVal)
  | seq (hint : Option Nat) (elems : List RVal)
  | tuple (elems : List RVal)
  | tupleStruct (elems : List RVal)
  | tupleVariant (variant : Bytes) (elems : List RVal)
  | map (hint : Option Nat) (entries : List (RVal × RVal))
  | struct_ (fields : List (Bytes × RVal))
  | structVariant (variant : Bytes) (fields : List (Bytes × RVal))
deriving Repr, Inhabited

/-- `key.serialize(MapKeySerializer { ser })`: `serialize_some` / `serialize_newtype_struct` forward to the
    key serializer, a `RawValue` calls `serialize_struct` (→ `key_must_be_a_string()`), as does every
    container -/
def keySerR (ext : Ext) : RVal → Except SerErr (List Bytes)
  | .leaf p => keySer ext p
  | .some k => keySerR ext k
  | .newtypeStruct k => keySerR ext k
  | .raw _ | .newtypeVariant _ _ | .seq _ _ | .tuple _ | .tupleStruct _ | .tupleVariant _ _ | .map _ _
  | .struct_ _ | .structVariant _ _ => .error .keyMustBeAString
termination_by structural p => p

mutual
/-- `value.serialize(&mut *ser)` -/
def serR (ext : Ext) (f : Fmt) : RVal → FState → Except SerErr W
  | .leaf p, st => ser ext f p st
  -- Compound::RawValue → RawValueStrEmitter::serialize_str → write_raw_fragment → write_all(text)
  | .raw text, st => .ok (write [text] st)
  | .some p, st => serR ext f p st
  | .newtypeStruct p, st => serR ext f p st
  | .newtypeVariant v p, st =>
    let a := variantOpen f v st
    finishNewtypeVariant f a (serR ext f p a.st)
  | .seq hint xs, st =>
    let o := serializeSeq f hint st
    finishSeq f o (serRElems ext f xs o.state o.st)
  | .tuple xs, st =>
    let o := serializeSeq f (some xs.length) st
    finishSeq f o (serRElems ext f xs o.state o.st)
  | .tupleStruct xs, st =>
    let o := serializeSeq f (some xs.length) st
    finishSeq f o (serRElems ext f xs o.state o.st)
  | .tupleVariant v xs, st =>
    let a := variantOpen f v st
    let o := serializeSeq f (some xs.length) a.st
    finishTupleVariant f a o (serRElems ext f xs o.state o.st)
  | .map hint es, st =>
    let o := serializeMap f hint st
    finishMap f o (serREntries ext f es o.state o.st)
  | .struct_ fs, st =>
    let o := serializeMap f (some fs.length) st
    finishMap f o (serRFields ext f fs o.state o.st)
  | .structVariant v fs, st =>
    let a := variantOpen f v st
    let o := serializeMap f (some fs.length) a.st
    finishStructVariant f a o (serRFields ext f fs o.state o.st)
termination_by structural p => p

/-- `SerializeSeq::serialize_element` per element (as `Model.Ser.serElems`) -/
def serRElems (ext : Ext) (f : Fmt) : List RVal → State → FState → Except SerErr WS
  | [], state, st => .ok { bufs := [], state := state, st := st }
  | x :: xs, state, st =>
    let a := beginArrayValue f (state == .first) st
    match serR ext f x a.st with
    | .error e => .error e
    | .ok r =>
      let c := endArrayValue f r.st
      match serRElems ext f xs .rest c.st with
      | .error e => .error e
      | .ok t => .ok { bufs := a.bufs ++ r.bufs ++ c.bufs ++ t.bufs, state := t.state, st := t.st }

/-- `SerializeMap::serialize_key` / `serialize_value` per entry (as `Model.Ser.serEntries`) -/
def serREntries (ext : Ext) (f : Fmt) : List (RVal × RVal) → State → FState → Except SerErr WS
  | [], state, st => .ok { bufs := [], state := state, st := st }
  | (k, v) :: es, state, st =>
    let a := beginObjectKey f (state == .first) st
    match keySerR ext k with
    | .error e => .error e
    | .ok kb =>
      let b := (W.mk (a.bufs ++ kb) a.st |>.andThen (endObjectKey f)).andThen (beginObjectValue f)
      match serR ext f v b.st with
      | .error e => .error e
      | .ok r =>
        let c := endObjectValue f r.st
        match serREntries ext f es .rest c.st with
        | .error e => .error e
        | .ok t => .ok { bufs := b.bufs ++ r.bufs ++ c.bufs ++ t.bufs, state := t.state, st := t.st }

/-- `SerializeStruct::serialize_field` per field (as `Model.Ser.serFields`) -/
def serRFields (ext : Ext) (f : Fmt) : List (Bytes × RVal) → State → FState → Except SerErr WS
  | [], state, st => .ok { bufs := [], state := state, st := st }
  | (k, v) :: fs, state, st =>
    let a := beginObjectKey f (state == .first) st
    let b := (W.mk (a.bufs ++ escapeStr k) a.st |>.andThen (endObjectKey f)).andThen (beginObjectValue f)
    match serR ext f v b.st with
    | .error e => .error e
    | .ok r =>
      let c := endObjectValue f r.st
      match serRFields ext f fs .rest c.st with
      | .error e => .error e
      | .ok t => .ok { bufs := b.bufs ++ r.bufs ++ c.bufs ++ t.bufs, state := t.state, st := t.st }
end

/-- `to_writer` / `to_vec` / `to_string` -/
def serRCompact (ext : Ext) (p : RVal) : Except SerErr (List Bytes) :=
  (serR ext .compact p FState.init).map (·.bufs)

/-- `to_writer_pretty` / `PrettyFormatter::with_indent(indent)` -/
def serRPretty (ext : Ext) (indent : Bytes) (p : RVal) : Except SerErr (List Bytes) :=
  (serR ext (.pretty indent) p FState.init).map (·.bufs)

/-! ## the `RawValue`-free program with the same output

`raw t ↦ numberLit t`: `Compound::Number` / `NumberStrEmitter` / `write_number_str` is the sister route
(`arbitrary_precision`) and also writes its text in one `write_all`. -/
mutual
def RVal.erase : RVal → SVal
  | .leaf p => p
  | .raw t => .numberLit t
  | .some p => .some p.erase
  | .newtypeStruct p => .newtypeStruct p.erase
  | .newtypeVariant v p => .newtypeVariant v p.erase
  | .seq h xs => .seq h (eraseList xs)
  | .tuple xs => .tuple (eraseList xs)
  | .tupleStruct xs => .tupleStruct (eraseList xs)
  | .tupleVariant v xs => .tupleVariant v (eraseList xs)
  | .map h es => .map h (eraseEntries es)
  | .struct_ fs => .struct_ (eraseFields fs)
  | .structVariant v fs => .structVariant v (eraseFields fs)
termination_by structural p => p
def eraseList : List RVal → List SVal
  | [] => []
  | x :: xs => x.erase :: eraseList xs
def eraseEntries : List (RVal × RVal) → List (SVal × SVal)
  | [] => []
  | (k, v) :: es => (k.erase, v.erase) :: eraseEntries es
def eraseFields : List (Bytes × RVal) → List (Bytes × SVal)
  | [] => []
  | (n, v) :: fs => (n, v.erase) :: eraseFields fs
end

end SJ.Model.SerRaw
