import SJ.Drv.Mach
import SJ.Spec.Canon
namespace SJ.Drv.C01
open SJ SJ.Drv SJ.Drv.Mach SJ.Model.Machine

def specCfg (c : Cfg) : Spec.Canon.Cfg := { po := c.po, fr := c.fr, ap := c.ap, limitOff := c.limitOff }

/-- verdict of the specification (recogniser + side conditions + denotation) on one source's outcome -/
def judgeValue (cfg : Cfg) (srcName : String) (byteSource : Bool) (bs : Bytes) (impl : String) : Option String :=
  if impl == "-" then none else
  let exp := Spec.Canon.expected (specCfg cfg) byteSource bs
  match exp with
  | none =>
    if impl.startsWith "V" then some s!"C01 {srcName}: accepted, but the input is not a JSON text meeting the side conditions"
    else none
  | some v =>
    if impl.startsWith "V" then
      if impl == "V" ++ encJV v then none
      else some s!"C02 {srcName}: value differs from the denotation V{encJV v}"
    else if impl == "PANIC" then some s!"C14 {srcName}: panic"
    else some s!"C01 {srcName}: rejected a valid JSON text ({impl})"

def judgeIgnored (srcName : String) (bs : Bytes) (impl : String) : Option String :=
  if impl == "-" then none else
  match Spec.Rec.recognise bs with
  | none => if impl == "U" then some s!"C19 {srcName}: skipped content accepted although not in the grammar" else none
  | some _ =>
    if impl == "U" then none
    else if impl == "PANIC" then some s!"C14 {srcName}: panic"
    else some s!"C19 {srcName}: skipped content rejected although in the grammar ({impl})"

def firstSome : List (Option String) → Option String
  | [] => none
  | some x :: _ => some x
  | none :: r => firstSome r

/-- `pv <cfg> <hex>` / `pi <cfg> <hex>`: parse into Value / IgnoredAny from all three sources -/
def parseAll (tgt : Tgt) : Handler := fun args impl =>
  match args with
  | [c, h] =>
    match bytesOfHex h with
    | some bs =>
      let cfg := cfgOfTag c
      let spec := match impl.splitOn "|" with
        | [s, sl, rd] =>
          if tgt = .value then
            firstSome [judgeValue cfg "str" false bs s, judgeValue cfg "slice" true bs sl, judgeValue cfg "reader" true bs rd]
          else firstSome [judgeIgnored "str" bs s, judgeIgnored "slice" bs sl, judgeIgnored "reader" bs rd]
        | _ => some "malformed observation"
      { model := runAll cfg tgt bs, spec := spec }
    | none => bad "hex"
  | _ => bad "arity"

def handlers : List (String × Handler) := [("pv", parseAll .value), ("pi", parseAll .ignored)]
end SJ.Drv.C01
