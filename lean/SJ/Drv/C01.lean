import SJ.Drv.Mach
import SJ.Drv.MachAp
import SJ.Drv.MachRv
import SJ.Spec.Canon
import SJ.Spec.Pos
import SJ.Spec.PosDepth
import SJ.Spec.Range
namespace SJ.Drv.C01
open SJ SJ.Drv SJ.Drv.Mach SJ.Model.Machine

def specCfg (c : Cfg) : Spec.Canon.Cfg := { po := c.po, fr := c.fr, ap := c.ap, limitOff := c.limitOff }

/-- verdict of the specification (recogniser + side conditions + denotation) on one source's outcome -/
def judgeValue (cfg : Cfg) (srcName : String) (byteSource : Bool) (bs : Bytes) (impl : String) : Option String :=
  if impl == "-" then none else
  let exp := Spec.Canon.expected (specCfg cfg) byteSource bs
  match exp with
  | none =>
    if impl.startsWith "V" then some s!"C01 {srcName}: accepted, but the input is not a JSON text meeting the side conditions"
    else none
  | some v =>
    if impl.startsWith "V" then
      if impl == "V" ++ encJV v then none
      else some s!"C02 {srcName}: value differs from the denotation V{encJV v}"
    else if impl == "PANIC" then some s!"C14 {srcName}: panic"
    else some s!"C01 {srcName}: rejected a valid JSON text ({impl})"

def judgeIgnored (srcName : String) (bs : Bytes) (impl : String) : Option String :=
  if impl == "-" then none else
  match Spec.Rec.recognise bs with
  | none => if impl == "U" then some s!"C19 {srcName}: skipped content accepted although not in the grammar" else none
  | some _ =>
    if impl == "U" then none
    else if impl == "PANIC" then some s!"C14 {srcName}: panic"
    else some s!"C19 {srcName}: skipped content rejected although in the grammar ({impl})"

/-- messages of errors that are not grammar violations (side conditions of C01) -/
def sideConditionMsgs : List Gen.Code :=
  [.LoneLeadingSurrogateInHexEscape, .UnexpectedEndOfHexEscape, .InvalidUnicodeCodePoint, .NumberOutOfRange,
   .RecursionLimitExceeded]

def isSideMsg (hexMsg : String) : Bool := sideConditionMsgs.any fun c => hexOfBytes (Gen.message c) == hexMsg

/-- all `k ≤ len` with `lineCol bs k = (l, c)` -/
def idxOfLineCol (bs : Bytes) (l c : Nat) : List Nat :=
  (List.range (bs.length + 1)).filter fun k => lineCol bs k == (l, c)

def isDepthMsg (hexMsg : String) : Bool := hexOfBytes (Gen.message .RecursionLimitExceeded) == hexMsg

/-- C11, nesting-limit clause ("a nesting-limit error at the 128th opening bracket"): a `recursion limit exceeded` syntax
    error reported at `l:c` must sit exactly at `lineCol bs (i + 1)`, `i` the index of the opening bracket (`[` or `{`
    outside string literals) that raises the nesting depth to 128 - found by the lexical scan `Spec.Pos.depthOpener`,
    independently of the parser model -/
def judgeDepthPos (srcName : String) (bs : Bytes) (l c : Nat) : Option String :=
  match Spec.Pos.depthOpener 128 bs with
  | some i =>
    let (el, ec) := lineCol bs (i + 1)
    if (el, ec) == (l, c) then none
    else some s!"C11 {srcName}: nesting-limit error reported at {l}:{c}, but the 128th opening bracket (byte {i}) is at {el}:{ec}"
  | none => some s!"C11 {srcName}: nesting-limit error reported at {l}:{c}, but no opening bracket raises the nesting depth to 128"

/-- C11 on one source's outcome -/
def judgePos (srcName : String) (bs : Bytes) (o : String) : Option String :=
  match o.splitOn ":" with
  | ["E", msg, cat, ls, cs] =>
    match ls.toNat?, cs.toNat? with
    | some l, some c =>
      let ks := idxOfLineCol bs l c
      if ks.isEmpty then some s!"C11 {srcName}: reported position {l}:{c} does not lie within the input"
      else if cat == "eof" then
        if lineCol bs bs.length == (l, c) then none
        else some s!"C11 {srcName}: Eof error at {l}:{c}, not at the end of input"
      else if isDepthMsg msg && cat == "syntax" then judgeDepthPos srcName bs l c
      else if isSideMsg msg then none
      else
        match Spec.Pos.verdict bs with
        | .dead d info =>
          let lo := d + 1
          let hi := match info with
            | none => d + 1
            | some i => min bs.length (max (Spec.Pos.literalEnd bs i.start) i.hexEnd)
          if ks.any (fun k => lo ≤ k && k ≤ max lo hi) then none
          else
            let (el, ec) := lineCol bs lo
            some s!"C11 {srcName}: reported {l}:{c} but the first offending byte is at {el}:{ec} (byte {d})"
        | .json => some s!"C11 {srcName}: syntax error {l}:{c} reported for a JSON text"
        | .prefix => some s!"C11 {srcName}: syntax error {l}:{c} reported although the input is a prefix of a JSON text"
    | _, _ => some "C11 malformed position"
  | _ => none

def judgeSources (fields : List String) : Option String :=
  let fs := fields.filter (· != "-")
  match fs with
  | [] => none
  | f :: r => if r.all (· == f) then none else some s!"C09 sources disagree: {String.intercalate " | " fields}"

mutual
/-- every string and object key of a value is well-formed UTF-8 -/
def allUtf8 : JV → Bool
  | .str s => Spec.Utf8.validUtf8 s
  | .arr xs => allUtf8List xs
  | .obj ms => allUtf8Members ms
  | _ => true
def allUtf8List : List JV → Bool
  | [] => true
  | x :: xs => allUtf8 x && allUtf8List xs
def allUtf8Members : List (Bytes × JV) → Bool
  | [] => true
  | (k, x) :: ms => Spec.Utf8.validUtf8 k && allUtf8 x && allUtf8Members ms
end

/-- C14: a returned value never contains a String that is not valid UTF-8 -/
def judgeUtf8 (srcName : String) (impl : String) : Option String :=
  if impl.startsWith "V" then
    match decodeJV (impl.drop 1).toString with
    | some v => if allUtf8 v then none else some s!"C14 {srcName}: the returned Value contains a String that is not valid UTF-8"
    | none => some s!"C14 {srcName}: undecodable value"
  else none

def firstSome : List (Option String) → Option String
  | [] => none
  | some x :: _ => some x
  | none :: r => firstSome r

/-! ## the number-range clause judged without the model (`Spec.Range`)

`judgeValue` takes the range clause from `Spec.Canon.expected`, i.e. from `Model.Num`'s conversions. The verdicts below
use only the recogniser, the other side conditions and `Spec.Range` (exact rational value, `roundNE64`). -/

/-- what the independent oracle knows about one input: its tree (if it is a JSON text), whether every literal is within
    finite f64 range, and the zone of every literal relative to the default-build band -/
structure RangeInfo where
  tree : Spec.Grammar.CST
  finite : Bool
  zones : List Spec.Range.Zone
  lits : List Spec.Grammar.NumParts

def rangeInfo (bs : Bytes) : Option RangeInfo :=
  (Spec.Rec.recognise bs).map fun t =>
    let ps := Spec.Range.numsOf t
    { tree := t, finite := Spec.Range.finiteRangeB t, zones := ps.map fun p => Spec.Range.zoneOf (Spec.Range.litOf p), lits := ps }

/-- the side conditions of C01 other than the number range -/
def otherSideConditions (cfg : Spec.Canon.Cfg) (byteSource : Bool) (t : Spec.Grammar.CST) : Bool :=
  (cfg.limitOff || Spec.Grammar.depth t ≤ 127) && Spec.Grammar.surrogatesPaired t && (!byteSource || Spec.Canon.stringsUtf8 t)

def isOutOfRangeObs (impl : String) : Bool :=
  match impl.splitOn ":" with
  | ["E", msg, _, _, _] => msg == hexOfBytes (Gen.message .NumberOutOfRange)
  | _ => false

def firstLitIn (ri : RangeInfo) (z : Spec.Range.Zone) : String :=
  match (ri.lits.zip ri.zones).find? (·.2 == z) with
  | some (p, _) => hexOfBytes p.bytes
  | none => "-"

/-- C01, number range, on one source's outcome: a JSON text meeting the other side conditions must be accepted iff every
    literal is within finite f64 range (`arbitrary_precision`: always). The message names the zone of the offending
    literal, so that the known default-build band (`C01-default-range-band`) is told from anything else. -/
def judgeRange (cfg : Cfg) (srcName : String) (byteSource : Bool) (ri : Option RangeInfo) (impl : String) : Option String :=
  if impl == "-" || impl == "PANIC" then none else
  match ri with
  | none => none
  | some ri =>
    if !otherSideConditions (specCfg cfg) byteSource ri.tree then none else
    let accepted := impl.startsWith "V"
    if cfg.ap then
      -- only a NumberOutOfRange rejection is this clause's business (other rejections of valid texts, e.g. the private-token
      -- reading, are judged by the accept/reject verdict)
      if accepted || !isOutOfRangeObs impl then none
      else some s!"C01 {srcName} number range: rejected ({impl}) although arbitrary_precision imposes no range"
    else if ri.finite && !accepted then
      if isOutOfRangeObs impl then
        if ri.zones.contains .bandFinite then
          some s!"C01 {srcName} number range: the crate rejects a literal inside finite f64 range [band: {firstLitIn ri .bandFinite} lies in [2^1024-2^970-2^972, 2^1024-2^970)]"
        else some s!"C01 {srcName} number range: the crate rejects a literal inside finite f64 range [no literal within 2 ulp of the threshold]"
      else none   -- rejected for another reason: judged by the accept/reject verdict, not by the range clause
    else if !ri.finite && accepted then
      if ri.zones.contains .above then
        some s!"C01 {srcName} number range: the crate accepts a literal outside finite f64 range [beyond the band: {firstLitIn ri .above} >= 2^1024+2^972+2^965]"
      else some s!"C01 {srcName} number range: the crate accepts a literal outside finite f64 range [band: {firstLitIn ri .bandInfinite} lies in [2^1024-2^970, 2^1024+2^972+2^965)]"
    else none

/-- the number a literal must denote according to the specification alone, or the tolerance it must meet -/
def judgeLiteral (cfg : Cfg) (p : Spec.Grammar.NumParts) : Option String :=
  if cfg.ap then none else
  let l := Spec.Range.litOf p
  let (num, den) := l.exactClamped (Spec.Range.capOf l)
  let got := Spec.Canon.numOf (specCfg cfg) p
  let isInt := l.fracDigits.isEmpty && l.expDigits.isEmpty
  let h := hexOfBytes p.bytes
  if isInt && !l.neg && l.sigVal < 2 ^ 64 then
    if got == some (.pos l.sigVal) then none else some s!"literal {h} must be the unsigned integer it writes"
  else if isInt && l.neg && 0 < l.sigVal && l.sigVal ≤ 2 ^ 63 then
    if got == some (.neg (-(l.sigVal : Int))) then none else some s!"literal {h} must be the negative integer it writes"
  else match got with
    | none => none                       -- rejected: judged by C01
    | some (.float b) =>
      if cfg.fr then
        if Spec.Ieee.roundNE64 l.neg num den == some b then none
        else some s!"literal {h}: float_roundtrip must give the nearest-even double of the exact value, got {hex16 b}"
      else if Spec.Ieee.withinUlps 5 l.neg num den b then none
      else some s!"literal {h}: the float {hex16 b} is not finite, not signed like the literal or more than 5 ulp from the exact value"
    | some _ => some s!"literal {h} is not an integer within [i64::MIN, u64::MAX] but denotes one"

/-- C02, numbers: when the implementation returned the denotation, every number literal of the text denotes what the
    specification (`Spec.Decimal` / `Spec.Ieee`) demands — exact integers within `[i64::MIN, u64::MAX]`, otherwise a float:
    nearest-even under `float_roundtrip`, finite / signed / within 5 ulp in the default build -/
def judgeNumbers (cfg : Cfg) (ri : Option RangeInfo) : List String :=
  match ri with
  | none => []
  | some ri => (ri.lits.filterMap (judgeLiteral cfg)).map fun m => "C02 number: " ++ m

/-! ## the numbers of the value the crate returned, judged against the text (no model involved) -/

/-- pairs (number literal of the text, number at the corresponding place of the returned value): arrays position by
    position; an object entry corresponds to the LAST member of the text whose decoded key is the entry's key -/
partial def numbersAgainstText (t : Spec.Grammar.CST) (v : JV) : List (Spec.Grammar.NumParts × Num) :=
  match t, v with
  | .num p, .num n => [(p, n)]
  | .arr xs, .arr vs => (xs.zip vs).flatMap fun (x, w) => numbersAgainstText x w
  | .obj ms, .obj kvs =>
    kvs.flatMap fun (k, w) =>
      match ms.reverse.find? (fun m => Spec.Denote.decodeItems m.1 == some k) with
      | some m => numbersAgainstText m.2 w
      | none => []
  | _, _ => []

/-- C02 on one number of the returned value: an integer is the exact value of an integer literal; a float is within
    5 ulp of the literal's exact value (default build: finite, signed like the literal; the ulp is that of the correctly
    rounded value, `Spec.Ieee.withinUlps`) resp. *the* nearest-even double (`float_roundtrip`, `Spec.Ieee.roundNE64`) -/
def judgeNumberValue (cfg : Cfg) (p : Spec.Grammar.NumParts) (n : Num) : Option String :=
  if cfg.ap then none else
  let l := Spec.Range.litOf p
  let h := hexOfBytes p.bytes
  let isInt := l.fracDigits.isEmpty && l.expDigits.isEmpty
  match n with
  | .pos u =>
    if isInt && !l.neg && u == l.sigVal then none else some s!"C02 integer value of literal {h} is not the integer it writes"
  | .neg i =>
    if isInt && l.neg && i == -(l.sigVal : Int) && i < 0 then none else some s!"C02 integer value of literal {h} is not the integer it writes"
  | .float b =>
    let (num, den) := l.exactClamped (Spec.Range.capOf l)
    if isInt && !l.neg && l.sigVal < 2 ^ 64 then some s!"C02 float value of literal {h}: an integer within u64 must be kept exactly"
    else if isInt && l.neg && 0 < l.sigVal && l.sigVal ≤ 2 ^ 63 then some s!"C02 float value of literal {h}: an integer within i64 must be kept exactly"
    else if cfg.fr then
      if Spec.Ieee.roundNE64 l.neg num den == some b then none
      else some s!"C02 float value of literal {h} is not the nearest double of its exact value (got {hex16 b})"
    else if Spec.Ieee.withinUlps 5 l.neg num den b then none
    else some s!"C02 float value of literal {h} is not within 5 ulp of its exact value (got {hex16 b})"
  | .lit _ => some s!"C02 number of literal {h}: a literal-text number without arbitrary_precision"

/-- every number of the value one source returned, against the text -/
def judgeReturnedNumbers (cfg : Cfg) (srcName : String) (ri : Option RangeInfo) (impl : String) : List String :=
  if cfg.ap || !impl.startsWith "V" then [] else
  match ri, decodeJV (impl.drop 1).toString with
  | some ri, some v =>
    if ri.lits.isEmpty then [] else
    ((numbersAgainstText ri.tree v).filterMap fun (p, n) => judgeNumberValue cfg p n).map fun m =>
      match m.splitOn "C02 " with
      | ["", rest] => s!"C02 {srcName}: {rest}"
      | _ => m
  | _, _ => []

/-- `pv <cfg> <hex>` / `pi <cfg> <hex>`: parse into Value / IgnoredAny from all three sources -/
def parseAll (tgt : Tgt) : Handler := fun args impl =>
  match args with
  | [c, h] =>
    match bytesOfHex h with
    | some bs =>
      let cfg := cfgOfTag c
      let specs := match impl.splitOn "|" with
        | [s, sl, rd] =>
          let pos := [judgePos "str" bs s, judgePos "slice" bs sl, judgePos "reader" bs rd, judgeSources [s, sl, rd]]
          if tgt = .value then
            let ri := rangeInfo bs
            let vs := [judgeValue cfg "str" false bs s, judgeValue cfg "slice" true bs sl, judgeValue cfg "reader" true bs rd,
              judgeRange cfg "str" false ri s, judgeRange cfg "slice" true ri sl, judgeRange cfg "reader" true ri rd].filterMap id
            let vs := vs ++ (if [s, sl, rd].any (·.startsWith "V") && vs.isEmpty then judgeNumbers cfg ri else [])
            -- the numbers of the returned value itself against the text: once when the sources agree, else per source
            let vs := vs ++ (if (s == sl || s == "-") && sl == rd then judgeReturnedNumbers cfg "value" ri sl
              else judgeReturnedNumbers cfg "str" ri s ++ judgeReturnedNumbers cfg "slice" ri sl ++ judgeReturnedNumbers cfg "reader" ri rd)
            -- a single string literal: the same verdicts are also C05's (decode side)
            let c05 := if (Spec.Rec.skipWs bs).head? == some 0x22 then vs.map fun m => "C05 string literal: " ++ m else []
            vs ++ c05 ++ pos.filterMap id ++ [judgeUtf8 "str" s, judgeUtf8 "slice" sl, judgeUtf8 "reader" rd].filterMap id
          else ([judgeIgnored "str" bs s, judgeIgnored "slice" bs sl, judgeIgnored "reader" bs rd] ++ pos).filterMap id
        | _ => ["malformed observation"]
      { model := MachRv.runAllFor c tgt bs impl, specs := specs }
    | none => bad "hex"
  | _ => bad "arity"

/-- `big <cfg> <name>`: pathological sizes; expected classes follow from the statement (depth limit,
    number range, truncation) — the model is not run on megabyte inputs -/
def bigExpected (cfg : Cfg) (name : String) : String :=
  let v := match name with
    | "deep-array-open" | "deep-array-balanced" | "deep-object-open" => "err:syntax"     -- recursion limit at level 128
    | "long-string" | "long-escapes" | "wide-array" => "ok"
    | "long-integer" => if cfg.ap then "ok" else "err:syntax"                         -- 1e1000000 is out of range
    | "long-fraction" => "ok"
    | "huge-exponent" => if cfg.ap then "ok" else "err:syntax"
    | "huge-neg-exponent" => "ok"
    | _ => "?"
  let i := match name with
    | "deep-array-open" => "err:eof" | "deep-object-open" => "err:eof"
    | _ => "ok"
  v ++ "|" ++ i ++ "|" ++ v

def big : Handler := fun args impl =>
  match args with
  | [c, name] =>
    let e := bigExpected (cfgOfTag c) name
    { model := e, specs := (if (impl.splitOn "PANIC").length > 1 then ["C14 panic on a pathological input"] else []) }
  | _ => bad "arity"

/-- `tdepth <cfg> <levels> <mix>`: typed target made of arrays / enum wrappers nested `levels` deep:
    accepted iff at most 127 containers are open at once, else the recursion-limit error -/
def tdepth : Handler := fun args impl =>
  match args with
  | [_, ls, _] =>
    match ls.toNat? with
    | some l =>
      let e := if l ≤ 127 then "ok" else "err:" ++ hexOfBytes (Gen.message .RecursionLimitExceeded)
      { model := e, specs := if impl == e then [] else [s!"C14 typed target nested {l} deep: got {impl}, expected {e}"] }
    | none => bad "levels"
  | _ => bad "arity"

/-- `udepth <cfg> <limited|direct|stream> <depth>` (unbounded_depth): with the limit disabled deeper documents parse -/
def udepth : Handler := fun args impl =>
  match args with
  | [_, mode, ds] =>
    match ds.toNat? with
    | some d =>
      let e := if mode == "limited" && d > 127 then "err:syntax" else "ok"
      { model := e, specs := if impl == e then [] else [s!"C14 unbounded_depth ({mode}) at depth {d}: got {impl}, expected {e}"] }
    | none => bad "depth"
  | _ => bad "arity"

def handlers : List (String × Handler) :=
  [("pv", parseAll .value), ("pi", parseAll .ignored), ("big", big), ("tdepth", tdepth), ("udepth", udepth)]
end SJ.Drv.C01
