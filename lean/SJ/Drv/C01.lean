import SJ.Drv.Mach
namespace SJ.Drv.C01
open SJ SJ.Drv SJ.Drv.Mach SJ.Model.Machine

/-- `pv <cfg> <hex>` / `pi <cfg> <hex>`: parse into Value / IgnoredAny from all three sources -/
def parseAll (tgt : Tgt) : Handler := fun args _impl =>
  match args with
  | [c, h] =>
    match bytesOfHex h with
    | some bs => { model := runAll (cfgOfTag c) tgt bs }
    | none => bad "hex"
  | _ => bad "arity"

def handlers : List (String × Handler) := [("pv", parseAll .value), ("pi", parseAll .ignored)]
end SJ.Drv.C01
