import SJ.Drv.C05
import SJ.Drv.Readers
/-!
Driver handlers for the object-KEY position of three clauses (`harness/src/keys.rs`).

* `esck <route> <hex s> => <hex key literal>` (C05) — the string `s` (one char for the `c…` routes) as a map key through the text
  serializer's `MapKeySerializer` (`serialize_char` / `serialize_str`), compact and pretty. MODEL: `Model.Escape.escapedBytes`
  (`format_escaped_str`, the routine the key serializer forwards to). SPECIFICATION: `Spec.Str.escapeSpec` — the very function
  op `esc` judges the value position with.
* `ikey <cfg> <ty> <decimal> => k-to_string|k-pretty|k-to_vec|k-to_writer|k-hand|k-to_value|v-to_string|v-to_vec|v-to_value`
  (C06) — SPECIFICATION only (model = the expected observation): the decimal argument is parsed to an `Int`, checked against
  the type's range and printed back; every key field must be that text in quotes (`to_value`: unquoted), every value field that
  text (`to_value` of a 128-bit integer outside `[i64::MIN, u64::MAX]` may refuse in a build without arbitrary_precision: op
  `ival` has the exact rule).
* `rsk <cfg> <hex doc> <p> => <str>|<slice>|<reader>` (C05 bytes clause) — `doc = {<literal>:7}` into
  `BTreeMap<ByteBuf, u8>`; MODEL: the two scanner models' `parse_str_raw` at index `p`; SPECIFICATION: `Spec.Wtf8.lex` /
  `Spec.Wtf8.decodeBytes` of the key literal, the function that judges the value position (`Readers.judgeRaw`).
-/
namespace SJ.Drv.Keys
open SJ SJ.Drv SJ.Drv.Mach

def esck : Handler := fun args impl =>
  match args with
  | [route, sh] =>
    match bytesOfHex sh with
    | some s =>
      let want := hexField (Spec.Str.escapeSpec s)
      { model := hexField (Model.Escape.escapedBytes s),
        specs := if want == impl then [] else
          [s!"C05 map key ({route}): the key is written as {impl}, the statement's literal of this string is {want}"] }
    | none => bad "decode"
  | _ => bad "arity"

/-! ## integers -/

def intOfDec (s : String) : Option Int :=
  match s.toList with
  | '-' :: ds => (natOfDecChars ds).map fun n => -(n : Int)
  | ds => (natOfDecChars ds).map fun n => (n : Int)

/-- `(signed, bits)` -/
def widthOf : String → Option (Bool × Nat)
  | "i8" => some (true, 8) | "i16" => some (true, 16) | "i32" => some (true, 32) | "i64" => some (true, 64) | "i128" => some (true, 128)
  | "u8" => some (false, 8) | "u16" => some (false, 16) | "u32" => some (false, 32) | "u64" => some (false, 64) | "u128" => some (false, 128)
  | _ => none

def fits (signed : Bool) (bits : Nat) (x : Int) : Bool :=
  if signed then decide (-((2 : Int) ^ (bits - 1)) ≤ x ∧ x < (2 : Int) ^ (bits - 1)) else decide (0 ≤ x ∧ x < (2 : Int) ^ bits)

/-- plain decimal digits of an integer: most significant first, `-` in front of a negative one, no leading zero -/
def digitsNat (n : Nat) : Bytes :=
  let rec go (fuel n : Nat) (acc : Bytes) : Bytes :=
    match fuel with
    | 0 => acc
    | fuel + 1 => if n < 10 then UInt8.ofNat (48 + n) :: acc else go fuel (n / 10) (UInt8.ofNat (48 + n % 10) :: acc)
  go 64 n []

def decimalDigits (x : Int) : Bytes := if x < 0 then 0x2d :: digitsNat x.natAbs else digitsNat x.natAbs

def textOfHex (h : String) : String :=
  match bytesOfHex h with
  | some bs => (String.fromUTF8? (ByteArray.mk bs.toArray)).getD s!"<hex {h}>"
  | none => h

def ikey : Handler := fun args impl =>
  match args with
  | [c, ty, dec] =>
    match widthOf ty, intOfDec dec with
    | some (signed, bits), some x =>
      if !fits signed bits x then bad "value outside the type" else
      let ap := (cfgOfTag c).ap
      let digits := decimalDigits x
      let shown := String.ofList (digits.map fun b => Char.ofNat b.toNat)
      let q := hexOfBytes ([0x22] ++ digits ++ [0x22])
      let u := hexOfBytes digits
      let inVal := decide (-(2 : Int) ^ 63 ≤ x ∧ x < (2 : Int) ^ 64)
      let fields := impl.splitOn "|"
      let names := ["to_string", "to_string_pretty", "to_vec", "to_writer", "serialize_key by hand"]
      let keyMsgs := (names.zip (fields.take 5)).filterMap fun (n, f) =>
        if f == q then none else some s!"C06 integer key {ty} {shown} serialises ({n}) as {textOfHex f}, expected \"{shown}\""
      let kv := fields.getD 5 ""
      let kvMsg := if kv == u then [] else [s!"C06 integer key {ty} {shown} serialises (to_value, key of the Map) as {textOfHex kv}, expected {shown}"]
      let valMsgs := ([("to_string", fields.getD 6 ""), ("to_vec", fields.getD 7 "")]).filterMap fun (n, f) =>
        if f == u then none else some s!"C06 integer value {ty} {shown} serialises ({n}) as {textOfHex f}, expected {shown}"
      let vv := fields.getD 8 ""
      let vvOk := vv == u || (vv == "ERR" && bits == 128 && !ap && !inVal)
      let vvMsg := if vvOk then [] else [s!"C06 integer value {ty} {shown} into a Value (to_value) prints as {textOfHex vv}, expected {shown}"]
      let arity := if fields.length == 9 then [] else ["C06 ikey: malformed observation"]
      { model := "|".intercalate [q, q, q, q, q, u, u, u, (if vv == "ERR" && vvOk then "ERR" else u)],
        specs := keyMsgs ++ kvMsg ++ valMsgs ++ vvMsg ++ arity }
    | _, _ => bad "decode"
  | _ => bad "arity"

/-! ## bytes-typed keys -/

def tail7 : Bytes := [0x3a, 0x37, 0x7d]

def judgeKey (srcName : String) (doc : Bytes) (p : Nat) (o : String) : List String :=
  if o == "-" then [] else
  if o == "PANIC" then [s!"C14 {srcName}: a bytes-typed object key panics"] else
  let escMsg := hexOfBytes (Gen.message .InvalidEscape)
  let eofMsg := hexOfBytes (Gen.message .EofWhileParsingString)
  match Spec.Wtf8.lex (doc.drop p), o.splitOn ":" with
  | .ok items rest, _ =>
    if rest != tail7 then [] else
    let want := s!"OK:{hexField (Spec.Wtf8.decodeBytes items)}"
    if o == want then [] else [s!"C05 {srcName}: bytes-typed object key: got {o}, the WTF-8 decoding of the key literal gives {want}"]
  | .badEscape _, "E" :: m :: _ =>
    if m == escMsg then [] else [s!"C05 {srcName}: bytes-typed object key: the literal has an invalid escape but the error is {o}"]
  | .badEscape _, _ => [s!"C05 {srcName}: bytes-typed object key: the literal has an invalid escape but the result is {o}"]
  | .eof, "E" :: m :: "eof" :: _ =>
    if m == eofMsg then [] else [s!"C05 {srcName}: bytes-typed object key: input ends inside the literal but the error is not EofWhileParsingString: {o}"]
  | .eof, _ => [s!"C05 {srcName}: bytes-typed object key: input ends inside the literal but the result is {o}"]

def rsk : Handler := fun args impl =>
  match args with
  | [_cfg, h, ps] =>
    match bytesOfHex h, ps.toNat? with
    | some doc, some p =>
      if p == 0 || doc[p - 1]? != some 0x22 then bad "no quote before the key body" else
      match impl.splitOn "|" with
      | [s, b, r] =>
        -- past the key nothing is modelled here: a literal that closes early leaves the rest of the document to other ops
        let selfDelimiting := match Spec.Wtf8.lex (doc.drop p) with
          | .ok _ rest => rest == tail7
          | _ => true
        let ms := if !selfDelimiting then s else if Spec.Utf8.validUtf8 doc then Readers.e2eRefS "B" (Model.ReadSlice.parseStrRaw ⟨doc, p⟩) else "-"
        let mb := if !selfDelimiting then b else Readers.e2eRefS "B" (Model.ReadSlice.parseStrRaw ⟨doc, p⟩)
        let mr := if !selfDelimiting then r else Readers.e2eRefI (Model.ReadIo.parseStrRaw (Model.LineCol.IoPos.at doc p false))
        { model := ms ++ "|" ++ mb ++ "|" ++ mr,
          specs := judgeKey "str" doc p s ++ judgeKey "slice" doc p b ++ judgeKey "reader" doc p r }
      | _ => bad "obs"
    | _, _ => bad "decode"
  | _ => bad "arity"

def handlers : List (String × Handler) := [("esck", esck), ("ikey", ikey), ("rsk", rsk)]

end SJ.Drv.Keys
