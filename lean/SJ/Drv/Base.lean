import SJ.Spec.Value
/-! Driver plumbing: a handler maps the case arguments and the implementation's observation to
    the model's observation and (optionally) a specification verdict on the implementation's output. -/
namespace SJ.Drv
open SJ

structure Out where
  model : String
  /-- `some msg`: the property's executable specification is violated by the implementation's
      observation on this case (independently of the model). -/
  spec : Option String := none
  /-- further verdicts (one per property clause); the driver keeps those of the property being checked -/
  specs : List String := []

abbrev Handler := List String → String → Out

def bad (msg : String) : Out := { model := "BADCASE:" ++ msg }

end SJ.Drv
