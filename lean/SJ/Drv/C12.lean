import SJ.Drv.Mach
import SJ.Model.Stream
import SJ.Spec.Canon
import SJ.Spec.Pos
namespace SJ.Drv.C12
open SJ SJ.Drv SJ.Drv.Mach SJ.Model.Machine SJ.Model.Stream

def showItem (env : Env) (bs : Bytes) (it : Item) (off : Nat) (afterErr : Bool) : String :=
  match it with
  | .none => if afterErr then "N" else s!"N@{off}"
  | .ok v => (if env.tgt = .value then "V" ++ encJV v else "U") ++ s!"@{off}"
  | .err c idx =>
    let (l, col) := lineCol bs idx
    s!"E:{hexOfBytes (Gen.message c)}:{catName (Gen.classify c)}:{l}:{col}@{off}"

def showHistory (env : Env) (bs : Bytes) (h : List (Item × Nat)) : String :=
  let rec go (h : List (Item × Nat)) (afterErr : Bool) : List String :=
    match h with
    | [] => []
    | (it, off) :: r =>
      showItem env bs it off afterErr :: go r (afterErr || (match it with | .err _ _ => true | _ => false))
  String.intercalate "," (go h false)

/-- what the property says the stream must yield, from the grammar alone:
    items as `V…@off` / `U@off` / `eof@off` / `syntax@off` / `N@off` (after an error: `N`) -/
partial def specHistory (cfg : Cfg) (tgt : Tgt) (byteSource : Bool) (bs : Bytes) (k : Nat) : List String :=
  let scfg : Spec.Canon.Cfg := { po := cfg.po, fr := cfg.fr, ap := cfg.ap, limitOff := cfg.limitOff }
  let rec go (rest : Bytes) (pos : Nat) (k : Nat) (dead : Bool) (afterErr : Bool) : List String :=
    if k == 0 then [] else
    if dead then "N" :: go rest pos (k - 1) true true else
    let (r, p) := Spec.Pos.skipWs rest pos
    match r with
    | [] => (if afterErr then "N" else s!"N@{p}") :: go [] p (k - 1) false afterErr
    | b :: _ =>
      match Spec.Pos.scanValue (2 * r.length + 4) r p with
      | .eof => s!"eof@{p}" :: go r p (k - 1) true true
      | .dead _ si =>
        -- "a \u escape cut off by the end of input counts as truncation" (C12): a fault inside a \u group whose four
        -- bytes are not all there is Eof, whatever the bytes that are there
        let cut := match si with
          | some i => i.hexEnd != 0 && i.hexEnd > p + r.length
          | none => false
        (if cut then s!"eof@{p}" else s!"syntax@{p}") :: go r p (k - 1) true true
      | .ok rest' e =>
        let span := r.take (e - p)
        let selfDel := b == 0x5b || b == 0x22 || b == 0x7b
        let delimOk := selfDel || (match rest' with
          | [] => true
          | d :: _ => Spec.Grammar.isWs d || d == 0x22 || d == 0x5b || d == 0x5d || d == 0x7b || d == 0x7d || d == 0x2c || d == 0x3a)
        if tgt = .value then
          match Spec.Canon.expected scfg byteSource span with
          | none => s!"syntax@{p}" :: go r p (k - 1) true true      -- side condition violated
          | some v =>
            if delimOk then s!"V{encJV v}@{e}" :: go rest' e (k - 1) false afterErr
            else s!"syntax@{e}" :: go rest' e (k - 1) false true
        else
          if delimOk then s!"U@{e}" :: go rest' e (k - 1) false afterErr
          else s!"syntax@{e}" :: go rest' e (k - 1) false true
  go bs 0 k false false

/-- project an implementation item to the spec's vocabulary -/
def projItem (s : String) : String :=
  match s.splitOn "@" with
  | [o, off] =>
    (match o.splitOn ":" with
     | ["E", _, cat, _, _] => s!"{cat}@{off}"
     | _ => s)
  | _ => s

/-- `stream <cfg> <tgt> <src> <calls> <hex> => items` -/
def stream : Handler := fun args impl =>
  match args with
  | [c, t, sr, ks, h] =>
    match tgtOfTag t, srcOfTag sr, ks.toNat?, bytesOfHex h with
    | some tgt, some src, some k, some bs =>
      let env : Env := { cfg := cfgOfTag c, src := src, tgt := tgt }
      let m := showHistory env bs (history env k (start bs))
      let exp := specHistory env.cfg tgt (src != .str) bs k
      let raw := impl.splitOn ","
      let got := raw.map projItem
      -- a truncated value that already violates a side condition (lone surrogate, number out of
      -- range, depth) is not a prefix of any acceptable value: Syntax is then the right class
      let sideMsgs : List Gen.Code := [.LoneLeadingSurrogateInHexEscape, .UnexpectedEndOfHexEscape,
        .InvalidUnicodeCodePoint, .NumberOutOfRange, .RecursionLimitExceeded]
      let lenient (e g r : String) : Bool :=
        e == g || (e.startsWith "eof@" && g == "syntax@" ++ (e.drop 4).toString &&
                   sideMsgs.any fun c => (r.splitOn ":").getD 1 "" == hexOfBytes (Gen.message c))
      let okAll := got.length == exp.length &&
        (List.range got.length).all fun i => lenient (exp.getD i "") (got.getD i "") (raw.getD i "")
      let spec := if okAll then [] else
        [s!"C12 stream history differs from the grammar's: expected {String.intercalate "," exp}"]
      { model := m, specs := spec }
    | _, _, _, _ => bad "decode"
  | _ => bad "arity"

def handlers : List (String × Handler) := [("stream", stream)]
end SJ.Drv.C12
