import SJ.Drv.Mach
import SJ.Spec.Canon
namespace SJ.Drv.C10
open SJ SJ.Drv SJ.Drv.Mach SJ.Model.Machine

def isNumChar (b : UInt8) : Bool :=
  (0x30 ≤ b && b ≤ 0x39) || b == 0x2b || b == 0x2d || b == 0x2e || b == 0x65 || b == 0x45

/-- does `p` end in a complete number literal whose value is beyond finite f64 range?
    (the one inherent exception of C10: the number-range rule turns a prefix into a complete,
    rejected number) -/
def endsInOutOfRangeNumber (cfg : Cfg) (p : Bytes) : Bool :=
  let tail := (p.reverse.takeWhile isNumChar).reverse
  -- the literal is the longest number-shaped suffix; it must parse completely
  match Spec.Rec.pNumber tail with
  | some (parts, []) => (Spec.Canon.numOf { po := cfg.po, fr := cfg.fr, ap := cfg.ap } parts).isNone
  | _ => false

def projOutcome (bs : Bytes) (o : Outcome) : String :=
  match o with
  | .ok _ => "A"
  | .err c idx => let (l, col) := lineCol bs idx; s!"{catName (Gen.classify c)}:{l}:{col}"

/-- `pfx <cfg> <tgt> <src> <hex doc> => o_0,…,o_n` — outcome of every prefix (n = the full text) -/
def pfx : Handler := fun args impl =>
  match args with
  | [c, t, sr, h] =>
    match tgtOfTag t, srcOfTag sr, bytesOfHex h with
    | some tgt, some src, some bs =>
      let env : Env := { cfg := cfgOfTag c, src := src, tgt := tgt }
      let outs := (List.range (bs.length + 1)).map fun k =>
        let p := bs.take k
        if src == .str && !Spec.Utf8.validUtf8 p then "-" else projOutcome p (parseTop env p)
      -- specification, evaluated on the implementation's observations
      let obs := impl.splitOn ","
      let spec : Option String :=
        if obs.length != bs.length + 1 then some "C10 malformed observation"
        else if obs.getLast? != some "A" then none
        else
          let bad := (List.range bs.length).filterMap fun k =>
            let o := obs[k]!
            let (l, col) := lineCol (bs.take k) k
            if o == "A" || o == "-" || o == s!"eof:{l}:{col}" then none else some (k, o)
          -- the inherent exception: prefix = complete out-of-range number, reported as syntax at its end
          let inherent := bad.filter fun (k, o) =>
            let (l, col) := lineCol (bs.take k) k
            t == "value" && o == s!"syntax:{l}:{col}" && endsInOutOfRangeNumber (cfgOfTag c) (bs.take k)
          let other := bad.filter fun (k, o) =>
            let (l, col) := lineCol (bs.take k) k
            !(t == "value" && o == s!"syntax:{l}:{col}" && endsInOutOfRangeNumber (cfgOfTag c) (bs.take k))
          match other, inherent with
          | (k, o) :: _, _ => some s!"C10 prefix of length {k} of an accepted text fails with {o} (expected success or eof at its end) [{other.length} prefix(es)]"
          | [], (k, _) :: _ => some s!"C10 inherent:out-of-range-number-prefix: prefix of length {k} is a complete number literal beyond f64 range (Syntax, not Eof) [{inherent.length} prefix(es)]"
          | [], [] => none
      { model := String.intercalate "," outs, spec := spec }
    | _, _, _ => bad "decode"
  | _ => bad "arity"

/-- typed targets: the property's predicate on the implementation's prefix outcomes (no model yet) -/
def pfxt : Handler := fun args impl =>
  match args with
  | [_, name, _, h] =>
    match bytesOfHex h with
    | some bs =>
      let obs := impl.splitOn ","
      let spec : List String :=
        if obs.length != bs.length + 1 then ["C10 malformed observation"] else
        let bad := (List.range bs.length).filterMap fun k =>
          let o := obs[k]!
          let (l, col) := lineCol (bs.take k) k
          if o == "A" || o == "-" || o == s!"eof:{l}:{col}" then none else some (k, o)
        match bad with
        | [] => []
        | (k, o) :: _ => [s!"C10 typed target {name}: prefix of length {k} of an accepted text fails with {o} (expected success or eof at its end) [{bad.length} prefix(es)]"]
      { model := impl, specs := spec }
    | none => bad "hex"
  | _ => bad "arity"

def handlers : List (String × Handler) := [("pfx", pfx), ("pfxt", pfxt)]
end SJ.Drv.C10
