import SJ.Drv.C06
import SJ.Model.ViaValue
import SJ.Model.NumberAp
import SJ.Spec.Number
import SJ.Spec.NumberAcc
/-!
Driver side of `c06_via_value` / `c20_accessors`: the ops `int` and `acc` keep the specification verdicts of
`SJ.Drv.C06` and get their MODEL fields from the transcriptions the theorems are about —

* `int`: all six fields from `Model.ViaValue` (text = `Model.Typed.deTypedTop`; via `Value` = `Model.Machine.parseTop`
  then `Model.FromValue.fromValue` / `fromValueRef`; quoted key and the reader case = `deTypedTop` on the very
  documents the harness builds; key of a `Value` object = `fromValue` on `{lit: null}`), in the default AND the
  `arbitrary_precision` configuration (chosen by the cfg tag), for literals and non-literals alike;
* `acc`: `Number::from_str` = number grammar + the `Value` parser, then the accessors of `Model.NumberAp`
  (`numAsI64 ap …`: the `N` enum or `str::parse` on the text).
Registered before `C06.handlers` in `Driver.lean`.
-/
namespace SJ.Drv.C06Via
open SJ SJ.Drv SJ.Drv.Mach SJ.Model SJ.Model.ViaValue

def widthOf : String → Option IntTy
  | "i8" => some .i8 | "i16" => some .i16 | "i32" => some .i32 | "i64" => some .i64 | "i128" => some .i128
  | "u8" => some .u8 | "u16" => some .u16 | "u32" => some .u32 | "u64" => some .u64 | "u128" => some .u128
  | "isize" => some .i64 | "usize" => some .u64
  | _ => none

def showOpt : Option Int → String
  | some x => s!"OK{x}"
  | none => "ERR"

def showR : FromValue.R → String
  | .ok (.int x) => s!"OK{x}"
  | _ => "ERR"

/-- first key of a deserialised `BTreeMap<T, ()>` -/
def firstKey : TVal → String
  | .map ((.int x, _) :: _) => s!"OK{x}"
  | .map [] => "EMPTY"
  | _ => "ERR"

def bytesOfString (s : String) : Bytes := s.toUTF8.toList

/-- `{"<lit>":null}` -/
def keyDoc (lit : Bytes) : Bytes := bytesOfString "{\"" ++ lit ++ bytesOfString "\":null}"
/-- `["a\né",{"k":<lit>}]` (the escapes as written in the document) -/
def seqDoc (lit : Bytes) : Bytes := bytesOfString "[\"a\\n\\u00e9\",{\"k\":" ++ lit ++ bytesOfString "}]"

def intModel (cfg : Machine.Cfg) (w : IntTy) (lit : Bytes) : String :=
  let text := showOpt (textInt cfg .str w lit)
  let (v1, v2) := match valueOf cfg .str lit with
    | none => ("NOVAL", "NOVAL")
    | some v => (showOpt (viaValueInt cfg {} w v), showOpt (viaValueRefInt cfg {} w v))
  let key := match Typed.deTypedTop { cfg := cfg, src := .str } (.map (.int w) .unit) (keyDoc lit) with
    | .ok t => firstKey t
    | _ => "ERR"
  let kv := match FromValue.fromValue (fvCfg cfg) {} (.map (.int w) .unit) (.obj [(lit, .null)]) with
    | .ok t => firstKey t
    | .error _ => "ERR"
  let seq := match Typed.deTypedTop { cfg := cfg, src := .reader } (.tuple [.string, .map .string (.int w)]) (seqDoc lit) with
    | .ok (.seq [_, .map ((_, .int x) :: _)]) => s!"OK{x}"
    | .ok (.seq [_, .map []]) => "EMPTY"
    | _ => "ERR"
  String.intercalate "|" [text, v1, v2, key, kv, seq]

def int : Handler := fun args impl =>
  let o := C06.int args impl
  if o.model.startsWith "BADCASE:" then o else
  match args with
  | [c, t, h] =>
    match widthOf t, bytesOfHex h with
    | some w, some bs => { o with model := intModel (cfgOfTag c) w bs }
    | _, _ => o
  | _ => o

def optS : Option Int → String
  | some x => toString x
  | none => "N"

def accModel (cfg : Machine.Cfg) (lit : Bytes) : String :=
  -- `Number::from_str`: `parse_any_signed_number` + end of input — the number grammar, nothing around it
  if !Spec.Number.isNumber lit then "ERR" else
  match valueOf cfg .str lit with
  | some (.num n) =>
    let ap := cfg.ap
    let b (x : Bool) : String := if x then "1" else "0"
    String.intercalate "|" [optS (NumberAp.numAsI64 ap n), optS (NumberAp.numAsU64 ap n), optS (NumberAp.numAsI128 ap n),
      optS (NumberAp.numAsU128 ap n), b (NumberAp.numIsI64 ap n), b (NumberAp.numIsU64 ap n), b (NumberAp.numIsF64 ap n),
      (match NumberAp.numAsF64 ap n with | some bits => hex16 bits | none => "N")]
  | _ => "ERR"

/-- the accessor clause of C20 on the crate's own answers (arbitrary_precision builds): `Spec.NumberAcc.accInt` of the
    literal as the specification reads it, `is_*` iff `as_*` is `Some`, `is_f64` iff fraction/exponent and `as_f64` is `Some` -/
def accSpecC20 (lit : Bytes) (impl : String) : List String :=
  match Spec.Decimal.NumLit.parse lit with
  | none => []
  | some l =>
    if impl == "ERR" then [] else
    let f := impl.splitOn "|"
    let exp := [optS (Spec.NumberAcc.accInt .i64 l), optS (Spec.NumberAcc.accInt .u64 l),
                optS (Spec.NumberAcc.accInt .i128 l), optS (Spec.NumberAcc.accInt .u128 l)]
    let s1 := if f.take 4 == exp then [] else
      [s!"C20 accessors as_i64|as_u64|as_i128|as_u128 = {String.intercalate "|" (f.take 4)}, the literal's exact integer values are {String.intercalate "|" exp}"]
    let s2 := if (f.getD 4 "" == "1") == (f.getD 0 "" != "N") && (f.getD 5 "" == "1") == (f.getD 1 "" != "N") then []
      else ["C20 is_i64/is_u64 disagree with as_i64/as_u64"]
    let s3 := if (f.getD 6 "" == "1") == (!Spec.NumberAcc.isIntLit l && f.getD 7 "" != "N") then []
      else ["C20 is_f64 must be true exactly for a literal with fraction/exponent whose as_f64 is Some"]
    s1 ++ s2 ++ s3

def acc : Handler := fun args impl =>
  let o := C06.acc args impl
  if o.model.startsWith "BADCASE:" then o else
  match args with
  | [c, h] =>
    match bytesOfHex h with
    | some bs =>
      let cfg := cfgOfTag c
      { o with model := accModel cfg bs, specs := o.specs ++ (if cfg.ap then accSpecC20 bs impl else []) }
    | none => o
  | _ => o

/-- `accbig <cfg> <n> <m> => as_f64 bits or N`: the literal `1` followed by `n` zeros and the exponent `e-<m>`
    (too long to ship on the line: ≥ 65 KB). Model: `Model.NumberAp.asF64` on the very text; specification: for
    `n = m` the literal's exact value is 1, whose nearest binary64 is `0x3ff0000000000000`. -/
def accbig : Handler := fun args impl =>
  match args with
  | [_, ns, ms] =>
    match ns.toNat?, ms.toNat? with
    | some n, some m =>
      let lit : Bytes := 0x31 :: (List.replicate n 0x30 ++ [0x65, 0x2d] ++ bytesOfString (toString m))
      let model := match NumberAp.asF64 lit with | some b => hex16 b | none => "N"
      let specs := if n == m && impl != "3ff0000000000000" then
        [s!"C20 as_f64 of 1 followed by {n} zeros e-{m} (exactly 1) = {impl}, the nearest finite f64 is 3ff0000000000000"] else []
      { model := model, specs := specs }
    | _, _ => bad "number"
  | _ => bad "arity"

def handlers : List (String × Handler) := [("int", int), ("acc", acc), ("accbig", accbig)]
end SJ.Drv.C06Via
