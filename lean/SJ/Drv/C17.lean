import SJ.Drv.Base
import SJ.Spec.AMap
import SJ.Spec.ValueEq
import SJ.Model.MapBTree
import SJ.Model.MapIndex
import SJ.Model.ValueEq
/-!
Driver handlers for C17.

```
maphist <cfg> <op,op,…>            => <ret>/<fwd>,<ret>/<fwd>,…,R<bwd>
mapeqh  <cfg> <ops₁> <ops₂>        => <==>/<hash equal>
mapeq   <cfg> <v₁> <v₂>            => <==>/<SipHash equal>/<hasher input equal>
maphash <cfg> <v>                  => <hasher calls>
mapsort <cfg> <v>                  => <v after sort_all_objects>/<after == before>
```
`cfg` is `d` (BTreeMap) or `po` (IndexMap). Operation tokens (`:`-separated fields, keys in hex,
values in the wire codec): `in:k:v` `si:i:k:v` `rm:<p|w|h><v|e><m|o>:k` `gt:k` `gk:k` `ct:k` `ln`
`ie` `cl` `ap:<obj>` `ex:<obj>` `rt:n|rt:l:k|rt:x:k` `sk` `eo:k:v` `ei:k:v` `em:k:v:w` `sm:k:v`
`ix:k` `is:k:v` `it` `ir` `ks` `vs`. `-` is the empty history.
-/
namespace SJ.Drv.C17
open SJ SJ.Drv SJ.Spec.AMap

/-! ## decoding -/

def decObjPairs (s : String) : Option (List (Bytes × JV)) :=
  match decodeJV s with
  | some (.obj kvs) => some kvs
  | _ => none

def decFlavour : Char → Option Flavour
  | 'p' => some .plain | 'w' => some .swap | 'h' => some .shift | _ => none
def decShape : Char → Option Shape
  | 'v' => some .value | 'e' => some .entry | _ => none
def decVia : Char → Option Via
  | 'm' => some .map | 'o' => some .occupied | _ => none

def isNull : JV → Bool
  | .null => true
  | _ => false

def decOp (tok : String) : Option (Op JV) :=
  match tok.splitOn ":" with
  | ["in", k, v] => do pure (.insert (← bytesOfHex k) (← decodeJV v))
  | ["si", i, k, v] => do pure (.shiftInsert (← natOfDecChars i.toList) (← bytesOfHex k) (← decodeJV v))
  | ["rm", f, k] =>
    match f.toList with
    | [a, b, c] => do pure (.remove (← decFlavour a) (← decShape b) (← decVia c) (← bytesOfHex k))
    | _ => none
  | ["gt", k] => do pure (.get (← bytesOfHex k))
  | ["gk", k] => do pure (.get (← bytesOfHex k))
  | ["ct", k] => do pure (.contains (← bytesOfHex k))
  | ["ln"] => some .len
  | ["ie"] => some .isEmpty
  | ["cl"] => some .clear
  | ["ap", o] => do pure (.append (← decObjPairs o))
  | ["ex", o] => do pure (.extend (← decObjPairs o))
  | ["rt", "n"] => some (.retain fun _ v => !isNull v)
  | ["rt", "l", k] => do let k ← bytesOfHex k; pure (.retain fun k' _ => ltB k' k)
  | ["rt", "x", k] => do let k ← bytesOfHex k; pure (.retain fun k' _ => k' != k)
  | ["sk"] => some .sortKeys
  | ["eo", k, v] => do pure (.entryOrInsert (← bytesOfHex k) (← decodeJV v))
  | ["ei", k, v] => do pure (.entryInsert (← bytesOfHex k) (← decodeJV v))
  | ["em", k, v, w] => do pure (.entryModify (← bytesOfHex k) (← decodeJV v) (← decodeJV w))
  | ["sm", k, v] => do pure (.setMut (← bytesOfHex k) (← decodeJV v))
  | ["ix", k] => do pure (.index (← bytesOfHex k))
  | ["is", k, v] => do pure (.indexSet (← bytesOfHex k) (← decodeJV v))
  | ["it"] => some .iter
  | ["ir"] => some .iterRev
  | ["ks"] => some .keys
  | ["vs"] => some .values
  | _ => none

def decOps (s : String) : Option (List (Op JV)) :=
  if s == "-" then some [] else (s.splitOn ",").mapM decOp

/-! ## encoding of return values -/

def encObj (kvs : List (Bytes × JV)) : String := encJV (.obj kvs)

def encRet : Ret JV → String
  | .unit => "U"
  | .optV none => "N"
  | .optV (some v) => "S" ++ encJV v
  | .optKV none => "N"
  | .optKV (some (k, v)) => "P" ++ hexField k ++ "~" ++ encJV v
  | .bool true => "T"
  | .bool false => "F"
  | .nat n => s!"#{n}"
  | .val v => "V" ++ encJV v
  | .panic => "!"
  | .kvs l => "L" ++ encObj l
  | .keys l => "K" ++ ".".intercalate (l.map hexField)
  | .vals l => "A" ++ encJV (.arr l)

def tf (b : Bool) : String := if b then "T" else "F"

/-! ## the models -/

def runModel (po : Bool) (ops : List (Op JV)) : List (Bytes × JV) × List String :=
  ops.foldl (fun (acc : List (Bytes × JV) × List String) o =>
    let (m', r) := if po then Model.MapIndex.step o acc.1 else Model.MapBTree.step o acc.1
    (m', (encRet r ++ "/" ++ encObj m') :: acc.2)) ([], [])

/-- under the model, `append(other)` receives `other`'s iteration sequence: `other` is built by
    inserting the listed pairs into `Map::new()` -/
def resolveAppend (po : Bool) : Op JV → Op JV
  | .append o => .append (if po then Model.MapIndex.insertMany [] o else Model.MapBTree.insertMany [] o)
  | o => o

def modelHist (po : Bool) (ops : List (Op JV)) : String :=
  let (m, outs) := runModel po (ops.map (resolveAppend po))
  ",".intercalate (outs.reverse ++ ["R" ++ encObj m.reverse])

/-! ## the specification evaluated on the implementation's observation -/

def keysOf (kvs : List (Bytes × JV)) : List Bytes := kvs.map (·.1)

def nodupKeys : List Bytes → Bool
  | [] => true
  | k :: r => !r.contains k && nodupKeys r

/-- `fwd` lists exactly the reference dictionary -/
def entriesMatch (fwd : List (Bytes × JV)) (ref : Ref JV) : Bool :=
  nodupKeys (keysOf fwd) && fwd.length == Ref.len ref &&
    fwd.all fun kv => match lookup kv.1 ref with
      | some v => encJV v == encJV kv.2
      | none => false

structure SpecSt where
  ref : Ref JV := []
  ks : List Bytes := []
  fwd : List (Bytes × JV) := []
  err : Option String := none

def checkOp (po : Bool) (idx : Nat) (st : SpecSt) (o : Op JV) (item : String) : SpecSt :=
  if st.err.isSome then st else
  match item.splitOn "/" with
  | [ret, fwdS] =>
    match decObjPairs fwdS with
    | none => { st with err := some s!"op {idx}: undecodable iteration sequence" }
    | some fwd =>
      let (ref', r) := Ref.step o st.ref
      let ks' := ordStep o (Ref.sem st.ref) st.ks
      let retOk : Bool := match o with
        | .iter => ret == "L" ++ encObj fwd
        | .iterRev => ret == "L" ++ encObj fwd.reverse
        | .keys => ret == encRet (.keys (keysOf fwd))
        | .values => ret == encRet (.vals (fwd.map (·.2)))
        | _ => ret == encRet r
      let err :=
        if !retOk then some s!"op {idx}: returned {ret}, reference dictionary gives {encRet r}"
        else if !entriesMatch fwd ref' then
          some s!"op {idx}: iteration {fwdS} is not the reference dictionary {encObj (Ref.dedup ref')}"
        else if !po && !ascB (keysOf fwd) then some s!"op {idx}: iteration not strictly ascending by key"
        else if po && keysOf fwd != ks' then
          some s!"op {idx}: insertion-order rule gives key order {encRet (.keys ks')}"
        else none
      { ref := ref', ks := ks', fwd := fwd, err := err }
  | _ => { st with err := some s!"op {idx}: malformed observation" }

def specHist (po : Bool) (ops : List (Op JV)) (impl : String) : Option String :=
  let items := impl.splitOn ","
  if items.length != ops.length + 1 then some "observation count differs from history length" else
  let rec go (idx : Nat) (st : SpecSt) : List (Op JV) → List String → SpecSt
    | o :: os, it :: its => go (idx + 1) (checkOp po idx st o it) os its
    | _, _ => st
  let st := go 0 {} ops items
  match st.err with
  | some e => some e
  | none =>
    let last := items.getLast?.getD ""
    if last == "R" ++ encObj st.fwd.reverse then none
    else some "backward iteration is not the reverse of forward iteration"

def maphist : Handler := fun args impl =>
  match args with
  | [cfg, opsTok] =>
    match decOps opsTok with
    | none => bad "ops"
    | some ops =>
      let po := cfg == "po"
      { model := modelHist po ops, spec := specHist po ops impl }
  | _ => bad "arity"

/-! ## equality of maps built by two histories -/

def refOf (ops : List (Op JV)) : Ref JV := ops.foldl (fun r o => (Ref.step o r).1) []

def refDictEq (r₁ r₂ : Ref JV) : Bool :=
  Ref.len r₁ == Ref.len r₂ &&
    (Ref.dedup r₁).all fun kv => match lookup kv.1 r₂ with
      | some w => Spec.ValueEq.specEq kv.2 w
      | none => false

def mapeqh : Handler := fun args impl =>
  match args with
  | [cfg, t₁, t₂] =>
    match decOps t₁, decOps t₂, impl.splitOn "/" with
    | some o₁, some o₂, [ie, ih] =>
      let po := cfg == "po"
      let m₁ := (runModel po (o₁.map (resolveAppend po))).1
      let m₂ := (runModel po (o₂.map (resolveAppend po))).1
      let eqv := Model.ValueEq.beqJV po
      let me := if po then Model.MapIndex.beq eqv m₁ m₂ else Model.MapBTree.beq eqv m₁ m₂
      let se := refDictEq (refOf o₁) (refOf o₂)
      let spec :=
        if tf se != ie then some s!"maps equal as dictionaries: {tf se}, == returned {ie}"
        else if ie == "T" && ih != "T" then some "equal but hashes differ"
        else none
      { model := tf me ++ "/" ++ (if me then "T" else ih), spec := spec }
    | some o₁, some o₂, _ =>
      -- `?asymmetric:<a == b>:<b == a>`: the harness saw the two directions of `==` disagree
      if impl.startsWith "?asymmetric" then
        let po := cfg == "po"
        let m₁ := (runModel po (o₁.map (resolveAppend po))).1
        let m₂ := (runModel po (o₂.map (resolveAppend po))).1
        let eqv := Model.ValueEq.beqJV po
        let me := if po then Model.MapIndex.beq eqv m₁ m₂ else Model.MapBTree.beq eqv m₁ m₂
        let se := refDictEq (refOf o₁) (refOf o₂)
        { model := tf me ++ "/T",
          spec := some s!"C17 == of maps is not symmetric ({impl}): a == b and b == a differ; as dictionaries the maps are equal: {tf se}" }
      else bad "decode"
    | _, _, _ => bad "decode"
  | _ => bad "arity"

/-! ## values: `==`, `Hash`, `sort_all_objects` -/

open Model.ValueEq in
def encHW : HW → String
  | .isize n => s!"i{n}"
  | .u8 n => s!"b{n}"
  | .u64 n => s!"q{n}"
  | .i64 n => s!"j{n}"
  | .usize n => s!"u{n}"
  | .bytes bs => "w" ++ hexField bs

def encHash (h : List Model.ValueEq.HW) : String := ".".intercalate (h.map encHW)

def mapeq : Handler := fun args impl =>
  match args with
  | [cfg, e₁, e₂] =>
    match decodeJV e₁, decodeJV e₂, impl.splitOn "/" with
    | some v₁, some v₂, [ie, ih, iw] =>
      let po := cfg == "po"
      let me := Model.ValueEq.beqJV po v₁ v₂
      let mw := decide (Model.ValueEq.hashJV po v₁ = Model.ValueEq.hashJV po v₂)
      let se := Spec.ValueEq.specEq v₁ v₂
      let spec :=
        if tf se != ie then some s!"order-free equality of the values: {tf se}, == returned {ie}"
        else if ie == "T" && (ih != "T" || iw != "T") then some "equal but hashes differ"
        else none
      { model := tf me ++ "/" ++ (if me then "T" else ih) ++ "/" ++ tf mw, spec := spec }
    | some v₁, some v₂, _ =>
      if impl.startsWith "?asymmetric" then
        let po := cfg == "po"
        let me := Model.ValueEq.beqJV po v₁ v₂
        let mw := decide (Model.ValueEq.hashJV po v₁ = Model.ValueEq.hashJV po v₂)
        { model := tf me ++ "/T/" ++ tf mw,
          spec := some s!"C17 == of values is not symmetric ({impl}): a == b and b == a differ; order-free equality of the values: {tf (Spec.ValueEq.specEq v₁ v₂)}" }
      else bad "decode"
    | _, _, _ => bad "decode"
  | _ => bad "arity"

def maphash : Handler := fun args _ =>
  match args with
  | [cfg, e] =>
    match decodeJV e with
    | some v => { model := encHash (Model.ValueEq.hashJV (cfg == "po") v) }
    | none => bad "decode"
  | _ => bad "arity"

def mapsort : Handler := fun args impl =>
  match args with
  | [cfg, e] =>
    match decodeJV e, impl.splitOn "/" with
    | some v, [ia, ieq] =>
      let po := cfg == "po"
      let s := Model.ValueEq.sortAll po v
      let spec := match decodeJV ia with
        | none => some "undecodable result"
        | some a =>
          if !Spec.ValueEq.ascAll a then some "an object does not iterate in ascending key order after sort_all_objects"
          else if !Spec.ValueEq.specEq a v then some "sort_all_objects changed the value (order-free comparison)"
          else if ieq != "T" then some "value after sort_all_objects is not == to the value before"
          else none
      { model := encJV s ++ "/" ++ tf (Model.ValueEq.beqJV po s v), spec := spec }
    | _, _ => bad "decode"
  | _ => bad "arity"

/-! ## the seven iterator wrappers of `map.rs` as double-ended exact-size iterators

`mapiter <cfg> <history> <k> => <kind>=<field>/<field>/…|<kind>=…` — the map is built by the history; for each of `iter()`,
`iter_mut()`, `into_iter()`, `keys()`, `values()`, `values_mut()`, `into_values()` the harness observes, in this order:
`F` forward collect, `R` `rev()` collect, `nth(k)` + the rest collected, `nth_back(k)` + the rest collected (forward),
`rev().nth(k)`, `rev().skip(k)` collected, `rev().step_by(2)`, `skip(k)`, `step_by(k+1)`, `rev().step_by(k+1)`,
`len():size_hint()` fresh / after `next()` / after `next()`+`next_back()` / after `nth(k)` / after `nth_back(k)`, `last()`,
`next, next_back, next, next_back` + rest, `nth_back(k), nth(k)` + rest + `len()`.
Items: `hexkey~value`, `hexkey`, `value`; lists joined by `,` (`_` empty); options `N` / `S<item>`.

Everything is a plain list function of the FORWARD entry list `l` (that is the whole specification of a double-ended
exact-size iterator over `l`): MODEL = these functions of the model map's entries (`Model.MapBTree` / `Model.MapIndex` run on
the history); SPECIFICATION = the same functions of the list the crate's own `iter()` collected forward (field `F` of the
first kind), compared with every other field the crate produced — independent of the map models. -/

inductive Proj | kv | key | val

def Proj.item : Proj → Bytes × JV → String
  | .kv, (k, v) => hexField k ++ "~" ++ encJV v
  | .key, (k, _) => hexField k
  | .val, (_, v) => encJV v

def Proj.list (p : Proj) (l : List (Bytes × JV)) : String :=
  if l.isEmpty then "_" else ",".intercalate (l.map p.item)

def Proj.opt (p : Proj) : Option (Bytes × JV) → String
  | none => "N"
  | some x => "S" ++ p.item x

/-- the elements at positions 0, s, 2s, … (`Iterator::step_by`) -/
def stepBy {α} (s : Nat) (l : List α) : List α :=
  (l.zipIdx.filter fun x => x.2 % s == 0).map (·.1)

def szStr (n : Nat) : String := s!"{n}:{n}:{n}"

/-- the named fields of one iterator over the forward list `l` -/
def iterFields (p : Proj) (l : List (Bytes × JV)) (k : Nat) : List (String × String) :=
  let n := l.length
  let nth := (l.drop k).head?
  let afterNth := l.drop (k + 1)
  let nthBack := (l.reverse.drop k).head?
  let afterNthBack := l.take (n - (k + 1))
  -- next, next_back, next, next_back
  let a := l.head?
  let l1 := l.tail
  let b := l1.getLast?
  let l2 := l1.dropLast
  let c := l2.head?
  let l3 := l2.tail
  let d := l3.getLast?
  let l4 := l3.dropLast
  -- nth_back(k) then nth(k)
  let y := (afterNthBack.drop k).head?
  let rest2 := afterNthBack.drop (k + 1)
  [ ("F", p.list l),
    ("rev", p.list l.reverse),
    ("nth", p.opt nth ++ "+" ++ p.list afterNth),
    ("nth_back", p.opt nthBack ++ "+" ++ p.list afterNthBack),
    ("rev.nth", p.opt nthBack),
    ("rev.skip", p.list (l.reverse.drop k)),
    ("rev.step_by(2)", p.list (stepBy 2 l.reverse)),
    ("skip", p.list (l.drop k)),
    ("step_by(k+1)", p.list (stepBy (k + 1) l)),
    ("rev.step_by(k+1)", p.list (stepBy (k + 1) l.reverse)),
    ("len/size_hint", "+".intercalate [szStr n, szStr (n - 1), szStr (n - 2), szStr (n - (k + 1)), szStr (n - (k + 1))]),
    ("last", p.opt l.getLast?),
    ("next/next_back", "+".intercalate [p.opt a, p.opt b, p.opt c, p.opt d, p.list l4]),
    ("nth_back;nth", "+".intercalate [p.opt nthBack, p.opt y, p.list rest2, toString rest2.length]) ]

def iterKinds : List (String × Proj) :=
  [("iter", .kv), ("iter_mut", .kv), ("into_iter", .kv), ("keys", .key), ("values", .val), ("values_mut", .val), ("into_values", .val)]

def iterObs (l : List (Bytes × JV)) (k : Nat) : String :=
  "|".intercalate (iterKinds.map fun (name, p) => name ++ "=" ++ "/".intercalate ((iterFields p l k).map (·.2)))

/-- `hexkey~value,…` (or `_`) back into an entry list -/
def decEntries (s : String) : Option (List (Bytes × JV)) :=
  if s == "_" then some [] else
  (s.splitOn ",").mapM fun it =>
    match it.splitOn "~" with
    | [k, v] => do pure (← bytesOfHex k, ← decodeJV v)
    | _ => none

/-- first field of the crate's observation that differs from the list semantics over `l` -/
def iterJudge (l : List (Bytes × JV)) (k : Nat) (impl : String) : Option String :=
  let sections := impl.splitOn "|"
  if sections.length != iterKinds.length then some "C17 mapiter: malformed observation" else
  (iterKinds.zip sections).findSome? fun ((name, p), sec) =>
    if sec == name ++ "=PANIC" then some s!"C17 mapiter: {name}() panics" else
    let got := ((sec.drop (name.length + 1)).toString).splitOn "/"
    let want := iterFields p l k
    if !sec.startsWith (name ++ "=") || got.length != want.length then some s!"C17 mapiter: malformed section of {name}" else
    (want.zip got).findSome? fun ((fname, w), g) =>
      if w == g then none
      else some s!"C17 mapiter: {name}(): {fname} with k={k} gives {g}; a double-ended exact-size iterator over the forward entry list gives {w}"

def mapiter : Handler := fun args impl =>
  match args with
  | [cfg, opsTok, kTok] =>
    match decOps opsTok, kTok.toNat? with
    | some ops, some k =>
      let po := cfg == "po"
      let m := (runModel po (ops.map (resolveAppend po))).1
      let firstF := (((impl.splitOn "|").headD "").splitOn "/").headD ""
      let spec :=
        if !firstF.startsWith "iter=" then some "C17 mapiter: malformed observation"
        else match decEntries (firstF.drop 5).toString with
          | none => some "C17 mapiter: undecodable forward list of iter()"
          | some l => iterJudge l k impl
      { model := iterObs m k, spec := spec }
    | _, _ => bad "decode"
  | _ => bad "arity"

def handlers : List (String × Handler) :=
  [("maphist", maphist), ("mapeqh", mapeqh), ("mapeq", mapeq), ("maphash", maphash), ("mapsort", mapsort), ("mapiter", mapiter)]

end SJ.Drv.C17
