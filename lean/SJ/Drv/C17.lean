import SJ.Drv.Base
import SJ.Spec.AMap
import SJ.Spec.ValueEq
import SJ.Model.MapBTree
import SJ.Model.MapIndex
import SJ.Model.ValueEq
/-!
Driver handlers for C17.

```
maphist <cfg> <op,op,…>            => <ret>/<fwd>,<ret>/<fwd>,…,R<bwd>
mapeqh  <cfg> <ops₁> <ops₂>        => <==>/<hash equal>
mapeq   <cfg> <v₁> <v₂>            => <==>/<SipHash equal>/<hasher input equal>
maphash <cfg> <v>                  => <hasher calls>
mapsort <cfg> <v>                  => <v after sort_all_objects>/<after == before>
```
`cfg` is `d` (BTreeMap) or `po` (IndexMap). Operation tokens (`:`-separated fields, keys in hex,
values in the wire codec): `in:k:v` `si:i:k:v` `rm:<p|w|h><v|e><m|o>:k` `gt:k` `gk:k` `ct:k` `ln`
`ie` `cl` `ap:<obj>` `ex:<obj>` `rt:n|rt:l:k|rt:x:k` `sk` `eo:k:v` `ei:k:v` `em:k:v:w` `sm:k:v`
`ix:k` `is:k:v` `it` `ir` `ks` `vs`. `-` is the empty history.
-/
namespace SJ.Drv.C17
open SJ SJ.Drv SJ.Spec.AMap

/-! ## decoding -/

def decObjPairs (s : String) : Option (List (Bytes × JV)) :=
  match decodeJV s with
  | some (.obj kvs) => some kvs
  | _ => none

def decFlavour : Char → Option Flavour
  | 'p' => some .plain | 'w' => some .swap | 'h' => some .shift | _ => none
def decShape : Char → Option Shape
  | 'v' => some .value | 'e' => some .entry | _ => none
def decVia : Char → Option Via
  | 'm' => some .map | 'o' => some .occupied | _ => none

def isNull : JV → Bool
  | .null => true
  | _ => false

def decOp (tok : String) : Option (Op JV) :=
  match tok.splitOn ":" with
  | ["in", k, v] => do pure (.insert (← bytesOfHex k) (← decodeJV v))
  | ["si", i, k, v] => do pure (.shiftInsert (← natOfDecChars i.toList) (← bytesOfHex k) (← decodeJV v))
  | ["rm", f, k] =>
    match f.toList with
    | [a, b, c] => do pure (.remove (← decFlavour a) (← decShape b) (← decVia c) (← bytesOfHex k))
    | _ => none
  | ["gt", k] => do pure (.get (← bytesOfHex k))
  | ["gk", k] => do pure (.get (← bytesOfHex k))
  | ["ct", k] => do pure (.contains (← bytesOfHex k))
  | ["ln"] => some .len
  | ["ie"] => some .isEmpty
  | ["cl"] => some .clear
  | ["ap", o] => do pure (.append (← decObjPairs o))
  | ["ex", o] => do pure (.extend (← decObjPairs o))
  | ["rt", "n"] => some (.retain fun _ v => !isNull v)
  | ["rt", "l", k] => do let k ← bytesOfHex k; pure (.retain fun k' _ => ltB k' k)
  | ["rt", "x", k] => do let k ← bytesOfHex k; pure (.retain fun k' _ => k' != k)
  | ["sk"] => some .sortKeys
  | ["eo", k, v] => do pure (.entryOrInsert (← bytesOfHex k) (← decodeJV v))
  | ["ei", k, v] => do pure (.entryInsert (← bytesOfHex k) (← decodeJV v))
  | ["em", k, v, w] => do pure (.entryModify (← bytesOfHex k) (← decodeJV v) (← decodeJV w))
  | ["sm", k, v] => do pure (.setMut (← bytesOfHex k) (← decodeJV v))
  | ["ix", k] => do pure (.index (← bytesOfHex k))
  | ["is", k, v] => do pure (.indexSet (← bytesOfHex k) (← decodeJV v))
  | ["it"] => some .iter
  | ["ir"] => some .iterRev
  | ["ks"] => some .keys
  | ["vs"] => some .values
  | _ => none

def decOps (s : String) : Option (List (Op JV)) :=
  if s == "-" then some [] else (s.splitOn ",").mapM decOp

/-! ## encoding of return values -/

def encObj (kvs : List (Bytes × JV)) : String := encJV (.obj kvs)

def encRet : Ret JV → String
  | .unit => "U"
  | .optV none => "N"
  | .optV (some v) => "S" ++ encJV v
  | .optKV none => "N"
  | .optKV (some (k, v)) => "P" ++ hexField k ++ "~" ++ encJV v
  | .bool true => "T"
  | .bool false => "F"
  | .nat n => s!"#{n}"
  | .val v => "V" ++ encJV v
  | .panic => "!"
  | .kvs l => "L" ++ encObj l
  | .keys l => "K" ++ ".".intercalate (l.map hexField)
  | .vals l => "A" ++ encJV (.arr l)

def tf (b : Bool) : String := if b then "T" else "F"

/-! ## the models -/

def runModel (po : Bool) (ops : List (Op JV)) : List (Bytes × JV) × List String :=
  ops.foldl (fun (acc : List (Bytes × JV) × List String) o =>
    let (m', r) := if po then Model.MapIndex.step o acc.1 else Model.MapBTree.step o acc.1
    (m', (encRet r ++ "/" ++ encObj m') :: acc.2)) ([], [])

/-- under the model, `append(other)` receives `other`'s iteration sequence: `other` is built by
    inserting the listed pairs into `Map::new()` -/
def resolveAppend (po : Bool) : Op JV → Op JV
  | .append o => .append (if po then Model.MapIndex.insertMany [] o else Model.MapBTree.insertMany [] o)
  | o => o

def modelHist (po : Bool) (ops : List (Op JV)) : String :=
  let (m, outs) := runModel po (ops.map (resolveAppend po))
  ",".intercalate (outs.reverse ++ ["R" ++ encObj m.reverse])

/-! ## the specification evaluated on the implementation's observation -/

def keysOf (kvs : List (Bytes × JV)) : List Bytes := kvs.map (·.1)

def nodupKeys : List Bytes → Bool
  | [] => true
  | k :: r => !r.contains k && nodupKeys r

/-- `fwd` lists exactly the reference dictionary -/
def entriesMatch (fwd : List (Bytes × JV)) (ref : Ref JV) : Bool :=
  nodupKeys (keysOf fwd) && fwd.length == Ref.len ref &&
    fwd.all fun kv => match lookup kv.1 ref with
      | some v => encJV v == encJV kv.2
      | none => false

structure SpecSt where
  ref : Ref JV := []
  ks : List Bytes := []
  fwd : List (Bytes × JV) := []
  err : Option String := none

def checkOp (po : Bool) (idx : Nat) (st : SpecSt) (o : Op JV) (item : String) : SpecSt :=
  if st.err.isSome then st else
  match item.splitOn "/" with
  | [ret, fwdS] =>
    match decObjPairs fwdS with
    | none => { st with err := some s!"op {idx}: undecodable iteration sequence" }
    | some fwd =>
      let (ref', r) := Ref.step o st.ref
      let ks' := ordStep o (Ref.sem st.ref) st.ks
      let retOk : Bool := match o with
        | .iter => ret == "L" ++ encObj fwd
        | .iterRev => ret == "L" ++ encObj fwd.reverse
        | .keys => ret == encRet (.keys (keysOf fwd))
        | .values => ret == encRet (.vals (fwd.map (·.2)))
        | _ => ret == encRet r
      let err :=
        if !retOk then some s!"op {idx}: returned {ret}, reference dictionary gives {encRet r}"
        else if !entriesMatch fwd ref' then
          some s!"op {idx}: iteration {fwdS} is not the reference dictionary {encObj (Ref.dedup ref')}"
        else if !po && !ascB (keysOf fwd) then some s!"op {idx}: iteration not strictly ascending by key"
        else if po && keysOf fwd != ks' then
          some s!"op {idx}: insertion-order rule gives key order {encRet (.keys ks')}"
        else none
      { ref := ref', ks := ks', fwd := fwd, err := err }
  | _ => { st with err := some s!"op {idx}: malformed observation" }

def specHist (po : Bool) (ops : List (Op JV)) (impl : String) : Option String :=
  let items := impl.splitOn ","
  if items.length != ops.length + 1 then some "observation count differs from history length" else
  let rec go (idx : Nat) (st : SpecSt) : List (Op JV) → List String → SpecSt
    | o :: os, it :: its => go (idx + 1) (checkOp po idx st o it) os its
    | _, _ => st
  let st := go 0 {} ops items
  match st.err with
  | some e => some e
  | none =>
    let last := items.getLast?.getD ""
    if last == "R" ++ encObj st.fwd.reverse then none
    else some "backward iteration is not the reverse of forward iteration"

def maphist : Handler := fun args impl =>
  match args with
  | [cfg, opsTok] =>
    match decOps opsTok with
    | none => bad "ops"
    | some ops =>
      let po := cfg == "po"
      { model := modelHist po ops, spec := specHist po ops impl }
  | _ => bad "arity"

/-! ## equality of maps built by two histories -/

def refOf (ops : List (Op JV)) : Ref JV := ops.foldl (fun r o => (Ref.step o r).1) []

def refDictEq (r₁ r₂ : Ref JV) : Bool :=
  Ref.len r₁ == Ref.len r₂ &&
    (Ref.dedup r₁).all fun kv => match lookup kv.1 r₂ with
      | some w => Spec.ValueEq.specEq kv.2 w
      | none => false

def mapeqh : Handler := fun args impl =>
  match args with
  | [cfg, t₁, t₂] =>
    match decOps t₁, decOps t₂, impl.splitOn "/" with
    | some o₁, some o₂, [ie, ih] =>
      let po := cfg == "po"
      let m₁ := (runModel po (o₁.map (resolveAppend po))).1
      let m₂ := (runModel po (o₂.map (resolveAppend po))).1
      let eqv := Model.ValueEq.beqJV po
      let me := if po then Model.MapIndex.beq eqv m₁ m₂ else Model.MapBTree.beq eqv m₁ m₂
      let se := refDictEq (refOf o₁) (refOf o₂)
      let spec :=
        if tf se != ie then some s!"maps equal as dictionaries: {tf se}, == returned {ie}"
        else if ie == "T" && ih != "T" then some "equal but hashes differ"
        else none
      { model := tf me ++ "/" ++ (if me then "T" else ih), spec := spec }
    | _, _, _ => bad "decode"
  | _ => bad "arity"

/-! ## values: `==`, `Hash`, `sort_all_objects` -/

open Model.ValueEq in
def encHW : HW → String
  | .isize n => s!"i{n}"
  | .u8 n => s!"b{n}"
  | .u64 n => s!"q{n}"
  | .i64 n => s!"j{n}"
  | .usize n => s!"u{n}"
  | .bytes bs => "w" ++ hexField bs

def encHash (h : List Model.ValueEq.HW) : String := ".".intercalate (h.map encHW)

def mapeq : Handler := fun args impl =>
  match args with
  | [cfg, e₁, e₂] =>
    match decodeJV e₁, decodeJV e₂, impl.splitOn "/" with
    | some v₁, some v₂, [ie, ih, iw] =>
      let po := cfg == "po"
      let me := Model.ValueEq.beqJV po v₁ v₂
      let mw := decide (Model.ValueEq.hashJV po v₁ = Model.ValueEq.hashJV po v₂)
      let se := Spec.ValueEq.specEq v₁ v₂
      let spec :=
        if tf se != ie then some s!"order-free equality of the values: {tf se}, == returned {ie}"
        else if ie == "T" && (ih != "T" || iw != "T") then some "equal but hashes differ"
        else none
      { model := tf me ++ "/" ++ (if me then "T" else ih) ++ "/" ++ tf mw, spec := spec }
    | _, _, _ => bad "decode"
  | _ => bad "arity"

def maphash : Handler := fun args _ =>
  match args with
  | [cfg, e] =>
    match decodeJV e with
    | some v => { model := encHash (Model.ValueEq.hashJV (cfg == "po") v) }
    | none => bad "decode"
  | _ => bad "arity"

def mapsort : Handler := fun args impl =>
  match args with
  | [cfg, e] =>
    match decodeJV e, impl.splitOn "/" with
    | some v, [ia, ieq] =>
      let po := cfg == "po"
      let s := Model.ValueEq.sortAll po v
      let spec := match decodeJV ia with
        | none => some "undecodable result"
        | some a =>
          if !Spec.ValueEq.ascAll a then some "an object does not iterate in ascending key order after sort_all_objects"
          else if !Spec.ValueEq.specEq a v then some "sort_all_objects changed the value (order-free comparison)"
          else if ieq != "T" then some "value after sort_all_objects is not == to the value before"
          else none
      { model := encJV s ++ "/" ++ tf (Model.ValueEq.beqJV po s v), spec := spec }
    | _, _ => bad "decode"
  | _ => bad "arity"

def handlers : List (String × Handler) :=
  [("maphist", maphist), ("mapeqh", mapeqh), ("mapeq", mapeq), ("maphash", maphash), ("mapsort", mapsort)]

end SJ.Drv.C17
