import SJ.Drv.Base
import SJ.Spec.Schema
import SJ.Spec.SchemaExcl
import SJ.Model.FromValue
import SJ.Model.Typed
import SJ.Spec.Ieee
import SJ.Model.FromValueAp
/-!
`c16 <cfg> <schema> <value> <F0|F1> <ext> [<hex of to_string(value)>] => <owned>|<borrowed>|<text>` (outcomes `OK:<tval>` / `ERR` / `PANIC`).

* model = `<fromValue>|<fromValueRef>|<deTypedTop on the text>` — the third field is the typed text model
  (`SJ.Model.Typed.deTypedTop`, `&str` source) run on the text the harness printed (`to_string(&value)`:
  ryu/itoa output is external, so the text travels with the case); lines recorded before the text was
  added (5 arguments) echo the third field;
* spec (independent of the models): outside the statement's exclusions (`c16Excluded2`: `f32` targets, zero-length tuple
  variants, and — schema-directed, `Schema.svArr` — an enum target with a struct variant `name` meeting `{name: [...]}`) the three outcomes are all
  `ERR`, or all `OK` with equal results (f64 leaves compared only when the harness says `F1`).
-/
namespace SJ.Drv.C16
open SJ SJ.Drv SJ.Model.FromValue

def cfgOfTag (t : String) : Cfg :=
  { po := (t.splitOn "po").length > 1, fr := (t.splitOn "fr").length > 1, ap := (t.splitOn "ap").length > 1 }

inductive Outcome where
  | ok (t : TVal)
  | err
  | panic
  | bad

def parseOutcome (s : String) : Outcome :=
  if s == "ERR" then .err
  else if s == "PANIC" then .panic
  else if s.startsWith "OK:" then
    match TVal.decode (s.drop 3).toString with
    | some t => .ok t
    | none => .bad
  else .bad

def Outcome.cls : Outcome → String
  | .ok _ => "OK" | .err => "ERR" | .panic => "PANIC" | .bad => "BAD"

def showR : R → String
  | .ok t => "OK:" ++ t.enc
  | .error _ => "ERR"

/-- `lit:ryu:display,…` (hex) -/
def parseExt (s : String) : Option Ext :=
  if s == "-" then some {} else
  let entries := (s.splitOn ",").map fun e =>
    match e.splitOn ":" with
    | [a, b, c] => match bytesOfHex a, bytesOfHex b, bytesOfHex c with
      | some x, some y, some z => some (x, y, z)
      | _, _, _ => none
    | _ => none
  if entries.any Option.isNone then none else
  let tbl := entries.filterMap id
  some { prints := fun l => (tbl.find? (·.1 == l)).map fun (_, y, z) => (y, z) }

mutual
def hasNegZeroLit : JV → Bool
  | .num (.lit s) => s == [0x2d, 0x30]
  | .arr xs => hasNegZeroLitList xs
  | .obj kvs => hasNegZeroLitMembers kvs
  | _ => false
def hasNegZeroLitList : List JV → Bool
  | [] => false
  | x :: r => hasNegZeroLit x || hasNegZeroLitList r
def hasNegZeroLitMembers : List (Bytes × JV) → Bool
  | [] => false
  | (_, x) :: r => hasNegZeroLit x || hasNegZeroLitMembers r
end

mutual
def hasInfF64 : TVal → Bool
  | .f64 b => Spec.Ieee.F64.isInf b
  | .some v | .variant _ v => hasInfF64 v
  | .seq xs | .struct_ xs => hasInfF64List xs
  | .map kvs => hasInfF64Pairs kvs
  | _ => false
def hasInfF64List : List TVal → Bool
  | [] => false
  | x :: r => hasInfF64 x || hasInfF64List r
def hasInfF64Pairs : List (TVal × TVal) → Bool
  | [] => false
  | (_, x) :: r => hasInfF64 x || hasInfF64Pairs r
end

/-- labels that help to tell known divergences apart (they do not change the verdict): under
    `arbitrary_precision`, whether the value holds the literal `-0`, whether a result is an infinite
    f64, whether the value holds a literal that equals its `f64::to_string` form but not its ryu form -/
def hints (cfg : Cfg) (v : JV) (o : Outcome) (displayForm : Bool) : String :=
  if !cfg.ap then "" else
  let hs := (if hasNegZeroLit v then ["ap:neg-zero"] else []) ++
            (match o with | .ok t => if hasInfF64 t then ["ap:non-finite"] else [] | _ => []) ++
            (if displayForm then ["ap:display-form"] else [])
  if hs.isEmpty then "" else " [" ++ " ".intercalate hs ++ "]"

/-- the executable statement of C16 on the three observed outcomes -/
def spec (s : Schema) (v : JV) (floats : Bool) (o b t : Outcome) (hint : String) : List String :=
  let panics := (match o with | .panic => ["C16 panic in the owned path (from_value)"] | _ => []) ++
                (match b with | .panic => ["C16 panic in the borrowed path (&Value)"] | _ => []) ++
                (match t with | .panic => ["C16 panic in the text path (from_str of to_string)"] | _ => [])
  if !panics.isEmpty then panics
  else if c16Excluded2 s v then []
  else match o, b, t with
    | .err, .err, .err => []
    | .ok x, .ok y, .ok z =>
      (if TVal.eqv floats x y then [] else ["C16 results differ: owned vs borrowed" ++ hint]) ++
      (if TVal.eqv floats x z then [] else ["C16 results differ: owned vs text" ++ hint])
    | _, _, _ => [s!"C16 outcomes split: owned={o.cls} borrowed={b.cls} text={t.cls}" ++ hint]

/-- `arbitrary_precision`, a pair inside the domain of `c16_text_agrees_ap_partial` (outside the statement's exclusions and
    outside the three open findings `c16ApExcluded`): the executable statement again, worded so that a failure is NOT
    matched by the signature of a known finding. `floats`: the float hypothesis of the theorem holds of the pair
    (`apAccurateX`: f64 results must then be EQUAL), or the harness says the f64 leaves are comparable. -/
def specAp (floats : Bool) (s : Schema) (v : JV) (o b t : Outcome) : List String :=
  (spec s v floats o b t "").map fun m =>
    if m.startsWith "C16 panic" then m else "C16 ap-domain (no exclusion of c16_text_agrees_ap_partial applies): " ++ (m.drop 4).toString

/-- the float hypothesis `apAccurate` of `c16_text_agrees_ap_partial` (executable form) -/
def apDomainFloats (cfg : Cfg) (s : Schema) (v : JV) : Bool := s.allPos (apAccurateX cfg.fr) v

/-- some entry of the ext table has `display == literal` and `ryu != literal` -/
def displayFormIn (exts : String) : Bool :=
  if exts == "-" then false else
  (exts.splitOn ",").any fun e =>
    match e.splitOn ":" with
    | [a, b, c] => a == c && a != b
    | _ => false

/-- the text leg: `Seed(s).deserialize(&mut Deserializer::from_str(text))` then `end()` -/
def showText (cfg : Cfg) (s : Schema) (text : Bytes) : String :=
  match Model.Typed.deTypedTop { cfg := { po := cfg.po, fr := cfg.fr, ap := cfg.ap }, src := .str } s text with
  | .ok t => "OK:" ++ t.enc
  | .fuel => "FUEL"
  | _ => "ERR"

def c16core (cfgTag se ve flag exts : String) (text : Option String) (impl : String) : Out :=
    match Schema.decode se, decodeJV ve, parseExt exts with
    | some s, some v, some ext =>
      match impl.splitOn "|" with
      | [io, ib, it] =>
        let cfg := cfgOfTag cfgTag
        let third := match text with
          | some h => (match bytesOfHex h with | some bs => showText cfg s bs | none => "BADHEX")
          | none => it
        let m := showR (fromValue cfg ext s v) ++ "|" ++ showR (fromValueRef cfg ext s v) ++ "|" ++ third
        let o := parseOutcome io
        let b := parseOutcome ib
        let t := parseOutcome it
        match o, b, t with
        | .bad, _, _ | _, .bad, _ | _, _, .bad => bad "outcome"
        | _, _, _ =>
          if cfg.ap && !c16ApExcluded ext s v then
            { model := m, specs := specAp (apDomainFloats cfg s v || flag == "F1") s v o b t }
          else { model := m, specs := spec s v (flag == "F1") o b t (hints cfg v o (displayFormIn exts)) }
      | _ => bad "fields"
    | _, _, _ => bad "decode"

def c16 : Handler := fun args impl =>
  match args with
  | [cfgTag, se, ve, flag, exts] => c16core cfgTag se ve flag exts none impl
  | [cfgTag, se, ve, flag, exts, text] => c16core cfgTag se ve flag exts (some text) impl
  | _ => bad "arity"

def handlers : List (String × Handler) := [("c16", c16)]

end SJ.Drv.C16
