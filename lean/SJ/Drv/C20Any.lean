import SJ.Drv.Mach
import SJ.Drv.C06
import SJ.Gen.Token
/-!
Driver handler of op `anynum` (harness/src/anynum.rs): what a visitor driven through `deserialize_any` receives for a
number literal — C20's clause "typed deserialisation of numbers gives the same results as without the feature".

* `spec` (independent of the model, from the literal's text alone): an integer literal in `[0, u64::MAX]` arrives as
  `visit_u64` of its value, one in `[i64::MIN, -1]` as `visit_i64`, every other literal (fractions, exponents, `-0`, integers
  beyond 64 bits) as `visit_f64` of the value: the nearest-even double under `float_roundtrip`, within 5 ulp otherwise
  (`Spec.Ieee.roundNE64` / `withinUlps` on the exact rational value); a literal whose value is not a finite double is an error.
  `serde`'s untagged enum `{U(u64), I(i64), F(f64), S(String)}` must pick the corresponding variant.
* `model`: `de.rs` — `deserialize_any` → `parse_any_number` → `ParserNumber::visit`. Without `arbitrary_precision` that is
  `parse_integer` (`Model.Num.convertDefault` / `convertRoundtrip`); with it (quoted from `src/de.rs`)

      tri!(self.scan_integer(&mut buf));
      if positive { if let Ok(unsigned) = buf.parse() { return Ok(ParserNumber::U64(unsigned)); } }
      else { if let Ok(signed @ i64::MIN..=-1) = buf.parse() { return Ok(ParserNumber::I64(signed)); } }
      Ok(ParserNumber::String(buf))

  and `ParserNumber::String(x) => visitor.visit_map(NumberDeserializer { number: x.into() })`: a one-entry map whose key is
  `number::TOKEN` and whose value is the literal's text (`visit_string`).

Under `arbitrary_precision` the unchanged crate therefore deviates from the statement on every literal that is not an integer
within `[i64::MIN, u64::MAX]` (finding `C20-ap-deserialize-any-non-integer`); those verdicts carry the marker
`[ap: number-token map for a non-integer / beyond-64-bit literal]`. Anything else (in particular an integer within 64 bits
arriving as anything but `visit_u64` / `visit_i64`) is reported without the marker.

The driver prints the first 200 verdicts of a run only, and the deviation holds for EVERY such literal (thousands per run): the
marked verdict is therefore emitted for the literals of at most three bytes only (`-0`, `1.0`, `1e5`, …). On all the others the
exact token map (key `number::TOKEN`, value the literal's text) passes without a message — `model` still demands it bit for
bit — and any other observation is reported.
-/
namespace SJ.Drv.C20Any
open SJ SJ.Drv SJ.Drv.Mach SJ.Model.Num

inductive Kind where
  | u (n : Nat)
  | i (k : Int)
  | float
deriving Repr, DecidableEq

/-- the zone of a literal, from its text alone -/
def kindOf (p : Parts) : Kind :=
  let isInt := p.frac.isNone && p.exp.isNone
  let n := natOfDigits p.int
  if isInt && !p.neg && n < 2 ^ 64 then .u n
  else if isInt && p.neg && 0 < n && n ≤ 2 ^ 63 then .i (-(n : Int))
  else .float

def natOfHex (s : String) : Option Nat :=
  s.toList.foldlM (fun acc c =>
    if '0' ≤ c ∧ c ≤ '9' then some (acc * 16 + (c.toNat - 48))
    else if 'a' ≤ c ∧ c ≤ 'f' then some (acc * 16 + (c.toNat - 87)) else none) 0

/-- is `bits` (16 hex digits) an acceptable double for the literal? `none` = the value is not a finite double (error expected) -/
def floatOk (fr : Bool) (p : Parts) (hexBits : String) : Option Bool :=
  match natOfHex hexBits with
  | none => some false
  | some n =>
    let b : UInt64 := UInt64.ofNat n
    if hexBits.length != 16 then some false else
    match exact p with
    | .zero | .tiny => some (b == Spec.Ieee.F64.zero p.neg)
    | .huge => none
    | .rat num den =>
      match Spec.Ieee.roundNE64 p.neg num den with
      | none => none
      | some r => some (if fr then r == b else Spec.Ieee.withinUlps 5 p.neg num den b)

/-- verdict on one visitor field -/
def judgeSeen (cfg : Model.Machine.Cfg) (p : Parts) (litHex : String) (src : String) (got : String) : Option String :=
  let sample := litHex.length ≤ 6
  let tokenMap := s!"map:{hexOfBytes Gen.numberToken}=str:{litHex}"
  match kindOf p with
  | .u n =>
    if got == s!"u64:{n}" then none
    else some s!"C20 anynum {src}: the integer literal {n} lies within [0, u64::MAX] and must arrive as visit_u64, the visitor received {got}"
  | .i k =>
    if got == s!"i64:{k}" then none
    else some s!"C20 anynum {src}: the integer literal {k} lies within [i64::MIN, -1] and must arrive as visit_i64, the visitor received {got}"
  | .float =>
    let marker := if cfg.ap && got == tokenMap then " [ap: number-token map for a non-integer / beyond-64-bit literal]" else ""
    match got.splitOn ":" with
    | ["f64", bits] =>
      (match floatOk cfg.fr p bits with
       | some true => none
       | some false => some s!"C20 anynum {src}: visit_f64({bits}) is not the double of the literal's value"
       | none => some s!"C20 anynum {src}: visit_f64({bits}) for a literal whose value is not a finite double")
    | _ =>
      if got == "ERR" then
        (match floatOk cfg.fr p "0000000000000000" with
         | none => none            -- out of finite range: an error without the feature, too
         | some _ =>
           -- the default build's own range verdict near the threshold is C01's business (finding C01-default-range-band)
           if !cfg.ap && (if cfg.fr then convertRoundtrip p else convertDefault p) == .outOfRange then none
           else some s!"C20 anynum {src}: a literal with a finite double value was rejected")
      else if marker != "" && !sample then none
      else some s!"C20 anynum{marker} {src}: a literal that is not an integer within [i64::MIN, u64::MAX] must arrive as visit_f64 of its value, the visitor received {got}"

/-- verdict on the untagged-enum field -/
def judgeUntagged (cfg : Model.Machine.Cfg) (p : Parts) (got : String) : Option String :=
  let sample := p.raw.length ≤ 3
  match kindOf p with
  | .u n => if got == s!"U{n}" then none else some s!"C20 anynum untagged: the integer literal {n} within u64 must select the u64 variant, got {got}"
  | .i k => if got == s!"I{k}" then none else some s!"C20 anynum untagged: the integer literal {k} within i64 must select the i64 variant, got {got}"
  | .float =>
    if got.startsWith "F" then
      (match floatOk cfg.fr p (got.drop 1).toString with
       | some true => none
       | _ => some s!"C20 anynum untagged: {got} is not the double of the literal's value")
    else if got == "ERR" then
      (match floatOk cfg.fr p "0000000000000000" with
       | none => none
       | some _ =>
         if cfg.ap && !sample then none
         else if cfg.ap then some "C20 anynum [ap: number-token map for a non-integer / beyond-64-bit literal] untagged: no variant of {U(u64), I(i64), F(f64), S(String)} accepts the literal, without the feature the f64 variant does"
         else if (if cfg.fr then convertRoundtrip p else convertDefault p) == .outOfRange then none
         else some "C20 anynum untagged: a literal with a finite double value was rejected")
    else some s!"C20 anynum untagged: a float literal selected {got}"

def showRes (r : NRes) : String × String :=
  match r with
  | .u64 n => (s!"u64:{n}", s!"U{n}")
  | .i64 k => (s!"i64:{k}", s!"I{k}")
  | .f64 b => (s!"f64:{hex16 b}", s!"F{hex16 b}")
  | .outOfRange => ("ERR", "ERR")
  | .outOfFuel => ("FUEL", "FUEL")

/-- `anynum <cfg> <hex literal> => <str>|<slice>|<reader>|<untagged>` -/
def anynum : Handler := fun args impl =>
  match args with
  | [c, h] =>
    match bytesOfHex h with
    | some bs =>
      let cfg := cfgOfTag c
      let fields := impl.splitOn "|"
      match C06.partsOfLit bs with
      | none =>
        -- not a number literal: from_str tolerates surrounding whitespace only (not judged), anything else must fail
        let core := (Spec.Rec.skipWs (Spec.Rec.skipWs bs).reverse).reverse
        if core != bs && (C06.partsOfLit core).isSome then { model := impl }
        else
          let numberSeen := fields.any fun f => f.startsWith "u64:" || f.startsWith "i64:" || f.startsWith "f64:" || f.startsWith "map:" ||
            f.startsWith "U" || f.startsWith "I" || f.startsWith "F"
          { model := impl, specs := if numberSeen then [s!"C20 anynum: a string that is not an RFC 8259 number reached a visitor as a number: {impl}"] else [] }
      | some p =>
        let (ms, mu) :=
          if cfg.ap then
            (match kindOf p with
             | .u n => (s!"u64:{n}", s!"U{n}")
             | .i k => (s!"i64:{k}", s!"I{k}")
             | .float => (s!"map:{hexOfBytes Gen.numberToken}=str:{hexOfBytes bs}", "ERR"))
          else showRes (if cfg.fr then convertRoundtrip p else convertDefault p)
        let model := String.intercalate "|" [ms, ms, ms, mu]
        let litHex := hexOfBytes bs
        let f (i : Nat) := fields.getD i ""
        -- the three sources: once when they agree
        let seen := if f 0 == f 1 && f 1 == f 2 then [judgeSeen cfg p litHex "visitor" (f 0)]
                    else [judgeSeen cfg p litHex "str" (f 0), judgeSeen cfg p litHex "slice" (f 1), judgeSeen cfg p litHex "reader" (f 2)]
        let specs := (seen ++ [judgeUntagged cfg p (f 3)]).filterMap id
        { model := model, specs := if fields.length == 4 then specs else ["C20 anynum: malformed observation"] }
    | none => bad "hex"
  | _ => bad "arity"

def handlers : List (String × Handler) := [("anynum", anynum)]
end SJ.Drv.C20Any
