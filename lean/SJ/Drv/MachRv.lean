import SJ.Drv.MachAp
import SJ.Model.MachineRv
/-! Driver helpers for `Model.MachineRv` (the `Value` target under `raw_value`: private RawValue token, and — when the
    configuration has both features — the private Number token as well). -/
namespace SJ.Drv.MachRv
open SJ SJ.Drv SJ.Drv.Mach SJ.Model.Machine SJ.Model.MachineRv

/-- the configuration tag has `rv` -/
def rvOfTag (t : String) : Bool := (t.splitOn "+").contains "rv"

def expectingOf : Expect → Bytes
  | .number => Gen.numberFromStringExpecting
  | .raw => Gen.boxedFromStringExpecting

/-- serde's `invalid type: <unexpected>, expected <expecting>` — the wording of `<unexpected>` is serde's and is echoed from
    the implementation's observation when it has this frame; anything else is not accepted -/
def invalidTypeMsg (e : Expect) (implField : String) : String :=
  let pre := hexOfBytes "invalid type: ".toUTF8.toList
  let suf := hexOfBytes (", expected ".toUTF8.toList ++ expectingOf e)
  match implField.splitOn ":" with
  | ["E", m, _, _, _] => if m.startsWith pre && m.endsWith suf then m else "?invalid-type"
  | _ => "?invalid-type"

def msgOf (implField : String) : Msg → String
  | .code c => hexOfBytes (Gen.message c)
  | .invalidType e => invalidTypeMsg e implField

/-- canonical outcome, as `Mach.showOutcome`; `implField`: the implementation's observation for the same source -/
def showOutcome (env : Env) (bs : Bytes) (implField : String) (o : Model.MachineRv.Outcome) : String :=
  match o with
  | .ok v => if env.tgt = .value then "V" ++ encJV v else "U"
  | .err c idx =>
    let (l, col) := lineCol bs idx
    s!"E:{hexOfBytes (Gen.message c)}:{catName (Gen.classify c)}:{l}:{col}"
  | .data e idx =>
    let (l, col) := lineCol bs idx
    s!"E:{invalidTypeMsg e implField}:data:{l}:{col}"
  | .custom m l col => s!"E:{msgOf implField m}:data:{l}:{col}"

def runShow (cfg : Cfg) (rv : Bool) (src : Src) (tgt : Tgt) (bs : Bytes) (implField : String) : String :=
  let env : Env := { cfg := cfg, src := src, tgt := tgt }
  showOutcome env bs implField (Model.MachineRv.parseTop { env := env, rv := rv } bs)

/-- all three sources, `|`-separated, as `Mach.runAll` -/
def runAll (cfg : Cfg) (rv : Bool) (tgt : Tgt) (bs : Bytes) (impl : String) : String :=
  let fs := impl.splitOn "|"
  let s := if Spec.Utf8.validUtf8 bs then runShow cfg rv .str tgt bs (fs.getD 0 "") else "-"
  s ++ "|" ++ runShow cfg rv .slice tgt bs (fs.getD 1 "") ++ "|" ++ runShow cfg rv .reader tgt bs (fs.getD 2 "")

/-- the parser model for a configuration tag and target: `MachineRv` for `Value` under `raw_value`, else as `MachAp.runAllFor` -/
def runAllFor (tag : String) (tgt : Tgt) (bs : Bytes) (impl : String) : String :=
  let cfg := cfgOfTag tag
  if rvOfTag tag && tgt = .value then runAll cfg true tgt bs impl else MachAp.runAllFor cfg tgt bs impl

end SJ.Drv.MachRv
