import SJ.Drv.C08
/-!
# C04, default build: the plain reading of "prints as a short literal"

`rtsci <hex printed text> <B original bits> => B<bits read back> | E…` (harness/src/c04.rs, default and preserve_order
builds only). The harness prints an f64 with the crate and reads the text back with the crate. The values are chosen
so that the printed text is short in the statement's plain reading — at most 15 significant digits (leading and
trailing zeros dropped) and scientific exponent within ±22 — but lies outside C08's exact window (written digit string
below 10^15 and NET exponent within ±22), the class for which `c04_default_short_floats` is proved.

model: `Model.FloatDefault.floatOfLiteral` on the printed text (bit-exact with the crate's reader);
spec: (1) the text is short in the plain reading and outside the exact window (generator contract); (2) the printed
text rounds (nearest-even, `Spec.Ieee`) to the float it was printed from; (3) the bits read back are the original's.
A failure of (3) outside the exact window is the open finding `C04-default-sci-short-outside-exact-window`
(`c04_default_long_fails`, `c04_default_sci15_fails`); inside it the message differs and nothing suppresses it.
-/
namespace SJ.Drv.C04Sci
open SJ SJ.Drv SJ.Spec.Ieee SJ.Spec.Decimal SJ.Model.FloatDefault SJ.Drv.C08

/-- `n = k · 10^z` with `10 ∤ k` (fuel = number of digits) -/
def stripZeros : Nat → Nat → Nat → Nat × Nat
  | 0, k, z => (k, z)
  | f + 1, k, z => if k != 0 && k % 10 == 0 then stripZeros f (k / 10) (z + 1) else (k, z)

/-- (significant digits, scientific exponent) of a literal -/
def sciShape (l : NumLit) : Nat × Int :=
  if l.sigVal == 0 then (1, 0) else
  let (k, z) := stripZeros (l.digits.length + 1) l.sigVal 0
  let nd := (toString k).length
  (nd, l.netExp + (z : Int) + (nd : Int) - 1)

def rtsci : Handler := fun args impl =>
  match args with
  | [h, ob] =>
    match (bytesOfHex h).bind NumLit.parse, readBits ob with
    | some l, some n =>
      let orig := UInt64.ofNat n
      let (nd, se) := sciShape l
      let (num, den) := exactOf l
      let specs : List String :=
        if !(nd ≤ 15 && decide (-22 ≤ se) && decide (se ≤ 22)) then
          [s!"C04 rtsci: the printed text has {nd} significant digits and scientific exponent {se}: not short in the plain reading"]
        else if roundNE64 l.neg num den != some orig then
          [s!"C04 the printed text does not round to the float it was printed from ({show64 (roundNE64 l.neg num den)})"]
        else if impl == "B" ++ hex16 orig then []
        else if inExactDomain l then
          [s!"C04 default: a short literal inside the exact window does not round-trip (reads back as {impl})"]
        else
          [s!"C04 default: sci-short literal outside the exact window does not round-trip ({nd} significant digits, scientific exponent {se}, written digits {l.digits.length}, net exponent {l.netExp}; reads back as {impl})"]
      { model := show64 (floatOfLiteral l), specs := specs }
    | _, _ => bad "decode"
  | _ => bad "arity"

def handlers : List (String × Handler) := [("rtsci", rtsci)]
end SJ.Drv.C04Sci
