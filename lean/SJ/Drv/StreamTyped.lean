import SJ.Drv.Mach
import SJ.Drv.Typed
import SJ.Model.StreamTyped
/-!
Driver handlers for `StreamDeserializer` over typed item types (`harness/src/stypes.rs`, `SJ/Model/StreamTyped.lean`,
`docs/STREAMTYPED-NOTES.md`).

* `tstream <cfg> <src> <schema> <calls> <hex> => item@off,…` (C12) — model `historyT`; items `OK:<tval>`,
  `E:<hex msg>:<category>:<line>:<col>`, `IO:<kind>`, `N`, each followed by `@byte_offset()`.
  Specification, on the crate's history alone (`judgeHistory`): fused after a failed item, nothing after `None`;
  `byte_offset()` never decreases, grows strictly with every value, stays within the input; every value is the value of
  its own span read as ONE document (`deTypedTop` on `input[previous offset .. offset]`); a bare scalar that is yielded is
  followed by whitespace, a structural character, a quote or the end of input; an `Eof`-classified error is
  positioned at the end of the input; `None` (without a failure before it) only when nothing but whitespace is left,
  with `byte_offset()` = the length of the input.
* `tstream3 <cfg> <schema> <calls> <hex> => str|slice|reader` (C09) — model per source; specification (`judgeSources`):
  `&str` history = slice history; slice and reader: item by item the same value / `None` / same category and message with
  the index equal or the reader's = the slice's + 1; `byte_offset()` equal after every call up to and including a failed
  item; after it the reader's stays, the slice's is the index at which its parse stopped: within `[start of the failed
  item, length]` and at least the reported error index − 1 (the position of an error is the index or the index + 1 at the
  moment it is created; `end_seq` / `end_map` may still consume a closing bracket afterwards: `[256][1]` as `Vec<u8>`
  reports index 4 and stops at 5).
* `tsfault <cfg> <schema> <kind> <k> <calls> <hex> => faulty|clean` (C13) — model in fault mode and with a clean end on the
  delivered bytes; specification (`judgeFaultStream`): values (and `trailing characters` reports of `peek_end_of_value`)
  exactly as in the clean run, then ONE terminal item — `IO:<kind>`, or the clean run's item at that call when that is a
  Syntax / Data error — then `None` forever; never `None` before the terminal item.

* `tspfx <cfg> <src> <schema> <calls> <hex> => h_0/…/h_n` (C10) — the history over every prefix; see `tspfx`.

**The post-failure offset of a slice** is not modelled (`Model.StreamTyped`): for `src ≠ reader` the model column echoes
the crate's offset on the `N` items that follow a failed item, and `judgeSources` judges it.
-/
namespace SJ.Drv.StreamTyped
open SJ SJ.Drv SJ.Drv.Mach SJ.Model.Typed SJ.Model.StreamTyped
open SJ.Model.Machine (Src lineCol)
open SJ.Model.Stream (start)

/-- one observed item `body@off` -/
structure It where
  body : String
  off : Nat

def parseIt (s : String) : Option It :=
  match s.splitOn "@" with
  | [b, o] => o.toNat?.map fun n => { body := b, off := n }
  | _ => none

def parseHist (s : String) : Option (List It) := (s.splitOn ",").mapM parseIt

def It.isOk (i : It) : Bool := i.body.startsWith "OK:"
def It.isNone (i : It) : Bool := i.body == "N"
def It.isIo (i : It) : Bool := i.body.startsWith "IO:"
def It.isErr (i : It) : Bool := i.body.startsWith "E:"
def It.cat (i : It) : String := (i.body.splitOn ":").getD 2 ""
def It.msg (i : It) : String := (i.body.splitOn ":").getD 1 ""
/-- the byte index an error's position counts (`none`: unpositioned, or not an error) -/
def It.idx (bs : Bytes) (i : It) : Option Nat :=
  match i.body.splitOn ":" with
  | ["E", _, _, l, c] =>
    (match l.toNat?, c.toNat? with
     | some l, some c => SJ.Drv.Typed.idxOfLineCol bs l c
     | _, _ => none)
  | _ => none

def trailingMsg : String := hexOfBytes (Gen.message .TrailingCharacters)

/-- the report of `peek_end_of_value` (the value's end is `off`, the offending byte is counted: `off + 1`): the one
    error after which the stream goes on -/
def It.isSoft (bs : Bytes) (i : It) : Bool :=
  i.isErr && i.msg == trailingMsg && i.cat == "syntax" && i.idx bs == some (i.off + 1)

/-- an item that ends the stream -/
def It.isTerminal (bs : Bytes) (i : It) : Bool := i.isIo || (i.isErr && !i.isSoft bs)

def showItem (bs : Bytes) (kind : String) (dataMsg : String) (it : TItem) (off : Nat) : String :=
  (match it with
   | .none => "N"
   | .ok v => "OK:" ++ v.enc
   | .err c idx =>
     let (l, col) := lineCol bs idx
     s!"E:{hexOfBytes (Gen.message c)}:{catName (Gen.classify c)}:{l}:{col}"
   | .data (some idx) => let (l, col) := lineCol bs idx; s!"E:{dataMsg}:data:{l}:{col}"
   | .data none => s!"E:{dataMsg}:data:0:0"
   | .io => s!"IO:{kind}"
   | .fuel => "FUEL") ++ s!"@{off}"

/-- the model's history in the harness's format; `obs` = the crate's items (for the echoed fields: the wording of
    visitor errors, and — for slices — `byte_offset()` after a failed item) -/
def showHistoryT (bs : Bytes) (kind : String) (src : Src) (obs : List String) (h : List (TItem × Nat)) : String :=
  let rec go (h : List (TItem × Nat)) (obs : List String) (failed : Bool) : List String :=
    match h with
    | [] => []
    | (it, off) :: r =>
      let o := obs.headD ""
      let ob := (o.splitOn "@").headD ""
      let off' :=
        if failed && src != .reader then
          (match it, parseIt o with
           | .none, some i => if i.isNone then i.off else off
           | _, _ => off)
        else off
      let fails := match it with
        | .err c idx => !(c == .TrailingCharacters && idx == off + 1)
        | .data _ | .io | .fuel => true
        | _ => false
      showItem bs kind (SJ.Drv.Typed.dataMsgOf ob) it off' :: go r (obs.drop 1) (failed || fails)
  String.intercalate "," (go h obs false)

def isWsB (b : UInt8) : Bool := b == 0x20 || b == 0x0a || b == 0x09 || b == 0x0d

/-- C12 on one observed history -/
def judgeHistory (env : Env) (s : Schema) (bs : Bytes) (items : List It) : List String :=
  let n := bs.length
  let rec go (items : List It) (k : Nat) (prev : Nat) (dead : Bool) (ended : Bool) (nvals : Nat) : List String :=
    match items with
    | [] => if nvals > n then [s!"C12 typed stream: {nvals} values from {n} bytes"] else []
    | i :: r =>
      let here : List String :=
        if dead then
          (if i.isNone then [] else [s!"C12 typed stream: call {k} yields {i.body} after the stream has failed (not fused)"])
        else if ended then
          (if i.isNone && i.off == prev then [] else [s!"C12 typed stream: call {k} yields {i.body}@{i.off} after None@{prev}"])
        else
          (if i.off < prev then [s!"C12 typed stream: byte_offset decreases at call {k} ({prev} -> {i.off})"] else []) ++
          (if i.off > n then [s!"C12 typed stream: byte_offset {i.off} beyond the input at call {k}"] else []) ++
          (if i.isOk then
             (if i.off ≤ prev then [s!"C12 typed stream: call {k} yields a value without consuming a byte (offset {prev} -> {i.off})"] else []) ++
             (let span := (bs.drop prev).take (i.off - prev)
              let one := SJ.Drv.Typed.showTop span "" (deTypedTop env s span)
              if one == i.body then [] else [s!"C12 typed stream: call {k} yields {i.body} but its span [{prev},{i.off}) read as one document gives {one}"]) ++
             -- the delimiter rule of the statement: a bare scalar is followed by whitespace, a structural character, a quote or the end
             (let first := ((bs.drop prev).dropWhile isWsB).headD 0
              let bare := !(first == 0x5b || first == 0x22 || first == 0x7b)
              match bs.drop i.off with
              | d :: _ =>
                if bare && !(isWsB d || d == 0x22 || d == 0x5b || d == 0x5d || d == 0x7b || d == 0x7d || d == 0x2c || d == 0x3a) then
                  [s!"C12 typed stream: call {k} yields a bare scalar although byte {d} follows it at {i.off} (an error is due)"]
                else []
              | [] => [])
           else if i.isNone then
             (if i.off == n && (bs.drop prev).all isWsB then [] else [s!"C12 typed stream: None@{i.off} at call {k} although input is left after offset {prev} (length {n})"])
           else if i.isErr && i.cat == "eof" then
             (if i.idx bs == some n then [] else [s!"C12 typed stream: Eof-classified error at call {k} is not positioned at the end of the input"])
           else [])
      here ++ go r (k + 1) (if dead then prev else i.off) (dead || i.isTerminal bs) (ended || i.isNone) (nvals + (if i.isOk then 1 else 0))
  go items 0 0 false false 0

def tstream : Handler := fun args impl =>
  match args with
  | [c, sr, se, ks, h] =>
    match srcOfTag sr, Schema.decode se, ks.toNat?, bytesOfHex h with
    | some src, some s, some k, some bs =>
      let env := SJ.Drv.Typed.envOf c src
      let m := showHistoryT bs "?" src (impl.splitOn ",") (historyT env s k (start bs))
      let specs :=
        if impl == "PANIC" then ["C14 panic in a typed stream"] else
        match parseHist impl with
        | some items => if items.length == k then judgeHistory env s bs items else ["C12 typed stream: wrong number of items"]
        | none => ["C12 typed stream: malformed observation"]
      { model := m, specs := specs }
    | _, _, _, _ => bad "decode"
  | _ => bad "arity"

/-- messages of the codes raised by `self.error(code)` with a byte in the peek slot (`Proofs.Typed.PeekCode`) -/
def peekMsgs : List String :=
  [hexOfBytes (Gen.message .NumberOutOfRange), hexOfBytes (Gen.message .ExpectedNumericKey), hexOfBytes (Gen.message .ExpectedSomeValue)]

/-- C09 on the slice's and the reader's history -/
def judgeSR (bs : Bytes) (a b : List It) : List String :=
  let rec go (a b : List It) (k : Nat) (failedAt : Option (Nat × Option Nat)) : List String :=
    match a, b with
    | [], [] => []
    | x :: ra, y :: rb =>
      let here : List String :=
        match failedAt with
        | some (off0, eidx) =>
          (if y.isNone && y.off == off0 then [] else [s!"C09 typed stream: reader after the failed item: {y.body}@{y.off} (expected N@{off0})"]) ++
          (if !x.isNone then [s!"C09 typed stream: slice after the failed item: {x.body}"]
           else match eidx with
             | some e => if e ≤ x.off + 1 && off0 ≤ x.off && x.off ≤ bs.length then [] else
                 [s!"C09 typed stream: slice byte_offset {x.off} after the failed item, error reported at index {e}"]
             | none => if off0 ≤ x.off && x.off ≤ bs.length then [] else
                 [s!"C09 typed stream: slice byte_offset {x.off} after the failed item outside [{off0},{bs.length}]"])
        | none =>
          (if x.off != y.off then [s!"C09 typed stream: byte_offset after call {k}: slice {x.off}, reader {y.off}"] else []) ++
          (if x.isOk || y.isOk || x.isNone || y.isNone || x.isIo || y.isIo then
             (if x.body == y.body then [] else [s!"C09 typed stream: call {k}: slice {x.body}, reader {y.body}"])
           else
             SJ.Drv.Typed.judgePair bs "slice" "reader" false x.body y.body ++
             (match x.idx bs, y.idx bs with
              | some i, some j =>
                (if j < i then [s!"C09 typed stream: call {k}: the reader reports an EARLIER index ({j}) than the slice ({i})"] else []) ++
                -- only visitor errors and the three `self.error`-with-a-peeked-byte codes may differ (`c09_typed_stream_sources`)
                (if i != j && x.cat != "data" && !(peekMsgs.contains x.msg) then
                   [s!"C09 typed stream: call {k}: a parser error outside the peeked-byte sites is reported at {i} by the slice and at {j} by the reader"] else [])
              | _, _ => []))
      let failedAt' := match failedAt with
        | some f => some f
        | none => if x.isTerminal bs then some (y.off, x.idx bs) else none
      here ++ go ra rb (k + 1) failedAt'
    | _, _ => ["C09 typed stream: slice and reader histories have different lengths"]
  go a b 0 none

def tstream3 : Handler := fun args impl =>
  match args with
  | [c, se, ks, h] =>
    match Schema.decode se, ks.toNat?, bytesOfHex h with
    | some s, some k, some bs =>
      match impl.splitOn "|" with
      | [o1, o2, o3] =>
        let m (src : Src) (o : String) : String :=
          if o == "-" then "-" else showHistoryT bs "?" src (o.splitOn ",") (historyT (SJ.Drv.Typed.envOf c src) s k (start bs))
        let specs :=
          (if o1 != "-" && o1 != o2 then [s!"C09 typed stream: str and slice histories differ ({o1} vs {o2})"] else []) ++
          (if (o1 == "-") != (!Spec.Utf8.validUtf8 bs) then ["C09 typed stream: str history missing / present against UTF-8 validity"] else []) ++
          (match parseHist o2, parseHist o3 with
           | some a, some b => judgeSR bs a b
           | _, _ => if o2 == "PANIC" || o3 == "PANIC" then ["C14 panic in a typed stream"] else ["C09 typed stream: malformed observation"])
        { model := m .str o1 ++ "|" ++ m .slice o2 ++ "|" ++ m .reader o3, specs := specs }
      | _ => bad "obs"
    | _, _, _ => bad "decode"
  | _ => bad "arity"

/-- C13 on the faulty and the clean history (same delivered bytes `p`) -/
def judgeFaultStream (p : Bytes) (kind : String) (f cl : List It) : List String :=
  let rec go (f cl : List It) (k : Nat) (term : Bool) : List String :=
    match f with
    | [] => []
    | x :: rf =>
      let y := cl.head?
      let here : List String :=
        if term then (if x.isNone then [] else [s!"C13 typed stream: call {k} yields {x.body} after the terminal item"])
        else if x.isNone then [s!"C13 typed stream: None at call {k} although the reader never reported the end of input"]
        else if x.isIo then (if x.body == s!"IO:{kind}" then [] else [s!"C13 typed stream: {x.body}, injected {kind}"])
        else
          -- a value, a soft report, or an error raised on the delivered bytes: exactly the clean run's item and offset
          (match y with
           | some y =>
             if x.body == y.body && x.off == y.off then
               (if x.isTerminal p && !(x.cat == "syntax" || x.cat == "data") then
                  [s!"C13 typed stream: terminal item {x.body} is neither Io nor Syntax / Data"] else [])
             else [s!"C13 typed stream: call {k}: failing reader {x.body}@{x.off}, clean end of input {y.body}@{y.off}"]
           | none => ["C13 typed stream: histories of different lengths"])
      here ++ go rf (cl.drop 1) (k + 1) (term || x.isTerminal p)
  go f cl 0 false

def tsfault : Handler := fun args impl =>
  match args with
  | [c, se, kind, ks, ns, h] =>
    match Schema.decode se, ks.toNat?, ns.toNat?, bytesOfHex h with
    | some s, some k, some n, some bs =>
      match impl.splitOn "|" with
      | [o, oc] =>
        let p := bs.take k
        let m1 := showHistoryT p kind .reader (o.splitOn ",") (historyT (SJ.Drv.Typed.envOf c .reader true) s n (start p))
        let m2 := showHistoryT p kind .reader (oc.splitOn ",") (historyT (SJ.Drv.Typed.envOf c .reader false) s n (start p))
        let specs :=
          if o == "PANIC" then ["C13 panic in a typed stream over a failing reader"] else
          match parseHist o, parseHist oc with
          | some f, some cl => judgeFaultStream p kind f cl
          | _, _ => ["C13 typed stream: malformed observation"]
        { model := m1 ++ "|" ++ m2, specs := specs }
      | _ => bad "obs"
    | _, _, _, _ => bad "decode"
  | _ => bad "arity"

/-- `tspfx <cfg> <src> <schema> <calls> <hex> => h_0/h_1/…/h_n` — the typed stream history over every prefix (C10).
    Specification, on the crate's histories (the statement of `c10_typed_stream_prefix(_partial)`): let the full input
    yield `m` leading values; over the prefix of length `k` the items are those values, in order, with the same offsets, up
    to a first item that differs; that item is `None` with offset `k`, a value with offset `k`, or an error whose position
    is the end of the prefix and whose category is `eof` (schemas with a float / `Value` site: or `number out of range`). -/
def tspfx : Handler := fun args impl =>
  match args with
  | [c, sr, se, ks, h] =>
    match srcOfTag sr, Schema.decode se, ks.toNat?, bytesOfHex h with
    | some src, some s, some calls, some bs =>
      let env := SJ.Drv.Typed.envOf c src
      let hs := impl.splitOn "/"
      let hist (k : Nat) : String :=
        let p := bs.take k
        if src == .str && !Spec.Utf8.validUtf8 p then "-"
        else showHistoryT p "?" src ((hs.getD k "").splitOn ",") (historyT env s calls (start p))
      let m := String.intercalate "/" ((List.range (bs.length + 1)).map hist)
      let specs : List String :=
        if hs.length != bs.length + 1 then ["C10 malformed observation"] else
        let full := (hs.getD bs.length "").splitOn ","
        let lead := full.takeWhile (·.startsWith "OK:")
        let judge (k : Nat) : Option String :=
          let hk := hs.getD k ""
          if hk == "-" then none else
          if hk == "PANIC" then some s!"C10 typed stream over the prefix of length {k}: panic" else
          let rec firstDiff (xs ys : List String) (j : Nat) : Option (Nat × String) :=
            match xs, ys with
            | _, [] => none
            | [], _ => none
            | x :: xs', y :: ys' => if x == y then firstDiff xs' ys' (j + 1) else some (j, x)
          match firstDiff (hk.splitOn ",") lead 0 with
          | none => none
          | some (j, x) =>
            match parseIt x with
            | none => some s!"C10 typed stream over the prefix of length {k}: malformed item {x}"
            | some it =>
              let p := bs.take k
              if it.isNone && it.off == k then none
              else if it.isOk && it.off == k then none
              else if it.isErr && it.idx p == some k then
                if it.cat == "eof" then none
                else if Schema.rangeSite s && it.msg == hexOfBytes (Gen.message .NumberOutOfRange) then
                  some s!"C10 inherent:out-of-range-number-prefix: typed stream over the prefix of length {k}: item {j} is a complete number literal beyond float range (Syntax, not Eof)"
                else some s!"C10 typed stream over the prefix of length {k}: item {j} fails with {it.cat} at its end (expected eof): {x}"
              else some s!"C10 typed stream over the prefix of length {k}: item {j} is neither at the cut nor an item of the full stream: {x}"
        let bad := (List.range bs.length).filterMap judge
        let inh := bad.filter (·.startsWith "C10 inherent:")
        let other := bad.filter fun b => !b.startsWith "C10 inherent:"
        (match other with | [] => [] | b :: _ => [s!"{b} [{other.length} prefix(es)]"]) ++
        (match inh with | [] => [] | b :: _ => [s!"{b} [{inh.length} prefix(es)]"])
      { model := m, specs := specs }
    | _, _, _, _ => bad "decode"
  | _ => bad "arity"

def handlers : List (String × Handler) := [("tstream", tstream), ("tstream3", tstream3), ("tsfault", tsfault), ("tspfx", tspfx)]

end SJ.Drv.StreamTyped
