import SJ.Drv.Mach
import SJ.Drv.C03
import SJ.Drv.C12
import SJ.Drv.Typed
import SJ.Model.SerRaw
import SJ.Model.RawNested
import SJ.Model.StreamDepth
import SJ.Drv.C10
import SJ.Drv.C19
import SJ.Spec.Rec
import SJ.Spec.Pos
/-!
Driver handlers of the second round on streams and raw values (`harness/src/streamraw.rs`,
`docs/STREAMRAW-NOTES.md`).

Wire encoding of programs with `RawValue`s (`RVal`): the container tokens of the C03 codec over
`rprog`s, plus `'W' hex ';'` (a `RawValue` with that text) and `'L' prog` (a `RawValue`-free program).
-/
namespace SJ.Drv.StreamRaw
open SJ SJ.Drv SJ.Drv.Mach SJ.Model.Ser SJ.Model.SerRaw
open SJ.Drv.C03 (Tabs decP hexSemi decSemi hintOf extOf errName fmtOf)

/-! ## `rawser` -/

mutual
def decR : Nat → List Char → Tabs → Option (RVal × List Char × Tabs)
  | 0, _, _ => none
  | fuel + 1, cs, tb =>
    match cs with
    | 'W' :: r => do let (b, r) ← hexSemi r; pure (.raw b, r, tb)
    | 'L' :: r => do let (p, r, tb) ← decP (r.length + 1) r tb; pure (.leaf p, r, tb)
    | 'S' :: r => do let (p, r, tb) ← decR fuel r tb; pure (.some p, r, tb)
    | 'N' :: r => do let (p, r, tb) ← decR fuel r tb; pure (.newtypeStruct p, r, tb)
    | 'V' :: r => do
        let (b, r) ← hexSemi r
        let (p, r, tb) ← decR fuel r tb
        pure (.newtypeVariant b p, r, tb)
    | 'q' :: r => do
        let (h, r) ← takeUntilSemi [] r
        let hint ← hintOf h
        let (n, r) ← decSemi r
        let (xs, r, tb) ← decRList fuel n r tb
        pure (.seq hint xs, r, tb)
    | 't' :: r => do
        let (n, r) ← decSemi r
        let (xs, r, tb) ← decRList fuel n r tb
        pure (.tuple xs, r, tb)
    | 'T' :: r => do
        let (n, r) ← decSemi r
        let (xs, r, tb) ← decRList fuel n r tb
        pure (.tupleStruct xs, r, tb)
    | 'X' :: r => do
        let (b, r) ← hexSemi r
        let (n, r) ← decSemi r
        let (xs, r, tb) ← decRList fuel n r tb
        pure (.tupleVariant b xs, r, tb)
    | 'm' :: r => do
        let (h, r) ← takeUntilSemi [] r
        let hint ← hintOf h
        let (n, r) ← decSemi r
        let (es, r, tb) ← decREntries fuel n r tb
        pure (.map hint es, r, tb)
    | 'r' :: r => do
        let (n, r) ← decSemi r
        let (fs, r, tb) ← decRFields fuel n r tb
        pure (.struct_ fs, r, tb)
    | 'R' :: r => do
        let (b, r) ← hexSemi r
        let (n, r) ← decSemi r
        let (fs, r, tb) ← decRFields fuel n r tb
        pure (.structVariant b fs, r, tb)
    | _ => none
def decRList : Nat → Nat → List Char → Tabs → Option (List RVal × List Char × Tabs)
  | 0, _, _, _ => none
  | _ + 1, 0, r, tb => some ([], r, tb)
  | fuel + 1, k + 1, r, tb => do
    let (p, r, tb) ← decR fuel r tb
    let (ps, r, tb) ← decRList fuel k r tb
    pure (p :: ps, r, tb)
def decREntries : Nat → Nat → List Char → Tabs → Option (List (RVal × RVal) × List Char × Tabs)
  | 0, _, _, _ => none
  | _ + 1, 0, r, tb => some ([], r, tb)
  | fuel + 1, k + 1, r, tb => do
    let (a, r, tb) ← decR fuel r tb
    let (b, r, tb) ← decR fuel r tb
    let (ps, r, tb) ← decREntries fuel k r tb
    pure ((a, b) :: ps, r, tb)
def decRFields : Nat → Nat → List Char → Tabs → Option (List (Bytes × RVal) × List Char × Tabs)
  | 0, _, _, _ => none
  | _ + 1, 0, r, tb => some ([], r, tb)
  | fuel + 1, k + 1, r, tb => do
    let (a, r) ← hexSemi r
    let (b, r, tb) ← decR fuel r tb
    let (ps, r, tb) ← decRFields fuel k r tb
    pure ((a, b) :: ps, r, tb)
end

def decodeRProg (s : String) : Option (RVal × Tabs) :=
  let cs := s.toList
  match decR (cs.length + 1) cs {} with
  | some (p, [], tb) => some (p, tb)
  | _ => none

/-- the texts of the `RawValue`s in value position, in serialisation order -/
partial def rawTexts : RVal → List Bytes
  | .leaf _ => []
  | .raw t => [t]
  | .some p | .newtypeStruct p | .newtypeVariant _ p => rawTexts p
  | .seq _ xs | .tuple xs | .tupleStruct xs | .tupleVariant _ xs => xs.flatMap rawTexts
  | .map _ es => es.flatMap fun (_, v) => rawTexts v
  | .struct_ fs | .structVariant _ fs => fs.flatMap fun (_, v) => rawTexts v

/-- `xs` occurs in `ys` as a subsequence of whole buffers -/
def isSubseq : List Bytes → List Bytes → Bool
  | [], _ => true
  | _ :: _, [] => false
  | x :: xs, y :: ys => if x == y then isSubseq xs ys else isSubseq (x :: xs) ys

def showBufs (r : Except SerErr (List Bytes)) : String :=
  match r with
  | .ok bufs => "OK:" ++ ",".intercalate (bufs.map hexField)
  | .error e => "ERR:" ++ errName e

/-- `rawser <fmt> <rprog> => OK:buf,… | ERR:class`. Specification (C19, independent of the serializer
    model): when the crate produced output, every `RawValue` in value position was handed to the writer as
    one buffer holding exactly its text, in program order. -/
def rawser : Handler := fun args impl =>
  match args with
  | [fe, pe] =>
    match fmtOf fe, decodeRProg pe with
    | some fmt, some (p, tb) =>
      let ext := extOf tb
      let m := match fmt with
        | none => showBufs (serRCompact ext p)
        | some indent => showBufs (serRPretty ext indent p)
      let specs : List String :=
        if impl.startsWith "OK:" then
          let bufs := ((impl.drop 3).toString.splitOn ",").filterMap fun h => if h == "" then none else bytesOfHex (if h == "-" then "" else h)
          if isSubseq (rawTexts p) bufs then [] else ["C19 a RawValue was not written verbatim as one buffer"]
        else if impl.startsWith "ERR:" then []
        else [s!"C19 serialising a structure with RawValues: {impl}"]
      { model := m, specs := specs }
    | _, _ => bad "decode"
  | _ => bad "arity"

/-! ## `rawnest` -/

open SJ.Model.Typed SJ.Model.RawNested in
def nestModel (cfg : SJ.Model.Machine.Cfg) (src : SJ.Model.Machine.Src) (shape : String) (bs : Bytes) (dataMsg : String) : String :=
  let env : SJ.Model.Typed.Env := { cfg := cfg, src := src }
  SJ.Drv.Typed.showTop bs dataMsg (if shape == "arr" then rawSeqTop env bs else rawMapTop env bs)

/-- element spans of an array text, by the independent scanner `Spec.Pos` (the text is known to be an array) -/
def elemSpans (bs : Bytes) : Option (List Bytes) :=
  let (r, p) := Spec.Pos.skipWs bs 0
  match r with
  | 0x5b :: r1 =>
    let rec go (fuel : Nat) (r : Bytes) (p : Nat) (acc : List Bytes) : Option (List Bytes) :=
      match fuel with
      | 0 => none
      | fuel + 1 =>
        let (r, p) := Spec.Pos.skipWs r p
        match r with
        | 0x5d :: _ => some acc.reverse
        | _ =>
          match Spec.Pos.scanValue (2 * r.length + 4) r p with
          | .ok r' e =>
            let span := r.take (e - p)
            let (r'', q) := Spec.Pos.skipWs r' e
            (match r'' with
             | 0x2c :: r3 => go fuel r3 (q + 1) (span :: acc)
             | 0x5d :: _ => some (span :: acc).reverse
             | _ => none)
          | _ => none
    go (bs.length + 1) r1 (p + 1) []
  | _ => none

/-- value spans of an object text (the text is known to be an object) -/
def memberSpans (bs : Bytes) : Option (List Bytes) :=
  let (r, p) := Spec.Pos.skipWs bs 0
  match r with
  | 0x7b :: r1 =>
    let rec go (fuel : Nat) (r : Bytes) (p : Nat) (acc : List Bytes) : Option (List Bytes) :=
      match fuel with
      | 0 => none
      | fuel + 1 =>
        let (r, p) := Spec.Pos.skipWs r p
        match r with
        | 0x7d :: _ => some acc.reverse
        | 0x22 :: rk =>
          match Spec.Pos.scanStr p rk (p + 1) with
          | .ok r1 p1 =>
            let (r1, p1) := Spec.Pos.skipWs r1 p1
            (match r1 with
             | 0x3a :: r2 =>
               let (r2, p2) := Spec.Pos.skipWs r2 (p1 + 1)
               match Spec.Pos.scanValue (2 * r2.length + 4) r2 p2 with
               | .ok r3 e =>
                 let span := r2.take (e - p2)
                 let (r4, q) := Spec.Pos.skipWs r3 e
                 (match r4 with
                  | 0x2c :: r5 => go fuel r5 (q + 1) (span :: acc)
                  | 0x7d :: _ => some (span :: acc).reverse
                  | _ => none)
               | _ => none
             | _ => none)
          | _ => none
        | _ => none
    go (bs.length + 1) r1 (p + 1) []
  | _ => none

/-- what the property says the nested capture must return: `some (OK:…)`, or `none` = must be rejected -/
def nestSpec (shape : String) (byteSource : Bool) (bs : Bytes) : Option String :=
  match Spec.Rec.recognise bs with
  | some (.arr ts) =>
    if shape != "arr" then none else
    match elemSpans bs with
    | some spans =>
      if spans.length != ts.length then some "SPECERR" else
      if byteSource && !(spans.all Spec.Utf8.validUtf8) then none
      else some (s!"OK:Q{spans.length};" ++ String.join (spans.map fun s => "s" ++ hexOfBytes s ++ ";"))
    | none => some "SPECERR"
  | some (.obj ms) =>
    if shape != "obj" then none else
    match memberSpans bs, ms.mapM (fun m => Spec.Denote.decodeItems m.1) with
    | some spans, some keys =>
      if spans.length != keys.length then some "SPECERR" else
      if byteSource && !((spans ++ keys).all Spec.Utf8.validUtf8) then none
      else some (s!"OK:M{spans.length};" ++ String.join ((keys.zip spans).map fun (k, s) => "s" ++ hexOfBytes k ++ ";s" ++ hexOfBytes s ++ ";"))
    | some _, none => none          -- a key with an unpaired surrogate escape is not a String
    | none, _ => some "SPECERR"
  | _ => none

/-- `rawnest <cfg> <shape> <hex doc> => str|slice|reader` -/
def rawnest : Handler := fun args impl =>
  match args with
  | [c, shape, h] =>
    match bytesOfHex h with
    | some bs =>
      let cfg := cfgOfTag c
      match impl.splitOn "|" with
      | [o1, o2, o3] =>
        let m (src : SJ.Model.Machine.Src) (o : String) : String :=
          if o == "-" then "-" else nestModel cfg src shape bs (SJ.Drv.Typed.dataMsgOf o)
        let judge (name : String) (byteSource : Bool) (o : String) : List String :=
          if o == "-" then [] else
          if o == "PANIC" then [s!"C19 {name}: panic while capturing nested raw values"] else
          match nestSpec shape byteSource bs, o.startsWith "OK:" with
          | some e, true => if e == o then [] else [s!"C19 {name}: nested raw values captured as {o}, the elements' source texts are {e}"]
          | some e, false => [s!"C19 {name}: a valid document was rejected ({o}); expected {e}"]
          | none, true => [s!"C19 {name}: captured {o} from a document that is not a JSON array/object of this shape"]
          | none, false => []
        { model := m .str o1 ++ "|" ++ m .slice o2 ++ "|" ++ m .reader o3,
          specs := judge "str" false o1 ++ judge "slice" true o2 ++ judge "reader" true o3 ++
            SJ.Drv.Typed.judgePair bs "str" "slice" true o1 o2 ++ SJ.Drv.Typed.judgePair bs "slice" "reader" false o2 o3 }
      | _ => bad "obs"
    | none => bad "hex"
  | _ => bad "arity"

/-! ## `stream3`, `raw3` (C09) -/

open SJ.Model.Machine SJ.Model.Stream in
/-- `stream3 <cfg> <tgt> <calls> <hex> => str|slice|reader` — whole histories side by side. Specification
    (C09): the three sources yield the same items (values; errors with the same message, category, line and
    column) with the same `byte_offset()` after each call. -/
def stream3 : Handler := fun args impl =>
  match args with
  | [c, t, ks, h] =>
    match tgtOfTag t, ks.toNat?, bytesOfHex h with
    | some tgt, some k, some bs =>
      match impl.splitOn "|" with
      | [o1, o2, o3] =>
        let m (src : Src) (o : String) : String :=
          if o == "-" then "-" else
          let env : Env := { cfg := cfgOfTag c, src := src, tgt := tgt }
          SJ.Drv.C12.showHistory env bs (history env k (start bs))
        let specs :=
          (if o1 != "-" && o1 != o2 then [s!"C09 stream: str and slice histories differ ({o1} vs {o2})"] else []) ++
          (if o2 != o3 then [s!"C09 stream: slice and reader histories differ ({o2} vs {o3})"] else [])
        { model := m .str o1 ++ "|" ++ m .slice o2 ++ "|" ++ m .reader o3, specs := specs }
      | _ => bad "obs"
    | _, _, _ => bad "decode"
  | _ => bad "arity"

/-- `raw3 <cfg> <hex> => str|slice|reader` — `Box<RawValue>` from the three sources; specification (C09):
    identical outcomes (captured text, or message / category / line / column) -/
def raw3 : Handler := fun args impl =>
  match args with
  | [c, h] =>
    match bytesOfHex h with
    | some bs =>
      match impl.splitOn "|" with
      | [o1, o2, o3] =>
        let cfg := cfgOfTag c
        let m (src : SJ.Model.Machine.Src) (o : String) : String :=
          if o == "-" then "-" else SJ.Drv.C19.showRaw bs false (SJ.Model.Raw.rawTop cfg src bs)
        let specs :=
          (if o1 != "-" && o1 != o2 then [s!"C09 raw: str and slice outcomes differ ({o1} vs {o2})"] else []) ++
          (if o2 != o3 then [s!"C09 raw: slice and reader outcomes differ ({o2} vs {o3})"] else [])
        { model := m .str o1 ++ "|" ++ m .slice o2 ++ "|" ++ m .reader o3, specs := specs }
      | _ => bad "obs"
    | none => bad "hex"
  | _ => bad "arity"

/-! ## `sdepth` (C14) -/

/-- `d` containers around `1` (`harness/src/streamraw.rs` `nested`) -/
def nestedDoc (d mix : Nat) : Bytes :=
  let isObj (i : Nat) : Bool := match mix with | 0 => false | 1 => true | _ => i % 2 == 0
  let opens := (List.range d).flatMap fun i => if isObj i then [0x7b, 0x22, 0x61, 0x22, 0x3a] else [0x5b]
  let closes := ((List.range d).reverse).map fun i => if isObj i then (0x7d : UInt8) else 0x5d
  opens ++ [0x31] ++ closes

open SJ.Model.Machine SJ.Model.Stream SJ.Model.StreamDepth in
/-- `sdepth <cfg> <tgt> <src> <calls> <d1> <k1> <sep> <d2> <k2> => history` — a stream of two items nested
    `d1` / `d2` deep. Model: the stream with the explicit `remaining_depth` counter (`historyD`). Specification
    (C14, from the depths alone): an item is accepted iff it nests at most 127 deep (any depth for skipped
    items or with the limit disabled) — the second item as well, whatever the first one was; an item that is
    too deep fails with `recursion limit exceeded` and the stream yields `None` from then on. -/
def sdepth : Handler := fun args impl =>
  match args with
  | [c, t, sr, ks, d1s, k1s, seph, d2s, k2s] =>
    match tgtOfTag t, srcOfTag sr, ks.toNat?, d1s.toNat?, k1s.toNat?, bytesOfHex seph, d2s.toNat?, k2s.toNat? with
    | some tgt, some src, some k, some d1, some k1, some sep, some d2, some k2 =>
      let env : Env := { cfg := cfgOfTag c, src := src, tgt := tgt }
      let bs := nestedDoc d1 k1 ++ sep ++ nestedDoc d2 k2
      let hd := historyD env k (startD bs)
      let m := SJ.Drv.C12.showHistory env bs (hd.map fun x => (x.1, x.2.1))
      -- the counter must read 128 after every value (a model self-check; reported as a C14 failure)
      let counterBad := counting env && hd.any fun x => match x.1 with | .ok _ => x.2.2 != 128 | _ => false
      let items := impl.splitOn ","
      let unlimited := tgt == .ignored || env.cfg.limitOff
      let okItem (s : String) : Bool := s.startsWith "V" || s.startsWith "U"
      let rle (s : String) : Bool := (s.splitOn ":").getD 1 "" == hexOfBytes (Gen.message .RecursionLimitExceeded)
      let first := items.getD 0 ""
      let second := items.getD 1 ""
      -- a bare `1` (depth 0) directly followed by a value without separator is a delimiter question, not a depth one
      let adjacent := sep.isEmpty && d1 == 0
      let specs : List String :=
        (if counterBad then ["C14 model: remaining_depth is not 128 after a value"] else []) ++
        (if impl == "PANIC" then ["C14 panic in a stream of nested values"] else
         if unlimited || d1 ≤ 127 then
           (if adjacent || okItem first then [] else [s!"C14 first item of depth {d1} rejected: {first}"]) ++
           (if adjacent then [] else
            if unlimited || d2 ≤ 127 then
              (if okItem second then [] else [s!"C14 depth budget not restored: second item of depth {d2} after a first item of depth {d1}: {second}"])
            else (if rle second then [] else [s!"C14 second item of depth {d2} not rejected with the recursion limit: {second}"]))
         else
           (if rle first then [] else [s!"C14 first item of depth {d1} not rejected with the recursion limit: {first}"]) ++
           (if (items.drop 1).all (· == "N") then [] else ["C14 stream not fused after the recursion limit error"]))
      { model := m, specs := specs }
    | _, _, _, _, _, _, _, _ => bad "decode"
  | _ => bad "arity"

/-! ## `spfx` (C10) -/

/-- an item `…@off` of the `stream` format: body and offset -/
def splitItem (s : String) : String × String :=
  match s.splitOn "@" with
  | [o, off] => (o, off)
  | _ => (s, "")

open SJ.Model.Machine SJ.Model.Stream in
/-- `spfx <cfg> <tgt> <src> <calls> <hex> => h_0/h_1/…/h_n` — the stream history over every prefix.
    Specification (C10, on the implementation's histories): let the full input yield `m` leading values; over
    the prefix of length `k` the items are those values, in order, with the same offsets, up to a first item
    that differs; that item is `None` with offset `k`, a value with offset `k`, or an error whose position is the
    end of the prefix and whose category is `eof` (for `Value` items also the inherent `number out of range`). -/
def spfx : Handler := fun args impl =>
  match args with
  | [c, t, sr, ks, h] =>
    match tgtOfTag t, srcOfTag sr, ks.toNat?, bytesOfHex h with
    | some tgt, some src, some calls, some bs =>
      let env : Env := { cfg := cfgOfTag c, src := src, tgt := tgt }
      let hist (p : Bytes) : String :=
        if src == .str && !Spec.Utf8.validUtf8 p then "-" else SJ.Drv.C12.showHistory env p (history env calls (start p))
      let m := String.intercalate "/" ((List.range (bs.length + 1)).map fun k => hist (bs.take k))
      let hs := impl.splitOn "/"
      let specs : List String :=
        if hs.length != bs.length + 1 then ["C10 malformed observation"] else
        let full := (hs.getD bs.length "").splitOn ","
        let okItem (s : String) : Bool := s.startsWith "V" || s.startsWith "U"
        let lead := full.takeWhile okItem
        let judge (k : Nat) : Option String :=
          let hk := hs.getD k ""
          if hk == "-" || hk == "PANIC" then (if hk == "PANIC" then some s!"C10 stream over the prefix of length {k}: panic" else none) else
          let items := hk.splitOn ","
          -- first index where the prefix's item differs from the full stream's leading values
          let rec firstDiff (xs ys : List String) (j : Nat) : Option (Nat × String) :=
            match xs, ys with
            | _, [] => none
            | [], _ => none
            | x :: xs', y :: ys' => if x == y then firstDiff xs' ys' (j + 1) else some (j, x)
          match firstDiff items lead 0 with
          | none => none
          | some (j, x) =>
            let (body, off) := splitItem x
            let p := bs.take k
            let (l, col) := lineCol p k
            if body == "N" && off == toString k then none
            else if okItem body && off == toString k then none
            else match body.splitOn ":" with
              | ["E", msg, cat, ls, cs] =>
                if ls == toString l && cs == toString col then
                  if cat == "eof" then none
                  else if t == "value" && msg == hexOfBytes (Gen.message .NumberOutOfRange) && SJ.Drv.C10.endsInOutOfRangeNumber env.cfg p then
                    some s!"C10 inherent:out-of-range-number-prefix: stream over the prefix of length {k}: item {j} is a complete number literal beyond f64 range (Syntax, not Eof)"
                  else some s!"C10 stream over the prefix of length {k}: item {j} fails with {cat} at its end (expected eof): {x}"
                else some s!"C10 stream over the prefix of length {k}: item {j} is an error not located at the end of the prefix: {x}"
              | _ => some s!"C10 stream over the prefix of length {k}: item {j} is {x}, neither the full stream's item nor an outcome at the end of the prefix"
        let bad := (List.range bs.length).filterMap judge
        let inherent := bad.filter (·.startsWith "C10 inherent:")
        let other := bad.filter (fun s => !s.startsWith "C10 inherent:")
        match other, inherent with
        | x :: _, _ => [x ++ s!" [{other.length} prefix(es)]"]
        | [], x :: _ => [x ++ s!" [{inherent.length} prefix(es)]"]
        | [], [] => []
      { model := m, specs := specs }
    | _, _, _, _ => bad "decode"
  | _ => bad "arity"

def handlers : List (String × Handler) :=
  [("rawser", rawser), ("rawnest", rawnest), ("stream3", stream3), ("raw3", raw3), ("sdepth", sdepth), ("spfx", spfx)]

end SJ.Drv.StreamRaw
