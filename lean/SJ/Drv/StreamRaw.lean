import SJ.Drv.Mach
import SJ.Drv.C03
import SJ.Drv.C12
import SJ.Drv.Typed
import SJ.Model.SerRaw
import SJ.Model.RawNested
import SJ.Spec.Rec
import SJ.Spec.Pos
/-!
Driver handlers of the second round on streams and raw values (`harness/src/streamraw.rs`,
`docs/STREAMRAW-NOTES.md`).

Wire encoding of programs with `RawValue`s (`RVal`): the container tokens of the C03 codec over
`rprog`s, plus `'W' hex ';'` (a `RawValue` with that text) and `'L' prog` (a `RawValue`-free program).
-/
namespace SJ.Drv.StreamRaw
open SJ SJ.Drv SJ.Drv.Mach SJ.Model.Ser SJ.Model.SerRaw
open SJ.Drv.C03 (Tabs decP hexSemi decSemi hintOf extOf errName fmtOf)

/-! ## `rawser` -/

mutual
def decR : Nat → List Char → Tabs → Option (RVal × List Char × Tabs)
  | 0, _, _ => none
  | fuel + 1, cs, tb =>
    match cs with
    | 'W' :: r => do let (b, r) ← hexSemi r; pure (.raw b, r, tb)
    | 'L' :: r => do let (p, r, tb) ← decP (r.length + 1) r tb; pure (.leaf p, r, tb)
    | 'S' :: r => do let (p, r, tb) ← decR fuel r tb; pure (.some p, r, tb)
    | 'N' :: r => do let (p, r, tb) ← decR fuel r tb; pure (.newtypeStruct p, r, tb)
    | 'V' :: r => do
        let (b, r) ← hexSemi r
        let (p, r, tb) ← decR fuel r tb
        pure (.newtypeVariant b p, r, tb)
    | 'q' :: r => do
        let (h, r) ← takeUntilSemi [] r
        let hint ← hintOf h
        let (n, r) ← decSemi r
        let (xs, r, tb) ← decRList fuel n r tb
        pure (.seq hint xs, r, tb)
    | 't' :: r => do
        let (n, r) ← decSemi r
        let (xs, r, tb) ← decRList fuel n r tb
        pure (.tuple xs, r, tb)
    | 'T' :: r => do
        let (n, r) ← decSemi r
        let (xs, r, tb) ← decRList fuel n r tb
        pure (.tupleStruct xs, r, tb)
    | 'X' :: r => do
        let (b, r) ← hexSemi r
        let (n, r) ← decSemi r
        let (xs, r, tb) ← decRList fuel n r tb
        pure (.tupleVariant b xs, r, tb)
    | 'm' :: r => do
        let (h, r) ← takeUntilSemi [] r
        let hint ← hintOf h
        let (n, r) ← decSemi r
        let (es, r, tb) ← decREntries fuel n r tb
        pure (.map hint es, r, tb)
    | 'r' :: r => do
        let (n, r) ← decSemi r
        let (fs, r, tb) ← decRFields fuel n r tb
        pure (.struct_ fs, r, tb)
    | 'R' :: r => do
        let (b, r) ← hexSemi r
        let (n, r) ← decSemi r
        let (fs, r, tb) ← decRFields fuel n r tb
        pure (.structVariant b fs, r, tb)
    | _ => none
def decRList : Nat → Nat → List Char → Tabs → Option (List RVal × List Char × Tabs)
  | 0, _, _, _ => none
  | _ + 1, 0, r, tb => some ([], r, tb)
  | fuel + 1, k + 1, r, tb => do
    let (p, r, tb) ← decR fuel r tb
    let (ps, r, tb) ← decRList fuel k r tb
    pure (p :: ps, r, tb)
def decREntries : Nat → Nat → List Char → Tabs → Option (List (RVal × RVal) × List Char × Tabs)
  | 0, _, _, _ => none
  | _ + 1, 0, r, tb => some ([], r, tb)
  | fuel + 1, k + 1, r, tb => do
    let (a, r, tb) ← decR fuel r tb
    let (b, r, tb) ← decR fuel r tb
    let (ps, r, tb) ← decREntries fuel k r tb
    pure ((a, b) :: ps, r, tb)
def decRFields : Nat → Nat → List Char → Tabs → Option (List (Bytes × RVal) × List Char × Tabs)
  | 0, _, _, _ => none
  | _ + 1, 0, r, tb => some ([], r, tb)
  | fuel + 1, k + 1, r, tb => do
    let (a, r) ← hexSemi r
    let (b, r, tb) ← decR fuel r tb
    let (ps, r, tb) ← decRFields fuel k r tb
    pure ((a, b) :: ps, r, tb)
end

def decodeRProg (s : String) : Option (RVal × Tabs) :=
  let cs := s.toList
  match decR (cs.length + 1) cs {} with
  | some (p, [], tb) => some (p, tb)
  | _ => none

/-- the texts of the `RawValue`s in value position, in serialisation order -/
partial def rawTexts : RVal → List Bytes
  | .leaf _ => []
  | .raw t => [t]
  | .some p | .newtypeStruct p | .newtypeVariant _ p => rawTexts p
  | .seq _ xs | .tuple xs | .tupleStruct xs | .tupleVariant _ xs => xs.flatMap rawTexts
  | .map _ es => es.flatMap fun (_, v) => rawTexts v
  | .struct_ fs | .structVariant _ fs => fs.flatMap fun (_, v) => rawTexts v

/-- `xs` occurs in `ys` as a subsequence of whole buffers -/
def isSubseq : List Bytes → List Bytes → Bool
  | [], _ => true
  | _ :: _, [] => false
  | x :: xs, y :: ys => if x == y then isSubseq xs ys else isSubseq (x :: xs) ys

def showBufs (r : Except SerErr (List Bytes)) : String :=
  match r with
  | .ok bufs => "OK:" ++ ",".intercalate (bufs.map hexField)
  | .error e => "ERR:" ++ errName e

/-- `rawser <fmt> <rprog> => OK:buf,… | ERR:class`. Specification (C19, independent of the serializer
    model): when the crate produced output, every `RawValue` in value position was handed to the writer as
    one buffer holding exactly its text, in program order. -/
def rawser : Handler := fun args impl =>
  match args with
  | [fe, pe] =>
    match fmtOf fe, decodeRProg pe with
    | some fmt, some (p, tb) =>
      let ext := extOf tb
      let m := match fmt with
        | none => showBufs (serRCompact ext p)
        | some indent => showBufs (serRPretty ext indent p)
      let specs : List String :=
        if impl.startsWith "OK:" then
          let bufs := ((impl.drop 3).toString.splitOn ",").filterMap fun h => if h == "" then none else bytesOfHex (if h == "-" then "" else h)
          if isSubseq (rawTexts p) bufs then [] else ["C19 a RawValue was not written verbatim as one buffer"]
        else if impl.startsWith "ERR:" then []
        else [s!"C19 serialising a structure with RawValues: {impl}"]
      { model := m, specs := specs }
    | _, _ => bad "decode"
  | _ => bad "arity"

/-! ## `rawnest` -/

open SJ.Model.Typed SJ.Model.RawNested in
def nestModel (cfg : SJ.Model.Machine.Cfg) (src : SJ.Model.Machine.Src) (shape : String) (bs : Bytes) (dataMsg : String) : String :=
  let env : SJ.Model.Typed.Env := { cfg := cfg, src := src }
  SJ.Drv.Typed.showTop bs dataMsg (if shape == "arr" then rawSeqTop env bs else rawMapTop env bs)

/-- element spans of an array text, by the independent scanner `Spec.Pos` (the text is known to be an array) -/
def elemSpans (bs : Bytes) : Option (List Bytes) :=
  let (r, p) := Spec.Pos.skipWs bs 0
  match r with
  | 0x5b :: r1 =>
    let rec go (fuel : Nat) (r : Bytes) (p : Nat) (acc : List Bytes) : Option (List Bytes) :=
      match fuel with
      | 0 => none
      | fuel + 1 =>
        let (r, p) := Spec.Pos.skipWs r p
        match r with
        | 0x5d :: _ => some acc.reverse
        | _ =>
          match Spec.Pos.scanValue (r.length + 2) r p with
          | .ok r' e =>
            let span := r.take (e - p)
            let (r'', q) := Spec.Pos.skipWs r' e
            (match r'' with
             | 0x2c :: r3 => go fuel r3 (q + 1) (span :: acc)
             | 0x5d :: _ => some (span :: acc).reverse
             | _ => none)
          | _ => none
    go (bs.length + 1) r1 (p + 1) []
  | _ => none

/-- value spans of an object text (the text is known to be an object) -/
def memberSpans (bs : Bytes) : Option (List Bytes) :=
  let (r, p) := Spec.Pos.skipWs bs 0
  match r with
  | 0x7b :: r1 =>
    let rec go (fuel : Nat) (r : Bytes) (p : Nat) (acc : List Bytes) : Option (List Bytes) :=
      match fuel with
      | 0 => none
      | fuel + 1 =>
        let (r, p) := Spec.Pos.skipWs r p
        match r with
        | 0x7d :: _ => some acc.reverse
        | 0x22 :: rk =>
          match Spec.Pos.scanStr p rk (p + 1) with
          | .ok r1 p1 =>
            let (r1, p1) := Spec.Pos.skipWs r1 p1
            (match r1 with
             | 0x3a :: r2 =>
               let (r2, p2) := Spec.Pos.skipWs r2 (p1 + 1)
               match Spec.Pos.scanValue (r2.length + 2) r2 p2 with
               | .ok r3 e =>
                 let span := r2.take (e - p2)
                 let (r4, q) := Spec.Pos.skipWs r3 e
                 (match r4 with
                  | 0x2c :: r5 => go fuel r5 (q + 1) (span :: acc)
                  | 0x7d :: _ => some (span :: acc).reverse
                  | _ => none)
               | _ => none
             | _ => none)
          | _ => none
        | _ => none
    go (bs.length + 1) r1 (p + 1) []
  | _ => none

/-- what the property says the nested capture must return: `some (OK:…)`, or `none` = must be rejected -/
def nestSpec (shape : String) (byteSource : Bool) (bs : Bytes) : Option String :=
  match Spec.Rec.recognise bs with
  | some (.arr ts) =>
    if shape != "arr" then none else
    match elemSpans bs with
    | some spans =>
      if spans.length != ts.length then some "SPECERR" else
      if byteSource && !(spans.all Spec.Utf8.validUtf8) then none
      else some (s!"OK:Q{spans.length};" ++ String.join (spans.map fun s => "s" ++ hexOfBytes s ++ ";"))
    | none => some "SPECERR"
  | some (.obj ms) =>
    if shape != "obj" then none else
    match memberSpans bs, ms.mapM (fun m => Spec.Denote.decodeItems m.1) with
    | some spans, some keys =>
      if spans.length != keys.length then some "SPECERR" else
      if byteSource && !((spans ++ keys).all Spec.Utf8.validUtf8) then none
      else some (s!"OK:M{spans.length};" ++ String.join ((keys.zip spans).map fun (k, s) => "s" ++ hexOfBytes k ++ ";s" ++ hexOfBytes s ++ ";"))
    | some _, none => none          -- a key with an unpaired surrogate escape is not a String
    | none, _ => some "SPECERR"
  | _ => none

/-- `rawnest <cfg> <shape> <hex doc> => str|slice|reader` -/
def rawnest : Handler := fun args impl =>
  match args with
  | [c, shape, h] =>
    match bytesOfHex h with
    | some bs =>
      let cfg := cfgOfTag c
      match impl.splitOn "|" with
      | [o1, o2, o3] =>
        let m (src : SJ.Model.Machine.Src) (o : String) : String :=
          if o == "-" then "-" else nestModel cfg src shape bs (SJ.Drv.Typed.dataMsgOf o)
        let judge (name : String) (byteSource : Bool) (o : String) : List String :=
          if o == "-" then [] else
          if o == "PANIC" then [s!"C19 {name}: panic while capturing nested raw values"] else
          match nestSpec shape byteSource bs, o.startsWith "OK:" with
          | some e, true => if e == o then [] else [s!"C19 {name}: nested raw values captured as {o}, the elements' source texts are {e}"]
          | some e, false => [s!"C19 {name}: a valid document was rejected ({o}); expected {e}"]
          | none, true => [s!"C19 {name}: captured {o} from a document that is not a JSON array/object of this shape"]
          | none, false => []
        { model := m .str o1 ++ "|" ++ m .slice o2 ++ "|" ++ m .reader o3,
          specs := judge "str" false o1 ++ judge "slice" true o2 ++ judge "reader" true o3 ++
            SJ.Drv.Typed.judgePair bs "str" "slice" true o1 o2 ++ SJ.Drv.Typed.judgePair bs "slice" "reader" false o2 o3 }
      | _ => bad "obs"
    | none => bad "hex"
  | _ => bad "arity"

def handlers : List (String × Handler) := [("rawser", rawser), ("rawnest", rawnest)]

end SJ.Drv.StreamRaw
