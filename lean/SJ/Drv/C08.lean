import SJ.Drv.Base
import SJ.Spec.Ieee
import SJ.Spec.Decimal
import SJ.Model.FloatDefault
/-!
C08 driver handlers.

`f64lit <hex literal> => B<16 hex> | E`
  model: `Model.FloatDefault.floatOfLiteral` (bit-exact), spec on the implementation's observation:
  (a) finite and signed like the literal, (b) correctly rounded on the exactness domain
  (≤ 15 significant digits, net exponent within ±22), (c) within 5 ulp of the correctly rounded value,
  (d) below half the least subnormal (`< 2^-1075`: the whole interval that rounds to zero, `c08_underflow_zero_sharp`) gives ±0,
  (e) rejected only if within 5 ulp(max) of the rounding threshold `2^1024 − 2^970`, never accepted
  from `2^1024` upwards.

`f32lit <hex literal> <f64 observation> => B<8 hex> | E`
  model: `f32OfLiteral`; spec: the observation is `F64.toF32` of the implementation's own f64 result.
-/
namespace SJ.Drv.C08
open SJ SJ.Drv SJ.Spec.Ieee SJ.Spec.Decimal SJ.Model.FloatDefault

def hex8 (w : UInt32) : String :=
  String.ofList ((List.range 8).map fun i => hexDigit ((w.toNat / 16 ^ (7 - i)) % 16))

def show64 : Option UInt64 → String
  | some b => "B" ++ hex16 b
  | none => "E"

def show32 : Option UInt32 → String
  | some b => "B" ++ hex8 b
  | none => "E"

/-- `B<hex>` → bits -/
def readBits (s : String) : Option Nat :=
  match s.toList with
  | 'B' :: cs => natOfHexChars cs
  | _ => none

/-- the exactness domain of the statement: at most 15 digits after dropping leading zeros and a net
    decimal exponent within ±22 -/
def inExactDomain (l : NumLit) : Bool :=
  l.sigVal < 10 ^ 15 && decide (-22 ≤ l.netExp) && decide (l.netExp ≤ 22)

/-- exact value with the written exponent clamped (see `NumLit.exactClamped`) -/
def exactOf (l : NumLit) : Nat × Nat := l.exactClamped (1200 + l.digits.length)

def specF64 (l : NumLit) (impl : String) : Option String :=
  let (num, den) := exactOf l
  if impl == "E" then
    -- rejected: the exact value must be within 5 ulp (of the largest finite double) of the threshold
    if (num + 5 * 2 ^ 971 * den) < (2 ^ 1024 - 2 ^ 970) * den then
      some "rejected-below-tolerance: exact value is more than 5 ulp below 2^1024-2^970"
    else none
  else match readBits impl with
  | none => some s!"unexpected-observation {impl}"
  | some n =>
    let r := UInt64.ofNat n
    if !F64.isFinite r then some "nan-or-inf"
    else if F64.sign r != l.neg then some "wrong-sign"
    else if (2 ^ 1024 + 2 ^ 972) * den ≤ num then
      some "accepted-far-above-2^1024: exact value >= 2^1024 + 2 ulp(max) but accepted"
    else if 2 ^ 1024 * den ≤ num then
      some "accepted-above-2^1024:within-2ulp exact value in [2^1024, 2^1024 + 2^972) but accepted"
    else if inExactDomain l && roundNE64 l.neg num den != some r then
      some s!"not-correctly-rounded-in-exact-domain: roundNE64 gives {show64 (roundNE64 l.neg num den)}"
    else if !withinUlps 5 l.neg num den r then
      let (d, u) := ulpDist num den r
      some s!"more-than-5-ulp: error is about {d / u} ulp"
    else if num * 2 ^ 1075 < den && !F64.isZero r then some "underflow-not-zero: exact value < 2^-1075"
    else none

def f64lit : Handler := fun args impl =>
  match args with
  | [h] =>
    match (bytesOfHex h).bind NumLit.parse with
    | some l => { model := show64 (floatOfLiteral l), spec := specF64 l impl }
    | none => bad "literal"
  | _ => bad "arity"

def f32lit : Handler := fun args impl =>
  match args with
  | [h, o64] =>
    match (bytesOfHex h).bind NumLit.parse with
    | some l =>
      let expected : String :=
        if o64 == "E" then "E" else
        match readBits o64 with
        | some n => show32 (some (F64.toF32 (UInt64.ofNat n)))
        | none => "?"
      let path := match partsOfLiteral l with
        | .u64 _ => "intpath" | .i64 _ => "intpath" | _ => "floatpath"
      { model := show32 (f32OfLiteral l),
        spec := if expected == impl then none
                else if expected == "?" || !(impl == "E" || (readBits impl).isSome) then
                  some s!"unexpected-observation {impl} (f64: {o64})"
                else some s!"f32-not-once:{path} f64 result {o64} rounds to {expected}" }
    | none => bad "literal"
  | _ => bad "arity"

def handlers : List (String × Handler) := [("f64lit", f64lit), ("f32lit", f32lit)]

end SJ.Drv.C08
