import SJ.Drv.C19b
import SJ.Model.RawSeq
import SJ.Spec.Pos
/-!
Driver handler of op `rawseq` (harness/src/c19.rs): successive raw captures on one `Deserializer`, three sources.

`rawseq <cfg> <shape> <k> <hex> => str|slice|reader`, each `item,item,…` with items `R<hex>` (shape `raw`), `W<code>;<hex>` (shape
`wrap`: `struct W { code: u32, payload: Box<RawValue> }`) or `E:<msg>:<cat>:<line>:<col>`.

* model: `Model.RawSeq.rawItems` / `structItems` — the items up to and including the first error; what follows an error is
  echoed from the implementation (the reader's place after a failed call is not modelled);
* specification (C19, on the implementation's items, independent of the model): every captured text is exactly one JSON
  value (`Spec.Rec.recognise`), without surrounding whitespace, valid UTF-8, and occurs in the input at or after the end of
  the previous captured text; shape `raw`, before the first error: the text is THE value that starts at the first
  non-whitespace byte after the previous item (`Spec.Pos.valueEnd` on the remaining input), and a value there is captured;
  the three sources agree item by item as long as none of them has reported an error.
-/
namespace SJ.Drv.C19Seq
open SJ SJ.Drv SJ.Drv.Mach SJ.Model.Machine SJ.Model.Typed

def wrapFields : List (Bytes × SJ.Model.RawStruct.FieldTy) :=
  [("code".toUTF8.toList, .typed (.int .u32)), ("payload".toUTF8.toList, .raw)]

def showItem (bs : Bytes) (dataMsg : String) : TOut → String
  | .ok (.str t) _ _ => "R" ++ hexField t
  | .ok (.struct_ [.int c, .str t]) _ _ => s!"W{c};{hexField t}"
  | .ok v _ _ => "OK:" ++ v.enc
  | .err c idx =>
    let (l, col) := lineCol bs idx
    s!"E:{hexOfBytes (Gen.message c)}:{catName (Gen.classify c)}:{l}:{col}"
  | .data idx => let (l, col) := lineCol bs idx; s!"E:{dataMsg}:data:{l}:{col}"
  | .raw _ _ => s!"E:{dataMsg}:data:0:0"
  | .io => "IO"
  | .fuel => "FUEL"

/-- the text an item holds (`R<hex>` / `W<code>;<hex>`) -/
def textOf (item : String) : Option Bytes :=
  if item.startsWith "R" then bytesOfHex (item.drop 1).toString
  else if item.startsWith "W" then
    match (item.drop 1).toString.splitOn ";" with
    | [_, h] => bytesOfHex h
    | _ => none
  else none

def isCapture (item : String) : Bool := item.startsWith "R" || item.startsWith "W"

/-- first index `≥ from` at which `t` occurs in `bs` -/
def findFrom (bs t : Bytes) (start : Nat) : Option Nat :=
  let rec go (rest : Bytes) (i : Nat) (fuel : Nat) : Option Nat :=
    match fuel with
    | 0 => none
    | fuel + 1 =>
      if t.isPrefixOf rest then some i
      else match rest with
        | [] => none
        | _ :: r => go r (i + 1) fuel
  go (bs.drop start) start (bs.length + 2)

def isWsB (b : UInt8) : Bool := b == 0x20 || b == 0x09 || b == 0x0a || b == 0x0d

/-- is `t` exactly one JSON value, with nothing around it? -/
def oneValue (t : Bytes) : Bool :=
  match t.head?, t.getLast? with
  | some a, some z => !isWsB a && !isWsB z && (Spec.Rec.recognise t).isSome && Spec.Utf8.validUtf8 t
  | _, _ => false

/-- the verdict on one source's items -/
def judgeSeq (name shape : String) (byteSource : Bool) (bs : Bytes) (items : List String) : List String :=
  let rec go (rest : List String) (j : Nat) (prevEnd : Nat) (clean : Bool) (fuel : Nat) : List String :=
    match fuel, rest with
    | 0, _ => []
    | _, [] => []
    | fuel + 1, it :: more =>
      if it == "PANIC" then [s!"C19 {name}: call {j} on the same Deserializer panicked"] else
      -- what the specification expects at this place, while the history is clean (shape `raw`)
      let expected : Option (Option (Bytes × Nat)) :=
        if clean && shape == "raw" then
          let rem := bs.drop prevEnd
          let (r, p) := Spec.Pos.skipWs rem prevEnd
          match Spec.Pos.scanValue (2 * r.length + 4) r p with
          | .ok _ e => some (some (r.take (e - p), e))
          | _ => some none
        else none
      if isCapture it then
        match textOf it with
        | none => [s!"C19 {name}: malformed item {it}"]
        | some t =>
          if !oneValue t then [s!"C19 {name}: call {j} captured {hexField t}, which is not exactly one JSON value"] else
          match expected with
          | some (some (span, e)) =>
            if t == span then go more (j + 1) e true fuel
            else [s!"C19 {name}: call {j} captured {hexField t}; the next value of the input is {hexField span}"]
          | some none => [s!"C19 {name}: call {j} captured {hexField t} where the input holds no value"]
          | none =>
            match findFrom bs t prevEnd with
            | some q => go more (j + 1) (q + t.length) clean fuel
            | none => [s!"C19 {name}: call {j} captured {hexField t}, which does not occur in the input after the previous item (byte {prevEnd})"]
      else
        -- an error: fine unless a clean history meets a well-formed, UTF-8, shallow value here
        let miss := match expected with
          | some (some (span, _)) =>
            (!byteSource || Spec.Utf8.validUtf8 span) && (span.filter fun b => b == 0x5b || b == 0x7b).length < 100
          | _ => false
        if miss then [s!"C19 {name}: call {j} failed ({it}) although the next value of the input is well-formed"]
        else go more (j + 1) prevEnd false fuel
  go items 0 0 true (items.length + 1)

/-- items of two sources agree as long as neither has reported an error -/
def judgeAgree (n1 n2 : String) (a b : List String) : List String :=
  let rec go (xs ys : List String) (j : Nat) : List String :=
    match xs, ys with
    | x :: xs', y :: ys' =>
      if !isCapture x && !isCapture y then []
      else if x == y then go xs' ys' (j + 1)
      else [s!"C19 {n1} and {n2} differ at call {j} of a history without errors: {x} / {y}"]
    | _, _ => []
  go a b 0

def rawseq : Handler := fun args impl =>
  match args with
  | [c, shape, ks, h] =>
    match ks.toNat?, bytesOfHex h with
    | some k, some bs =>
      let cfg := cfgOfTag c
      match impl.splitOn "|" with
      | [o1, o2, o3] =>
        let model (src : Src) (o : String) : String :=
          if o == "-" then "-" else
          let env : SJ.Model.Typed.Env := { cfg := cfg, src := src }
          let its := o.splitOn ","
          let ms := if shape == "raw" then SJ.Model.RawSeq.rawItems env k bs
                    else SJ.Model.RawSeq.structItems env wrapFields false k bs
          let shown := (List.range ms.length).map fun i =>
            showItem bs (SJ.Drv.Typed.dataMsgOf (its.getD i "")) (ms.getD i .fuel)
          ",".intercalate (shown ++ its.drop shown.length)
        let judge (name : String) (byteSource : Bool) (o : String) : List String :=
          if o == "-" then [] else judgeSeq name shape byteSource bs (o.splitOn ",")
        let agree (n1 n2 a b : String) : List String :=
          if a == "-" || b == "-" then [] else judgeAgree n1 n2 (a.splitOn ",") (b.splitOn ",")
        { model := model .str o1 ++ "|" ++ model .slice o2 ++ "|" ++ model .reader o3,
          specs := judge "str" false o1 ++ judge "slice" true o2 ++ judge "reader" true o3 ++
                   agree "str" "slice" o1 o2 ++ agree "slice" "reader" o2 o3 }
      | _ => bad "obs"
    | _, _ => bad "decode"
  | _ => bad "arity"

def handlers : List (String × Handler) := [("rawseq", rawseq)]
end SJ.Drv.C19Seq
