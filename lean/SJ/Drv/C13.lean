import SJ.Drv.Mach
import SJ.Drv.C03
import SJ.Model.IoFault
import SJ.Model.StreamFault
import SJ.Model.IoKind
import SJ.Model.Write
import SJ.Model.WriteTrace
import SJ.Spec.Utf8
import SJ.Spec.Viable
namespace SJ.Drv.C13
open SJ SJ.Drv SJ.Drv.Mach SJ.Model.Machine SJ.Model.IoFault

/-- the property on one observation: with a reader that fails after `k` bytes the outcome is
    `Io(kind)`, or — when the delivered bytes are already wrong — the very error that the same
    bytes produce when followed by a clean end of input (a Syntax/Data error); never a value. -/
def judgeFault (kind o oeof : String) : List String :=
  if o == "PANIC" then ["C13 panic"]
  else if o.startsWith "V" || o == "U" || o == "T" || o.startsWith "R" then ["C13 a value was returned although the input ended in an I/O error"]
  else if o == s!"IO:{kind}" then []
  else if o == oeof && ((oeof.splitOn ":").getD 2 "" == "syntax" || (oeof.splitOn ":").getD 2 "" == "data") then []
  else [s!"C13 reader failing with {kind}: got {o}; the same bytes followed by end of input give {oeof}"]

/-- which documents an untyped target accepts, as far as the first byte tells: `value` / `ignored` / `raw` any JSON text,
    `rawvec` (`Vec<Box<RawValue>>`) any array, `rawmap` (`BTreeMap<String, Box<RawValue>>`) any object -/
def shapeOf (tgt : String) : Option (Option UInt8) :=
  if tgt == "value" || tgt == "ignored" || tgt == "raw" then some none
  else if tgt == "rawvec" then some (some 0x5b)
  else if tgt == "rawmap" then some (some 0x7b)
  else none

/-- the SPECIFICATION-side "not doomed" test of the delivered prefix `p` (independent of model and crate): `Spec.Viable.strictViable p`
    — some continuation completes `p` to a JSON text that every untyped target accepts; a prefix ending inside a multi-byte UTF-8
    character is viable — and, for the two container-of-raw targets, the first byte does not already rule the target's shape out.
    `false` for the typed targets (no verdict beyond `judgeFault`). -/
def prefixViable (tgt : String) (p : Bytes) : Bool :=
  match shapeOf tgt with
  | none => false
  | some sh =>
    Spec.Viable.strictViable p &&
    (match sh, Spec.Viable.firstByte p with
     | some b, some c => b == c
     | _, _ => true)

/-- C13 on a delivered fault after a viable prefix: nothing but `Io` with the reader's kind is acceptable — in particular
    not the error that a clean end of input (or a validation of the partly filled raw buffer) would give at this point. `d` = the
    harness's "the reader's error was handed out" flag. -/
def judgeViable (tgt kind : String) (p : Bytes) (o d : String) : List String :=
  if d == "1" && o != s!"IO:{kind}" && o != "PANIC" && prefixViable tgt p then
    [s!"C13 reader failing with {kind} after {p.length} bytes that do not doom the input (a continuation completes them to an acceptable document): got {o}, expected IO:{kind}"]
  else []

/-- an `ErrorKind` name of the harness as `Model.Write.Kind` (an opaque tag: the name's bytes in base 256) and back -/
def ioErrorOfName (name : String) : Model.Write.IoError :=
  { kind := .other (name.toUTF8.toList.foldl (fun acc b => acc * 256 + b.toNat) 0) }
def nameOfKind : Model.Write.Kind → String
  | .interrupted => "Interrupted"
  | .writeZero => "WriteZero"
  | .other tag =>
    let rec go (fuel n : Nat) (acc : List UInt8) : List UInt8 :=
      match fuel with
      | 0 => acc
      | fuel + 1 => if n == 0 then acc else go fuel (n / 256) (UInt8.ofNat (n % 256) :: acc)
    String.fromUTF8! (ByteArray.mk (go 64 tag []).toArray)

/-- `rfault <cfg> <tgt> <kind> <k> <hex doc> => <outcome>|<outcome with clean EOF>|<fault delivered>` (Value / IgnoredAny) -/
def rfault : Handler := fun args impl =>
  match args with
  | [c, "raw", kind, ks, h] =>
    -- `from_reader::<Box<RawValue>>`: the fault arrives while (or after) the reader holds a raw buffer
    match ks.toNat?, bytesOfHex h with
    | some k, some bs =>
      let m := match rawFault (cfgOfTag c) (bs.take k) with
        | .io => s!"IO:{kind}"
        | .err code idx =>
          let (l, col) := lineCol bs idx
          s!"E:{hexOfBytes (Gen.message code)}:{catName (Gen.classify code)}:{l}:{col}"
      match impl.splitOn "|" with
      | [o, oeof, d] => { model := m ++ "|" ++ oeof ++ "|" ++ d, specs := judgeFault kind o oeof ++ judgeViable "raw" kind (bs.take k) o d }
      | _ => bad "obs"
    | _, _ => bad "decode"
  | [c, t, kind, ks, h] =>
    match tgtOfTag t, ks.toNat?, bytesOfHex h with
    | some tgt, some k, some bs =>
      let env : Env := { cfg := cfgOfTag c, src := .reader, tgt := tgt }
      -- the reader's error travels through the model (`Model.IoKind.parseFaultK`): `IO:<kind>` is printed from what
      -- `io_error_kind()` returns for the model's outcome, not echoed from the case line
      let j := Model.IoKind.parseFaultK (ioErrorOfName kind) env (bs.take k)
      let m := match j with
        | .io _ => (match j.ioErrorKind with
                    | some kd => s!"IO:{nameOfKind kd}"
                    | none => "IO:?")
        | .other code idx =>
          let (l, col) := lineCol bs idx
          s!"E:{hexOfBytes (Gen.message code)}:{catName (Gen.classify code)}:{l}:{col}"
      match impl.splitOn "|" with
      | [o, oeof, d] => { model := m ++ "|" ++ oeof ++ "|" ++ d, specs := judgeFault kind o oeof ++ judgeViable t kind (bs.take k) o d }
      | _ => bad "obs"
    | _, _, _ => bad "decode"
  | _ => bad "arity"

/-- typed targets: no model yet — the property's own predicate only -/
def rfaultt : Handler := fun args impl =>
  match args with
  | [_, t, kind, ks, h] =>
    match impl.splitOn "|" with
    | [o, oeof, d] =>
      let v := match ks.toNat?, bytesOfHex h with
        | some k, some bs => judgeViable t kind (bs.take k) o d
        | _, _ => []
      { model := impl, specs := judgeFault kind o oeof ++ v }
    | _ => bad "obs"
  | _ => bad "arity"

/-- the property on one stream history: values (and undelimited-scalar errors, after which the stream goes on), then the Io
    error exactly once — or an earlier syntax error —, then None forever -/
def judgeStream (kind impl : String) : List String :=
  let items := impl.splitOn ","
  -- values and undelimited-scalar errors (`peek_end_of_value`: the stream goes on) first
  let isTrailing (e : String) : Bool := (e.splitOn ":").getD 1 "" == hexOfBytes (Gen.message .TrailingCharacters)
  let rest := items.dropWhile fun e => e == "V" || isTrailing e
  let firstErr := rest.head?
  let after := rest.drop 1
  let ok := (match firstErr with
    | some e => e == s!"IO:{kind}" || e.startsWith "E:"
    | none => false) && after.all (· == "N") && !after.isEmpty
  if impl == "PANIC" then ["C13 panic in a stream over a failing reader"]
  else if ok then [] else [s!"C13 stream over a failing reader: expected values, one terminal error, then None forever; got {impl}"]

/-- the harness's loop (`drive_stream`): at most `n` calls, stopping after two `None` in a row once four items are there -/
def cutHistory (items : List String) : List String :=
  let rec go (rest : List String) (acc : List String) : List String :=
    match rest with
    | [] => acc.reverse
    | x :: r =>
      let acc' := x :: acc
      if x == "N" && acc'.length > 3 && acc.head? == some "N" then acc'.reverse else go r acc'
  go items []

/-- `sfault <cfg> <ctor> <p|o> <kind> <k> <intr> <hex doc> => item,…` — stream of `Value`s over a reader that delivers `doc[..k]`
    and then fails (for ever, or once), the stream built in one of four ways (owning or borrowing its `IoRead`).
    Model: `Model.StreamFault.historyF` — the same for every construction and for both fault modes. -/
def sfault : Handler := fun args impl =>
  match args with
  | [c, _, _, kind, ks, _, h] =>
    match ks.toNat?, bytesOfHex h with
    | some k, some bs =>
      let env : Env := { cfg := cfgOfTag c, src := .reader, tgt := .value }
      let p := bs.take k
      let showItem : Model.StreamFault.FItem → String
        | .none => "N"
        | .ok _ => "V"
        | .io => s!"IO:{kind}"
        | .err code idx =>
          let (l, col) := lineCol p idx
          s!"E:{hexOfBytes (Gen.message code)}:{catName (Gen.classify code)}:{l}:{col}"
      let hist := (Model.StreamFault.historyF env (bs.length + 4) (Model.Stream.start p)).map showItem
      { model := ",".intercalate (cutHistory hist), specs := judgeStream kind impl }
    | _, _ => bad "decode"
  | [_, kind, _, _] => { model := impl, specs := judgeStream kind impl }      -- the op's first form (old replay files)
  | _ => bad "arity"

/-! ## writer side: the script policies of `harness/src/c13.rs` against `Model.Write` -/
section Writer
open SJ.Model.Write SJ.Model.WriteTrace

/-- kinds by name, in the order of `WKINDS` in the harness (`WriteZero` is `write_all`'s own kind as well) -/
def wkindNames : List String := ["BrokenPipe", "TimedOut", "UnexpectedEof", "Other", "InvalidData"]

def kindOfName (n : String) : Option Kind :=
  if n == "WriteZero" then some .writeZero
  else if n == "Interrupted" then some .interrupted
  else (wkindNames.idxOf? n).map .other

def kindName : Kind → String
  | .writeZero => "WriteZero"
  | .interrupted => "Interrupted"
  | .other t => wkindNames.getD t "?"

/-- `s<n>` | `z` | `i` | `e<Kind>` -/
def respOf (t : String) : Option Resp :=
  match t.toList with
  | 's' :: ds => (String.ofList ds).toNat?.map .short
  | ['z'] => some .zero
  | ['i'] => some .intr
  | 'e' :: ks => (kindOfName (String.ofList ks)).map .fail
  | _ => none

def scriptOf (t : String) : Option (List Resp) :=
  if t == "-" then some [] else (t.splitOn ".").mapM respOf

/-- is this answer the end of `write_all` (whatever the buffer: scripts keep the contract `n ≤ buf.len()`)? -/
def respFatal : Resp → Bool
  | .zero => true
  | .fail k => k != .interrupted
  | _ => false

/-- the kind `write_all` reports for a fatal answer -/
def respFatalKind : Resp → String
  | .zero => "WriteZero"
  | .fail k => kindName k
  | _ => "?"

/-- the property on one observation, from the script alone (no model): the answers consumed are the first `calls`
    items of `script ++ tail…`; none but the last may be fatal; if the last is, the result is `Io` with its kind; if none
    is, the result is the fault-free one (`clean`: `OK`, or the serializer's own error); the result is the fault-free one
    iff everything was accepted; what was accepted is a prefix of the fault-free output -/
def judgeWrite (script : List Resp) (tail : Resp) (full acc : Bytes) (clean res : String) (calls : Nat) : List String :=
  let consumed := (List.range calls).map fun j => (script[j]?).getD tail
  let s1 := if acc.isPrefixOf full then [] else ["C13 the bytes the writer accepted are not a prefix of the fault-free output"]
  let s2 := if consumed.dropLast.any respFatal then ["C13 a write call was made after the writer had failed"] else []
  let s3 := match consumed.getLast? with
    | some r =>
      if respFatal r then
        (if res == s!"IO:{respFatalKind r}" then [] else [s!"C13 the writer failed with {respFatalKind r} but serialisation returned {res}"])
      else if res == clean || consumed.dropLast.any respFatal then [] else [s!"C13 no write call failed last, yet serialisation returned {res} (fault-free: {clean})"]
    | none => if res == clean then [] else [s!"C13 no write call was made, yet serialisation returned {res} (fault-free: {clean})"]
  let s4 := if (res == clean) == (acc == full) then []
            else [s!"C13 serialisation returned {res} (fault-free: {clean}) with {acc.length} of {full.length} bytes accepted"]
  s1 ++ s2 ++ s3 ++ s4

/-- `wfault <cfg> <c|p> <script> <tail> <prog> <hex fault-free output> <fault-free result> =>
    <result>|<accepted hex>|<write calls>|<buffers>|<std>` -/
def wfault : Handler := fun args impl =>
  match args with
  | [_, f, scriptS, tailS, pe, fullh, clean] =>
    match scriptOf scriptS, respOf tailS, C03.decodeProg pe, bytesOfHex fullh with
    | some script, some tail, some (p, tb), some full =>
      let ext := C03.extOf tb
      let fmt : Model.Ser.Fmt := if f == "p" then .pretty [0x20, 0x20] else .compact
      -- one `write_all` makes at most (answers left in the script) + (bytes of the buffer) + 1 calls, unless the tail is `i`
      let fuel := script.length + full.length + 2
      -- `toWriterT` is `toWriter` on programs that serialise (`c13_trace_agrees`)
      let (w, r) := toWriterT fuel ext fmt p (Writer.script script tail)
      let rs := match r with
        | .ok => "OK" | .io e => s!"IO:{kindName e.kind}" | .ser e => "ERR:" ++ C03.errName e | .hang => "HANG" | .panic => "PANIC"
      let hs := if w.handed.isEmpty then "-" else ".".intercalate (w.handed.map hexField)
      let model := s!"{rs}|{hexField w.accepted}|{w.calls}|{hs}|="
      -- the fault-free run of the model must be the fault-free run of the crate (the arguments of the case)
      let (w0, r0) := toWriterT 1 ext fmt p Writer.vec
      let m0 := if w0.accepted == full && (match r0 with | .ok => "OK" | .ser e => "ERR:" ++ C03.errName e | _ => "?") == clean then ""
                else s!"[fault-free run of the model: {hexField w0.accepted}]"
      match impl.splitOn "|" with
      | [res, acch, callsS, bufsS, std] =>
        match bytesOfHex acch, callsS.toNat? with
        | some acc, some calls =>
          let bufs := if bufsS == "-" then [] else (bufsS.splitOn ".").filterMap bytesOfHex
          let s0 := judgeWrite script tail full acc clean res calls
          let s5 := if bufs.all Spec.Utf8.validUtf8 then [] else ["C13 a buffer handed to the writer is not valid UTF-8 on its own"]
          let s6 := if std == "=" then [] else [s!"C13 std's own write_all (a writer that only implements write) behaves differently: {std}"]
          { model := model ++ m0, specs := s0 ++ s5 ++ s6 }
        | _, _ => bad "obs fields"
      | _ => bad "obs"
    | _, _, _, _ => bad "decode"
  | _ => bad "arity"

end Writer

/-- `ioconv <cfg> <kind> <k> <hex doc> => <cat:iokind>|…` — `io::Error::from(serde_json::Error)`: the kind after conversion is the
    injected kind for an Io error and the table `Gen.intoIoKind` (regenerated from error.rs) for the other categories -/
def ioconv : Handler := fun args impl =>
  match args with
  | [_, kind, _, _] =>
    let ofGen (c : Gen.Cat) : String := ((Gen.intoIoKind c).map fun bs => String.ofList (bs.map fun b => Char.ofNat b.toNat)).getD "?"
    -- the model follows the table regenerated from error.rs; the specification is the documented contract
    let modelKind (cat : String) : String := match cat with
      | "io" => kind | "syntax" => ofGen .syntax | "data" => ofGen .data | "eof" => ofGen .eof | _ => "?"
    let specKind (cat : String) : String := match cat with
      | "io" => kind | "syntax" => "InvalidData" | "data" => "InvalidData" | "eof" => "UnexpectedEof" | _ => "?"
    let judge (o : String) : String × List String :=
      if o == "OK" then (o, []) else
      match o.splitOn ":" with
      | [cat, k] => (s!"{cat}:{modelKind cat}", if k == specKind cat then [] else [s!"C13 io::Error::from of a {cat} error has kind {k}, expected {specKind cat}"])
      | _ => ("?", ["C13 ioconv: malformed observation"])
    let rs := (impl.splitOn "|").map judge
    { model := "|".intercalate (rs.map (·.1)), specs := (rs.map (·.2)).flatten }
  | _ => bad "arity"

def handlers : List (String × Handler) := [("rfault", rfault), ("rfaultt", rfaultt), ("rfault1", rfault), ("rfaultt1", rfaultt), ("sfault", sfault), ("wfault", wfault), ("ioconv", ioconv)]
end SJ.Drv.C13
