import SJ.Drv.Mach
import SJ.Drv.C03
import SJ.Model.IoFault
import SJ.Spec.Utf8
namespace SJ.Drv.C13
open SJ SJ.Drv SJ.Drv.Mach SJ.Model.Machine SJ.Model.IoFault

/-- the property on one observation: with a reader that fails after `k` bytes the outcome is
    `Io(kind)`, or — when the delivered bytes are already wrong — the very error that the same
    bytes produce when followed by a clean end of input (a Syntax/Data error); never a value. -/
def judgeFault (kind o oeof : String) : List String :=
  if o == "PANIC" then ["C13 panic"]
  else if o.startsWith "V" || o == "U" || o == "T" || o.startsWith "R" then ["C13 a value was returned although the input ended in an I/O error"]
  else if o == s!"IO:{kind}" then []
  else if o == oeof && ((oeof.splitOn ":").getD 2 "" == "syntax" || (oeof.splitOn ":").getD 2 "" == "data") then []
  else [s!"C13 reader failing with {kind}: got {o}; the same bytes followed by end of input give {oeof}"]

/-- `rfault <cfg> <tgt> <kind> <k> <hex doc> => <outcome>|<outcome with clean EOF>|<fault delivered>` (Value / IgnoredAny) -/
def rfault : Handler := fun args impl =>
  match args with
  | [c, "raw", kind, ks, h] =>
    -- `from_reader::<Box<RawValue>>`: the fault arrives while (or after) the reader holds a raw buffer
    match ks.toNat?, bytesOfHex h with
    | some k, some bs =>
      let m := match rawFault (cfgOfTag c) (bs.take k) with
        | .io => s!"IO:{kind}"
        | .err code idx =>
          let (l, col) := lineCol bs idx
          s!"E:{hexOfBytes (Gen.message code)}:{catName (Gen.classify code)}:{l}:{col}"
      match impl.splitOn "|" with
      | [o, oeof, d] => { model := m ++ "|" ++ oeof ++ "|" ++ d, specs := judgeFault kind o oeof }
      | _ => bad "obs"
    | _, _ => bad "decode"
  | [c, t, kind, ks, h] =>
    match tgtOfTag t, ks.toNat?, bytesOfHex h with
    | some tgt, some k, some bs =>
      let env : Env := { cfg := cfgOfTag c, src := .reader, tgt := tgt }
      let m := match parseFault env (bs.take k) with
        | .io => s!"IO:{kind}"
        | .err code idx =>
          let (l, col) := lineCol bs idx
          s!"E:{hexOfBytes (Gen.message code)}:{catName (Gen.classify code)}:{l}:{col}"
      match impl.splitOn "|" with
      | [o, oeof, d] => { model := m ++ "|" ++ oeof ++ "|" ++ d, specs := judgeFault kind o oeof }
      | _ => bad "obs"
    | _, _, _ => bad "decode"
  | _ => bad "arity"

/-- typed targets: no model yet — the property's own predicate only -/
def rfaultt : Handler := fun args impl =>
  match args with
  | [_, _, kind, _, _] =>
    match impl.splitOn "|" with
    | [o, oeof, _] => { model := impl, specs := judgeFault kind o oeof }
    | _ => bad "obs"
  | _ => bad "arity"

/-- stream over a faulty reader: values, then the Io error exactly once, then None forever
    (or an earlier syntax error, then None) -/
def sfault : Handler := fun args impl =>
  match args with
  | [_, kind, _, _] =>
    let items := impl.splitOn ","
    -- values and undelimited-scalar errors (`peek_end_of_value`: the stream goes on) first
    let isTrailing (e : String) : Bool := (e.splitOn ":").getD 1 "" == hexOfBytes (Gen.message .TrailingCharacters)
    let rest := items.dropWhile fun e => e == "V" || isTrailing e
    let firstErr := rest.head?
    let after := rest.drop 1
    let ok := (match firstErr with
      | some e => e == s!"IO:{kind}" || e.startsWith "E:"
      | none => false) && after.all (· == "N") && !after.isEmpty
    { model := impl, specs := if ok then [] else [s!"C13 stream over a failing reader: expected values, one terminal error, then None forever; got {impl}"] }
  | _ => bad "arity"

/-- `wfault <cfg> <c|p> <kind> <m> <prog> <hex full output> => <result>|<accepted hex>|<buffers>` -/
def wfault : Handler := fun args impl =>
  match args with
  | [_, f, kind, ms, pe, fullh] =>
    match ms.toNat?, C03.decodeProg pe, bytesOfHex fullh with
    | some m, some (p, tb), some full =>
      let ext := C03.extOf tb
      let r := if f == "p" then Model.Ser.serPretty ext [0x20, 0x20] p else Model.Ser.serCompact ext p
      let model := match r with
        | .ok bufs =>
          let (acc, failed) := writeFault bufs m
          (if failed then s!"IO:{kind}" else "OK") ++ "|" ++ hexField acc
        | .error _ => "ERR"
      match impl.splitOn "|" with
      | [res, acch, bufsS] =>
        let acc := (bytesOfHex acch).getD []
        let bufs := (bufsS.splitOn ".").filterMap bytesOfHex
        let s1 := if acc.isPrefixOf full then [] else ["C13 the bytes the writer accepted are not a prefix of the fault-free output"]
        let s2 := if (m < full.length) == (res == s!"IO:{kind}") && (m < full.length || res == "OK") then []
                  else [s!"C13 writer failing after {m} of {full.length} bytes: result {res}"]
        let s3 := if m < full.length && acc.length != m then [s!"C13 writer accepted {acc.length} bytes, expected {m}"] else []
        let s4 := if bufs.all Spec.Utf8.validUtf8 then [] else ["C13 a buffer handed to the writer is not valid UTF-8 on its own"]
        { model := model ++ "|" ++ bufsS, specs := s1 ++ s2 ++ s3 ++ s4 }
      | _ => bad "obs"
    | _, _, _ => bad "decode"
  | _ => bad "arity"

/-- `ioconv <cfg> <kind> <k> <hex doc> => <cat:iokind>|…` — `io::Error::from(serde_json::Error)`: the kind after conversion is the
    injected kind for an Io error and the table `Gen.intoIoKind` (regenerated from error.rs) for the other categories -/
def ioconv : Handler := fun args impl =>
  match args with
  | [_, kind, _, _] =>
    let ofGen (c : Gen.Cat) : String := ((Gen.intoIoKind c).map fun bs => String.ofList (bs.map fun b => Char.ofNat b.toNat)).getD "?"
    -- the model follows the table regenerated from error.rs; the specification is the documented contract
    let modelKind (cat : String) : String := match cat with
      | "io" => kind | "syntax" => ofGen .syntax | "data" => ofGen .data | "eof" => ofGen .eof | _ => "?"
    let specKind (cat : String) : String := match cat with
      | "io" => kind | "syntax" => "InvalidData" | "data" => "InvalidData" | "eof" => "UnexpectedEof" | _ => "?"
    let judge (o : String) : String × List String :=
      if o == "OK" then (o, []) else
      match o.splitOn ":" with
      | [cat, k] => (s!"{cat}:{modelKind cat}", if k == specKind cat then [] else [s!"C13 io::Error::from of a {cat} error has kind {k}, expected {specKind cat}"])
      | _ => ("?", ["C13 ioconv: malformed observation"])
    let rs := (impl.splitOn "|").map judge
    { model := "|".intercalate (rs.map (·.1)), specs := (rs.map (·.2)).flatten }
  | _ => bad "arity"

def handlers : List (String × Handler) := [("rfault", rfault), ("rfaultt", rfaultt), ("sfault", sfault), ("wfault", wfault), ("ioconv", ioconv)]
end SJ.Drv.C13
