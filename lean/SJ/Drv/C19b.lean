import SJ.Drv.Mach
import SJ.Drv.C03
import SJ.Drv.Typed
import SJ.Drv.StreamRaw
import SJ.Model.RawStruct
import SJ.Model.RawConv
import SJ.Spec.Rec
import SJ.Spec.Pos
/-!
Driver handlers of `harness/src/c19b.rs` (docs/STREAMRAW-NOTES.md, "Third round"): `RawValue` as a struct field (`rawfld`, model
`Model.RawStruct`) and `RawValue` ⇄ `Value` (`rawconv`, model `Model.RawConv`).
-/
namespace SJ.Drv.C19b
open SJ SJ.Drv SJ.Drv.Mach SJ.Model.Machine SJ.Model.RawStruct SJ.Model.RawConv

/-! ## `rawfld` -/

/-- the structs of `harness/src/c19b.rs`: `s1` = `{ a: Box<RawValue>, b: Option<Box<RawValue>>, c: Box<RawValue> }`,
    `s2` = `#[serde(deny_unknown_fields)] { a: Box<RawValue>, b: Option<Box<RawValue>> }`,
    `s3` = `{ id: Option<u32>, payload: Box<RawValue>, tail: Box<RawValue> }` -/
def shapeOf (shape : String) : List (Bytes × FieldTy) × Bool :=
  if shape == "s1" then ([("a".toUTF8.toList, .raw), ("b".toUTF8.toList, .optRaw), ("c".toUTF8.toList, .raw)], false)
  else if shape == "s2" then ([("a".toUTF8.toList, .raw), ("b".toUTF8.toList, .optRaw)], true)
  else ([("id".toUTF8.toList, .typed (.option (.int .u32))), ("payload".toUTF8.toList, .raw), ("tail".toUTF8.toList, .raw)], false)

def fldModel (cfg : Cfg) (src : Src) (shape : String) (bs : Bytes) (dataMsg : String) : String :=
  let env : SJ.Model.Typed.Env := { cfg := cfg, src := src }
  let (fs, deny) := shapeOf shape
  SJ.Drv.Typed.showTop bs dataMsg (rawStructTop env fs deny bs)

def nullText : Bytes := [0x6e, 0x75, 0x6c, 0x6c]

/-- `u32` of a value's source text: digits only (the grammar has excluded leading zeros), at most `u32::MAX` -/
def u32Of (span : Bytes) : Option Nat :=
  if span.isEmpty || !(span.all fun b => 0x30 ≤ b && b ≤ 0x39) then none
  else
    let n := span.foldl (fun acc b => acc * 10 + (b.toNat - 0x30)) 0
    if n ≤ 4294967295 then some n else none

/-- what the property says a struct with raw fields must hold, computed from the object's member spans alone
    (`StreamRaw.memberSpans`: the independent scanner `Spec.Pos`) and the decoded keys (`Spec.Denote.decodeItems`):
    every field is the source text of the value of THE member with its name — `some (OK:…)` —, or the document must be
    rejected (`none`): not an object of the grammar, a key that is not a string of the target (unpaired surrogate; not
    UTF-8 on byte sources), a duplicated or (shape `s2`) unknown field, a missing non-`Option` field, a captured text
    that is not UTF-8 on a byte source. `some "SKIP"`: the array form (`visit_seq`), not judged here. -/
def fldSpec (shape : String) (byteSource : Bool) (bs : Bytes) : Option String :=
  match Spec.Rec.recognise bs with
  | some (.arr _) => some "SKIP"
  | some (.obj ms) =>
    match SJ.Drv.StreamRaw.memberSpans bs, ms.mapM (fun m => Spec.Denote.decodeItems m.1) with
    | some spans, some keys =>
      if spans.length != keys.length then some "SPECERR" else
      if byteSource && !(keys.all Spec.Utf8.validUtf8) then none else
      let (fs, deny) := shapeOf shape
      let names := fs.map (·.1)
      let entries := keys.zip spans
      -- duplicates / unknown fields
      let known := entries.filter fun e => names.contains e.1
      if deny && known.length != entries.length then none else
      if (names.any fun n => (known.filter fun e => e.1 == n).length > 1) then none else
      if byteSource && !(known.all fun e => Spec.Utf8.validUtf8 e.2) then none else
      let field (nt : Bytes × FieldTy) : Option String :=
        match known.find? (fun e => e.1 == nt.1), nt.2 with
        | some e, .raw => some ("s" ++ hexOfBytes e.2 ++ ";")
        | none, .raw => none
        | some e, .optRaw => some (if e.2 == nullText then "n" else "Ss" ++ hexOfBytes e.2 ++ ";")
        | none, .optRaw => some "n"
        | some e, .typed _ => if e.2 == nullText then some "n" else (u32Of e.2).map fun n => s!"Si{n};"
        | none, .typed _ => some "n"
      (fs.mapM field).map fun xs => s!"OK:R{fs.length};" ++ String.join xs
    | some _, none => none
    | none, _ => some "SPECERR"
  | _ => none

/-- `rawfld <cfg> <shape> <hex doc> => str|slice|reader` -/
def rawfld : Handler := fun args impl =>
  match args with
  | [c, shape, h] =>
    match bytesOfHex h with
    | some bs =>
      let cfg := cfgOfTag c
      match impl.splitOn "|" with
      | [o1, o2, o3] =>
        let m (src : Src) (o : String) : String :=
          if o == "-" then "-" else fldModel cfg src shape bs (SJ.Drv.Typed.dataMsgOf o)
        let judge (name : String) (byteSource : Bool) (o : String) : List String :=
          if o == "-" then [] else
          if o == "PANIC" then [s!"C19 {name}: panic while deserialising a struct with raw fields"] else
          if o == "NOTSUB" then [s!"C19 {name}: a borrowed RawValue field is not a subslice of the input"] else
          if o.startsWith "DIFF:" then [s!"C19 {name}: borrowed and boxed RawValue fields differ: {o}"] else
          match fldSpec shape byteSource bs, o.startsWith "OK:" with
          | some "SKIP", _ => []
          | some e, true => if e == o then [] else [s!"C19 {name}: struct fields captured as {o}, the fields' source texts are {e}"]
          | some e, false => [s!"C19 {name}: a valid document was rejected ({o}); expected {e}"]
          | none, true => [s!"C19 {name}: accepted {o} from a document the struct must reject"]
          | none, false => []
        { model := m .str o1 ++ "|" ++ m .slice o2 ++ "|" ++ m .reader o3,
          specs := judge "str" false o1 ++ judge "slice" true o2 ++ judge "reader" true o3 ++
            SJ.Drv.Typed.judgePair bs "str" "slice" true o1 o2 ++ SJ.Drv.Typed.judgePair bs "slice" "reader" false o2 o3 }
      | _ => bad "obs"
    | none => bad "hex"
  | _ => bad "arity"

/-! ## `rawconv` -/

def isWsByte (b : UInt8) : Bool := b == 0x20 || b == 0x09 || b == 0x0a || b == 0x0d

/-- message and category of an error observation `E:msg:cat:line:col` (positions dropped) -/
def errClass (o : String) : String :=
  match o.splitOn ":" with
  | ["E", m, cat, _, _] => m ++ ":" ++ cat
  | _ => o

/-- `rawconv <cfg> <hex doc> <float table> => cap|tv|pv|fv|fvr|ts|rt` -/
def rawconv : Handler := fun args impl =>
  match args with
  | [c, h, te] =>
    match bytesOfHex h, C03.decodeFloatTable te with
    | some bs, some tb =>
      let cfg := cfgOfTag c
      let ext := C03.extOf tb
      let envS : Env := { cfg := cfg, src := .str, tgt := .value }
      let cap : Option Bytes := match SJ.Model.Raw.rawTop cfg .str bs with
        | .ok p e => some ((bs.drop p).take (e - p))
        | .err _ _ => none
      let capS := match cap with | some t => "R" ++ hexField t | none => "-"
      let tvS := match cap with | some t => showOutcome envS t (toValueRaw cfg t) | none => "-"
      let pv := parseTop envS bs
      let pvS := showOutcome envS bs pv
      let (fvS, tsS, rtS) := match pv with
        | .err _ _ => ("-", "-", "-")
        | .ok v =>
          let fv := fromValueRaw ext v
          let fvS := match fv with | some t => hexField t | none => "PANIC"
          let tsS := match SJ.Model.Display.toString ext v with | .ok t => hexField t | .error _ => "ERR"
          let rtS := match fv with
            | none => "PANIC"
            | some t => match toValueRaw cfg t with
              | .ok v' => if encJV v' == encJV v then "=" else "V" ++ encJV v'
              | o => showOutcome envS t o
          (fvS, tsS, rtS)
      let m := String.intercalate "|" [capS, tvS, pvS, fvS, fvS, tsS, rtS]
      let specs : List String :=
        match impl.splitOn "|" with
        | [icap, itv, ipv, ifv, ifvr, its, irt] =>
          -- "serialises back … also through to_value": to_value(raw) is the Value of the text
          (if icap == "-" then [] else
            if ipv.startsWith "V" then (if itv == ipv then [] else [s!"C19 to_value(raw) {itv} differs from the Value of its text {ipv}"])
            else if itv.startsWith "V" then [s!"C19 to_value(raw) succeeded ({itv}) on a text that does not deserialise into a Value ({ipv})"]
            else if errClass itv == errClass ipv then [] else [s!"C19 to_value(raw) fails with {itv}, its text with {ipv}"]) ++
          -- from_value::<Box<RawValue>>: exactly the compact text, a JSON text without surrounding whitespace, denoting the value
          (if ifv == "-" then [] else
            (if ifv == its && ifvr == its then [] else [s!"C19 from_value::<Box<RawValue>> holds {ifv} / {ifvr}, to_string gives {its}"]) ++
            (match bytesOfHex ifv with
             | some t =>
               if (Spec.Rec.recognise t).isNone then [s!"C19 from_value::<Box<RawValue>> holds {ifv}, which is not one JSON text"]
               else if (t.head?.map isWsByte).getD true || (t.getLast?.map isWsByte).getD true then
                 [s!"C19 from_value::<Box<RawValue>> holds {ifv}: whitespace around the value"] else []
             | none => [s!"C19 from_value::<Box<RawValue>> failed: {ifv}"]) ++
            -- back through to_value: the identity, for values without floats or with `float_roundtrip` (the default
            -- parser may be one ulp off the shortest text of a float: C04's `FloatsRoundTrip` hypothesis, C07)
            (if irt == "=" || (te != "-" && !cfg.fr) then [] else [s!"C19 to_value(from_value::<Box<RawValue>>(v)) is not v: {irt}"]))
        | _ => ["C19 malformed observation"]
      { model := m, specs := specs }
    | _, _ => bad "decode"
  | _ => bad "arity"

def handlers : List (String × Handler) := [("rawfld", rawfld), ("rawconv", rawconv)]

end SJ.Drv.C19b
