import SJ.Drv.Mach
import SJ.Spec.Canon
namespace SJ.Drv.C20
open SJ SJ.Drv SJ.Drv.Mach

/-- `numtext <cfg> <hex literal> => as_str|Display|to_string(Number)|Value.to_string|pretty|nested reprint` -/
def numtext : Handler := fun args impl =>
  match args with
  | [_, h] =>
    match bytesOfHex h with
    | some bs =>
      let isNum := match Spec.Rec.pNumber bs with | some (p, []) => p.bytes == bs | _ => false
      if !isNum then { model := impl, specs := if impl == "ERR" then [] else ["C20 a string that is not an RFC 8259 number was accepted"] }
      else
        let t := hexField bs
        let nested := hexOfBytes ([0x5b] ++ bs ++ [0x2c, 0x7b, 0x22, 0x6b, 0x22, 0x3a] ++ bs ++ [0x7d, 0x5d])
        let e := String.intercalate "|" [t, t, t, t, t, nested]
        { model := e, specs := if impl == e then [] else [s!"C20 the literal is not kept verbatim: as_str|Display|to_string|Value|pretty|nested = {impl}"] }
    | none => bad "hex"
  | _ => bad "arity"

def stripWs (bs : Bytes) : Bytes := bs.filter fun b => !(Spec.Grammar.isWs b)

/-- `reprint <cfg> <hex doc of arrays of numbers> => hex of to_vec(from_slice(doc))` -/
def reprint : Handler := fun args impl =>
  match args with
  | [_, h] =>
    match bytesOfHex h with
    | some bs =>
      let e := hexField (stripWs bs)
      { model := e, specs := if impl == e then [] else ["C20 parse-then-serialise changed more than whitespace"] }
    | none => bad "hex"
  | _ => bad "arity"

def handlers : List (String × Handler) := [("numtext", numtext), ("reprint", reprint)]
end SJ.Drv.C20
