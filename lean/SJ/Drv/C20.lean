import SJ.Drv.Mach
import SJ.Spec.TextNorm
import SJ.Spec.Recognise
import SJ.Model.Ser
import SJ.Spec.Canon
namespace SJ.Drv.C20
open SJ SJ.Drv SJ.Drv.Mach

/-- `numtext <cfg> <hex literal> => as_str|Display|to_string(Number)|Value.to_string|pretty|nested reprint` -/
def numtext : Handler := fun args impl =>
  match args with
  | [_, h] =>
    match bytesOfHex h with
    | some bs =>
      let isNum := match Spec.Rec.pNumber bs with | some (p, []) => p.bytes == bs | _ => false
      if !isNum then { model := impl, specs := if impl == "ERR" then [] else ["C20 a string that is not an RFC 8259 number was accepted"] }
      else
        let t := hexField bs
        let nested := hexOfBytes ([0x5b] ++ bs ++ [0x2c, 0x7b, 0x22, 0x6b, 0x22, 0x3a] ++ bs ++ [0x7d, 0x5d])
        let e := String.intercalate "|" [t, t, t, t, t, nested]
        { model := e, specs := if impl == e then [] else [s!"C20 the literal is not kept verbatim: as_str|Display|to_string|Value|pretty|nested = {impl}"] }
    | none => bad "hex"
  | _ => bad "arity"

/-- no float reaches a printer under `arbitrary_precision` (numbers are literals); `itoa` is never consulted either -/
def extLit : Spec.Program.Ext := { itoa := Spec.Number.decimal, ryu64 := fun _ => [], ryu32 := fun _ => [] }

/-- `reprint <cfg> <hex doc> => hex of to_vec(from_slice(doc))`.
    model: `serCompact (ofValue (parseTop doc))`; spec (`c20_text_roundtrip`): with `t` the syntax tree the independent
    recogniser finds, `keysInMapOrder` ⇒ the output is `normText t`, and with `spelledCanonically` too it is the input
    minus insignificant whitespace (`Spec.TextNorm.stripWs`). -/
def reprint : Handler := fun args impl =>
  match args with
  | [tag, h] =>
    match bytesOfHex h with
    | some bs =>
      let cfg := cfgOfTag tag
      let env : Model.Machine.Env := { cfg := cfg, src := .slice, tgt := .value }
      let model := match Model.Machine.parseTop env bs with
        | .ok v => (match Model.Ser.serCompact extLit (Model.Ser.ofValue v) with
                    | .ok bufs => hexField bufs.flatten
                    | .error _ => "SERERR")
        | o => showOutcome env bs o
      let specs := match Spec.Recognise.recognise true bs with
        | some t =>
          if !cfg.ap then []
          else if !Spec.TextNorm.keysInMapOrder cfg.po t then []
          else
            let e1 := hexField (Spec.TextNorm.normText t)
            let s1 := if impl == e1 then [] else ["C20 parse-then-serialise is not the input's tokens in the input's order with every number literal verbatim"]
            let s2 := if Spec.TextNorm.spelledCanonically t && impl != hexField (Spec.TextNorm.stripWs bs)
                      then ["C20 parse-then-serialise changed more than whitespace"] else []
            s1 ++ s2
        | none => []
      { model := model, specs := specs }
    | none => bad "hex"
  | _ => bad "arity"

def handlers : List (String × Handler) := [("numtext", numtext), ("reprint", reprint)]
end SJ.Drv.C20
