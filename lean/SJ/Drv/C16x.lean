import SJ.Drv.Base
/-! `c16x <cfg> <type> <value> => owned|borrowed|text` — C16 on Rust target types outside the schema universe (map keys read
    through `deserialize_option` / `deserialize_newtype_struct` / `deserialize_enum`, `Number`, `Map<String, Value>`, `IgnoredAny`,
    `Cow<str>`, tuple structs …). There is no Lean model of these targets: the handler echoes the observation and evaluates the
    property's own statement on it — `from_value(v)`, `T::deserialize(&v)` and `from_str(to_string(v))` give the same result
    (the same `Debug` rendering of the value, or all three fail); never a panic. Under `arbitrary_precision` / `raw_value` the pool
    also holds Values whose objects are keyed by the private `Number` / `RawValue` tokens (built by `Map::insert`): the owned route
    hands keys out by `visit_string`, the borrowed and the text route by `visit_str`, and all three must classify them alike. -/
namespace SJ.Drv.C16x
open SJ SJ.Drv

def c16x : Handler := fun args impl =>
  match args with
  | [_, ty, _] =>
    match impl.splitOn "|" with
    | [o, b, t] =>
      let s1 := if o == "PANIC" || b == "PANIC" || t == "PANIC" then [s!"C16 {ty}: panic ({impl})"] else []
      let s2 := if o == b then [] else [s!"C16 {ty}: owned and borrowed Value deserializers differ: {o} vs {b}"]
      let s3 := if o == t then [] else [s!"C16 {ty}: from_value and the text deserializer differ: {o} vs {t}"]
      { model := impl, specs := s1 ++ s2 ++ s3 }
    | _ => bad "obs"
  | _ => bad "arity"

def handlers : List (String × Handler) := [("c16x", c16x)]
end SJ.Drv.C16x
