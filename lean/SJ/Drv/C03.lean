import SJ.Drv.Base
import SJ.Spec.Image
import SJ.Spec.Recognise
import SJ.Model.Ser
import SJ.Model.Display
/-!
# C03 driver handlers

Wire encoding of serializer programs (one token; `harness/src/prog.rs` `enc_prog`):
```
prog :=
  'b0' | 'b1'                                    bool
  'i' W dec ';'                                  integer; W = a..e for i8,i16,i32,i64,i128, A..E for u8..u128
  'g' hex8 ':' hextext ';'                       f32 bits, and the text the crate printed for it (empty if non-finite)
  'd' hex16 ':' hextext ';'                      f64 likewise
  'c' hex ';'                                    char (code point)
  's' hex ';'   'y' hex ';'                      str / bytes
  'n'  'S' prog  'u'  'U'                        none / some / unit / unit struct
  'v' hex ';'   'N' prog   'V' hex ';' prog      unit variant / newtype struct / newtype variant
  'q' hint ';' count ';' prog*                   seq; hint = '-' | dec
  't' count ';' prog*   'T' count ';' prog*      tuple / tuple struct
  'X' hex ';' count ';' prog*                    tuple variant
  'm' hint ';' count ';' (prog prog)*            map
  'r' count ';' (hex ';' prog)*                  struct
  'R' hex ';' count ';' (hex ';' prog)*          struct variant
  'l' hex ';'                                    collect_str
```
The driver cannot compute `ryu`: its `Ext.ryu64`/`ryu32` look the text up in the table collected from
the token (the executable specification then checks that text to be a JSON number); `itoa` is
`Spec.Number.decimal`.

Operations: `serc p`, `serp indent p`, `serbufs fmt p`, `serbufx fmt p` (ill-hinted programs: model
comparison only), `disp value floattable`, `dispf value floattable alt budget` (`write!(sink, "{}" / "{:#}", v)`
into a `fmt::Write` that accepts whole fragments within a byte budget; observation
`OK|ERR '|' count '|' frag,… '|' to_string(_pretty) text`), `dispn number floattable` (`Display for Number`).
-/
namespace SJ.Drv.C03
open SJ SJ.Drv SJ.Spec SJ.Spec.Grammar SJ.Spec.Denote SJ.Spec.Image SJ.Model.Ser

structure Tabs where
  t64 : List (UInt64 × Bytes) := []
  t32 : List (UInt32 × Bytes) := []

def intW (c : Char) : Option IntW :=
  match c with
  | 'a' => some .i8 | 'b' => some .i16 | 'c' => some .i32 | 'd' => some .i64 | 'e' => some .i128
  | 'A' => some .u8 | 'B' => some .u16 | 'C' => some .u32 | 'D' => some .u64 | 'E' => some .u128
  | _ => none

def intOfDec (cs : List Char) : Option Int :=
  match cs with
  | '-' :: r => (natOfDecChars r).map fun n => -(n : Int)
  | r => (natOfDecChars r).map fun n => (n : Int)

def hintOf (cs : List Char) : Option (Option Nat) :=
  if cs == ['-'] then some none else (natOfDecChars cs).map some

/-- `hex ';'` -/
def hexSemi (cs : List Char) : Option (Bytes × List Char) := do
  let (d, r) ← takeUntilSemi [] cs
  let b ← bytesOfHexChars d
  pure (b, r)

def decSemi (cs : List Char) : Option (Nat × List Char) := do
  let (d, r) ← takeUntilSemi [] cs
  let n ← natOfDecChars d
  pure (n, r)

def takeUntilColon : List Char → List Char → Option (List Char × List Char)
  | _, [] => none
  | acc, c :: cs => if c == ':' then some (acc.reverse, cs) else takeUntilColon (c :: acc) cs

mutual
def decP : Nat → List Char → Tabs → Option (SVal × List Char × Tabs)
  | 0, _, _ => none
  | fuel + 1, cs, tb =>
    match cs with
    | 'b' :: '0' :: r => some (.bool false, r, tb)
    | 'b' :: '1' :: r => some (.bool true, r, tb)
    | 'i' :: w :: r => do
        let w ← intW w
        let (d, r) ← takeUntilSemi [] r
        let n ← intOfDec d
        pure (.int w n, r, tb)
    | 'g' :: r => do
        let (h, r) ← takeUntilColon [] r
        let bits ← natOfHexChars h
        let (txt, r) ← hexSemi r
        let b := UInt32.ofNat bits
        pure (.f32 b, r, { tb with t32 := (b, txt) :: tb.t32 })
    | 'd' :: r => do
        let (h, r) ← takeUntilColon [] r
        let bits ← natOfHexChars h
        let (txt, r) ← hexSemi r
        let b := UInt64.ofNat bits
        pure (.f64 b, r, { tb with t64 := (b, txt) :: tb.t64 })
    | 'c' :: r => do
        let (d, r) ← takeUntilSemi [] r
        let n ← natOfHexChars d
        pure (.char n, r, tb)
    | 's' :: r => do let (b, r) ← hexSemi r; pure (.str b, r, tb)
    | 'y' :: r => do let (b, r) ← hexSemi r; pure (.bytes b, r, tb)
    | 'n' :: r => some (.none, r, tb)
    | 'S' :: r => do let (p, r, tb) ← decP fuel r tb; pure (.some p, r, tb)
    | 'u' :: r => some (.unit, r, tb)
    | 'U' :: r => some (.unitStruct, r, tb)
    | 'v' :: r => do let (b, r) ← hexSemi r; pure (.unitVariant b, r, tb)
    | 'N' :: r => do let (p, r, tb) ← decP fuel r tb; pure (.newtypeStruct p, r, tb)
    | 'V' :: r => do
        let (b, r) ← hexSemi r
        let (p, r, tb) ← decP fuel r tb
        pure (.newtypeVariant b p, r, tb)
    | 'q' :: r => do
        let (h, r) ← takeUntilSemi [] r
        let hint ← hintOf h
        let (n, r) ← decSemi r
        let (xs, r, tb) ← decList fuel n r tb
        pure (.seq hint xs, r, tb)
    | 't' :: r => do
        let (n, r) ← decSemi r
        let (xs, r, tb) ← decList fuel n r tb
        pure (.tuple xs, r, tb)
    | 'T' :: r => do
        let (n, r) ← decSemi r
        let (xs, r, tb) ← decList fuel n r tb
        pure (.tupleStruct xs, r, tb)
    | 'X' :: r => do
        let (b, r) ← hexSemi r
        let (n, r) ← decSemi r
        let (xs, r, tb) ← decList fuel n r tb
        pure (.tupleVariant b xs, r, tb)
    | 'm' :: r => do
        let (h, r) ← takeUntilSemi [] r
        let hint ← hintOf h
        let (n, r) ← decSemi r
        let (es, r, tb) ← decEntries fuel n r tb
        pure (.map hint es, r, tb)
    | 'r' :: r => do
        let (n, r) ← decSemi r
        let (fs, r, tb) ← decFields fuel n r tb
        pure (.struct_ fs, r, tb)
    | 'R' :: r => do
        let (b, r) ← hexSemi r
        let (n, r) ← decSemi r
        let (fs, r, tb) ← decFields fuel n r tb
        pure (.structVariant b fs, r, tb)
    | 'l' :: r => do let (b, r) ← hexSemi r; pure (.collectStr b, r, tb)
    | _ => none
def decList : Nat → Nat → List Char → Tabs → Option (List SVal × List Char × Tabs)
  | 0, _, _, _ => none
  | _ + 1, 0, r, tb => some ([], r, tb)
  | fuel + 1, k + 1, r, tb => do
    let (p, r, tb) ← decP fuel r tb
    let (ps, r, tb) ← decList fuel k r tb
    pure (p :: ps, r, tb)
def decEntries : Nat → Nat → List Char → Tabs → Option (List (SVal × SVal) × List Char × Tabs)
  | 0, _, _, _ => none
  | _ + 1, 0, r, tb => some ([], r, tb)
  | fuel + 1, k + 1, r, tb => do
    let (a, r, tb) ← decP fuel r tb
    let (b, r, tb) ← decP fuel r tb
    let (ps, r, tb) ← decEntries fuel k r tb
    pure ((a, b) :: ps, r, tb)
def decFields : Nat → Nat → List Char → Tabs → Option (List (Bytes × SVal) × List Char × Tabs)
  | 0, _, _, _ => none
  | _ + 1, 0, r, tb => some ([], r, tb)
  | fuel + 1, k + 1, r, tb => do
    let (a, r) ← hexSemi r
    let (b, r, tb) ← decP fuel r tb
    let (ps, r, tb) ← decFields fuel k r tb
    pure ((a, b) :: ps, r, tb)
end

def decodeProg (s : String) : Option (SVal × Tabs) :=
  let cs := s.toList
  match decP (cs.length + 1) cs {} with
  | some (p, [], tb) => some (p, tb)
  | _ => none

def extOf (tb : Tabs) : Ext where
  itoa := Number.decimal
  ryu64 := fun b => match tb.t64.find? (·.1 == b) with | some (_, t) => t | none => []
  ryu32 := fun b => match tb.t32.find? (·.1 == b) with | some (_, t) => t | none => []

def errName : SerErr → String
  | .keyMustBeAString => "KeyMustBeAString"
  | .floatKeyMustBeFinite => "FloatKeyMustBeFinite"
  | .numberOutOfRange => "NumberOutOfRange"

def showRes (r : Except SerErr (List Bytes)) : String :=
  match r with
  | .ok bufs => "OK:" ++ hexField bufs.flatten
  | .error e => "ERR:" ++ errName e

def showBufs (r : Except SerErr (List Bytes)) : String :=
  match r with
  | .ok bufs => "OK:" ++ ",".intercalate (bufs.map hexField)
  | .error e => "ERR:" ++ errName e

/-- the implementation's observation: bytes, or an error class, or something else -/
inductive Obs where
  | ok (bs : Bytes)
  | err (cls : String)
  | other

def parseObs (impl : String) : Obs :=
  if impl.startsWith "OK:" then
    match bytesOfHex (impl.drop 3).toString with
    | some b => .ok b
    | none => .other
  else if impl.startsWith "ERR:" then .err (impl.drop 4).toString
  else .other

def allWs (bs : Bytes) : Bool := bs.all isWs

/-- the executable specification of C03 on one observed output.
    `pretty = none`: compact (no whitespace outside strings); `some indent`: equal to `layout`. -/
def specCheck (ext : Ext) (p : SVal) (pretty : Option Bytes) (impl : String) : Option String :=
  match parseObs impl, image ext p with
  | .other, _ => some "implementation neither returned bytes nor a key error"
  | .err c, .error e => if c == errName e then none else some s!"expected error class {errName e}"
  | .err _, .ok _ => some "the program has an image (all keys are strings) but serialisation failed"
  | .ok _, .error e => some s!"output produced although the image is undefined ({errName e})"
  | .ok bs, .ok d =>
    if !numbersWF d then some "a printed number (itoa/ryu text) is not an RFC 8259 number" else
    match pretty with
    | none =>
      match Recognise.recognise false bs with
      | none => some "output is not a JSON text without whitespace outside strings"
      | some t =>
        match den t with
        | none => some "output contains an unpaired surrogate escape"
        | some d' => if DV.beq d' d then none else some "output denotes a value different from the image"
    | some indent =>
      if bs != layout indent d then some "pretty output differs from layout(indent, image)" else
      if allWs indent then
        match Recognise.recognise true bs with
        | none => some "pretty output is not a JSON text"
        | some t =>
          match den t with
          | none => some "output contains an unpaired surrogate escape"
          | some d' => if DV.beq d' d then none else some "pretty output denotes a value different from the image"
      else none

def serc : Handler := fun args impl =>
  match args with
  | [pe] =>
    match decodeProg pe with
    | some (p, tb) =>
      let ext := extOf tb
      { model := showRes (serCompact ext p), spec := specCheck ext p none impl }
    | none => bad "decode"
  | _ => bad "arity"

def serp : Handler := fun args impl =>
  match args with
  | [ih, pe] =>
    match bytesOfHex ih, decodeProg pe with
    | some indent, some (p, tb) =>
      let ext := extOf tb
      { model := showRes (serPretty ext indent p), spec := specCheck ext p (some indent) impl }
    | _, _ => bad "decode"
  | _ => bad "arity"

def fmtOf (s : String) : Option (Option Bytes) :=
  if s == "c" then some none
  else if s.startsWith "p" then (bytesOfHex (s.drop 1).toString).map some
  else none

def serbufs : Handler := fun args _ =>
  match args with
  | [fe, pe] =>
    match fmtOf fe, decodeProg pe with
    | some none, some (p, tb) => { model := showBufs (serCompact (extOf tb) p) }
    | some (some indent), some (p, tb) =>
      -- `current_indent -= 1` at 0: a panic in the harness build (overflow checks on)
      if prettyUnderflows (extOf tb) indent p then { model := "PANIC" }
      else { model := showBufs (serPretty (extOf tb) indent p) }
    | _, _ => bad "decode"
  | _ => bad "arity"

/-- `hex16:hextext,…` -/
def decodeFloatTable (s : String) : Option Tabs :=
  if s == "-" then some {} else
  (s.splitOn ",").foldl (fun acc item =>
    match acc, item.splitOn ":" with
    | some tb, [h, t] =>
      match natOfHexChars h.toList, bytesOfHex t with
      | some n, some txt => some { tb with t64 := (UInt64.ofNat n, txt) :: tb.t64 }
      | _, _ => none
    | _, _ => none) (some {})

def hexOrErr (r : Except SerErr (List Bytes)) : String :=
  match r with
  | .ok bufs => hexField bufs.flatten
  | .error e => "ERR:" ++ errName e

def disp : Handler := fun args impl =>
  match args with
  | [ve, te] =>
    match decodeJV ve, decodeFloatTable te with
    | some v, some tb =>
      let ext := extOf tb
      -- `format!` through the adapter model (`Model.Display.format`); `to_string` / `to_string_pretty` below
      let fm := fun (alt : Bool) => match Model.Display.format ext v alt with
        | some t => hexField t
        | none => "ERR:fmt::Error"
      let c := fm false
      let p := fm true
      let c' := hexOrErr ((Model.Display.toString ext v).map fun t => [t])
      let p' := hexOrErr ((Model.Display.toStringPretty ext v).map fun t => [t])
      let spec :=
        match impl.splitOn "|" with
        | [d1, d2, s1, s2] =>
          if d1 != s1 then some "format!(\"{}\") differs from to_string"
          else if d2 != s2 then some "format!(\"{:#}\") differs from to_string_pretty"
          else
            match specCheck ext (ofValue v) none ("OK:" ++ s1), specCheck ext (ofValue v) (some defaultIndent) ("OK:" ++ s2) with
            | some m, _ => some ("to_string: " ++ m)
            | _, some m => some ("to_string_pretty: " ++ m)
            | none, none => none
        | _ => some "malformed observation"
      { model := s!"{c}|{p}|{c'}|{p'}", spec := spec }
    | _, _ => bad "decode"
  | _ => bad "arity"

/-- `count|frag,frag,…` (`-` for none; an empty fragment is `-` too, hence the count) -/
def showFrags (frs : List Bytes) : String :=
  s!"{frs.length}|" ++ (if frs.isEmpty then "-" else ",".intercalate (frs.map hexField))

def decodeFrags (cnt lst : String) : Option (List Bytes) :=
  match cnt.toNat? with
  | none => none
  | some 0 => if lst == "-" then some [] else none
  | some n =>
    let fs := (lst.splitOn ",").map bytesOfHex
    if fs.length == n && fs.all Option.isSome then some (fs.filterMap id) else none

def isPrefixB : Bytes → Bytes → Bool
  | [], _ => true
  | _ :: _, [] => false
  | a :: as, b :: bs => a == b && isPrefixB as bs

/-- the executable specification of the `Display` clauses on one observation of `dispf`: what the sink was handed
    are valid `&str`s, they are a prefix of the `to_string(_pretty)` text cut before a rejected fragment, the result
    is `Ok` exactly when the sink holds the whole text, `Err(fmt::Error)` exactly when the text exceeds the budget -/
def dispfSpec (budget : Option Nat) (impl : String) : Option String :=
  match impl.splitOn "|" with
  | [r, cnt, lst, txt] =>
    match decodeFrags cnt lst, bytesOfHex txt with
    | some frs, some text =>
      let held := frs.flatten
      if r != "OK" && r != "ERR" then some "C03 Display::fmt returned neither Ok nor fmt::Error"
      else if !frs.all Spec.Utf8.validUtf8 then some "C03 a fragment handed to write_str (from_utf8_unchecked) is not valid UTF-8"
      else if !isPrefixB held text then some "C03 the accepted fragments are not a prefix of the to_string text"
      else if (r == "OK") != (held == text) then some "C03 Display::fmt is Ok although the sink does not hold the whole text, or fmt::Error although it does"
      else match budget with
        | none => if r == "OK" then none else some "C03 Display::fmt failed on a sink that never fails"
        | some m =>
          if decide (m < held.length) then some "C03 the sink holds more than its budget"
          else if (r == "ERR") != decide (m < text.length) then some "C03 fmt::Error must be returned exactly when the text exceeds the budget"
          else none
    | _, _ => some "C03 malformed observation"
  | _ => if impl == "PANIC" then some "C03 Display::fmt panicked" else some "C03 malformed observation"

def resName (r : Except Model.Display.FmtError Unit) : String :=
  match r with
  | .ok _ => "OK"
  | .error _ => "ERR"

def dispf : Handler := fun args impl =>
  match args with
  | [ve, te, ae, be] =>
    match decodeJV ve, decodeFloatTable te, (if be == "-" then some none else be.toNat?.map some) with
    | some v, some tb, some budget =>
      let ext := extOf tb
      let alt := ae == "1"
      let sink := match budget with
        | none => Model.Display.Sink.unbounded
        | some m => Model.Display.Sink.budget m
      let (wr, r) := Model.Display.fmtValue ext v alt sink
      let text := hexOrErr ((if alt then Model.Display.toStringPretty ext v else Model.Display.toString ext v).map fun t => [t])
      if wr.ub then { model := "UB:from_utf8_unchecked", spec := dispfSpec budget impl }
      else { model := s!"{resName r}|{showFrags wr.inner.accepted}|{text}", spec := dispfSpec budget impl }
    | _, _, _ => bad "decode"
  | _ => bad "arity"

/-- `Display for Number`: one `write_str` of the number's text, equal to `to_string(&n)` -/
def dispn : Handler := fun args impl =>
  match args with
  | [ve, te] =>
    match decodeJV ve, decodeFloatTable te with
    | some (.num n), some tb =>
      let ext := extOf tb
      let t := Model.Display.numberText ext n
      let r := match Model.Display.fmtNumber ext n Model.Display.Sink.unbounded with
        | .ok s => s!"OK|{showFrags s.accepted}"
        | .error _ => "ERR|0|-"
      let spec :=
        match impl.splitOn "|" with
        | [r, cnt, lst, txt] =>
          match decodeFrags cnt lst, bytesOfHex txt with
          | some frs, some text =>
            if r != "OK" then some "C03 Display for Number failed on a sink that never fails"
            else if frs.flatten != text then some "C03 Display for Number differs from to_string(&number)"
            else if !Number.isNumber text then some "C03 Display for Number is not an RFC 8259 number"
            else none
          | _, _ => some "C03 malformed observation"
        | _ => some "C03 Display for Number panicked or malformed observation"
      { model := s!"{r}|{hexField t}", spec := spec }
    | _, _ => bad "decode"
  | _ => bad "arity"

def handlers : List (String × Handler) :=
  [("serc", serc), ("serp", serp), ("serbufs", serbufs), ("serbufx", serbufs), ("disp", disp),
   ("dispf", dispf),
   ("dispn", dispn)]

end SJ.Drv.C03
