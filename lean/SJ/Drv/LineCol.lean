import SJ.Drv.Typed
import SJ.Drv.C01
import SJ.Drv.C12
import SJ.Model.LineCol
import SJ.Spec.Pos
/-!
Driver handlers for the line / column bookkeeping (`SJ.Model.LineCol`, `harness/src/linecol.rs`,
`docs/LINECOL-NOTES.md`).

Everywhere else the driver prints a model's error index through the specification `lineCol`. Here the MODEL side goes
through the transcription of what the crate does — `positionOfIndex` (`SliceRead::position_of_index`, also `&str`) and
`readerLineCol` (`LineColIterator`'s counters as read by `IoRead::position`), `IoPos.byteOffset` /
`SlicePos.byteOffset` for stream offsets — and `lineCol` is used on the SPECIFICATION side only.

* `lc3 <cfg> <schema> <kind> <hex doc> => <str>|<slice>|<reader>` — one text from the three sources (`-` for `str` when
  not UTF-8), outcomes as in `tt3`. `kind = plant`: the harness built the text from a well-typed token sequence with
  newline-rich gaps and planted one byte that no JSON continuation allows; `kind = free`: crafted and mutated texts.
  Specification: C09 (typed: same class, positions at most one byte apart, `str` = slice; `Value` / ignored: identical);
  C11 (`Value` / ignored targets): no panic, `judgePos` of `Drv/C01.lean`, and for `plant` the reported (line, column)
  is exactly `lineCol bs (d + 1)` for the first dead byte `d` found by the independent scanner `Spec.Pos`.
* `lcs <cfg> <tgt> <calls> <hex> => <str>|<slice>|<reader>` — `StreamDeserializer` histories (`item@byte_offset`).
  Specification: C09 (three histories identical); C12's grammar-derived history (items' classes and offsets); C11: the
  first error item sits at `lineCol bs (d + 1)` when the stream dies at byte `d` (a side-condition error — number out
  of range, escape value, depth — only has to lie at or before it).
-/
namespace SJ.Drv.LineCol
open SJ SJ.Drv SJ.Drv.Mach SJ.Model.Typed SJ.Model.LineCol
open SJ.Model.Machine (Src Tgt lineCol)
abbrev MEnv := SJ.Model.Machine.Env

/-- `line:col` as the given source computes it from the index a parser model reports; `none` = the crate would panic
    (`&slice[..i]` out of range) -/
def posOf (src : Src) (bs : Bytes) (idx : Nat) : Option String :=
  match src with
  | .reader => let (l, c) := readerLineCol bs idx; some s!"{l}:{c}"
  | _ => (positionOfIndex bs idx).map fun (l, c) => s!"{l}:{c}"

def showTopLC (src : Src) (bs : Bytes) (dataMsg : String) : Top → String
  | .ok v => "OK:" ++ v.enc
  | .err c idx =>
    match posOf src bs idx with
    | some p => s!"E:{hexOfBytes (Gen.message c)}:{catName (Gen.classify c)}:{p}"
    | none => "PANIC"
  | .data (some idx) =>
    match posOf src bs idx with
    | some p => s!"E:{dataMsg}:data:{p}"
    | none => "PANIC"
  | .data none => s!"E:{dataMsg}:data:0:0"
  | .io => "IO"
  | .fuel => "FUEL"

/-- C11 for a planted text: the first dead byte `d` (independent scanner) must be reported, as a syntax error, at
    `lineCol bs (d + 1)` -/
def judgePlant (srcName : String) (bs : Bytes) (d : Nat) (o : String) : Option String :=
  if o == "-" then none else
  let (el, ec) := lineCol bs (d + 1)
  match o.splitOn ":" with
  | ["E", _, "syntax", ls, cs] =>
    if ls == toString el && cs == toString ec then none
    else some s!"C11 {srcName}: the planted offending byte {d} is at {el}:{ec}, reported {ls}:{cs}"
  | _ => some s!"C11 {srcName}: the planted offending byte {d} (at {el}:{ec}) is not reported as a syntax error: {o}"

/-- the dead byte of a planted text, when the position the crate must report is exactly that byte
    (not inside a `\u` group) -/
def plantedDead (bs : Bytes) : Option Nat :=
  match Spec.Pos.verdict bs with
  | .dead d none => some d
  | .dead d (some i) => if i.hexEnd == 0 then some d else none
  | _ => none

def lc3 : Handler := fun args impl =>
  match args with
  | [c, se, kind, h] =>
    match Schema.decode se, bytesOfHex h with
    | some s, some bs =>
      match impl.splitOn "|" with
      | [o1, o2, o3] =>
        let m (src : Src) (o : String) : String :=
          if o == "-" then "-" else showTopLC src bs (SJ.Drv.Typed.dataMsgOf o) (deTypedTop (SJ.Drv.Typed.envOf c src) s bs)
        let untyped := se == "a" || se == "x"
        let panics := [("str", o1), ("slice", o2), ("reader", o3)].filterMap fun (n, o) =>
          if o == "PANIC" then some s!"C11 {n}: panic while deserialising / positioning an error" else none
        let c09 :=
          if untyped then (SJ.Drv.C01.judgeSources [o1, o2, o3]).toList
          else SJ.Drv.Typed.judgePair bs "str" "slice" true o1 o2 ++ SJ.Drv.Typed.judgePair bs "slice" "reader" false o2 o3
        let c11 := if untyped then
            [SJ.Drv.C01.judgePos "str" bs o1, SJ.Drv.C01.judgePos "slice" bs o2, SJ.Drv.C01.judgePos "reader" bs o3].filterMap id
          else []
        if kind == "plant" then
          match plantedDead bs with
          | none => bad "planted text is not dead at a definite byte"
          | some d =>
            let pl := if untyped then
                [judgePlant "str" bs d o1, judgePlant "slice" bs d o2, judgePlant "reader" bs d o3].filterMap id
              else []
            { model := m .str o1 ++ "|" ++ m .slice o2 ++ "|" ++ m .reader o3, specs := panics ++ c09 ++ c11 ++ pl }
        else
          { model := m .str o1 ++ "|" ++ m .slice o2 ++ "|" ++ m .reader o3, specs := panics ++ c09 ++ c11 }
      | _ => bad "obs"
    | _, _ => bad "decode"
  | _ => bad "arity"

/-! ## streams -/

open SJ.Model.Stream in
/-- `byte_offset()` as the source computes it when `consumed` bytes are consumed and (reader only) one more byte sits
    in the peek slot -/
def offOf (src : Src) (bs : Bytes) (consumed : Nat) (peeked : Bool) : Nat :=
  match src with
  | .reader =>
    let pk := peeked && consumed < bs.length
    (IoPos.at bs (consumed + (if pk then 1 else 0)) pk).byteOffset
  | _ => (SlicePos.mk bs consumed).byteOffset

open SJ.Model.Stream in
/-- one `next()` + `byte_offset()`: the printed item, the new state, whether it was an error.
    Where `self.offset = self.de.read.byte_offset()` is executed and what is in the reader's peek slot then:
    at end of input — nothing; before `deserialize` — the first byte of the value, peeked by `parse_whitespace`
    (this is the offset that stays when the value fails); after a value — nothing for `[`/`{`/`"`-values and idents
    (`parse_ident` consumes with `next_char`), the byte that ended the digits for a number. -/
def lcNext (env : MEnv) (bs : Bytes) (st : SS) (afterErr : Bool) : String × SS × Bool :=
  let (it, st') := next env st
  if st.failed then ("N", st', false) else
  let (r, p) := skipWs st.rest st.pos
  match r with
  | [] => (if afterErr then "N" else s!"N@{offOf env.src bs p false}", st', false)
  | b :: _ =>
    let isNum := b == 0x2d || (0x30 ≤ b && b ≤ 0x39)
    match it with
    | .none => ("N", st', false)
    | .ok v =>
      let o := offOf env.src bs st'.pos isNum
      ((if env.tgt = .value then "V" ++ encJV v else "U") ++ s!"@{o}", st', false)
    | .err c idx =>
      let o := if st'.failed then offOf env.src bs p true else offOf env.src bs st'.pos isNum
      match posOf env.src bs idx with
      | some ps => (s!"E:{hexOfBytes (Gen.message c)}:{catName (Gen.classify c)}:{ps}@{o}", st', true)
      | none => ("PANIC", st', true)

open SJ.Model.Stream in
def lcHistory (env : MEnv) (bs : Bytes) : Nat → SS → Bool → List String
  | 0, _, _ => []
  | k + 1, st, afterErr =>
    let (s, st', e) := lcNext env bs st afterErr
    s :: lcHistory env bs k st' (afterErr || e)

/-- index of the first byte of a stream of values after which no continuation is a stream of JSON values
    (a scalar not followed by a delimiter dies at the byte after it) -/
partial def streamDead (bs : Bytes) : Option Nat :=
  let rec go (rest : Bytes) (pos : Nat) : Option Nat :=
    let (r, p) := Spec.Pos.skipWs rest pos
    match r with
    | [] => none
    | b :: _ =>
      match Spec.Pos.scanValue (2 * r.length + 4) r p with
      | .eof => none
      | .dead d none => some d
      | .dead d (some i) => if i.hexEnd == 0 then some d else none
      | .ok rest' e =>
        let selfDel := b == 0x5b || b == 0x22 || b == 0x7b
        match rest' with
        | [] => none
        | x :: _ =>
          if selfDel || Spec.Grammar.isWs x || x == 0x22 || x == 0x5b || x == 0x5d || x == 0x7b || x == 0x7d || x == 0x2c || x == 0x3a
          then (if e > p then go rest' e else none)
          else some e
  go bs 0

/-- position of the first error item of a history -/
def firstErrPos (o : String) : Option (String × String × String) :=
  ((o.splitOn ",").filterMap fun it =>
    match (it.splitOn "@").headD "" |>.splitOn ":" with
    | ["E", msg, cat, l, c] => some (msg, cat, s!"{l}:{c}")
    | _ => none).head?

def lcs : Handler := fun args impl =>
  match args with
  | [c, t, ks, h] =>
    match tgtOfTag t, ks.toNat?, bytesOfHex h with
    | some tgt, some k, some bs =>
      match impl.splitOn "|" with
      | [o1, o2, o3] =>
        let cfg := cfgOfTag c
        let m (src : Src) (o : String) : String :=
          if o == "-" then "-" else
          let env : MEnv := { cfg := cfg, src := src, tgt := tgt }
          String.intercalate "," (lcHistory env bs k (SJ.Model.Stream.start bs) false)
        let c09 :=
          (if o1 != "-" && o1 != o2 then [s!"C09 stream: str and slice histories differ ({o1} vs {o2})"] else []) ++
          (if o2 != o3 then [s!"C09 stream: slice and reader histories differ ({o2} vs {o3})"] else [])
        let panics := if (impl.splitOn "PANIC").length > 1 then ["C11 panic in a stream history"] else []
        -- C12's grammar-derived history: classes and offsets (side-condition errors are Syntax errors at the item, as the grammar history says)
        let c12 := [("str", o1, false), ("slice", o2, true), ("reader", o3, true)].filterMap fun (n, o, byteSrc) =>
          if o == "-" then none else
          let exp := SJ.Drv.C12.specHistory cfg tgt byteSrc bs k
          let got := (o.splitOn ",").map SJ.Drv.C12.projItem
          if got == exp then none
          else some s!"C12 {n}: stream history differs from the grammar's: expected {String.intercalate "," exp}"
        let c11 := match streamDead bs with
          | none => []
          | some d =>
            let (el, ec) := lineCol bs (d + 1)
            [("str", o1), ("slice", o2), ("reader", o3)].filterMap fun (n, o) =>
              if o == "-" then none else
              match firstErrPos o with
              | some (msg, "syntax", p) =>
                -- a side-condition error (number out of range, bad escape value, depth) is raised inside a
                -- grammatical item, before the first grammar-dead byte: C11 only asks it to lie within the input
                if SJ.Drv.C01.isSideMsg msg then
                  (match p.splitOn ":" with
                   | [l, c] =>
                     if (SJ.Drv.C01.idxOfLineCol bs (l.toNat?.getD 0) (c.toNat?.getD 0)).any (· ≤ d + 1) then none
                     else some s!"C11 {n}: side-condition error at {p}, not at or before the dead byte {d} = {el}:{ec}"
                   | _ => some s!"C11 {n}: unreadable position {p}")
                else if p == s!"{el}:{ec}" then none
                else some s!"C11 {n}: the stream dies at byte {d} = {el}:{ec}, first error reported at {p}"
              | some (_, cat, p) => some s!"C11 {n}: the stream dies at byte {d} = {el}:{ec}, first error is {cat} at {p}"
              | none => some s!"C11 {n}: the stream dies at byte {d} = {el}:{ec}, no error reported"
        -- nesting-limit clause: the first error item, when it is the nesting-limit error, sits exactly at the 128th opening
        -- bracket of its item (lexical scan `Spec.Pos.depthOpener`; whether or not the stream is grammar-dead anywhere)
        let c11d := [("str", o1), ("slice", o2), ("reader", o3)].filterMap fun (n, o) =>
          if o == "-" then none else
          match firstErrPos o with
          | some (msg, "syntax", p) =>
            if SJ.Drv.C01.isDepthMsg msg then
              (match p.splitOn ":" with
               | [l, c] => SJ.Drv.C01.judgeDepthPos n bs (l.toNat?.getD 0) (c.toNat?.getD 0)
               | _ => some s!"C11 {n}: unreadable position {p}")
            else none
          | _ => none
        { model := m .str o1 ++ "|" ++ m .slice o2 ++ "|" ++ m .reader o3, specs := panics ++ c09 ++ c12 ++ c11 ++ c11d }
      | _ => bad "obs"
    | _, _, _ => bad "decode"
  | _ => bad "arity"

def handlers : List (String × Handler) := [("lc3", lc3), ("lcs", lcs)]

end SJ.Drv.LineCol
