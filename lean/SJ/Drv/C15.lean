import SJ.Drv.Base
import SJ.Drv.Mach
import SJ.Drv.C03
import SJ.Spec.ValueOf
import SJ.Model.ToValue
import SJ.Model.Ser
/-!
# C15 driver handlers

* `tov <cfg> <short> <prog> <wtable> => OK:<value wire enc> | ERR:<class>` — `serde_json::to_value(&Prog)`.
  Model: `Model.ToValue.toValue`. Specification (independent of the model; `Spec.Image` + `Spec.ValueOf`
  only): the observed result against the data-model image of the f32-widened program.
* `tovagree <cfg> <short> <prog> <wtable> => <to_value>|<to_string>|<from_str(to_string(widened))>` — the
  property's own statement evaluated on three observations of the implementation: `to_value` succeeds iff
  `to_string` does (modulo the 128-bit exception), with the same error class, and the `Value` equals the one
  parsed back from the text of the f32-widened data. Model: `toValue`, `serCompact` and the model parser
  (`Model.Machine.parseTop`) run on the model's own text.

`cfg`: feature names joined by `+` (`d` = default). `short`: `1` when every finite `f64` serialised as a
value (after widening) prints with ≤ 15 significant digits and a decimal exponent of magnitude ≤ 22 — the
case in which the default (non-`float_roundtrip`) parser is exact (C08); otherwise (and not under `fr` /
`ap`) values are compared with the floats erased. `wtable`: `hex16:hextext,…` — the text the crate prints
for each widened `f32` (the driver cannot compute `ryu`), `-` when empty.
Messages start with `C15 `; the `Some(_)`-key deviation of the pinned tree has its own prefix
`C15 some-key:` (known finding).
-/
namespace SJ.Drv.C15
open SJ SJ.Drv SJ.Spec SJ.Spec.Program SJ.Spec.Image SJ.Spec.ValueOf SJ.Spec.Denote
open SJ.Model.Machine (Cfg parseTop)

def specCfg (c : Cfg) : Spec.Canon.Cfg := { po := c.po, fr := c.fr, ap := c.ap, limitOff := c.limitOff }

/-- the printers: `itoa` = decimal digits; `ryu` = lookup in the texts shipped with the case -/
def extOf (tb wt : C03.Tabs) : Ext := C03.extOf { t64 := tb.t64 ++ wt.t64, t32 := tb.t32 ++ wt.t32 }

def showTv (r : Except SerErr JV) : String :=
  match r with
  | .ok v => "OK:" ++ encJV v
  | .error e => "ERR:" ++ C03.errName e

mutual
/-- floats replaced by zero (comparison "up to float accuracy" when neither short, `fr` nor `ap`) -/
partial def eraseFloats : JV → JV
  | .num (.float _) => .num (.float 0)
  | .arr xs => .arr (xs.map eraseFloats)
  | .obj kvs => .obj (kvs.map fun (k, v) => (k, eraseFloats v))
  | v => v
end

/-- are floats compared exactly? -/
def exact (cfg : Cfg) (short : Bool) : Bool := cfg.fr || cfg.ap || short

def sameValue (ex : Bool) (a b : JV) : Bool :=
  if ex then encJV a == encJV b else encJV (eraseFloats a) == encJV (eraseFloats b)

structure Case where
  cfg : Cfg
  short : Bool
  p : SVal
  ext : Ext

def decodeCase (args : List String) : Option Case :=
  match args with
  | [ct, sh, pe, wt] =>
    match C03.decodeProg pe, C03.decodeFloatTable wt with
    | some (p, tb), some w => some { cfg := Mach.cfgOfTag ct, short := sh == "1", p := p, ext := extOf tb w }
    | _, _ => none
  | _ => none

/-- the 128-bit exception applies -/
def blocked (c : Case) : Bool := !c.cfg.ap && has128OutOfRange c.p

/-- the specification of `to_value` on one observation (`OK:<enc>` / `ERR:<class>`) -/
def specTov (c : Case) (obs : String) : Option String :=
  let img := image c.ext (widenF32 c.cfg.ap c.p)
  if obs.startsWith "ERR:" then
    let cls := (obs.drop 4).toString
    match img with
    | .error e =>
      if cls == C03.errName e then none
      else if blocked c && cls == "NumberOutOfRange" then none
      else if hasSomeKey c.p && cls == "KeyMustBeAString" then
        some "C15 some-key: to_value reports KeyMustBeAString at a Some(_) key before the key the text serializer rejects"
      else some s!"C15 tov: error class {cls}, the first non-string key gives {C03.errName e}"
    | .ok _ =>
      if blocked c && cls == "NumberOutOfRange" then none
      else if hasSomeKey c.p && cls == "KeyMustBeAString" then
        some "C15 some-key: to_value rejects a Some(_) map key that to_string accepts (value::ser::MapKeySerializer::serialize_some)"
      else if blocked c then some s!"C15 tov: expected NumberOutOfRange (128-bit integer out of range), got {cls}"
      else some s!"C15 tov: to_value failed ({cls}) although all keys are strings and no 128-bit integer is out of range"
  else if obs.startsWith "OK:" then
    match decodeJV (obs.drop 3).toString, img with
    | none, _ => some "C15 tov: undecodable value"
    | some _, .error e => some s!"C15 tov: to_value succeeded although a key is not a string ({C03.errName e})"
    | some v, .ok d =>
      if blocked c then some "C15 tov: to_value succeeded on a 128-bit integer outside [i64::MIN, u64::MAX] without arbitrary_precision"
      else
        match valueOfImage (specCfg c.cfg) d with
        | none => some "C15 tov: a printed number is out of the f64 range"
        | some w =>
          if sameValue (exact c.cfg c.short) v w then none
          else some s!"C15 tov: value differs from the value the image denotes ({encJV w})"
  else some "C15 tov: neither a value nor an error (panic?)"

def tov : Handler := fun args impl =>
  match decodeCase args with
  | some c => { model := showTv (Model.ToValue.toValue c.cfg c.ext c.p), spec := specTov c impl }
  | none => bad "decode"

/-- the model of the third observation: the model parser on the model's text of the widened program -/
def parsedBack (c : Case) : String :=
  match Model.Ser.serCompact c.ext (widenF32 c.cfg.ap c.p) with
  | .error _ => "-"
  | .ok bufs =>
    match parseTop { cfg := c.cfg, src := .str, tgt := .value } bufs.flatten with
    | .ok v => "OK:" ++ encJV v
    | .err _ _ => "PERR"

/-- the property's statement on the three observations -/
def specAgree (c : Case) (impl : String) : List String :=
  match impl.splitOn "|" with
  | [a, s, b] =>
    let aOk := a.startsWith "OK:"
    let sOk := s.startsWith "OK:"
    if !(aOk || a.startsWith "ERR:") || !(sOk || s.startsWith "ERR:") then ["C15 agree: panic or malformed observation"] else
    let aCls := (a.drop 4).toString
    let sCls := (s.drop 4).toString
    if aOk && !sOk then [s!"C15 agree: to_value succeeds but to_string fails ({sCls})"]
    else if !aOk && sOk then
      if blocked c && aCls == "NumberOutOfRange" then []
      else if hasSomeKey c.p && aCls == "KeyMustBeAString" then
        ["C15 some-key: to_value rejects a Some(_) map key that to_string accepts (value::ser::MapKeySerializer::serialize_some)"]
      else if blocked c then [s!"C15 agree: 128-bit exception, but the error is {aCls}"]
      else [s!"C15 agree: to_string succeeds but to_value fails ({aCls})"]
    else if !aOk && !sOk then
      if aCls == sCls then []
      else if blocked c && aCls == "NumberOutOfRange" then []
      else if hasSomeKey c.p && aCls == "KeyMustBeAString" then
        ["C15 some-key: to_value reports KeyMustBeAString at a Some(_) key before the key the text serializer rejects"]
      else [s!"C15 agree: the two serializers fail with different classes ({aCls} / {sCls})"]
    else
      if blocked c then ["C15 agree: to_value succeeded on a 128-bit integer outside [i64::MIN, u64::MAX] without arbitrary_precision"] else
      if !b.startsWith "OK:" then [s!"C15 agree: the text of the data does not parse back ({b})"] else
      match decodeJV (a.drop 3).toString, decodeJV (b.drop 3).toString with
      | some va, some vb =>
        if sameValue (exact c.cfg c.short) va vb then []
        else ["C15 agree: to_value differs from the Value parsed from to_string of the (f32-widened) data"]
      | _, _ => ["C15 agree: undecodable value"]
  | _ => ["C15 agree: malformed observation"]

def tovagree : Handler := fun args impl =>
  match decodeCase args with
  | some c =>
    let a := showTv (Model.ToValue.toValue c.cfg c.ext c.p)
    let s := C03.showRes (Model.Ser.serCompact c.ext c.p)
    { model := s!"{a}|{s}|{parsedBack c}", specs := specAgree c impl }
  | none => bad "decode"

def handlers : List (String × Handler) := [("tov", tov), ("tovagree", tovagree)]

end SJ.Drv.C15
