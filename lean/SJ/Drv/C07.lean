import SJ.Drv.Base
import SJ.Spec.Rec
import SJ.Spec.Canon
import SJ.Model.Lexical
/-!
Driver handlers of C07 (`float_roundtrip`: decimal → float is correctly rounded).

* `model` = the transcription of `de.rs` + `lexical` (`Model.Lexical.deFloatRoundtrip`), bit for bit;
* `spec`  = the independent specification: `Spec.Ieee.roundNE64` / `Spec.Ieee.roundNE32` of the literal's
  exact value (`Model.Num.exact`: digits and exponent as naturals), sign kept, underflow to ±0, rejected
  iff the rounded value is not finite — evaluated on the implementation's own output.
-/
namespace SJ.Drv.C07
open SJ SJ.Drv SJ.Model.Num SJ.Model.Lexical

def partsOfLit (bs : Bytes) : Option Parts :=
  match Spec.Rec.pNumber bs with
  | some (p, []) => if p.bytes == bs then some (Spec.Canon.partsOf p) else none
  | _ => none

def hexN (width : Nat) (n : Nat) : String :=
  let ds := Nat.toDigits 16 n
  String.ofList (List.replicate (width - ds.length) '0' ++ ds)

def show64 (o : Option UInt64) : String := match o with | some b => "B" ++ hexN 16 b.toNat | none => "E"
def show32 (o : Option UInt32) : String := match o with | some b => "B" ++ hexN 8 b.toNat | none => "E"

/-- what the f64 visitor receives: `visit_u64(n)`/`visit_i64(n)` are converted with `as f64`, `visit_f64` is kept -/
def toF64 : NRes → Option (Option UInt64)
  | .u64 n => some (some (Spec.Ieee.F64.ofU64 n))
  | .i64 k => some (some (Spec.Ieee.F64.neg (Spec.Ieee.F64.ofU64 k.natAbs)))
  | .f64 b => some (some b)
  | .outOfRange => some none
  | .outOfFuel => none

/-- what serde's `f32` visitor does: `visit_u64(n) → n as f32`, `visit_i64`, `visit_f64(x) → x as f32` -/
def toF32 : NRes → Option (Option UInt32)
  | .u64 n => some (some (Spec.Ieee.F32.ofU64 n))
  | .i64 k => some (some (Spec.Ieee.F32.neg (Spec.Ieee.F32.ofU64 k.natAbs)))
  | .f64 b => some (some (Spec.Ieee.F64.toF32 b))
  | .outOfRange => some none
  | .outOfFuel => none

/-- the specification, directly from the literal's exact value -/
def spec64 (p : Parts) : Option UInt64 :=
  match exact p with
  | .zero | .tiny => some (Spec.Ieee.F64.zero p.neg)
  | .huge => none
  | .rat n d => Spec.Ieee.roundNE64 p.neg n d

def spec32 (p : Parts) : Option UInt32 :=
  match exact p with
  | .zero | .tiny => some (if p.neg then 0x80000000 else 0)
  | .huge => none
  | .rat n d => Spec.Ieee.roundNE32 p.neg n d

def natOfHex (s : String) : Option Nat :=
  s.toList.foldlM (fun acc c =>
    if '0' ≤ c ∧ c ≤ '9' then some (acc * 16 + (c.toNat - 48))
    else if 'a' ≤ c ∧ c ≤ 'f' then some (acc * 16 + (c.toNat - 87)) else none) 0

/-- shape of known finding F-C07-zero-tail: the integer part is longer than `MAX_DIGITS - 1` digits, every digit
    after that is `0` and so is the whole fraction — `bhcomp::parse_mantissa` then appends a sticky `1` although
    nothing non-zero was dropped (only the fraction has its trailing zeros trimmed) -/
def zeroTail (single : Bool) (p : Parts) : Bool :=
  let k := (fc single).maxDigits - 1
  p.int.length > k && (p.int.drop k).all (· == 0x30) && (p.frac.getD []).all (· == 0x30)

/-- shape of known finding F-C07-f32-negint: `-n` with `2^63 < n < 2^64` and neither fraction nor exponent reaches
    the f32 visitor as `-(n as f64)` and is rounded a second time -/
def negIntF32 (p : Parts) : Bool :=
  p.neg && p.frac.isNone && p.exp.isNone && p.int.length ≤ 20 && natOfDigits p.int > 2 ^ 63 && natOfDigits p.int < 2 ^ 64

/-- shape of known finding F-C07-moderate-truncated: a mantissa cut to 19 digits that is `< 2^61` (normalised by
    3 bits, so the ≤ 1 unit lost becomes ≤ 8), scaled by the cached `10^-230` alone (the one cached power with
    `8·mant/2^64 + frac > 8.5`), accepted by `error_is_accurate` although the true error can exceed the 9 units booked -/
def moderateTruncated (p : Parts) : Bool :=
  match deCall false p with
  | .truncated integer fraction e =>
    let fraction := trimTrailingZeros fraction
    let (m, t) := truncatedMantissa (integer ++ fraction) 0
    t > 0 && m < 2 ^ 61 && mantissaExponent e fraction.length t == -230 && pathOf false (deCall false p) == .moderate
  | _ => false

def prevBits (s : String) : String :=
  match natOfHex (s.drop 1).toString with
  | some n => "B" ++ hexN (s.length - 1) (n - 1)
  | none => s

def nextBits (s : String) : String :=
  match natOfHex (s.drop 1).toString with
  | some n => "B" ++ hexN (s.length - 1) (n + 1)
  | none => s

/-- `f64rt <hex literal> => B<16 hex bits> | E` (str, slice, reader and `Value::as_f64` merged; `X…` if they differ).
    With `arbitrary_precision` a `Value` keeps the text and `as_f64` is `str::parse::<f64>` (std), so on the literals of
    the open findings the fourth path is right while the three lexical paths agree on the wrong bits: such an
    observation `Xa,a,a,d` with `d` = the specification's value is judged as `a` (the model mirrors it). -/
def f64rt : Handler := fun args impl =>
  match args with
  | [h] =>
    match (bytesOfHex h).bind partsOfLit with
    | some p =>
      match toF64 (deFloatRoundtrip false p) with
      | some m =>
        let want := show64 (spec64 p)
        let (lexImpl, viaStd) :=
          match (if impl.startsWith "X" then (impl.drop 1).toString.splitOn "," else []) with
          | [a, b, c, d] => if a == b && b == c && d == want then (a, true) else (impl, false)
          | _ => (impl, false)
        let tag := if zeroTail false p && lexImpl == nextBits want then " [zero-tail]"
                   else if moderateTruncated p && lexImpl == prevBits want then " [moderate-truncated]" else ""
        let ms := show64 m
        { model := if viaStd then s!"X{ms},{ms},{ms},{want}" else ms,
          specs := if lexImpl == want then [] else
            [s!"C07 f64{tag}: got {lexImpl}, the correctly rounded value of the literal is {want}"] }
      | none => bad "fuel"
    | none => bad "not a number literal"
  | _ => bad "arity"

/-- `f32rt <hex literal> => B<8 hex bits> | E` (str, slice, reader merged) -/
def f32rt : Handler := fun args impl =>
  match args with
  | [h] =>
    match (bytesOfHex h).bind partsOfLit with
    | some p =>
      match toF32 (deFloatRoundtrip true p) with
      | some m =>
        let want := show32 (spec32 p)
        let tag := if zeroTail true p && impl == nextBits want then " [zero-tail]"
                   else if negIntF32 p && impl == show32 (toF32 (deFloatRoundtrip false p)).join then " [negint-double-rounding]" else ""
        { model := show32 m,
          specs := if impl == want then [] else
            [s!"C07 f32{tag}: got {impl}, the correctly rounded value of the literal is {want}"] }
      | none => bad "fuel"
    | none => bad "not a number literal"
  | _ => bad "arity"

/-- `f64pr <16 hex bits> => <hex of to_string(f)>|<parse of that text>`: the printed text must be a JSON number
    whose nearest double is the input (`RyuShortest`), and parsing it must give the input back -/
def f64pr : Handler := fun args impl =>
  match args, impl.splitOn "|" with
  | [hb], [ht, _] =>
    match natOfHex hb, bytesOfHex ht with
    | some bits, some text =>
      match partsOfLit text with
      | some p =>
        let m := match toF64 (deFloatRoundtrip false p) with | some m => show64 m | none => "fuel"
        let orig := "B" ++ hexN 16 bits
        let s1 := if show64 (spec64 p) == orig then [] else [s!"C07 print: the nearest double of the printed text is {show64 (spec64 p)}, not the value printed"]
        let s2 := if impl == ht ++ "|" ++ orig then [] else [s!"C07 print→parse: f64 {orig} does not survive"]
        { model := ht ++ "|" ++ m, specs := s1 ++ s2 }
      | none => { model := impl, specs := ["C07 print: the text written for a finite f64 is not a JSON number"] }
    | _, _ => bad "decode"
  | _, _ => bad "arity"

def f32pr : Handler := fun args impl =>
  match args, impl.splitOn "|" with
  | [hb], [ht, _] =>
    match natOfHex hb, bytesOfHex ht with
    | some bits, some text =>
      match partsOfLit text with
      | some p =>
        let m := match toF32 (deFloatRoundtrip true p) with | some m => show32 m | none => "fuel"
        let orig := "B" ++ hexN 8 bits
        let s1 := if show32 (spec32 p) == orig then [] else [s!"C07 print: the nearest f32 of the printed text is {show32 (spec32 p)}, not the value printed"]
        let s2 := if impl == ht ++ "|" ++ orig then [] else [s!"C07 print→parse: f32 {orig} does not survive"]
        { model := ht ++ "|" ++ m, specs := s1 ++ s2 }
      | none => { model := impl, specs := ["C07 print: the text written for a finite f32 is not a JSON number"] }
    | _, _ => bad "decode"
  | _, _ => bad "arity"

/-- `f32all <count of finite patterns> => <mismatches>`: the exhaustive print → parse sweep run inside the harness -/
def f32all : Handler := fun args impl =>
  match args with
  | [n] =>
    let s1 := if impl == "0" then [] else [s!"C07 f32 round trip: {impl} of {n} finite bit patterns do not survive print → parse"]
    let s2 := if n == "4278190080" then [] else [s!"C07 f32 round trip: {n} finite patterns visited, expected 4278190080"]
    { model := "0", specs := s1 ++ s2 }
  | _ => bad "arity"

def handlers : List (String × Handler) :=
  [("f64rt", f64rt), ("f32rt", f32rt), ("f64pr", f64pr), ("f32pr", f32pr), ("f32all", f32all)]
end SJ.Drv.C07
