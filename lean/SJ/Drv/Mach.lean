import SJ.Drv.Base
import SJ.Model.Machine
/-! Shared driver helpers for the properties that run the byte-step machine. -/
namespace SJ.Drv.Mach
open SJ SJ.Drv SJ.Model.Machine

/-- configuration tag as printed by the harness: feature names joined by `+`, or `d` -/
def cfgOfTag (t : String) : Cfg :=
  let fs := t.splitOn "+"
  { po := fs.contains "po", fr := fs.contains "fr", ap := fs.contains "ap", limitOff := fs.contains "nolimit" }

def srcOfTag : String → Option Src
  | "str" => some .str | "slice" => some .slice | "reader" => some .reader | _ => none

def tgtOfTag : String → Option Tgt
  | "value" => some .value | "ignored" => some .ignored | _ => none

def catName : Gen.Cat → String
  | .io => "io" | .syntax => "syntax" | .data => "data" | .eof => "eof"

/-- canonical outcome: `V<value>` / `U` (ignored) / `E:<hex message>:<category>:<line>:<col>` -/
def showOutcome (env : Env) (bs : Bytes) (o : Outcome) : String :=
  match o with
  | .ok v => if env.tgt = .value then "V" ++ encJV v else "U"
  | .err c idx =>
    let (l, col) := lineCol bs idx
    s!"E:{hexOfBytes (Gen.message c)}:{catName (Gen.classify c)}:{l}:{col}"

def runShow (cfg : Cfg) (src : Src) (tgt : Tgt) (bs : Bytes) : String :=
  let env : Env := { cfg := cfg, src := src, tgt := tgt }
  showOutcome env bs (parseTop env bs)

/-- all three sources, `|`-separated; the `str` source is `-` when the input is not UTF-8 -/
def runAll (cfg : Cfg) (tgt : Tgt) (bs : Bytes) : String :=
  let s := if Spec.Utf8.validUtf8 bs then runShow cfg .str tgt bs else "-"
  s ++ "|" ++ runShow cfg .slice tgt bs ++ "|" ++ runShow cfg .reader tgt bs

/-- per-property projection of one source's outcome -/
def projectOne (prop o : String) : String :=
  if o == "-" then o
  else if prop == "C01" || prop == "C19" then (if o.startsWith "V" || o == "U" then "A" else if o == "PANIC" then o else "R")
  else if prop == "C02" || prop == "C04" || prop == "C06" || prop == "C07" || prop == "C08" || prop == "C20" then
    (if o.startsWith "V" || o == "U" then o else "R")
  else if prop == "C10" then
    (match o.splitOn ":" with
     | ["E", _, cat, l, c] => s!"E:{cat}:{l}:{c}"
     | _ => if o.startsWith "V" || o == "U" then "A" else o)
  else if prop == "C14" then (if o == "PANIC" then o else "ok")
  else o

def projectOutcome (prop obs : String) : String :=
  String.intercalate "|" ((obs.splitOn "|").map (projectOne prop))

end SJ.Drv.Mach
