import SJ.Drv.Mach
import SJ.Model.Raw
import SJ.Model.RawConv
import SJ.Spec.Canon
import SJ.Spec.Pos
namespace SJ.Drv.C19
open SJ SJ.Drv SJ.Drv.Mach SJ.Model.Machine SJ.Model.Raw

def showRaw (bs : Bytes) (withOff : Bool) (o : ROut) : String :=
  match o with
  | .ok p e => "R" ++ hexField ((bs.drop p).take (e - p)) ++ (if withOff then s!"@{p}" else "")
  | .err c idx =>
    let (l, col) := lineCol bs idx
    s!"E:{hexOfBytes (Gen.message c)}:{catName (Gen.classify c)}:{l}:{col}"

/-- the span the specification assigns: the input minus surrounding whitespace, provided it is one
    JSON value (grammar only: no depth/surrogate/range conditions) and — for byte sources — UTF-8 -/
def specSpan (bs : Bytes) (byteSource : Bool) : Option Bytes :=
  match Spec.Rec.recognise bs with
  | none => none
  | some _ =>
    let core := (Spec.Rec.skipWs bs).reverse
    let core := (Spec.Rec.skipWs core).reverse
    if byteSource && !Spec.Utf8.validUtf8 core then none else some core

/-- `rawtop <cfg> <hex> => boxed-str|borrowed-str|boxed-slice|borrowed-slice|boxed-reader` -/
def rawtop : Handler := fun args impl =>
  match args with
  | [c, h] =>
    match bytesOfHex h with
    | some bs =>
      let cfg := cfgOfTag c
      let isStr := Spec.Utf8.validUtf8 bs
      let m := String.intercalate "|" [
        (if isStr then showRaw bs false (rawTop cfg .str bs) else "-"),
        (if isStr then showRaw bs true (rawTop cfg .str bs) else "-"),
        showRaw bs false (rawTop cfg .slice bs), showRaw bs true (rawTop cfg .slice bs),
        showRaw bs false (rawTop cfg .reader bs)]
      let fields := impl.splitOn "|"
      let judge (i : Nat) (byteSource : Bool) : Option String :=
        let o := fields.getD i "-"
        if o == "-" then none else
        let got : Option String := if o.startsWith "R" then some (((o.drop 1).toString.splitOn "@").headD "") else none
        match specSpan bs byteSource, got with
        | some core, some g => if g == hexField core then none else some s!"C19 captured text {g} is not the value's source text {hexField core}"
        | some core, none => if o == "PANIC" then some "C19 panic" else some s!"C19 a valid JSON text was not captured ({o}); expected {hexField core}"
        | none, some g => some s!"C19 captured {g} from an input that is not one JSON value"
        | none, none => none
      -- C14: a RawValue is a `str`: whatever text comes back must be valid UTF-8
      let c14 := (fields.filterMap fun o =>
        if o.startsWith "R" then
          match bytesOfHex (((o.drop 1).toString.splitOn "@").headD "") with
          | some t => if Spec.Utf8.validUtf8 t then none else some s!"C14 a RawValue holds text that is not valid UTF-8: {o}"
          | none => none
        else none)
      { model := m, specs := ([judge 0 false, judge 1 false, judge 2 true, judge 3 true, judge 4 true].filterMap id) ++ c14 }
    | none => bad "hex"
  | _ => bad "arity"

/-- `rawelems <cfg> <hex doc> <expected spans> => spans per source` (the generator knows each span) -/
def rawelems : Handler := fun args impl =>
  match args with
  | [_, _, expect] =>
    let fields := impl.splitOn "|"
    let bad := fields.filter (· != expect)
    { model := String.intercalate "|" (fields.map fun _ => expect),
      specs := if bad.isEmpty then [] else [s!"C19 nested raw values: captured {bad.headD ""} instead of the elements' source texts {expect}"] }
  | _ => bad "arity"

/-- `rawstr <cfg> <hex> => ERR:cat | OK:text|to_string|pretty|nested|to_value|parse(text)` -/
def rawstr : Handler := fun args impl =>
  match args with
  | [c, h] =>
    match bytesOfHex h with
    | some bs =>
      let cfg := cfgOfTag c
      let exp := specSpan bs false
      -- the whole observation from the models: the text `rawTop` captures, written back verbatim at top level and as a
      -- sequence element (`Model.SerRaw`: one `write_all` of the text), and `to_value(&raw)` = `Model.RawConv.toValueRaw`
      let tvOf (t : Bytes) : String := match SJ.Model.RawConv.toValueRaw cfg t with | .ok v => encJV v | .err _ _ => "ERR"
      let modelFull := match rawTop cfg .str bs with
        | .ok p e =>
          let t := (bs.drop p).take (e - p)
          "OK:" ++ String.intercalate "|" [hexField t, hexField t, hexField t, hexOfBytes ([0x5b] ++ t ++ [0x5d]), tvOf t, tvOf t]
        | .err _ _ => "ERR"
      let modelOut := if modelFull.startsWith "OK:" then ((modelFull.splitOn "|").headD "") else "ERR"
      let implHead := if impl.startsWith "OK:" then ((impl.splitOn "|").headD "") else "ERR"
      let specs : List String :=
        match exp with
        | none => if impl.startsWith "OK:" then ["C19 RawValue::from_string accepted a string that is not one JSON text"] else []
        | some core =>
          if !impl.startsWith "OK:" then [s!"C19 RawValue::from_string rejected a valid JSON text"]
          else match (impl.drop 3).toString.splitOn "|" with
            | [text, ser, _pretty, nested, tv, pv] =>
              let t := hexField core
              (if text == t then [] else [s!"C19 from_string holds {text}, expected {t}"]) ++
              (if ser == t then [] else [s!"C19 RawValue does not serialise back verbatim: {ser}"]) ++
              (if nested == hexOfBytes ([0x5b] ++ core ++ [0x5d]) then [] else [s!"C19 nested RawValue not verbatim: {nested}"]) ++
              (if tv == pv then [] else [s!"C19 to_value(raw) {tv} differs from parsing its text {pv}"])
            | _ => ["C19 malformed observation"]
      { model := if implHead == "ERR" && modelOut == "ERR" then impl else modelFull, specs := specs }
    | none => bad "hex"
  | _ => bad "arity"

def handlers : List (String × Handler) := [("rawtop", rawtop), ("rawelems", rawelems), ("rawstr", rawstr)]
end SJ.Drv.C19
