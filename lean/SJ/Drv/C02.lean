import SJ.Drv.C01
/-!
Driver handler of op `hist32` (C02): a `Value` read from a `serde_json::Deserializer` from which an `f32` was requested
before (harness: `harness/src/c02.rs`).

```
hist32 <cfg> <mode> <src> <first> <second>  =>  <f32 request>|<item>,<item>,…
```
* `mode = two`: the text is `first ++ second` (`first` ends in the separator); `f32::deserialize(&mut de)`, then
  `Value::deserialize(&mut de)` until the input is exhausted (`END`). A `first` that is a container is not consumed by
  the failing request (`peek_invalid_type` reports `[` / `{` without reading on), so it is the first Value read.
* `mode = fld`: `{"gain":first,"payload":second}` into a struct whose `gain` is read by `f32::deserialize(d).ok()` and
  whose `payload` is a `Value`; `mode = seq`: `[first,second]` through a visitor doing the same with `next_element`.
* `<f32 request>` is `ok:<bits>` / `err` and is echoed (the property does not talk about it).

Model: every Value read after the request is what `Model.Machine` (`MachineAp` / `MachineRv` per configuration) returns
on that item's text ALONE, from the same kind of source — `Deserializer::single_precision` is `false` again whenever
`do_deserialize_f32` returns (`self.single_precision = true; let val = …; self.single_precision = false; val`), and no
other state of the Deserializer outlives an item. Specification: `Spec.Canon.expected` of the item's text and, for every
number of the returned value, `Spec.Decimal` / `Spec.Ieee` against its literal (`C01.judgeReturnedNumbers`: exact
integers; nearest-even double under float_roundtrip, within 5 ulp otherwise).
-/
namespace SJ.Drv.C02
open SJ SJ.Drv SJ.Drv.Mach SJ.Model.Machine

def fieldOf (src : String) (all : String) : String :=
  match all.splitOn "|", src with
  | [s, _, _], "str" => s
  | [_, sl, _], "slice" => sl
  | [_, _, rd], "reader" => rd
  | _, _ => "?"

/-- what parsing `bs` alone into a `Value` gives in the model: `V<value>` or `E` -/
def alone (cfgTag src : String) (bs : Bytes) : String :=
  let o := fieldOf src (MachRv.runAllFor cfgTag .value bs "||")
  if o.startsWith "V" then o else "E"

def isContainerStart (bs : Bytes) : Bool :=
  match (Spec.Rec.skipWs bs).head? with
  | some b => b == 0x5b || b == 0x7b
  | none => false

def retag (mode : String) (m : String) : String :=
  match m.splitOn "C02 " with
  | "" :: rest => s!"C02 after an f32 request on the same Deserializer ({mode}): " ++ "C02 ".intercalate rest
  | _ => m

/-- the verdicts of the specification on one Value read after the request, against the text of its item alone -/
def judgeItem (cfg : Cfg) (mode src : String) (bs : Bytes) (item : String) : List String :=
  let byteSource := src != "str"
  let v := (C01.judgeValue cfg src byteSource bs item).toList
  let ns := if v.isEmpty then C01.judgeReturnedNumbers cfg src (C01.rangeInfo bs) item else []
  (v ++ ns).map (retag mode)

def hist32 : Handler := fun args impl =>
  match args with
  | [c, mode, src, h1, h2] =>
    match bytesOfHex h1, bytesOfHex h2 with
    | some b1, some b2 =>
      if impl == "-" then { model := "-" } else
      let cfg := cfgOfTag c
      -- the texts read as Values after the request, in order
      let texts : List Bytes := if mode == "two" && isContainerStart b1 then [b1, b2] else [b2]
      let expItems := texts.map (alone c src) ++ (if mode == "two" then ["END"] else [])
      match impl.splitOn "|" with
      | [f, items] =>
        let its := items.splitOn ","
        let count :=
          if its.length != expItems.length then
            [s!"C02 after an f32 request on the same Deserializer ({mode}): {its.length} items read ({items}), expected {expItems.length}"]
          else []
        let vs := (texts.zip its).flatMap fun (bs, it) =>
          if it.startsWith "V" then judgeItem cfg mode src bs it
          else if (alone c src bs).startsWith "V" && (Spec.Canon.expected (C01.specCfg cfg) (src != "str") bs).isSome then
            [s!"C02 after an f32 request on the same Deserializer ({mode}): the following value was not read ({it}) although its text alone is a JSON text meeting the side conditions"]
          else []
        { model := f ++ "|" ++ ",".intercalate expItems, specs := count ++ vs }
      | _ => { model := "?|" ++ ",".intercalate expItems, specs := [s!"C02 after an f32 request on the same Deserializer ({mode}): malformed observation {impl}"] }
    | _, _ => bad "hex"
  | _ => bad "arity"

def handlers : List (String × Handler) := [("hist32", hist32)]

end SJ.Drv.C02
