import SJ.Model.PartialEqAp
import SJ.Spec.PrimEqAp
import SJ.Drv.Base
import SJ.Spec.Pointer
import SJ.Model.ValueOps
import SJ.Spec.Index
import SJ.Spec.PrimEq
import SJ.Spec.JsonMacro
import SJ.Model.ValueIndex
import SJ.Model.PartialEq
import SJ.Model.JsonMacro
import SJ.Drv.Mach
/-!
Driver handlers for C18.

```
ptr / ptrmut <doc> <pointer hex>         => N | S<node or document after the write>
vget      <probe> <doc>                  => <get: N|S<node>>|<get_mut then `*r = "#"`: N|S<doc>>
vindex    <probe> <doc>                  => <&doc[probe]>
vindexmut <cfg> <probe> <doc>            => PANIC | <node addressed>|<doc after `*r = "#"`>
vtake     <doc> <pointer hex>            => N | <taken>|<doc after>
peq       <ty> <comparand> <value>       => one t/f per impl form (4 for numbers and bool, 6 for strings)
jsonm     <cfg> <token tree>             => S<value built by json!>
jsonp     <cfg> <token tree> <text hex>  => V<from_str(equivalent JSON text)> | E:…
jsonmbuild <cfg> <count>                 => OK | E<hex of the first compiler error>
```
probe: `u<n>` usize, `s<hex>` str, `S<hex>` String, `r<probe>` a reference to one.
comparand: decimal integer; `f32`/`f64`: hex bits; `bool`: t/f; `str`: hex.
token tree: `N T F` idents, `c` comma, `k` colon, `L<v>` literal, `E<v>` expression, `P<v>` parenthesised,
`A<n>;…` / `O<n>;…` groups of n token trees (`<v>` in the value wire codec).
-/
namespace SJ.Drv.C18
open SJ SJ.Drv

def showOpt : Option JV → String
  | none => "N"
  | some v => "S" ++ encJV v

def sentinel : JV := .str [0x23]

def ptr : Handler := fun args impl =>
  match args with
  | [ve, ph] =>
    match decodeJV ve, bytesOfHex ph with
    | some v, some p =>
      let m := showOpt (Model.ValueOps.pointer v p)
      let s := showOpt (Spec.Pointer.eval v p)
      { model := m, spec := if s == impl then none else some s!"RFC 6901 evaluator gives {s}" }
    | _, _ => bad "decode"
  | _ => bad "arity"

def ptrmut : Handler := fun args impl =>
  match args with
  | [ve, ph] =>
    match decodeJV ve, bytesOfHex ph with
    | some v, some p =>
      let m := showOpt (Model.ValueOps.pointerSet v p sentinel)
      let s := showOpt (Spec.Pointer.set v p sentinel)
      { model := m, spec := if s == impl then none else some s!"RFC 6901 replace gives {s}" }
    | _, _ => bad "decode"
  | _ => bad "arity"

/-! ## get / Index / IndexMut / take -/

open SJ.Model.ValueIndex in
def decProbeChars : Nat → List Char → Option Probe
  | 0, _ => none
  | _ + 1, 'u' :: r => (natOfDecChars r).map .usize
  | _ + 1, 's' :: r => (bytesOfHex (String.ofList r)).map .str
  | _ + 1, 'S' :: r => (bytesOfHex (String.ofList r)).map .string
  | fuel + 1, 'r' :: r => (decProbeChars fuel r).map .ref
  | _, _ => none

def decProbe (s : String) : Option Model.ValueIndex.Probe := decProbeChars (s.length + 1) s.toList

def probeSel : Model.ValueIndex.Probe → Spec.Index.Sel
  | .usize i => .pos i
  | .str k => .key k
  | .string k => .key k
  | .ref p => probeSel p

def poOfTag (t : String) : Bool := (t.splitOn "+").contains "po"

def vget : Handler := fun args impl =>
  match args with
  | [ph, ve] =>
    match decProbe ph, decodeJV ve with
    | some p, some v =>
      let m := showOpt (Model.ValueIndex.get p v) ++ "|" ++ showOpt (Model.ValueIndex.getMutSet p sentinel v)
      let sel := probeSel p
      let r := Spec.Index.select sel v
      let s := showOpt r ++ "|" ++ showOpt (r.map fun _ => Spec.Index.write sentinel sel v)
      { model := m, spec := if s == impl then none else some s!"C18 get/get_mut: direct container access gives {s}" }
    | _, _ => bad "decode"
  | _ => bad "arity"

def vindex : Handler := fun args impl =>
  match args with
  | [ph, ve] =>
    match decProbe ph, decodeJV ve with
    | some p, some v =>
      let s := encJV (Spec.Index.orNull (Spec.Index.select (probeSel p) v))
      { model := encJV (Model.ValueIndex.index p v),
        spec := if s == impl then none else some s!"C18 Index: direct container access (or null) gives {s}" }
    | _, _ => bad "decode"
  | _ => bad "arity"

def vindexmut : Handler := fun args impl =>
  match args with
  | [c, ph, ve] =>
    match decProbe ph, decodeJV ve with
    | some p, some v =>
      let po := poOfTag c
      let m := match Model.ValueIndex.indexMut po p v with
        | .panic => "PANIC"
        | .ok (doc, loc) =>
          encJV ((Model.ValueIndex.readLoc loc doc).getD (.str [0x3f])) ++ "|" ++ encJV (Model.ValueIndex.writeLoc sentinel loc doc)
      let sel := probeSel p
      let s := match Spec.Index.indexMut po sel v with
        | none => "PANIC"
        | some doc => encJV (Spec.Index.orNull (Spec.Index.select sel doc)) ++ "|" ++ encJV (Spec.Index.write sentinel sel doc)
      { model := m, spec := if s == impl then none else some s!"C18 IndexMut: insert-if-missing then address gives {s}" }
    | _, _ => bad "decode"
  | _ => bad "arity"

def vtake : Handler := fun args impl =>
  match args with
  | [ve, ph] =>
    match decodeJV ve, bytesOfHex ph with
    | some v, some p =>
      let sh (o : Option (JV × JV)) : String := match o with
        | none => "N"
        | some (a, b) => encJV a ++ "|" ++ encJV b
      let s := sh (match Spec.Pointer.eval v p with
        | none => none
        | some node => (Spec.Pointer.set v p .null).map fun d => (node, d))
      { model := sh (Model.ValueIndex.takeAt v p),
        spec := if s == impl then none else some s!"C18 take: must return the addressed node and leave null there: {s}" }
    | _, _ => bad "decode"
  | _ => bad "arity"

/-! ## PartialEq with primitives -/

def intOfDec (s : String) : Option Int :=
  match s.toList with
  | '-' :: r => (natOfDecChars r).map fun n => -(n : Int)
  | r => (natOfDecChars r).map fun n => (n : Int)

def primTyOfName : String → Option Gen.PrimTy
  | "i8" => some .i8 | "i16" => some .i16 | "i32" => some .i32 | "i64" => some .i64 | "isize" => some .isize
  | "u8" => some .u8 | "u16" => some .u16 | "u32" => some .u32 | "u64" => some .u64 | "usize" => some .usize
  | "f32" => some .f32 | "f64" => some .f64 | "bool" => some .bool
  | _ => none

def tf (b : Bool) : String := if b then "t" else "f"
def rep (n : Nat) (s : String) : String := String.join (List.replicate n s)

/-- executable form of `Spec.NumberAcc.nearestF64` / `nearestF32` for the driver: the guarded
    `Model.NumberAp.f64OfLit` filtered by `is_finite` (`SJ.Proofs.NumberAp.f64OfLit_eq` + `finite64_round`: equal to
    `roundNE64` of the exact value for every literal; the guards only avoid expanding 10^huge) -/
def nearest64 (l : Spec.Decimal.NumLit) : Option UInt64 := Model.NumberAp.finite64 (some (Model.NumberAp.f64OfLit l))
def nearest32 (l : Spec.Decimal.NumLit) : Option UInt32 := Model.NumberAp.finite32 (some (Model.NumberAp.f32OfLit l))

/-- `Spec.PrimEqAp.holdsF64` / `holdsF32` evaluated through `nearest64` / `nearest32` -/
def holdsF64Ap (b : UInt64) (v : JV) : Bool :=
  match Spec.PrimEqAp.litOfValue v with
  | some l => Spec.PrimEqAp.eqOpt64 (nearest64 l) b
  | none => false
def holdsF32Ap (b : UInt32) (v : JV) : Bool :=
  match Spec.PrimEqAp.litOfValue v with
  | some l => Spec.PrimEqAp.eqOpt32 (nearest32 l) b
  | none => false

/-- `peq <ty> <comparand> <value> [<cfg>]`: without the fourth argument the default build
    (`Model.PartialEq`, `Spec.PrimEq`); with a cfg tag naming `ap` the string-backed numbers
    (`Model.PartialEqAp`, `Spec.PrimEqAp`) -/
def peqCfg (ap : Bool) (tyName ce ve impl : String) : Out :=
    match decodeJV ve with
    | none => bad "decode"
    | some v =>
      if ap && !Spec.PrimEqAp.wfValue v then bad "ap value with a non-literal number" else
      if tyName == "str" then
        match bytesOfHex ce with
        | some s =>
          let want := rep 6 (tf (Spec.PrimEq.holdsStr s v))
          { model := rep 6 (tf (Model.PartialEq.eqStr s v)),
            spec := if want == impl then none else some s!"C18 PartialEq<str/String>: the value holds that string: {want}" }
        | none => bad "hex"
      else
      match primTyOfName tyName with
      | none => bad "type"
      | some ty =>
        let comparand : Option (Model.PartialEq.Comparand × Bool) :=
          match ty with
          | .f32 => (natOfHexChars ce.toList).map fun n => (.f32 (UInt32.ofNat n),
              if ap then holdsF32Ap (UInt32.ofNat n) v else Spec.PrimEq.holdsF32 (UInt32.ofNat n) v)
          | .f64 => (natOfHexChars ce.toList).map fun n => (.f64 (UInt64.ofNat n),
              if ap then holdsF64Ap (UInt64.ofNat n) v else Spec.PrimEq.holdsF64 (UInt64.ofNat n) v)
          | .bool => if ce == "t" then some (.bool true, Spec.PrimEq.holdsBool true v)
                     else if ce == "f" then some (.bool false, Spec.PrimEq.holdsBool false v) else none
          | _ => (intOfDec ce).bind fun x =>
              match Spec.PrimEq.intRange ty with
              | some (lo, hi) => if lo ≤ x && x ≤ hi then
                  some (.int x, if ap then Spec.PrimEqAp.holdsInt (Spec.PrimEqAp.signedTy ty) x v else Spec.PrimEq.holdsInt x v) else none
              | none => none
        match comparand with
        | none => bad "comparand"
        | some (c, holds) =>
          let want := rep 4 (tf holds)
          { model := rep 4 (tf (Model.PartialEqAp.eqPrimCfg ap ty c v)),
            spec := if want == impl then none else
              some s!"C18 PartialEq<{tyName}>{if ap then " (arbitrary_precision)" else ""}: true exactly when the value holds that value: {want}" }

def peq : Handler := fun args impl =>
  match args with
  | [tyName, ce, ve] => peqCfg false tyName ce ve impl
  | [tyName, ce, ve, cfg] => peqCfg ((cfg.splitOn "+").contains "ap") tyName ce ve impl
  | _ => bad "arity"

/-! ## json! -/

open SJ.Spec.JsonMacro in
def decTT : Nat → List Char → Option (TT × List Char)
  | 0, _ => none
  | fuel + 1, cs =>
    match cs with
    | 'N' :: r => some (.null, r)
    | 'T' :: r => some (.true_, r)
    | 'F' :: r => some (.false_, r)
    | 'c' :: r => some (.comma, r)
    | 'k' :: r => some (.colon, r)
    | 'L' :: r => (decJV (r.length + 1) r).map fun (v, r) => (.lit v, r)
    | 'E' :: r => (decJV (r.length + 1) r).map fun (v, r) => (.expr v, r)
    | 'P' :: r => (decJV (r.length + 1) r).map fun (v, r) => (.paren v, r)
    | 'A' :: r => do
        let (d, r) ← takeUntilSemi [] r
        let n ← natOfDecChars d
        let rec elems (k : Nat) (r : List Char) (acc : List TT) : Option (List TT × List Char) :=
          match k with
          | 0 => some (acc.reverse, r)
          | k + 1 => match decTT fuel r with
            | some (t, r) => elems k r (t :: acc)
            | none => none
        let (ts, r) ← elems n r []
        pure (.arr ts, r)
    | 'O' :: r => do
        let (d, r) ← takeUntilSemi [] r
        let n ← natOfDecChars d
        let rec membs (k : Nat) (r : List Char) (acc : List TT) : Option (List TT × List Char) :=
          match k with
          | 0 => some (acc.reverse, r)
          | k + 1 => match decTT fuel r with
            | some (t, r) => membs k r (t :: acc)
            | none => none
        let (ts, r) ← membs n r []
        pure (.obj ts, r)
    | _ => none

def decodeTT (s : String) : Option Spec.JsonMacro.TT :=
  let cs := s.toList
  match decTT (cs.length + 1) cs with
  | some (t, []) => some t
  | _ => none

/-- the value `json!` built -/
def jsonm : Handler := fun args impl =>
  match args with
  | [c, te] =>
    match decodeTT te with
    | some t =>
      let po := poOfTag c
      let spec := match Spec.JsonMacro.shape t with
        | some l =>
          let s := "S" ++ encJV (Spec.JsonMacro.eval po l)
          if s == impl then none else some s!"C18 json!: structural evaluation of the literal gives {s}"
        | none => none
      { model := showOpt (Model.JsonMacro.jsonMacro po t), spec := spec }
    | none => bad "decode"
  | _ => bad "arity"

/-- `from_str` of the equivalent JSON text: the parser model runs on the text; the literal's
    structural evaluation must be what the parser returned -/
def jsonp : Handler := fun args impl =>
  match args with
  | [c, te, th] =>
    match decodeTT te, bytesOfHex th with
    | some t, some text =>
      let cfg := Mach.cfgOfTag c
      let spec := match Spec.JsonMacro.shape t with
        | some l =>
          let s := "V" ++ encJV (Spec.JsonMacro.eval cfg.po l)
          if s == impl then none else some s!"C18 json!: parsing the equivalent JSON text must give the structural evaluation {s}"
        | none => some "C18 json!: the harness paired a JSON text with a token tree that is not JSON-shaped"
      { model := Mach.runShow cfg .str .value text, spec := spec }
    | _, _ => bad "decode"
  | _ => bad "arity"

/-- the generated program with the `json!` invocations compiled and ran -/
def jsonmbuild : Handler := fun args _ =>
  match args with
  | [_, _] => { model := "OK" }
  | _ => bad "arity"

def handlers : List (String × Handler) :=
  [("ptr", ptr), ("ptrmut", ptrmut), ("vget", vget), ("vindex", vindex), ("vindexmut", vindexmut), ("vtake", vtake),
   ("peq", peq), ("jsonm", jsonm), ("jsonp", jsonp), ("jsonmbuild", jsonmbuild)]

end SJ.Drv.C18
