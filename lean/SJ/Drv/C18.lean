import SJ.Drv.Base
import SJ.Spec.Pointer
import SJ.Model.ValueOps
namespace SJ.Drv.C18
open SJ SJ.Drv

def showOpt : Option JV → String
  | none => "N"
  | some v => "S" ++ encJV v

def sentinel : JV := .str [0x23]

def ptr : Handler := fun args impl =>
  match args with
  | [ve, ph] =>
    match decodeJV ve, bytesOfHex ph with
    | some v, some p =>
      let m := showOpt (Model.ValueOps.pointer v p)
      let s := showOpt (Spec.Pointer.eval v p)
      { model := m, spec := if s == impl then none else some s!"RFC 6901 evaluator gives {s}" }
    | _, _ => bad "decode"
  | _ => bad "arity"

def ptrmut : Handler := fun args impl =>
  match args with
  | [ve, ph] =>
    match decodeJV ve, bytesOfHex ph with
    | some v, some p =>
      let m := showOpt (Model.ValueOps.pointerSet v p sentinel)
      let s := showOpt (Spec.Pointer.set v p sentinel)
      { model := m, spec := if s == impl then none else some s!"RFC 6901 replace gives {s}" }
    | _, _ => bad "decode"
  | _ => bad "arity"

def handlers : List (String × Handler) := [("ptr", ptr), ("ptrmut", ptrmut)]

end SJ.Drv.C18
