import SJ.Drv.Base
import SJ.Spec.Str
import SJ.Model.Escape
import SJ.Model.Hex
import SJ.Model.Swar
import SJ.Spec.Wtf8
import SJ.Drv.Typed
/-!
Driver handlers for C05 (serializer escaping, four-hex-digit decoding, the string scanner).

* `esc <s> => <out>`            `to_string(&str)` / `to_vec` / `to_writer` output for the string `s`
* `escbufs <s> => b1,b2,…`      the buffers a recording `io::Write` received from `to_writer`
* `hex4 <abcd> => N | S<n>`     `from_slice::<ByteBuf>("\uXXXX")` (WTF-8 decoded back to the u16)
* `hex4s <src> <abcd> => N | S<n> | LONE | UEND`   `String` target through str/slice/reader
* `scan <src> <tgt> <input> <index> => OK:<len> | CTL:l:c | EOF:l:c | ESC:l:c | UTF:l:c`
  outcome of parsing the string literal whose content starts at `index` of `input`, as far as it is
  determined by where the scan for the first escape byte stops.

`model` is computed from `SJ.Model.*`, `spec` from `SJ.Spec.Str` only.
-/
namespace SJ.Drv.C05
open SJ SJ.Drv

def joinBufs (bs : List Bytes) : String := ",".intercalate (bs.map hexField)

def parseBufs (s : String) : Option (List Bytes) := (s.splitOn ",").mapM bytesOfHex

def esc : Handler := fun args impl =>
  match args with
  | [sh] =>
    match bytesOfHex sh with
    | some s =>
      let want := hexField (Spec.Str.escapeSpec s)
      { model := hexField (Model.Escape.escapedBytes s),
        spec := if want == impl then none else some s!"statement's literal is {want}" }
    | none => bad "decode"
  | _ => bad "arity"

def escbufs : Handler := fun args impl =>
  match args with
  | [sh] =>
    match bytesOfHex sh with
    | some s =>
      let want := Spec.Str.escapeSpec s
      let sp := match parseBufs impl with
        | some bufs => if bufs.flatten == want then none else some s!"buffers concatenate to {hexField bufs.flatten}, statement's literal is {hexField want}"
        | none => some "unreadable buffer list"
      { model := joinBufs (Model.Escape.formatEscapedStr s), spec := sp }
    | none => bad "decode"
  | _ => bad "arity"

def showHex4 : Option Nat → String
  | none => "N"
  | some n => s!"S{n}"

/-- what a `String` target makes of one `\uXXXX` escape followed by the closing quote (first branch
    of `parse_unicode_escape` with `validate = true`): a trailing surrogate is
    `LoneLeadingSurrogateInHexEscape`, a leading surrogate followed by `"` is
    `UnexpectedEndOfHexEscape`, anything else is that scalar. -/
def showHex4Str : Option Nat → String
  | none => "N"
  | some n => if 0xDC00 ≤ n ∧ n ≤ 0xDFFF then "LONE" else if 0xD800 ≤ n ∧ n ≤ 0xDBFF then "UEND" else s!"S{n}"

def four (h : String) : Option (UInt8 × UInt8 × UInt8 × UInt8) :=
  match bytesOfHex h with
  | some [a, b, c, d] => some (a, b, c, d)
  | _ => none

def hex4 : Handler := fun args impl =>
  match args with
  | [h] =>
    match four h with
    | some (a, b, c, d) =>
      let want := showHex4 (Spec.Str.hex4Val a b c d)
      { model := showHex4 (Model.Hex.decodeFourHex a b c d),
        spec := if want == impl then none else some s!"positional value of the group is {want}" }
    | none => bad "decode"
  | _ => bad "arity"

def hex4s : Handler := fun args impl =>
  match args with
  | [_src, h] =>
    match four h with
    | some (a, b, c, d) =>
      let want := showHex4Str (Spec.Str.hex4Val a b c d)
      { model := showHex4Str (Model.Hex.decodeFourHex a b c d),
        spec := if want == impl then none else some s!"RFC 8259 §7 gives {want}" }
    | none => bad "decode"
  | _ => bad "arity"

/-- `IoRead::parse_str_bytes` up to its first stop: bytes are consumed one at a time;
    `if !is_escape(ch, true) { continue }`, and a control byte is passed over when `!validate`. -/
def ioScan (slice : Bytes) (index : Nat) (validate : Bool) : Nat :=
  go (slice.drop index) index
where
  go : Bytes → Nat → Nat
    | [], i => i
    | ch :: rest, i =>
      if !Model.Swar.isEscape ch true then go rest (i + 1)
      else if ch == 0x22 || ch == 0x5c then i
      else if validate then i else go rest (i + 1)

def validEscapeLetters : Bytes := [0x22, 0x5c, 0x2f, 0x62, 0x66, 0x6e, 0x72, 0x74, 0x75]

/-- `SliceRead::position_of_index(i)` (and, equivalently, what `LineColIterator` has counted after
    `i` bytes): line = 1 + number of `\n` before `i`, column = bytes since the last `\n`. -/
def posOf (slice : Bytes) (i : Nat) : String :=
  let pre := slice.take i
  s!"{1 + pre.count 0x0a}:{(pre.reverse.takeWhile (· != 0x0a)).length}"

/-- The outcome of `parse_str_bytes` given where the scan stopped (`e`), for inputs in which a
    backslash is followed by a byte that starts no escape (or by the end of input): the first
    iteration of the loop after `skip_to_escape`. Errors are raised at `position_of_index` of the
    index reached. -/
def outcome (slice : Bytes) (index e : Nat) (validate : Bool) : Option String :=
  if e ≥ slice.length then some s!"EOF:{posOf slice slice.length}"
  else
    let ch := slice.getD e 0
    if ch == 0x22 then
      let content := (slice.take e).drop index
      if validate && !(ByteArray.mk content.toArray).validateUTF8 then some s!"UTF:{posOf slice (e + 1)}"
      else some s!"OK:{e - index}"
    else if ch == 0x5c then
      if e + 1 ≥ slice.length then some s!"EOF:{posOf slice slice.length}"
      else
        let x := slice.getD (e + 1) 0
        if validEscapeLetters.contains x then none
        else some s!"ESC:{posOf slice (e + 2)}"
    else some s!"CTL:{posOf slice (e + 1)}"

def scan : Handler := fun args impl =>
  match args with
  | [src, tgt, ih, idx] =>
    match bytesOfHex ih, natOfDecChars idx.toList with
    | some slice, some index =>
      if index > slice.length then bad "index" else
      let validate := tgt != "B"
      let eModel := if src == "r" then ioScan slice index validate
                    else Model.Swar.skipToEscape slice index validate
      let eSpec := Spec.Str.firstEscape slice index validate
      match outcome slice index eModel validate, outcome slice index eSpec validate with
      | some m, some s =>
        { model := m, spec := if s == impl then none else some s!"first escape byte is at {eSpec}: expected {s}" }
      | _, _ => bad "escape-after-backslash"
    | _, _ => bad "decode"
  | _ => bad "arity"

/-- `bytesctl <cfg> <src> <input> => OK:y<hex>; | E:…` — a string literal read as `ByteBuf`.
    model: `Model.Typed.deTypedTop … .bytes`; spec: the statement's "the same decoding applies" — a literal with a bare
    control character (`Spec.Wtf8.lex` finds a raw item `< 0x20`) must be rejected (open finding
    `C05-bytes-control-char-accepted`: the crate's non-validating scanner copies it). -/
def bytesctl : Handler := fun args impl =>
  match args with
  | [c, sr, h] =>
    match Mach.srcOfTag sr, bytesOfHex h with
    | some src, some bs =>
      let ctl := match bs with
        | 0x22 :: r =>
          (match Spec.Wtf8.lex r with
           | .ok items _ => items.any fun it => match it with | .raw b => b < 0x20 | _ => false
           | _ => false)
        | _ => false
      { model := Typed.showTop bs (Typed.dataMsgOf impl) (Model.Typed.deTypedTop (Typed.envOf c src) .bytes bs),
        specs := if ctl && impl.startsWith "OK" then ["C05 bytes target accepted a bare control character"] else [] }
    | _, _ => bad "decode"
  | _ => bad "arity"

def handlers : List (String × Handler) :=
  [("esc", esc), ("escbufs", escbufs), ("hex4", hex4), ("hex4s", hex4s), ("scan", scan), ("bytesctl", bytesctl)]

end SJ.Drv.C05
