import SJ.Drv.Mach
import SJ.Model.TypedInt
import SJ.Spec.Canon
namespace SJ.Drv.C06
open SJ SJ.Drv SJ.Drv.Mach SJ.Model.Num SJ.Model.TypedInt

def tyOf : String → Option IntTy
  | "i8" => some .i8 | "i16" => some .i16 | "i32" => some .i32 | "i64" => some .i64 | "i128" => some .i128
  | "u8" => some .u8 | "u16" => some .u16 | "u32" => some .u32 | "u64" => some .u64 | "u128" => some .u128
  | "isize" => some .i64 | "usize" => some .u64
  | _ => none

/-- the literal, if it is exactly one RFC 8259 number -/
def partsOfLit (bs : Bytes) : Option Parts :=
  match Spec.Rec.pNumber bs with
  | some (p, []) => if p.bytes == bs then some (Spec.Canon.partsOf p) else none
  | _ => none

def showOpt : Option Int → String
  | some x => s!"OK{x}"
  | none => "ERR"

/-- via a `Value`: the number is first classified by the Value parser (PosInt / NegInt / Float) -/
def viaValue (cfg : Model.Machine.Cfg) (ty : IntTy) (p : Parts) : Option String :=
  match (if cfg.fr then convertRoundtrip p else convertDefault p) with
  | .u64 n => some (showOpt (if inRange ty n then some (n : Int) else none))
  | .i64 k => some (showOpt (if inRange ty k then some k else none))
  | .f64 _ => some "ERR"
  | _ => none          -- the literal does not parse into a Value at all (out of range)

/-- `int <cfg> <ty> <hex literal> => text|from_value|&Value|quoted key|key of a Value map` -/
def int : Handler := fun args impl =>
  match args with
  | [c, t, h] =>
    match tyOf t, bytesOfHex h with
    | some ty, some bs =>
      let cfg := cfgOfTag c
      let fields := impl.splitOn "|"
      match partsOfLit bs with
      | none =>
        -- not a number literal: every path must fail (text tolerates surrounding whitespace only)
        let core := (Spec.Rec.skipWs (Spec.Rec.skipWs bs).reverse).reverse
        if core != bs && (partsOfLit core).isSome then { model := impl }    -- whitespace-padded literal: not judged here
        else
          let okAny := fields.any (·.startsWith "OK")
          { model := impl, specs := if okAny then [s!"C06 {t}: a string that is not a number literal was accepted: {impl}"] else [] }
      | some p =>
        let text := showOpt (deIntText cfg.fr ty p)
        let spec := showOpt (specInt ty p)
        let vv := if cfg.ap then none else viaValue cfg ty p
        let m := String.intercalate "|" [text,
          (match vv with | some s => s | none => fields.getD 1 ""), (match vv with | some s => s | none => fields.getD 2 ""),
          text, (if cfg.ap then fields.getD 4 "" else text), text]
        -- the property on the implementation's own outputs
        let s1 := if fields.getD 0 "" == spec then [] else [s!"C06 {t} from text: got {fields.getD 0 ""}, the literal's value/range verdict is {spec}"]
        let s2 := if fields.getD 3 "" == spec then [] else [s!"C06 {t} as quoted map key: got {fields.getD 3 ""}, expected {spec}"]
        -- via Value: the same verdict whenever the value is representable in a Value ([i64::MIN, u64::MAX]) or ap keeps the text
        -- `-0` is held by a Value as the float -0.0, literals beyond [i64::MIN, u64::MAX] as floats
        let negZero := p.neg && natOfDigits p.int == 0 && p.frac.isNone && p.exp.isNone
        let representable := !negZero && match specInt .i128 p, specInt .u128 p with
          | some x, _ => decide (-9223372036854775808 ≤ x ∧ x ≤ 18446744073709551615)
          | none, some x => decide (x ≤ 18446744073709551615)
          | none, none => true
        let s3 := if (representable || cfg.ap) && (fields.getD 1 "" != spec || fields.getD 2 "" != spec) && fields.getD 1 "" != "NOVAL"
                  then [s!"C06 {t} via Value: got {fields.getD 1 ""} / {fields.getD 2 ""}, expected {spec}"] else []
        let s4 := if (fields.getD 4 "" != spec) && (representable || ty.is128 == false || cfg.ap) && !(ty.is128 && !cfg.ap && !representable)
                  then [s!"C06 {t} as key of a Value map: got {fields.getD 4 ""}, expected {spec}"] else []
        let s6 := if fields.getD 5 "" == spec then [] else [s!"C06 {t} after an escaped string, from a reader: got {fields.getD 5 ""}, expected {spec}"]
        let wrap := fields.any fun f => f.startsWith "OK" && f != spec
        let s5 := if wrap then [s!"C06 {t}: some path returned a different integer than the literal denotes: {impl} (expected {spec})"] else []
        { model := m, specs := s1 ++ s2 ++ s3 ++ s4 ++ s5 ++ s6 }
    | _, _ => bad "decode"
  | _ => bad "arity"

/-- `acc <cfg> <hex literal> => as_i64|as_u64|as_i128|as_u128|is_i64|is_u64|is_f64|as_f64 bits` -/
def acc : Handler := fun args impl =>
  match args with
  | [c, h] =>
    match bytesOfHex h with
    | some bs =>
      let cfg := cfgOfTag c
      match partsOfLit bs with
      | none => { model := impl, specs := if impl != "ERR" then ["C20 Number::from_str accepted a string that is not an RFC 8259 number"] else [] }
      | some p =>
        if impl == "ERR" then
          -- rejected: only allowed when the number is out of f64 range (non-ap)
          let oor := !cfg.ap && (match (if cfg.fr then convertRoundtrip p else convertDefault p) with | .outOfRange => true | _ => false)
          { model := impl, specs := if oor then [] else ["C20 Number::from_str rejected an RFC 8259 number"] }
        else
        let sh (o : Option Int) : String := match o with | some x => toString x | none => "N"
        let fields := impl.splitOn "|"
        let exp := [sh (specInt .i64 p |>.orElse fun _ => if cfg.ap && p.frac.isNone && p.exp.isNone && p.neg && natOfDigits p.int == 0 then some 0 else none),
                    sh (specInt .u64 p),
                    sh (if cfg.ap then specInt .i128 p else (match specInt .i128 p with | some x => if -9223372036854775808 ≤ x ∧ x ≤ 18446744073709551615 then some x else none | none => none)),
                    sh (if cfg.ap then (if p.neg then none else specInt .u128 p) else (match specInt .u128 p with | some x => if x ≤ 18446744073709551615 then some x else none | none => none))]
        -- non-ap: `-0` is a float: no integer accessors
        let exp := if !cfg.ap && p.neg && natOfDigits p.int == 0 && p.frac.isNone && p.exp.isNone then ["N", "N", "N", "N"] else exp
        let got := fields.take 4
        let s1 := if got == exp then [] else [s!"C06 accessors as_i64|as_u64|as_i128|as_u128 = {String.intercalate "|" got}, the literal's exact values are {String.intercalate "|" exp}"]
        let s2 := if (fields.getD 4 "" == "1") == (fields.getD 0 "" != "N") && (fields.getD 5 "" == "1") == (fields.getD 1 "" != "N") then []
                  else ["C06 is_i64/is_u64 disagree with as_i64/as_u64"]
        -- arbitrary_precision: as_f64 is the nearest finite f64 of the literal's exact value, or None
        let s3 := if !cfg.ap then [] else
          let expF : String := match Model.Num.exact p with
            | .zero => hex16 (Spec.Ieee.F64.zero p.neg)
            | .tiny => hex16 (Spec.Ieee.F64.zero p.neg)
            | .huge => "N"
            | .rat n d => match Spec.Ieee.roundNE64 p.neg n d with
              | some b => hex16 b
              | none => "N"
          if fields.getD 7 "" == expF then [] else [s!"C20 as_f64 = {fields.getD 7 ""}, the nearest finite f64 of the literal is {expF}"]
        { model := impl, specs := s1 ++ s2 ++ s3 }
    | none => bad "hex"
  | _ => bad "arity"

def decimalOf (x : Int) : Bytes := (toString x).toUTF8.toList

/-- `iprint <cfg> <hex literal> => hex of to_string(integer)`: plain decimal digits -/
def iprint : Handler := fun args impl =>
  match args with
  | [_, h] =>
    match bytesOfHex h with
    | some bs =>
      match partsOfLit bs with
      | some p =>
        let n : Int := natOfDigits p.int
        let x : Int := if p.neg then -n else n
        let e := hexOfBytes (decimalOf x)
        { model := e, specs := if impl == e then [] else [s!"C06 integer {x} does not serialise to its plain decimal digits"] }
      | none => bad "literal"
    | none => bad "hex"
  | _ => bad "arity"

/-- `ival <cfg> <hex integer literal> => to_value(i128)|to_value(u128)|Number::from_i128|Number::from_u128` — integers INTO a Value
    are exact or refused, never wrapped, and keep their kind: in the default build a Value holds exactly [i64::MIN, u64::MAX]
    (to_value errs, from_i128 / from_u128 give None outside); under arbitrary_precision every 128-bit integer is held as its digits.
    `n:=` means the Number equals the Number its own text parses to. -/
def ival : Handler := fun args impl =>
  match args with
  | [c, h] =>
    match bytesOfHex h with
    | some bs =>
      match partsOfLit bs with
      | some p =>
        let ap := (cfgOfTag c).ap
        let n : Int := natOfDigits p.int
        let x : Int := if p.neg then -n else n
        let digits := decimalOf x
        let inVal := (-(2:Int)^63 ≤ x) && (x < (2:Int)^64)
        let tv := if ap then s!"Vl{hexOfBytes digits};" else if !inVal then "ERR" else if x ≥ 0 then s!"Vi{x};" else s!"Vj{-x};"
        let nm := if ap || inVal then s!"{x}:=" else "N"
        let e := if x ≥ 0 then s!"{tv}|{tv}|{nm}|{nm}" else s!"{tv}|-|{nm}|-"
        { model := e, specs := if impl == e then [] else [s!"C06 integer {x} into a Value (to_value i128 | u128 | Number::from_i128 | from_u128): got {impl}, expected {e}"] }
      | none => bad "literal"
    | none => bad "hex"
  | _ => bad "arity"

def handlers : List (String × Handler) := [("int", int), ("acc", acc), ("iprint", iprint), ("ival", ival)]
end SJ.Drv.C06
