import SJ.Drv.Mach
import SJ.Drv.MachAp
import SJ.Drv.MachRv
import SJ.Drv.C03
import SJ.Spec.WF
import SJ.Spec.Schema
import SJ.Model.Typed
import SJ.Model.TypedSer
/-!
# C04 driver handlers

`rtv <cfg> <value> <float table> => r1|…|r6` — the six combinations {to_string/from_str, to_vec/from_slice,
to_writer/from_reader} × {compact, pretty}; each field is `=` when the value read back equals the
original (same wire encoding: integers exact, floats bit for bit, object entries in the same
iteration order), otherwise the value or the error obtained.
Model: the Lean round trip `parseTop (serCompact (ofValue v))` / `serPretty "  "` evaluated for the
three sources. Specification: all six fields are `=`. The float table carries the text the crate
printed for each float (the driver cannot compute `ryu`), exactly as in C03's `disp`.

`rtt <cfg> <type> <seed> => r1|…|r6` — typed data (the zoo of `harness/src/c04t.rs`, real `serde_derive` output); these
Rust types have no schema encoding: the model echoes, the specification is "all `=`".

`rtm <cfg> <seed> <schema> <tval> <floats> => <hex to_string>|<back>|<hex to_string_pretty>|<back>` — typed data over the
schema universe (`harness/src/c04m.rs`): the harness makes the `Serialize` calls of a value of the type `schema` against
the real serializer and reads the text back with the universal seed. Model: the text `serCompact` / `serPretty "  "` of
`SJ.Model.TypedSer.progOf schema tval` and `deTypedTop schema` of that text (both computed, nothing echoed except the
wording of an error). Specification (independent of the models): both values read back are the value written. The driver
also checks the generator against the well-formedness predicate of the theorem (`wfTVx`: the whole universe, `f32` and `Value`
members included).
-/
namespace SJ.Drv.C04
open SJ SJ.Drv SJ.Drv.Mach SJ.Model.Ser SJ.Model.Machine

def allSame : String := "=|=|=|=|=|="

def specCfgOf (c : Cfg) : Spec.Canon.Cfg := { po := c.po, fr := c.fr, ap := c.ap, limitOff := c.limitOff }

/-- serialise with the given formatter, parse from the given source, compare -/
def roundTrip (cfg : Cfg) (ext : Ext) (pretty : Bool) (src : Src) (v : JV) (implField : String := "") (rv : Bool := false) : String :=
  let r := if pretty then serPretty ext defaultIndent (ofValue v) else serCompact ext (ofValue v)
  match r with
  | .error _ => "SERERR"
  | .ok bufs =>
    let bs := bufs.flatten
    let env : Env := { cfg := cfg, src := src, tgt := .value }
    if rv then
      -- `Value` under `raw_value`: the parser model that reads the private RawValue token (`Model.MachineRv`)
      match Model.MachineRv.parseTop { env := env, rv := true } bs with
      | .ok v' => if encJV v' == encJV v then "=" else "V" ++ encJV v'
      | o => MachRv.showOutcome env bs implField o
    else
    if cfg.ap then
      -- `Value` under `arbitrary_precision`: the parser model that reads the private Number token (`Model.MachineAp`)
      match Model.MachineAp.parseTop env bs with
      | .ok v' => if encJV v' == encJV v then "=" else "V" ++ encJV v'
      | o => MachAp.showOutcome env bs implField o
    else
    match parseTop env bs with
    | .ok v' => if encJV v' == encJV v then "=" else "V" ++ encJV v'
    | o => showOutcome env bs o

def rtv : Handler := fun args impl =>
  match args with
  | [ct, ve, te] =>
    match decodeJV ve, C03.decodeFloatTable te with
    | some v, some tb =>
      let cfg := cfgOfTag ct
      if !Spec.WF.wfValue (specCfgOf cfg) v then bad "generated value is outside the representation invariant wfValue" else
      let ext := C03.extOf tb
      let fields := impl.splitOn "|"
      let m := "|".intercalate
        ([(false, 0), (true, 3)].flatMap fun (p, k) =>
          [(Src.str, 0), (Src.slice, 1), (Src.reader, 2)].map fun (s, j) => roundTrip cfg ext p s v (fields.getD (k + j) "") (MachRv.rvOfTag ct))
      { model := m,
        specs := if impl == allSame then [] else [s!"C04 Value round trip is not the identity: {impl}"] }
    | _, _ => bad "decode"
  | _ => bad "arity"

def rtt : Handler := fun args impl =>
  match args with
  | [_, ty, _] =>
    { model := impl,
      specs := if impl == allSame then [] else [s!"C04 typed round trip of {ty} is not the identity: {impl}"] }
  | _ => bad "arity"

/-- `bits:hex text,…`: 16 hex digits = f64, 8 = f32 -/
def decodeFloats (s : String) : Option C03.Tabs :=
  if s == "-" then some {} else
  (s.splitOn ",").foldl (fun acc item =>
    match acc, item.splitOn ":" with
    | some tb, [h, t] =>
      match natOfHexChars h.toList, bytesOfHex t with
      | some n, some txt =>
        if h.length == 8 then some { tb with t32 := (UInt32.ofNat n, txt) :: tb.t32 }
        else some { tb with t64 := (UInt64.ofNat n, txt) :: tb.t64 }
      | _, _ => none
    | _, _ => none) (some {})

def showBack (impl : String) : Model.Typed.Top → String
  | .ok v => "OK:" ++ v.enc
  | .fuel => "FUEL"
  | _ => if impl.startsWith "ERR:" then impl else "ERR"

mutual
/-- `wfTV` with finite `f32` leaves admitted (they are run, although the theorem does not cover them) -/
def hasF32 : TVal → Bool
  | .f32 _ => true
  | .some v | .variant _ v => hasF32 v
  | .seq xs | .struct_ xs => hasF32List xs
  | .map kvs => hasF32Pairs kvs
  | _ => false
def hasF32List : List TVal → Bool
  | [] => false
  | x :: r => hasF32 x || hasF32List r
def hasF32Pairs : List (TVal × TVal) → Bool
  | [] => false
  | (_, x) :: r => hasF32 x || hasF32Pairs r
end

def rtm : Handler := fun args impl =>
  match args with
  | [ct, _, se, te, fe] =>
    match Schema.decode se, TVal.decode te, decodeFloats fe with
    | some s, some v, some tb =>
      let cfg := cfgOfTag ct
      let ext := C03.extOf tb
      if !Model.TypedSer.wfTVx (specCfgOf cfg) ext.ryu32 s v then
        bad "generated typed value is outside the well-formedness predicate wfTVx" else
      let p := Model.TypedSer.progOf s v
      let fields := impl.splitOn "|"
      let one (pretty : Bool) (back : String) : String :=
        match (if pretty then serPretty ext defaultIndent p else serCompact ext p) with
        | .error e => "SERERR:" ++ C03.errName e ++ "|-"
        | .ok bufs =>
          let bs := bufs.flatten
          hexField bs ++ "|" ++ showBack back (Model.Typed.deTypedTop { cfg := cfg, src := .str } s bs)
      let m := one false (fields.getD 1 "") ++ "|" ++ one true (fields.getD 3 "")
      let want := "OK:" ++ v.enc
      { model := m,
        specs := if fields.length == 4 && fields.getD 1 "" == want && fields.getD 3 "" == want then []
                 else [s!"C04 typed round trip is not the identity: {impl}"] }
    | _, _, _ => bad "decode"
  | _ => bad "arity"

/-- `rtw <cfg> <family> <schema> <tval> <floats>` — the WIDE documents of `c04m.rs` (`<container>-<variant kind>-<n>`: 100 … 300
    (thorough: 1000) enum values of one variant kind side by side in a `Vec`, a `BTreeMap<u16, _>` or spread over a struct of
    vectors): same model and same specification as `rtm` (the second argument is a name instead of a seed). -/
def rtw : Handler := rtm

def handlers : List (String × Handler) := [("rtv", rtv), ("rtt", rtt), ("rtm", rtm), ("rtw", rtw)]

end SJ.Drv.C04
