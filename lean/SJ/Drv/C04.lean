import SJ.Drv.Mach
import SJ.Drv.C03
import SJ.Spec.WF
/-!
# C04 driver handlers

`rtv <cfg> <value> <float table> => r1|…|r6` — the six combinations {to_string/from_str, to_vec/from_slice,
to_writer/from_reader} × {compact, pretty}; each field is `=` when the value read back equals the
original (same wire encoding: integers exact, floats bit for bit, object entries in the same
iteration order), otherwise the value or the error obtained.
Model: the Lean round trip `parseTop (serCompact (ofValue v))` / `serPretty "  "` evaluated for the
three sources. Specification: all six fields are `=`. The float table carries the text the crate
printed for each float (the driver cannot compute `ryu`), exactly as in C03's `disp`.

`rtt <cfg> <type> <seed> => r1|…|r6` — typed data (the zoo of `harness/src/c04t.rs`); no Lean model of
typed (de)serialisation yet: the model echoes, the specification is "all `=`".
-/
namespace SJ.Drv.C04
open SJ SJ.Drv SJ.Drv.Mach SJ.Model.Ser SJ.Model.Machine

def allSame : String := "=|=|=|=|=|="

def specCfgOf (c : Cfg) : Spec.Canon.Cfg := { po := c.po, fr := c.fr, ap := c.ap, limitOff := c.limitOff }

/-- serialise with the given formatter, parse from the given source, compare -/
def roundTrip (cfg : Cfg) (ext : Ext) (pretty : Bool) (src : Src) (v : JV) : String :=
  let r := if pretty then serPretty ext defaultIndent (ofValue v) else serCompact ext (ofValue v)
  match r with
  | .error _ => "SERERR"
  | .ok bufs =>
    let bs := bufs.flatten
    let env : Env := { cfg := cfg, src := src, tgt := .value }
    match parseTop env bs with
    | .ok v' => if encJV v' == encJV v then "=" else "V" ++ encJV v'
    | o => showOutcome env bs o

def rtv : Handler := fun args impl =>
  match args with
  | [ct, ve, te] =>
    match decodeJV ve, C03.decodeFloatTable te with
    | some v, some tb =>
      let cfg := cfgOfTag ct
      if !Spec.WF.wfValue (specCfgOf cfg) v then bad "generated value is outside the representation invariant wfValue" else
      let ext := C03.extOf tb
      let m := "|".intercalate
        ([false, true].flatMap fun p => [Src.str, Src.slice, Src.reader].map fun s => roundTrip cfg ext p s v)
      { model := m,
        specs := if impl == allSame then [] else [s!"C04 Value round trip is not the identity: {impl}"] }
    | _, _ => bad "decode"
  | _ => bad "arity"

def rtt : Handler := fun args impl =>
  match args with
  | [_, ty, _] =>
    { model := impl,
      specs := if impl == allSame then [] else [s!"C04 typed round trip of {ty} is not the identity: {impl}"] }
  | _ => bad "arity"

def handlers : List (String × Handler) := [("rtv", rtv), ("rtt", rtt)]

end SJ.Drv.C04
