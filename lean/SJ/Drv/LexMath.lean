import SJ.Drv.Base
import SJ.Model.LexBhLimbs
/-!
Driver handler of the limb-level part of C07: `lm <opname> <args…> => <observation>`.

* `model` = `Model.LexMath` (the transcription of `src/lexical/math.rs`) resp. `Model.LexBhLimbs` (`bhcomp.rs` over limb
  vectors) on the same operands; `P` = panic (`none`);
* `spec`  = what the operation means on the *numbers* the vectors denote (`value l = Σ l[i]·2^(64 i)`): sums, products,
  shifts, comparison, the top 64 bits with a sticky flag (`Model.Lexical.hi64`, the `Nat`-level abstraction the C07
  theorems are stated over), and for the `seq.*` ops the `Nat`-level `Model.Lexical.{parseMantissa, largeAtof, smallAtof,
  bhcomp}` — evaluated on the implementation's own output. The spec is only consulted where it applies (entries are
  limbs; operands normalised where the operation needs that; minuend ≥ subtrahend) and never on a panic.
-/
namespace SJ.Drv.LexMath
open SJ SJ.Drv SJ.Gen SJ.Model.LexMath SJ.Model.LexBhLimbs

def natOfHex (s : String) : Option Nat :=
  if s.isEmpty then none else
  s.toList.foldlM (fun acc c =>
    if '0' ≤ c ∧ c ≤ '9' then some (acc * 16 + (c.toNat - 48))
    else if 'a' ≤ c ∧ c ≤ 'f' then some (acc * 16 + (c.toNat - 87)) else none) 0

def hexOfNat (n : Nat) : String := String.ofList (Nat.toDigits 16 n)

/-- a limb vector: `-` or comma-separated hex limbs -/
def limbsOf (s : String) : Option Limbs := if s == "-" then some [] else (s.splitOn ",").mapM natOfHex

def showLimbs (l : Limbs) : String := if l.isEmpty then "-" else ",".intercalate (l.map hexOfNat)
def showOL : Option Limbs → String | some l => showLimbs l | none => "P"
def showB (b : Bool) : String := if b then "t" else "f"
def showOrd : Ordering → String | .lt => "lt" | .eq => "eq" | .gt => "gt"
def showNB (p : Nat × Bool) : String := hexOfNat p.1 ++ ":" ++ showB p.2
def showNN (p : Nat × Nat) : String := hexOfNat p.1 ++ ":" ++ hexOfNat p.2
def showONB : Option (Nat × Bool) → String | some p => showNB p | none => "P"

def intOf (s : String) : Option Int :=
  if s.startsWith "-" then (s.drop 1).toString.toNat?.map (fun n => -(n : Int)) else s.toNat?.map (fun n => (n : Int))

def digitsOf (s : String) : Option Bytes := if s == "-" then some [] else bytesOfHex s

/-- the implementation's limb vector, if the observation is one with `u64` entries -/
def obsLimbs (impl : String) : Option Limbs := if impl == "P" then none else (limbsOf impl).filter validB

def chk (name : String) (ok : Bool) (detail : String) : List String :=
  if ok then [] else [s!"C07 limbs {name}: {detail}"]

/-- spec for an op returning a limb vector that must denote `want` -/
def valSpec (name impl : String) (want : Nat) : List String :=
  match obsLimbs impl with
  | some z => chk name (value z == want) s!"the result denotes {value z}, the operands give {want}"
  | none => if impl == "P" then [] else [s!"C07 limbs {name}: the result is not a vector of u64 limbs"]

/-- same, and the result must be normalised -/
def valSpecN (name impl : String) (want : Nat) : List String :=
  valSpec name impl want ++
  (match obsLimbs impl with | some z => chk name (normalB z) "the result has a zero most-significant limb" | none => [])

def ordOfNat (a b : Nat) : Ordering := if a < b then .lt else if a > b then .gt else .eq

/-- `Model.Lexical.hi64` (the `Nat`-level abstraction) rendered like the observation -/
def natHi64 (n : Nat) : String := showNB (SJ.Model.Lexical.hi64 n)

def fcOf (s : String) : SJ.Model.Lexical.FC := SJ.Model.Lexical.fc (s == "f")

def lm : Handler := fun args impl =>
  let two (f : Limbs → Limbs → Out) (a b : String) : Out :=
    match limbsOf a, limbsOf b with | some x, some y => f x y | _, _ => bad "decode"
  let vs (f : Limbs → Nat → Out) (a b : String) (dec : Bool) : Out :=
    match limbsOf a, (if dec then b.toNat? else natOfHex b) with | some x, some y => f x y | _, _ => bad "decode"
  match args with
  | ["bits"] => { model := toString limbBits }
  | ["cutoff"] => { model := toString karatsubaCutoff }
  -- scalar
  | [op, a, b] =>
    match op with
    | "s.add" | "s.iadd" =>
      (match natOfHex a, natOfHex b with
       | some x, some y => { model := showNB (scalar.add x y),
                             specs := chk op (impl == showNB ((x + y) % 2 ^ 64, decide (x + y ≥ 2 ^ 64))) "not (x + y) mod 2^64 with the carry" }
       | _, _ => bad "decode")
    | "s.sub" | "s.isub" =>
      (match natOfHex a, natOfHex b with
       | some x, some y => { model := showNB (scalar.sub x y),
                             specs := chk op (impl == showNB (if x < y then x + 2 ^ 64 - y else x - y, decide (x < y))) "not (x - y) mod 2^64 with the borrow" }
       | _, _ => bad "decode")
    | "iadd" | "t.iadd_small" => vs (fun x y => { model := showLimbs (small.iadd x y), specs := valSpec op impl (value x + y) }) a b false
    | "imul" | "mul" | "t.imul_small" => vs (fun x y => { model := showLimbs (small.imul x y), specs := valSpec op impl (value x * y) }) a b false
    | "imul_pow5" | "t.imul_pow5" => vs (fun x n => { model := showOL (small.imulPow5 x n), specs := valSpec op impl (value x * 5 ^ n) }) a b true
    | "t.imul_pow10" => vs (fun x n => { model := showOL (Math.imulPow10 x n), specs := valSpec op impl (value x * 10 ^ n) }) a b true
    | "ishl_bits" => vs (fun x n => { model := showLimbs (small.ishlBits x n), specs := valSpec op impl (value x * 2 ^ n) }) a b true
    | "ishl_limbs" => vs (fun x n => { model := showLimbs (small.ishlLimbs x n), specs := valSpec op impl (value x * 2 ^ (64 * n)) }) a b true
    | "ishl" | "t.ishl" | "t.imul_pow2" => vs (fun x n => { model := showLimbs (small.ishl x n), specs := valSpec op impl (value x * 2 ^ n) }) a b true
    | "nonzero" => vs (fun x r => { model := showB (nonzero x r),
                                    specs := chk op (impl == showB (value (x.take (x.length - r)) != 0)) "not `the limbs below the top r denote a non-zero number`" }) a b true
    | "hi64_2" =>
      (match natOfHex a, natOfHex b with
       | some r0, some r1 => { model := showONB (u64ToHi64_2 r0 r1),
                               specs := if r0 == 0 || impl == "P" then [] else
                                 let h := SJ.Model.Lexical.hi64 (r0 * 2 ^ 64 + r1)
                                 chk op (impl == showNB h) s!"the top 64 bits and sticky flag of r0·2^64 + r1 are {showNB h}" }
       | _, _ => bad "decode")
    | "compare" | "t.compare" =>
      two (fun x y => { model := showOrd (large.compare x y),
                        specs := if normalB x && normalB y then chk op (impl == showOrd (ordOfNat (value x) (value y))) "differs from the comparison of the numbers denoted (normalised operands)" else [] }) a b
    | "less" => two (fun x y => { model := showB (large.less x y),
                                  specs := if normalB x && normalB y then chk op (impl == showB (decide (value x < value y))) "differs from < on the numbers denoted" else [] }) a b
    | "ge" => two (fun x y => { model := showB (large.greaterEqual x y),
                                specs := if normalB x && normalB y then chk op (impl == showB (decide (value x ≥ value y))) "differs from ≥ on the numbers denoted" else [] }) a b
    | "l.iadd" | "l.add" => two (fun x y => { model := showLimbs (large.add x y), specs := valSpec op impl (value x + value y) }) a b
    | "l.isub" => two (fun x y => { model := showOL (large.isub x y),
                                    specs := if value y ≤ value x && y.length ≤ x.length then valSpecN op impl (value x - value y) else [] }) a b
    | "l.imul" => two (fun x y => { model := showOL (large.imul x y), specs := valSpec op impl (value x * value y) }) a b
    | "long_mul" => two (fun x y => { model := showOL (large.longMul x y), specs := valSpecN op impl (value x * value y) }) a b
    | "kmul" => two (fun x y => { model := showOL (large.karatsubaMul (large.karatsubaFuel x y) x y), specs := valSpec op impl (value x * value y) }) a b
    | "kuneven" => two (fun x y => { model := showOL (large.karatsubaUnevenMul (large.karatsubaMul (large.karatsubaFuel x y)) x y),
                                     specs := valSpecN op impl (value x * value y) }) a b
    | "kfwd" => two (fun x y => { model := showOL (large.karatsubaMulFwd x y), specs := valSpec op impl (value x * value y) }) a b
    | "ksplit" => vs (fun z m => { model := match large.karatsubaSplit z m with | some (lo, hi) => showLimbs lo ++ ":" ++ showLimbs hi | none => "P" }) a b true
    | _ => bad ("unknown lm op " ++ op)
  | [op, a] =>
    match op with
    | "normalize" | "t.normalize" =>
      (match limbsOf a with
       | some x => { model := showLimbs (small.normalize x), specs := valSpecN op impl (value x) }
       | none => bad "decode")
    | "lz" => (match limbsOf a with | some x => { model := toString (small.leadingZeros x) } | none => bad "decode")
    | "bit_length" | "t.bit_length" =>
      (match limbsOf a with
       | some x => { model := toString (small.bitLength x),
                     specs := if normalB x then chk op (impl == toString (SJ.Model.Lexical.bitLength (value x))) s!"the number denoted has {SJ.Model.Lexical.bitLength (value x)} bits" else [] }
       | none => bad "decode")
    | "hi64" | "t.hi64" =>
      (match limbsOf a with
       | some x => { model := showONB (hi64 x),
                     specs := if normalB x && impl != "P" then chk op (impl == natHi64 (value x)) s!"the top 64 bits and sticky flag of the number denoted are {natHi64 (value x)}" else [] }
       | none => bad "decode")
    | "hi64_1" =>
      (match natOfHex a with
       | some r0 => { model := showONB (u64ToHi64_1 r0),
                      specs := if r0 == 0 || impl == "P" then [] else chk op (impl == natHi64 r0) s!"the top 64 bits of r0 are {natHi64 r0}" }
       | none => bad "decode")
    | "t.from_u64" =>
      (match natOfHex a with
       | some x => { model := showLimbs (Math.fromU64 x), specs := valSpecN op impl x }
       | none => bad "decode")
    | _ => bad ("unknown lm op " ++ op)
  | [op, a, b, c] =>
    match op with
    | "s.mul" | "s.imul" =>
      (match natOfHex a, natOfHex b, natOfHex c with
       | some x, some y, some k => { model := showNN (scalar.mul x y k),
                                     specs := chk op (impl == showNN ((x * y + k) % 2 ^ 64, (x * y + k) / 2 ^ 64)) "not the low and high limb of x·y + carry" }
       | _, _, _ => bad "decode")
    | "iadd_impl" =>
      (match limbsOf a, natOfHex b, c.toNat? with
       | some x, some y, some st => { model := showLimbs (small.iaddImpl x y st),
                                      specs := if st ≤ x.length then valSpec op impl (value x + y * 2 ^ (64 * st)) else [] }
       | _, _, _ => bad "decode")
    | "isub_impl" =>
      (match limbsOf a, natOfHex b, c.toNat? with
       | some x, some y, some st => { model := showOL (small.isubImpl x y st),
                                      specs := if y * 2 ^ (64 * st) ≤ value x then valSpecN op impl (value x - y * 2 ^ (64 * st)) else [] }
       | _, _, _ => bad "decode")
    | "l.iadd_impl" =>
      (match limbsOf a, limbsOf b, c.toNat? with
       | some x, some y, some st => { model := showOL (large.iaddImpl x y st), specs := valSpec op impl (value x + value y * 2 ^ (64 * st)) }
       | _, _, _ => bad "decode")
    | "seq.mant" =>
      (match digitsOf b, digitsOf c with
       | some i, some f => { model := showLimbs (parseMantissaL (fcOf a) i f),
                             specs := valSpec op impl (SJ.Model.Lexical.parseMantissa (fcOf a) i f) }
       | _, _ => bad "decode")
    | "seq.large" =>
      (match limbsOf b, intOf c with
       | some m, some e => { model := match largeAtofL (fcOf a) m e with | some r => hexOfNat r | none => "P",
                             specs := if normalB m && value m != 0 && impl != "P" then
                               chk op (impl == hexOfNat (SJ.Model.Lexical.largeAtof (fcOf a) (value m) e)) "differs from large_atof on the number the mantissa denotes" else [] }
       | _, _ => bad "decode")
    | _ => bad ("unknown lm op " ++ op)
  | ["seq.small", a, b, c, d] =>
    (match limbsOf b, intOf c, natOfHex d with
     | some m, some e, some f => { model := match smallAtofL (fcOf a) m e f with | some r => hexOfNat r | none => "P",
                                   specs := if normalB m && impl != "P" then
                                     chk "seq.small" (impl == hexOfNat (SJ.Model.Lexical.smallAtof (fcOf a) (value m) e f)) "differs from small_atof on the number the mantissa denotes" else [] }
     | _, _, _ => bad "decode")
  | ["seq.bhcomp", a, b, c, d, e] =>
    (match natOfHex b, digitsOf c, digitsOf d, intOf e with
     | some f, some i, some fr, some ex => { model := match bhcompL (fcOf a) f i fr ex with | some r => hexOfNat r | none => "P",
                                             specs := if impl != "P" then
                                               chk "seq.bhcomp" (impl == hexOfNat (SJ.Model.Lexical.bhcomp (fcOf a) f i fr ex)) "differs from bhcomp with Bigint as a natural number" else [] }
     | _, _, _, _ => bad "decode")
  | _ => bad "arity"

def handlers : List (String × Handler) := [("lm", lm)]
end SJ.Drv.LexMath
