import SJ.Drv.Mach
import SJ.Model.MachineAp
/-! Driver helpers for `Model.MachineAp` (the `Value` target under `arbitrary_precision`: private Number token). -/
namespace SJ.Drv.MachAp
open SJ SJ.Drv SJ.Drv.Mach SJ.Model.Machine

/-- serde's `invalid type: <unexpected>, expected string containing a number` — the wording of `<unexpected>` is serde's
    (`Unexpected` / `JsonUnexpected` Display) and is echoed from the implementation's observation when it has this
    frame; anything else is not accepted as the message of a `data` outcome -/
def invalidTypeMsg (implField : String) : String :=
  let pre := hexOfBytes "invalid type: ".toUTF8.toList
  let suf := hexOfBytes (", expected ".toUTF8.toList ++ Gen.numberFromStringExpecting)
  match implField.splitOn ":" with
  | ["E", m, _, _, _] => if m.startsWith pre && m.endsWith suf then m else "?invalid-type"
  | _ => "?invalid-type"

/-- canonical outcome, as `Mach.showOutcome`; `implField`: the implementation's observation for the same source -/
def showOutcome (env : Env) (bs : Bytes) (implField : String) (o : Model.MachineAp.Outcome) : String :=
  match o with
  | .ok v => if env.tgt = .value then "V" ++ encJV v else "U"
  | .err c idx =>
    let (l, col) := lineCol bs idx
    s!"E:{hexOfBytes (Gen.message c)}:{catName (Gen.classify c)}:{l}:{col}"
  | .data idx =>
    let (l, col) := lineCol bs idx
    s!"E:{invalidTypeMsg implField}:data:{l}:{col}"
  | .custom c l col => s!"E:{hexOfBytes (Gen.message c)}:data:{l}:{col}"

def runShow (cfg : Cfg) (src : Src) (tgt : Tgt) (bs : Bytes) (implField : String) : String :=
  let env : Env := { cfg := cfg, src := src, tgt := tgt }
  showOutcome env bs implField (Model.MachineAp.parseTop env bs)

/-- all three sources, `|`-separated, as `Mach.runAll` -/
def runAll (cfg : Cfg) (tgt : Tgt) (bs : Bytes) (impl : String) : String :=
  let fs := impl.splitOn "|"
  let s := if Spec.Utf8.validUtf8 bs then runShow cfg .str tgt bs (fs.getD 0 "") else "-"
  s ++ "|" ++ runShow cfg .slice tgt bs (fs.getD 1 "") ++ "|" ++ runShow cfg .reader tgt bs (fs.getD 2 "")

/-- the parser model for a configuration and target: `MachineAp` for `Value` under `arbitrary_precision` -/
def runAllFor (cfg : Cfg) (tgt : Tgt) (bs : Bytes) (impl : String) : String :=
  if cfg.ap && tgt = .value then runAll cfg tgt bs impl else Mach.runAll cfg tgt bs

end SJ.Drv.MachAp
