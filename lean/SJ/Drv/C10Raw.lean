import SJ.Drv.C19
import SJ.Drv.C19b
/-!
Driver handler of op `pfxr` (harness/src/c10raw.rs): C10 for content captured raw (raw_value builds).

`pfxr <cfg> <tgt> <src> <hex doc> => o_0,…,o_n` — outcome of every prefix of a text the target accepts: `A`,
`<category>:<line>:<col>`, `-` (a str prefix that is not UTF-8).

* model: `Model.Raw.rawTop` (`raw`), `Model.RawNested.rawSeqTop` / `rawMapTop` (`rawvec` / `rawmap`, through
  `StreamRaw.nestModel`), `Model.RawStruct.rawStructTop` on shape `s3` (`rawfld`, through `C19b.fldModel`) on every prefix;
* specification (C10, on the implementation's outcomes): every proper prefix is accepted or fails with a category-`eof`
  error positioned at its end — never Syntax or Data, in particular not `invalid unicode code point` when the cut falls
  inside a multi-byte character of the partial capture.
-/
namespace SJ.Drv.C10Raw
open SJ SJ.Drv SJ.Drv.Mach SJ.Model.Machine

/-- `OK:…` ↦ `A`, `R…` ↦ `A`, `E:<msg>:<cat>:<l>:<c>` ↦ `<cat>:<l>:<c>` -/
def proj (o : String) : String :=
  if o.startsWith "OK:" || o.startsWith "R" then "A" else
  match o.splitOn ":" with
  | ["E", _, cat, l, c] => s!"{cat}:{l}:{c}"
  | _ => o

def modelOne (cfg : Cfg) (tgt : String) (src : Src) (p : Bytes) : String :=
  if tgt == "raw" then proj (SJ.Drv.C19.showRaw p false (SJ.Model.Raw.rawTop cfg src p))
  else if tgt == "rawvec" then proj (SJ.Drv.StreamRaw.nestModel cfg src "arr" p "?")
  else if tgt == "rawmap" then proj (SJ.Drv.StreamRaw.nestModel cfg src "obj" p "?")
  else proj (SJ.Drv.C19b.fldModel cfg src "s3" p "?")

def pfxr : Handler := fun args impl =>
  match args with
  | [c, tgt, sr, h] =>
    match srcOfTag sr, bytesOfHex h with
    | some src, some bs =>
      let cfg := cfgOfTag c
      let outs := (List.range (bs.length + 1)).map fun k =>
        let p := bs.take k
        if src == .str && !Spec.Utf8.validUtf8 p then "-" else modelOne cfg tgt src p
      let obs := impl.splitOn ","
      let spec : List String :=
        if obs.length != bs.length + 1 then ["C10 malformed observation"]
        else if obs.getLast? != some "A" then []
        else
          let bad := (List.range bs.length).filterMap fun k =>
            let o := obs[k]!
            let (l, col) := lineCol (bs.take k) k
            if o == "A" || o == "-" || o == s!"eof:{l}:{col}" then none else some (k, o)
          match bad with
          | [] => []
          | (k, o) :: _ => [s!"C10 raw target {tgt} from {sr}: prefix of length {k} of an accepted text fails with {o} (expected success or eof at its end) [{bad.length} prefix(es)]"]
      { model := ",".intercalate outs, specs := spec }
    | _, _ => bad "decode"
  | _ => bad "arity"

def handlers : List (String × Handler) := [("pfxr", pfxr)]
end SJ.Drv.C10Raw
