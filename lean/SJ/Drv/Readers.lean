import SJ.Drv.Mach
import SJ.Model.ReadSlice
import SJ.Model.ReadIo
import SJ.Spec.Canon
import SJ.Spec.Str
import SJ.Spec.Wtf8
/-!
Driver handlers for the two real string scanners of `src/read.rs` (`SJ.Model.ReadSlice`, `SJ.Model.ReadIo`,
`harness/src/readers.rs`, `docs/READERS-NOTES.md`).

* `rd <fn> <input> <start> => <str>|<slice>|<reader>` — `parse_str` (S), `parse_str_raw` (R), `ignore_str` (I),
  `decode_hex_escape` (H) called directly on `StrRead` / `SliceRead` / `IoRead` after `start` calls of `next()`.
  MODEL: `Model.ReadSlice` for `str` and `slice` (the `StrRead` closure for S), `Model.ReadIo` for the reader — two
  separately transcribed scanners; positions through `SlicePos.position` / `IoPos.position`, offsets through
  `byteOffset`.
  SPECIFICATION (evaluated on the crate's observations, independent of both models):
  C09 — slice and reader return the same bytes / end offset, or the same error at the same line, column and offset;
  `str` = slice (borrowed-ness included) whenever the input is UTF-8;
  C05 — (S, I) the recursive-descent recogniser `Spec.Rec` applied to `"` + what follows `start`: the call succeeds iff
  a string literal starts there (S: and `Spec.Canon`'s side conditions hold — surrogates paired, UTF-8 on byte
  sources), ends where the literal ends, and (S) returns the RFC 8259 §7 decoding `Spec.Canon.canon`; (S, R) the result
  is borrowed iff the body has no backslash, and then it is the subslice `input[start .. end-1]`;
  (H) `Spec.Str.hex4Val` of the next four bytes, `EofWhileParsingString` at the end of input when fewer are left.
* `rs <cfg> <target> <input> => <str>|<slice>|<reader>` — the same through `Deserializer::from_*` and
  `String` / `&str` / `ByteBuf` / `IgnoredAny`: model = the reader models at index 1 (input = `"`…); spec = C09 agreement.
-/
namespace SJ.Drv.Readers
open SJ SJ.Drv SJ.Drv.Mach SJ.Model.LineCol SJ.Model.ReadEscape
open SJ.Model.ReadSlice (Reference SliceRead)
open SJ.Model.ReadIo (IoRead)

def errStr (c : Gen.Code) (pos : Option (Nat × Nat)) (off : Nat) : String :=
  match pos with
  | some (l, col) => s!"E:{hexOfBytes (Gen.message c)}:{catName (Gen.classify c)}:{l}:{col}:{off}"
  | none => "PANIC"

def showRefS (start : Nat) : Res Reference SliceRead → String
  | .ok ref r => s!"OK:{hexField ref.bytes}:{if ref.isBorrowed then s!"B{start}" else "C"}:{r.byteOffset}"
  | .err c r => errStr c r.position r.byteOffset
  | .fuel => "FUEL"

def showRefI : Res Reference IoRead → String
  | .ok ref r => s!"OK:{hexField ref.bytes}:{if ref.isBorrowed then "B?" else "C"}:{r.byteOffset}"
  | .err c r => errStr c (some r.position) r.byteOffset
  | .fuel => "FUEL"

def showUnitS : Res Unit SliceRead → String
  | .ok _ r => s!"OK:{r.byteOffset}"
  | .err c r => errStr c r.position r.byteOffset
  | .fuel => "FUEL"

def showUnitI : Res Unit IoRead → String
  | .ok _ r => s!"OK:{r.byteOffset}"
  | .err c r => errStr c (some r.position) r.byteOffset
  | .fuel => "FUEL"

def showHexS : Res Nat SliceRead → String
  | .ok n r => s!"OK:{n}:{r.byteOffset}"
  | .err c r => errStr c r.position r.byteOffset
  | .fuel => "FUEL"

def showHexI : Res Nat IoRead → String
  | .ok n r => s!"OK:{n}:{r.byteOffset}"
  | .err c r => errStr c (some r.position) r.byteOffset
  | .fuel => "FUEL"

/-- the slice reader after `start` calls of `next()` -/
def sliceAt (bs : Bytes) (start : Nat) : SliceRead := ⟨bs, min start bs.length⟩
/-- the reader after `start` calls of `next()` -/
def ioAt (bs : Bytes) (start : Nat) : IoRead := IoPos.at bs (min start bs.length) false

def modelSlice (strSrc : Bool) (f : String) (bs : Bytes) (start : Nat) : String :=
  let r := sliceAt bs start
  if f == "S" then showRefS r.index (if strSrc then Model.ReadSlice.strParseStr r else Model.ReadSlice.parseStr r)
  else if f == "R" then showRefS r.index (Model.ReadSlice.parseStrRaw r)
  else if f == "I" then showUnitS (Model.ReadSlice.ignoreStr r)
  else showHexS (Model.ReadSlice.decodeHexEscape r)

def modelIo (f : String) (bs : Bytes) (start : Nat) : String :=
  let r := ioAt bs start
  if f == "S" then showRefI (Model.ReadIo.parseStr r)
  else if f == "R" then showRefI (Model.ReadIo.parseStrRaw r)
  else if f == "I" then showUnitI (Model.ReadIo.ignoreStr r)
  else showHexI (Model.ReadIo.decodeHexEscape r)

def modelAll (f : String) (bs : Bytes) (start : Nat) : String :=
  let s := if Spec.Utf8.validUtf8 bs then modelSlice true f bs start else "-"
  s ++ "|" ++ modelSlice false f bs start ++ "|" ++ modelIo f bs start

/-! ## specification side -/

/-- drop the borrowed / copied class from an `OK:<bytes>:<class>:<off>` observation -/
def dropClass (o : String) : String :=
  match o.splitOn ":" with
  | ["OK", b, _, off] => s!"OK:{b}:{off}"
  | _ => o

def judgeAgree (f : String) (fields : List String) : List String :=
  match fields with
  | [s, b, r] =>
    let m1 := if dropClass b == dropClass r then [] else [s!"C09 {f}: slice and reader scanners disagree: {b} | {r}"]
    let m2 := if s == "-" || s == b then [] else [s!"C09 {f}: str and slice disagree on UTF-8 input: {s} | {b}"]
    m1 ++ m2
  | _ => ["C09 malformed observation"]

def hasBackslash (bs : Bytes) : Bool := bs.contains 0x5c

/-- the borrowed clause of C05 on one `OK:<bytes>:<class>:<off>` observation of a slice-backed source -/
def judgeBorrowed (srcName : String) (bs : Bytes) (start : Nat) (o : String) : List String :=
  match o.splitOn ":" with
  | ["OK", b, cls, offs] =>
    match bytesOfHex b, offs.toNat? with
    | some bytes, some off =>
      let body := (bs.take (off - 1)).drop start
      if hasBackslash body then
        (if cls == "C" then [] else [s!"C05 {srcName}: borrowed ({cls}) although the literal has an escape"])
      else if cls != s!"B{start}" then [s!"C05 {srcName}: literal without escapes not returned as the subslice at {start}: {cls}"]
      else if bytes != body then [s!"C05 {srcName}: borrowed bytes are not input[{start}..{off - 1}]"]
      else []
    | _, _ => [s!"C05 {srcName}: unreadable observation"]
  | _ => []

/-- what RFC 8259 + the statement's side conditions say of `"` + `bs[start..]` as a string literal:
    `some (decoded, end)` or `none` (must fail) -/
def oracleStr (byteSource : Bool) (bs : Bytes) (start : Nat) : Option (Bytes × Nat) :=
  match Spec.Rec.recogniseValuePrefix (0x22 :: bs.drop start) with
  | some (t, rest) =>
    if Spec.Canon.sideConditions {} byteSource t then
      match Spec.Canon.canon {} t with
      | some (.str b) => some (b, bs.length - rest.length)
      | _ => none
    else none
  | none => none

def oracleIgn (bs : Bytes) (start : Nat) : Option Nat :=
  match Spec.Rec.recogniseValuePrefix (0x22 :: bs.drop start) with
  | some (.str _, rest) => some (bs.length - rest.length)
  | _ => none

def judgeStr (srcName : String) (byteSource : Bool) (bs : Bytes) (start : Nat) (o : String) : List String :=
  if o == "-" then [] else
  if o == "PANIC" then [s!"C14 {srcName}: parse_str panics"] else
  match oracleStr byteSource bs start, o.splitOn ":" with
  | some (b, e), ["OK", hb, _, offs] =>
    (if hb == hexField b then [] else [s!"C05 {srcName}: decoded bytes differ from the RFC 8259 decoding {hexField b}"]) ++
    (if offs == toString e then [] else [s!"C05 {srcName}: the literal ends at {e}, reader left at {offs}"])
  | some (b, e), _ => [s!"C05 {srcName}: a well-formed literal (decoding {hexField b}, end {e}) is rejected: {o}"]
  | none, "OK" :: _ => [s!"C05 {srcName}: accepted although no well-formed literal meeting the side conditions starts at {start}"]
  | none, _ => []

def judgeIgn (srcName : String) (bs : Bytes) (start : Nat) (o : String) : List String :=
  if o == "-" then [] else
  if o == "PANIC" then [s!"C14 {srcName}: ignore_str panics"] else
  match oracleIgn bs start, o.splitOn ":" with
  | some e, ["OK", offs] => if offs == toString e then [] else [s!"C05 {srcName}: skipped literal ends at {e}, reader left at {offs}"]
  | some e, _ => [s!"C05 {srcName}: a literal of the grammar (end {e}) is rejected by ignore_str: {o}"]
  | none, "OK" :: _ => [s!"C05 {srcName}: ignore_str accepts although no string literal of the grammar starts at {start}"]
  | none, _ => []

/-- the BYTES clause of C05 (`c05_bytes_target_total` / `c05_bytes_target_readers`) on one observation of `parse_str_raw`:
    `Spec.Wtf8.lex` of `bs[start..]` gives items up to a closing quote → the call returns `Spec.Wtf8.decodeBytes items` and
    stops just past the quote; an unknown escape / a `\u` group that is not four hex digits → `InvalidEscape` with the reader
    just past the offending byte; input exhausted → `EofWhileParsingString` at the end. A bare control character is a raw
    item here, as in the code (the statement's "the same decoding applies" would reject it: finding
    `C05-bytes-control-char-accepted`, reported by op `bytesctl`, not here). -/
def judgeRaw (srcName : String) (bs : Bytes) (start : Nat) (o : String) : List String :=
  if o == "-" then [] else
  if o == "PANIC" then [s!"C14 {srcName}: parse_str_raw panics"] else
  let escMsg := hexOfBytes (Gen.message .InvalidEscape)
  let eofMsg := hexOfBytes (Gen.message .EofWhileParsingString)
  match Spec.Wtf8.lex (bs.drop start), o.splitOn ":" with
  | .ok items _, ["OK", hb, _, offs] =>
    let want := Spec.Wtf8.decodeBytes items
    let e := start + (items.flatMap Spec.Grammar.StrItem.bytes).length + 1
    (if hb == hexField want then [] else [s!"C05 {srcName}: bytes target: decoded bytes differ from the WTF-8 decoding {hexField want}"]) ++
    (if offs == toString e then [] else [s!"C05 {srcName}: bytes target: the literal ends at {e}, reader left at {offs}"])
  | .ok items _, _ => [s!"C05 {srcName}: bytes target: a well-formed literal (decoding {hexField (Spec.Wtf8.decodeBytes items)}) is rejected: {o}"]
  | .badEscape n, "E" :: m :: _ :: _ :: _ :: offs :: [] =>
    if m == escMsg && offs == toString (start + n) then [] else [s!"C05 {srcName}: bytes target: expected InvalidEscape with the reader at {start + n}: {o}"]
  | .badEscape n, _ => [s!"C05 {srcName}: bytes target: expected InvalidEscape with the reader at {start + n}: {o}"]
  | .eof, "E" :: m :: "eof" :: _ =>
    if m == eofMsg then [] else [s!"C05 {srcName}: bytes target: input ends inside the literal but the error is not EofWhileParsingString: {o}"]
  | .eof, _ => [s!"C05 {srcName}: bytes target: input ends inside the literal but the call does not report Eof: {o}"]

def judgeHex (srcName : String) (bs : Bytes) (start : Nat) (o : String) : List String :=
  if o == "-" then [] else
  let rest := bs.drop start
  let eofMsg := hexOfBytes (Gen.message .EofWhileParsingString)
  let escMsg := hexOfBytes (Gen.message .InvalidEscape)
  match rest, o.splitOn ":" with
  | a :: b :: c :: d :: _, "OK" :: ns :: offs :: [] =>
    if Spec.Str.hex4Val a b c d == ns.toNat? && offs == toString (start + 4) then []
    else [s!"C05 {srcName}: four-digit group decoded as {ns} (offset {offs})"]
  | a :: b :: c :: d :: _, "E" :: m :: _ =>
    if (Spec.Str.hex4Val a b c d).isNone && m == escMsg then [] else [s!"C05 {srcName}: four bytes are left but the group is rejected with {o}"]
  | _, "E" :: m :: "eof" :: _ =>
    if m == eofMsg then [] else [s!"C12 {srcName}: a \\u group cut by the end of input is not EofWhileParsingString: {o}"]
  | _, _ => [s!"C12 {srcName}: a \\u group cut by the end of input must be an Eof error: {o}"]

def rd : Handler := fun args impl =>
  match args with
  | [f, h, st] =>
    match bytesOfHex h, st.toNat? with
    | some bs, some start =>
      let start := min start bs.length
      let fields := impl.splitOn "|"
      let specs := match fields with
        | [s, b, r] =>
          judgeAgree f fields ++
          (if f == "S" then
            judgeStr "str" false bs start s ++ judgeStr "slice" true bs start b ++ judgeStr "reader" true bs start r ++
            judgeBorrowed "str" bs start s ++ judgeBorrowed "slice" bs start b
           else if f == "R" then judgeBorrowed "str" bs start s ++ judgeBorrowed "slice" bs start b ++
            judgeRaw "str" bs start s ++ judgeRaw "slice" bs start b ++ judgeRaw "reader" bs start r
           else if f == "I" then judgeIgn "str" bs start s ++ judgeIgn "slice" bs start b ++ judgeIgn "reader" bs start r
           else judgeHex "str" bs start s ++ judgeHex "slice" bs start b ++ judgeHex "reader" bs start r)
        | _ => ["C09 malformed observation"]
      { model := modelAll f bs start, specs := specs }
    | _, _ => bad "decode"
  | _ => bad "arity"

/-! ## end to end: `Deserializer::from_*` + `String` / `&str` / `ByteBuf` / `IgnoredAny` -/

def e2eErr (c : Gen.Code) (pos : Option (Nat × Nat)) : String :=
  match pos with
  | some (l, col) => s!"E:{hexOfBytes (Gen.message c)}:{catName (Gen.classify c)}:{l}:{col}"
  | none => "PANIC"

def e2eRefS (target : String) : Res Reference SliceRead → String
  | .ok ref _ => if target == "R" && !ref.isBorrowed then "NB" else s!"OK:{hexField ref.bytes}"
  | .err c r => e2eErr c r.position
  | .fuel => "FUEL"

def e2eRefI : Res Reference IoRead → String
  | .ok ref _ => s!"OK:{hexField ref.bytes}"
  | .err c r => e2eErr c (some r.position)
  | .fuel => "FUEL"

def e2eSlice (strSrc : Bool) (target : String) (bs : Bytes) : String :=
  let r : SliceRead := ⟨bs, 1⟩
  if target == "S" || target == "R" then e2eRefS target (if strSrc then Model.ReadSlice.strParseStr r else Model.ReadSlice.parseStr r)
  else if target == "B" then e2eRefS target (Model.ReadSlice.parseStrRaw r)
  else match Model.ReadSlice.ignoreStr r with
    | .ok _ _ => "OK" | .err c r => e2eErr c r.position | .fuel => "FUEL"

def e2eIo (target : String) (bs : Bytes) : String :=
  let r : IoRead := IoPos.at bs 1 false
  if target == "S" then e2eRefI (Model.ReadIo.parseStr r)
  else if target == "B" then e2eRefI (Model.ReadIo.parseStrRaw r)
  else match Model.ReadIo.ignoreStr r with
    | .ok _ _ => "OK" | .err c r => e2eErr c (some r.position) | .fuel => "FUEL"

def rs : Handler := fun args impl =>
  match args with
  | [_cfg, target, h] =>
    match bytesOfHex h with
    | some bs =>
      if bs.head? != some 0x22 then bad "input must start with a quote" else
      let s := if Spec.Utf8.validUtf8 bs then e2eSlice true target bs else "-"
      let m := s ++ "|" ++ e2eSlice false target bs ++ "|" ++ (if target == "R" then "-" else e2eIo target bs)
      let specs := match impl.splitOn "|" with
        | [s, b, r] =>
          (if r == "-" || b == r then [] else [s!"C09 {target}: from_slice and from_reader disagree: {b} | {r}"]) ++
          (if s == "-" || s == b then [] else [s!"C09 {target}: from_str and from_slice disagree on UTF-8 input: {s} | {b}"])
        | _ => ["C09 malformed observation"]
      { model := m, specs := specs }
    | none => bad "decode"
  | _ => bad "arity"

/-! ## the self-describing route: `deserialize_any` + a visitor that tells `visit_borrowed_str` / `visit_str` / `visit_string` apart

`rsa <cfg> <ctx> <doc> <p> => <str>|<slice>|<reader>` — the literal whose body starts at `doc[p]` (`doc[p-1] = '"'`) as top-level
value (`T`), array element (`A`), map key (`K`), map value (`V`), or as the `&'a str` member of a derived untagged enum (`U` top
level, `UA` element of a `Vec`). MODEL: the scanner models at index `p` of the document — `Model.ReadSlice` (its `Reference` is
`Borrowed` or `Copied`) for `str` / `slice`, `Model.ReadIo` (always copied) for the reader; for the untagged enum a copied
string cannot become a `&'a str`: serde's "data did not match any variant" (message and, for `UA`, position echoed).
SPECIFICATION (C05, independent of the models): `Spec.Rec` + `Spec.Canon` give the literal's extent and decoding; from `str` /
`slice` the visitor must be handed a BORROWED string — the subslice `doc[p .. end-1]` — exactly when the body has no backslash,
a transient one (`visit_str`) otherwise; from a reader never a borrowed one; the bytes are the RFC 8259 decoding in every case;
the untagged enum's `Text(&str)` must exist for every escape-free literal from `str` / `slice`. -/

def isDataErr (o : String) : Bool :=
  match o.splitOn ":" with
  | ["E", _, "data", _, _] => true
  | _ => false

def rsaData (ctx impl : String) : String :=
  if ctx == "U" then s!"E:{(impl.splitOn ":").getD 1 "?"}:data:0:0"
  else if isDataErr impl then impl else "E:?:data"

def rsaSlice (strSrc : Bool) (ctx : String) (bs : Bytes) (p : Nat) (impl : String) : String :=
  let r : SliceRead := ⟨bs, p⟩
  match (if strSrc then Model.ReadSlice.strParseStr r else Model.ReadSlice.parseStr r) with
  | .ok ref _ =>
    if ref.isBorrowed then s!"OK:{hexField ref.bytes}:B{p}"
    else if ctx == "U" || ctx == "UA" then rsaData ctx impl
    else s!"OK:{hexField ref.bytes}:C"
  | .err c r => e2eErr c r.position
  | .fuel => "FUEL"

def rsaIo (ctx : String) (bs : Bytes) (p : Nat) (impl : String) : String :=
  match Model.ReadIo.parseStr (IoPos.at bs p false) with
  | .ok ref _ => if ctx == "U" || ctx == "UA" then rsaData ctx impl else s!"OK:{hexField ref.bytes}:C"
  | .err c r => e2eErr c (some r.position)
  | .fuel => "FUEL"

def rsaJudge (srcName ctx : String) (byteSource isReader : Bool) (bs : Bytes) (p : Nat) (o : String) : List String :=
  if o == "-" then [] else
  if o == "PANIC" then [s!"C14 {srcName} {ctx}: deserialize_any panics"] else
  let untagged := ctx == "U" || ctx == "UA"
  match oracleStr byteSource bs p, o.splitOn ":" with
  | some (dec, e), ["OK", hb, cls] =>
    let body := (bs.take (e - 1)).drop p
    (if hb == hexField dec then [] else [s!"C05 {srcName} {ctx}: deserialize_any: decoded bytes differ from the RFC 8259 decoding {hexField dec}"]) ++
    (if isReader then
      (if cls.startsWith "B" then [s!"C05 {srcName} {ctx}: a reader handed out a borrowed string ({cls})"] else [])
     else if hasBackslash body then
      (if cls.startsWith "B" then [s!"C05 {srcName} {ctx}: deserialize_any: borrowed ({cls}) although the literal has an escape"] else [])
     else if cls != s!"B{p}" then
      [s!"C05 {srcName} {ctx}: deserialize_any: a literal without escapes reached the visitor as {cls}, not as the borrowed subslice at {p}"]
     else if some body != bytesOfHex hb then [s!"C05 {srcName} {ctx}: deserialize_any: borrowed bytes are not input[{p}..{e - 1}]"]
     else [])
  | some (dec, e), _ =>
    let body := (bs.take (e - 1)).drop p
    if untagged then
      (if isReader || hasBackslash body then []
       else [s!"C05 {srcName} {ctx}: untagged enum: the escape-free literal {hexField dec} did not arrive as a borrowed &str: {o}"])
    else [s!"C05 {srcName} {ctx}: deserialize_any: a well-formed literal (decoding {hexField dec}) is rejected: {o}"]
  | none, "OK" :: _ => [s!"C05 {srcName} {ctx}: deserialize_any: accepted although no well-formed literal meeting the side conditions starts at {p}"]
  | none, _ => []

def rsa : Handler := fun args impl =>
  match args with
  | [_cfg, ctx, h, ps] =>
    match bytesOfHex h, ps.toNat? with
    | some bs, some p =>
      if p == 0 || bs[p - 1]? != some 0x22 then bad "no quote before the literal body" else
      match impl.splitOn "|" with
      | [s, b, r] =>
        let m := (if Spec.Utf8.validUtf8 bs then rsaSlice true ctx bs p s else "-") ++ "|" ++ rsaSlice false ctx bs p b ++ "|" ++ rsaIo ctx bs p r
        let untagged := ctx == "U" || ctx == "UA"
        let dropCls (o : String) : String := match o.splitOn ":" with | ["OK", x, _] => "OK:" ++ x | _ => o
        let specs :=
          rsaJudge "str" ctx false false bs p s ++ rsaJudge "slice" ctx true false bs p b ++ rsaJudge "reader" ctx true true bs p r ++
          (if untagged || dropCls b == dropCls r then [] else [s!"C09 {ctx}: deserialize_any: from_slice and from_reader disagree: {b} | {r}"]) ++
          (if s == "-" || s == b then [] else [s!"C09 {ctx}: deserialize_any: from_str and from_slice disagree on UTF-8 input: {s} | {b}"])
        { model := m, specs := specs }
      | _ => bad "obs"
    | _, _ => bad "decode"
  | _ => bad "arity"

def handlers : List (String × Handler) := [("rd", rd), ("rs", rs), ("rsa", rsa)]

end SJ.Drv.Readers
