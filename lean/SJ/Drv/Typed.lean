import SJ.Drv.Mach
import SJ.Spec.Schema
import SJ.Model.Typed
/-!
Driver handlers for the typed text deserializer model (`SJ.Model.Typed`).

* `tt <cfg> <src> <schema> <hex text> => OK:<tval> | E:<hex msg>:<category>:<line>:<col> | PANIC`
  — `Seed(schema).deserialize(&mut Deserializer::from_{str,slice,reader}(text))` then `end()`.
  model = `deTypedTop`; parser-detected errors (Syntax/Eof) are compared with their exact message and
  position; visitor errors (`Data`) by category and position only (the message text is serde's: the
  model echoes the implementation's message field).
* `tt3 <cfg> <schema> <hex text> => <str>|<slice>|<reader>` — the three sources side by side (`-` for
  `str` when the text is not UTF-8). Spec (C09): equal results, equal category, equal messages for
  parser errors, positions at most one byte apart (slice = str exactly).
* `pfxs <cfg> <src> <schema> <hex doc> => o_0,…,o_n` — typed prefix sweep (C10), outcomes `A` /
  `<category>:<line>:<col>`; spec: every proper prefix of an accepted text succeeds or is `eof` at its end.
* `rfaults <cfg> <schema> <kind> <k> <hex doc> => <outcome>|<outcome with clean EOF>|<fault delivered>`
  — typed reader faults (C13): `from_reader` over `doc[..k]` followed by an I/O error of `kind`.
-/
namespace SJ.Drv.Typed
open SJ SJ.Drv SJ.Drv.Mach SJ.Model.Typed
open SJ.Model.Machine (Src lineCol)

/-- message field of an observation `E:<msg>:<cat>:<l>:<c>` when its category is `data` -/
def dataMsgOf (impl : String) : String :=
  match impl.splitOn ":" with
  | ["E", m, "data", _, _] => m
  | _ => "?"

def showTop (bs : Bytes) (dataMsg : String) : Top → String
  | .ok v => "OK:" ++ v.enc
  | .err c idx =>
    let (l, col) := lineCol bs idx
    s!"E:{hexOfBytes (Gen.message c)}:{catName (Gen.classify c)}:{l}:{col}"
  | .data (some idx) => let (l, col) := lineCol bs idx; s!"E:{dataMsg}:data:{l}:{col}"
  | .data none => s!"E:{dataMsg}:data:0:0"
  | .io => "IO"
  | .fuel => "FUEL"

def envOf (c : String) (src : Src) (flt : Bool := false) : Env := { cfg := cfgOfTag c, src := src, flt := flt }

def tt : Handler := fun args impl =>
  match args with
  | [c, sr, se, h] =>
    match srcOfTag sr, Schema.decode se, bytesOfHex h with
    | some src, some s, some bs =>
      { model := showTop bs (dataMsgOf impl) (deTypedTop (envOf c src) s bs),
        specs := if impl == "PANIC" then ["C14 panic in the typed text deserializer"] else [] }
    | _, _, _ => bad "decode"
  | _ => bad "arity"

/-- `ttd <cfg> <src> <schema> <levels> <hex text> => outcome` — a complete tower whose deepest counted point has `levels` open
    containers (the generator knows it from the shapes it stacked): C14 says it is accepted iff `levels ≤ 127` (limit enabled).
    Model = the typed model; specification = that sentence, evaluated on the crate's outcome. -/
def ttd : Handler := fun args impl =>
  match args with
  | [c, sr, se, ls, h] =>
    match srcOfTag sr, Schema.decode se, ls.toNat?, bytesOfHex h with
    | some src, some s, some levels, some bs =>
      let recMsg := hexOfBytes (Gen.message .RecursionLimitExceeded)
      let isRec := (impl.splitOn ":").getD 1 "" == recMsg
      let sp :=
        if impl == "PANIC" then ["C14 panic in the typed text deserializer"]
        else if levels ≥ 128 && impl.startsWith "OK:" then [s!"C14 a typed target accepted a text that nests {levels} counted containers (the limit is 127)"]
        else if levels ≥ 128 && !isRec then [s!"C14 {levels} nested containers were rejected, but not with RecursionLimitExceeded: {impl}"]
        else if levels ≤ 127 && isRec then [s!"C14 a text nesting only {levels} counted containers was rejected with RecursionLimitExceeded"]
        else []
      { model := showTop bs (dataMsgOf impl) (deTypedTop (envOf c src) s bs), specs := sp }
    | _, _, _, _ => bad "decode"
  | _ => bad "arity"

/-- byte index of `(line, col)` in `bs` (`none` for the unpositioned `0:0`) -/
def idxOfLineCol (bs : Bytes) (line col : Nat) : Option Nat :=
  if line == 0 then none else
  let rec go (rest : Bytes) (i : Nat) (l : Nat) : Nat :=
    if l == line then i else
    match rest with
    | [] => i
    | b :: r => go r (i + 1) (if b == 0x0a then l + 1 else l)
  some (go bs 0 1 + col)

structure Obs where
  ok : Bool
  body : String                 -- result, or message
  cat : String
  idx : Option Nat

def parseObs (bs : Bytes) (o : String) : Option Obs :=
  if o.startsWith "OK:" then some { ok := true, body := (o.drop 3).toString, cat := "", idx := none }
  else match o.splitOn ":" with
    | ["E", m, cat, l, c] =>
      match l.toNat?, c.toNat? with
      | some l, some c =>
        -- a newline that is peeked by the reader: line + 1, column 0
        some { ok := false, body := m, cat := cat, idx := idxOfLineCol bs l c }
      | _, _ => none
    | _ => none

/-- C09 on two observed outcomes; `exact`: positions must coincide (str vs slice) -/
def judgePair (bs : Bytes) (na nb : String) (exact : Bool) (a b : String) : List String :=
  if a == "-" || b == "-" then [] else
  if a == "PANIC" || b == "PANIC" then [] else
  match parseObs bs a, parseObs bs b with
  | some x, some y =>
    if x.ok != y.ok then [s!"C09 typed: {na} and {nb} disagree on success ({a} vs {b})"]
    else if x.ok then (if x.body == y.body then [] else [s!"C09 typed: {na} and {nb} return different values"])
    else if x.cat != y.cat then [s!"C09 typed: {na} and {nb} report different categories ({x.cat} vs {y.cat})"]
    else if x.cat != "data" && x.body != y.body then [s!"C09 typed: {na} and {nb} report different errors"]
    else
      match x.idx, y.idx with
      | none, none => []
      | some i, some j =>
        let d := if i ≤ j then j - i else i - j
        if d == 0 || (!exact && d == 1) then []
        else [s!"C09 typed: {na} and {nb} report positions {d} bytes apart ({a} vs {b})"]
      | _, _ => [s!"C09 typed: only one of {na} and {nb} reports a position ({a} vs {b})"]
  | _, _ => []

def tt3 : Handler := fun args impl =>
  match args with
  | [c, se, h] =>
    match Schema.decode se, bytesOfHex h with
    | some s, some bs =>
      match impl.splitOn "|" with
      | [o1, o2, o3] =>
        let m (src : Src) (o : String) : String := if o == "-" then "-" else showTop bs (dataMsgOf o) (deTypedTop (envOf c src) s bs)
        { model := m .str o1 ++ "|" ++ m .slice o2 ++ "|" ++ m .reader o3,
          specs := judgePair bs "str" "slice" true o1 o2 ++ judgePair bs "slice" "reader" false o2 o3 }
      | _ => bad "obs"
    | _, _ => bad "decode"
  | _ => bad "arity"

def projTop (bs : Bytes) : Top → String
  | .ok _ => "A"
  | .err c idx => let (l, col) := lineCol bs idx; s!"{catName (Gen.classify c)}:{l}:{col}"
  | .data (some idx) => let (l, col) := lineCol bs idx; s!"data:{l}:{col}"
  | .data none => "data:0:0"
  | .io => "io"
  | .fuel => "FUEL"

def pfxs : Handler := fun args impl =>
  match args with
  | [c, sr, se, h] =>
    match srcOfTag sr, Schema.decode se, bytesOfHex h with
    | some src, some s, some bs =>
      let env := envOf c src
      let outs := (List.range (bs.length + 1)).map fun k =>
        let p := bs.take k
        if src == .str && !Spec.Utf8.validUtf8 p then "-" else projTop p (deTypedTop env s p)
      let obs := impl.splitOn ","
      let spec : List String :=
        if obs.length != bs.length + 1 then ["C10 malformed observation"]
        else if obs.getLast? != some "A" then []
        else
          let bad := (List.range bs.length).filterMap fun k =>
            let o := obs[k]!
            let (l, col) := lineCol (bs.take k) k
            if o == "A" || o == "-" || o == s!"eof:{l}:{col}" then none else some (k, o)
          match bad with
          | [] => []
          | (k, o) :: _ => [s!"C10 typed target (schema {se}): prefix of length {k} of an accepted text fails with {o} (expected success or eof at its end) [{bad.length} prefix(es)]"]
      { model := String.intercalate "," outs, specs := spec }
    | _, _, _ => bad "decode"
  | _ => bad "arity"

/-- the C13 predicate (same as `Drv.C13.judgeFault`) -/
def judgeFault (kind o oeof : String) : List String :=
  if o == "PANIC" then ["C13 panic"]
  else if o.startsWith "OK:" then ["C13 a value was returned although the input ended in an I/O error"]
  else if o == s!"IO:{kind}" then []
  else if o == oeof && ((oeof.splitOn ":").getD 2 "" == "syntax" || (oeof.splitOn ":").getD 2 "" == "data") then []
  else [s!"C13 typed reader failing with {kind}: got {o}; the same bytes followed by end of input give {oeof}"]

def rfaults : Handler := fun args impl =>
  match args with
  | [c, se, kind, ks, h] =>
    match Schema.decode se, ks.toNat?, bytesOfHex h with
    | some s, some k, some bs =>
      match impl.splitOn "|" with
      | [o, oeof, d] =>
        let p := bs.take k
        let showF (t : Top) (msg : String) : String := match t with
          | .io => s!"IO:{kind}"
          | t => showTop p msg t
        let m1 := showF (deTypedTop (envOf c .reader true) s p) (dataMsgOf o)
        let m2 := showTop p (dataMsgOf oeof) (deTypedTop (envOf c .reader false) s p)
        -- the fault is delivered iff the model's run asked for a byte beyond the delivered ones
        { model := m1 ++ "|" ++ m2 ++ "|" ++ d, specs := judgeFault kind o oeof }
      | _ => bad "obs"
    | _, _, _ => bad "decode"
  | _ => bad "arity"

def handlers : List (String × Handler) := [("tt", tt), ("ttd", ttd), ("tt3", tt3), ("pfxs", pfxs), ("rfaults", rfaults)]

end SJ.Drv.Typed
