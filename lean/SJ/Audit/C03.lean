import SJ.Props.C03
#print axioms SJ.Props.C03.c03_compact
#print axioms SJ.Props.C03.c03_error_iff
#print axioms SJ.Props.C03.c03_pretty_layout
#print axioms SJ.Props.C03.c03_no_underflow
#print axioms SJ.Props.C03.c03_hints
#print axioms SJ.Props.C03.c03_value
#print axioms SJ.Props.C03.c03_display_adapter
#print axioms SJ.Props.C03.c03_display
#print axioms SJ.Props.C03.c03_display_fault
#print axioms SJ.Props.C03.c03_display_utf8_safe
#print axioms SJ.Props.C03.c03_display_number
#print axioms SJ.Props.C03.c03_utf8_fragments
#print axioms SJ.Props.C03.c03_recognise_sound
#print axioms SJ.Props.C03.c03_utf8
