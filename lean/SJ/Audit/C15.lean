import SJ.Props.C15
#print axioms SJ.Props.C15.c15_keys
#print axioms SJ.Props.C15.c15_key_dispatch
#print axioms SJ.Props.C15.c15_success_iff
#print axioms SJ.Props.C15.c15_error_iff
#print axioms SJ.Props.C15.c15_128_error
#print axioms SJ.Props.C15.c15_value_is_image
#print axioms SJ.Props.C15.c15_valueOfImage_is_canon
#print axioms SJ.Props.C15.c15_agree_partial
#print axioms SJ.Props.C15.c15_agree_of_parser
#print axioms SJ.Props.C15.parserComplete
#print axioms SJ.Props.C15.c15_agree
