import SJ.Props.C06
import SJ.Props.C06Int
import SJ.Props.C06Via
import SJ.Props.C06Typed128
import SJ.Props.C06KeyDoc
#print axioms SJ.Props.C06.c06_typed
#print axioms SJ.Props.C06.c06_accessors
#print axioms SJ.Props.C06Int.c06_overflow_guard_spec
#print axioms SJ.Props.C06Int.c06_digit_loop
#print axioms SJ.Props.C06Int.c06_parse_integer
#print axioms SJ.Props.C06Int.c06_parse_integer_intClass
#print axioms SJ.Props.C06Int.c06_minus_zero
#print axioms SJ.Props.C06Int.c06_out_of_integer_range
#print axioms SJ.Props.C06.c06_via_value
#print axioms SJ.Props.C06.c06_via_value_ap_partial
#print axioms SJ.Props.C06.c06_ap_negative_zero_via_value
#print axioms SJ.Props.C06.specInt_eq_targetInt
#print axioms SJ.Props.C06.c06_typed_text
#print axioms SJ.Props.C06.c06_typed_128
#print axioms SJ.Props.C06.c06_key_doc
#print axioms SJ.Props.C06.c06_key_doc_bool
