import SJ.Props.C08
#print axioms SJ.Props.C08.c08_roundNE64_spec
#print axioms SJ.Props.C08.c08_roundNE32_spec
#print axioms SJ.Props.C08.c08_pow10_table
#print axioms SJ.Props.C08.c08_overflow_macro
#print axioms SJ.Props.C08.c08_loop_total
