import SJ.Props.C08
#print axioms SJ.Props.C08.c08_roundNE64_spec
#print axioms SJ.Props.C08.c08_roundNE32_spec
#print axioms SJ.Props.C08.c08_pow10_table
#print axioms SJ.Props.C08.c08_overflow_macro
#print axioms SJ.Props.C08.c08_loop_total
#print axioms SJ.Props.C08.c08_exact_short_parts
#print axioms SJ.Props.C08.c08_exact_short
#print axioms SJ.Props.C08.c08_finite_signed_parts
#print axioms SJ.Props.C08.c08_finite_signed
#print axioms SJ.Props.C08.c08_f32_once
#print axioms SJ.Props.C08.c08_f32_once_small_int
#print axioms SJ.Props.C08.c08_f32_once_fails_on_large_int
#print axioms SJ.Props.C08.c08_overflow_direction_partial
#print axioms SJ.Props.C08.c08_accepts_above_2pow1024
#print axioms SJ.Props.C08.c08_zero_significand
#print axioms SJ.Props.C08.c08_underflow_zero_partial
#print axioms SJ.Props.C08.c08_within_5ulp_partial
