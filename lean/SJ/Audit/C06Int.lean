import SJ.Props.C06Int
#print axioms SJ.Props.C06Int.c06_overflow_guard_spec
#print axioms SJ.Props.C06Int.c06_digit_loop
#print axioms SJ.Props.C06Int.c06_parse_integer
#print axioms SJ.Props.C06Int.c06_parse_integer_intClass
#print axioms SJ.Props.C06Int.c06_minus_zero
#print axioms SJ.Props.C06Int.c06_out_of_integer_range
