import SJ.Props.C16
import SJ.Props.Typed
import SJ.Props.C16Float
import SJ.Props.C16Ap
import SJ.Props.C16ApFloat
#print axioms SJ.Props.C16.c16_owned_borrowed
#print axioms SJ.Props.C16.c16_agree_partial
#print axioms SJ.Props.C16.c16_ignored_total
#print axioms SJ.Props.C16.c16_any_identity
#print axioms SJ.Props.C16.c16_tuple_exact_length
#print axioms SJ.Props.C16.c16_struct_array_exact_length
#print axioms SJ.Props.C16.c16_int_in_range
#print axioms SJ.Props.C16.c16_enum_single_key
#print axioms SJ.Props.C16.c16_option
#print axioms SJ.Props.C16.c16_routing_tied
#print axioms SJ.Props.C16.c16_result_comparator_exact
#print axioms SJ.Props.C16.c16_text_agrees_partial
#print axioms SJ.Props.C16.c16_text_agrees_nofloat
#print axioms SJ.Props.C16.c16_text_agrees_fr
#print axioms SJ.Props.C16.c16_text_agrees_ap_partial
#print axioms SJ.Props.C16.c16_ap_oracle_domain
#print axioms SJ.Props.C16.c16_ap_accurate_fr
#print axioms SJ.Props.C16.c16_text_agrees_ap_fr
#print axioms SJ.Props.Typed.typed_fuel_suffices
#print axioms SJ.Props.Typed.typed_fuel_irrelevant
#print axioms SJ.Props.Typed.typed_no_panic
#print axioms SJ.Props.Typed.typed_progress
