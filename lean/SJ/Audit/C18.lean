import SJ.Props.C18
#print axioms SJ.Props.C18.c18_unescape
#print axioms SJ.Props.C18.c18_parse_index
#print axioms SJ.Props.C18.c18_pointer
#print axioms SJ.Props.C18.c18_pointer_mut
