import SJ.Props.C18
#print axioms SJ.Props.C18.c18_unescape
#print axioms SJ.Props.C18.c18_parse_index
#print axioms SJ.Props.C18.c18_pointer
#print axioms SJ.Props.C18.c18_pointer_mut
#print axioms SJ.Props.C18.c18_get_index
#print axioms SJ.Props.C18.c18_index_mut
#print axioms SJ.Props.C18.c18_index_mut_reference
#print axioms SJ.Props.C18.c18_take
#print axioms SJ.Props.C18.c18_partial_eq
#print axioms SJ.Props.C18.c18_partial_eq_float
#print axioms SJ.Props.C18.c18_partial_eq_nan
#print axioms SJ.Props.C18.c18_json_macro
#print axioms SJ.Props.C18.c18_json_rules_tied
#print axioms SJ.Props.C18.c18_partial_eq_ap
#print axioms SJ.Props.C18.c18_partial_eq_float_ap
#print axioms SJ.Props.C18.c18_partial_eq_ap_differs
