import SJ.Props.C02Map
#print axioms SJ.Props.C02Map.c02_bytesLt_strict_total_order
#print axioms SJ.Props.C02Map.c02_mkObj_eq_objectOf
#print axioms SJ.Props.C02Map.c02_canonM_eq_canon
#print axioms SJ.Props.C02Map.c02_object_keys_distinct
#print axioms SJ.Props.C02Map.c02_object_last_duplicate_wins
#print axioms SJ.Props.C02Map.c02_object_sorted_default
#print axioms SJ.Props.C02Map.c02_object_first_occurrence_order
