import SJ.Props.C13
import SJ.Props.Typed
import SJ.Props.TypedFaultEq
import SJ.Props.StreamTyped
import SJ.Props.C13Raw
import SJ.Props.C13Kind
import SJ.Props.C13Stream
import SJ.Props.TypedFaultBound
import SJ.Props.C13Threaded
#print axioms SJ.Props.C13.c13_read
#print axioms SJ.Props.C13.c13_read_error_class
#print axioms SJ.Props.Typed.c13_typed_fault
#print axioms SJ.Props.C13.c13_buffers_utf8
#print axioms SJ.Props.TypedFaultEq.c13_typed_fault_eq
#print axioms SJ.Props.TypedFaultEq.c13_typed_fault_io
#print axioms SJ.Props.C13.c13_into_io_error
#print axioms SJ.Props.StreamTyped.c13_typed_stream_fault
#print axioms SJ.Props.C13.c13_raw_fault
#print axioms SJ.Props.C13.c13_raw_fault_io
#print axioms SJ.Props.C13.c13_raw_clean_is_rawTop
#print axioms SJ.Props.C13.c13_raw_fault_steps
#print axioms SJ.Props.C13.c13_raw_fault_agrees
#print axioms SJ.Props.C13.c13_write_all_spec
#print axioms SJ.Props.C13.c13_writer_prefix
#print axioms SJ.Props.C13.c13_writer_ok_iff
#print axioms SJ.Props.C13.c13_writer_vec
#print axioms SJ.Props.C13.c13_writer_budget
#print axioms SJ.Props.C13.c13_trace_agrees
#print axioms SJ.Props.C13.c13_writer_all
#print axioms SJ.Props.C13.c13_writer_all_vec
#print axioms SJ.Props.C13.c13_every_write_checked
#print axioms SJ.Props.C13.c13_io_error_kind_link
#print axioms SJ.Props.C13.c13_kind_preserved
#print axioms SJ.Props.C13.c13_kind_only_from_reader
#print axioms SJ.Props.C13.c13_typed_kind_preserved
#print axioms SJ.Props.C13.c13_item_kind
#print axioms SJ.Props.C13Stream.c13_stream_io_once
#print axioms SJ.Props.C13Stream.c13_stream_error_once
#print axioms SJ.Props.TypedFaultBound.c13_typed_fault_bounded
#print axioms SJ.Props.C13.c13_writer_threaded
#print axioms SJ.Props.C13.c13_writer_threaded_sub
#print axioms SJ.Props.C13.c13_writer_threaded_ok
