import SJ.Props.C04
import SJ.Props.C04Ap
import SJ.Props.C04Rv
import SJ.Props.C04Short
import SJ.Props.C04ReparseShort
#print axioms SJ.Props.C04.c04_written_text
#print axioms SJ.Props.C04.c04_reads_back
#print axioms SJ.Props.C04.c04_value
#print axioms SJ.Props.C04.c04_value_pretty
#print axioms SJ.Props.C04.c04_value_nofloat
#print axioms SJ.Props.C04.c04_value_ap
#print axioms SJ.Props.C04.c04_value_all_floats
#print axioms SJ.Props.C04.c04_parsed_floats_finite
#print axioms SJ.Props.C04.c04_wf_of_parse
#print axioms SJ.Props.C04.c04_reparse
#print axioms SJ.Props.C04.c04_reparse_ap
#print axioms SJ.Props.C04.c04_value_fr
#print axioms SJ.Props.C04.c04_typed_partial
#print axioms SJ.Props.C04.c04_typed_fr
#print axioms SJ.Props.C04.c04_typed_nofloat
#print axioms SJ.Props.C04.c04_typed_f32_leaf
#print axioms SJ.Props.C04.c04_typed_pretty_partial
#print axioms SJ.Props.C04.c04_typed_pretty_fr
#print axioms SJ.Props.C04.c04_typed_f32_leaf_default
#print axioms SJ.Props.C04.c04_typed_ap_partial
#print axioms SJ.Props.C04Ap.c04_ap_value
#print axioms SJ.Props.C04Ap.c04_ap_token_not_identity
#print axioms SJ.Props.C04Rv.c04_rv_reads_back
#print axioms SJ.Props.C04Rv.c04_rv_value
#print axioms SJ.Props.C04Rv.c04_rv_token_not_identity
#print axioms SJ.Props.C04Short.c04_default_short_float
#print axioms SJ.Props.C04Short.c04_default_short_text
#print axioms SJ.Props.C04Short.c04_floats_roundtrip_short
#print axioms SJ.Props.C04Short.c04_default_short_floats
#print axioms SJ.Props.C04Short.c04_typed_default_short
#print axioms SJ.Props.C04Short.c04_default_long_fails
#print axioms SJ.Props.C04Short.c04_default_sci15_fails
#print axioms SJ.Props.C04Short.c04_short_is_exact
#print axioms SJ.Props.C04Short.c04_default_exact_floats
#print axioms SJ.Props.C04ReparseShort.c04_reparse_default_short
