import SJ.Props.C19
import SJ.Props.C01Iff
#print axioms SJ.Props.C19.runPrefix_feed
#print axioms SJ.Props.C19.c19_captured_reparses
#print axioms SJ.Props.C19.skipWs_prefix
#print axioms SJ.Props.C01Iff.c19_skip_language
