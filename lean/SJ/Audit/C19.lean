import SJ.Props.C19
import SJ.Props.C01Iff
import SJ.Props.C19Nested
import SJ.Props.C19Map
import SJ.Props.C19Value
import SJ.Props.C19Struct
import SJ.Props.C19Seq
import SJ.Props.C19Utf8
#print axioms SJ.Props.C19.runPrefix_feed
#print axioms SJ.Props.C19.c19_captured_reparses
#print axioms SJ.Props.C19.skipWs_prefix
#print axioms SJ.Props.C01Iff.c19_skip_language
#print axioms SJ.Props.C19.c19_verbatim
#print axioms SJ.Props.C19.c19_verbatim_top
#print axioms SJ.Props.C19.c19_verbatim_bytes
#print axioms SJ.Props.C19.c19_serR_is_ser
#print axioms SJ.Props.C19.c19_raw_key_rejected
#print axioms SJ.Props.C19.c19_top_span
#print axioms SJ.Props.C19.c19_top_complete
#print axioms SJ.Props.C19.c19_nested_capture
#print axioms SJ.Props.C19.c19_nested_grammar
#print axioms SJ.Props.C19.c19_nested_complete
#print axioms SJ.Props.C19.c19_nested_canon
#print axioms SJ.Props.C19.c19_nested_capture_map
#print axioms SJ.Props.C19.c19_nested_grammar_map
#print axioms SJ.Props.C19.c19_nested_complete_map
#print axioms SJ.Props.C19.c19_nested_canon_map
#print axioms SJ.Props.C19.c19_nested_canon_map_last
#print axioms SJ.Props.C19.c19_to_value
#print axioms SJ.Props.C19.c19_to_value_of_parse
#print axioms SJ.Props.C19.c19_to_value_canon
#print axioms SJ.Props.C19.c19_from_value
#print axioms SJ.Props.C19.c19_field_capture
#print axioms SJ.Props.C19.c19_field_text
#print axioms SJ.Props.C19Seq.c19_seq_capture
#print axioms SJ.Props.C19.c19_top_complete_valid_input
#print axioms SJ.Props.C19.c19_nested_capture_valid_input
#print axioms SJ.Props.C19.c19_nested_complete_valid_input
#print axioms SJ.Props.C19.c19_nested_capture_map_valid_input
#print axioms SJ.Props.C19.c19_field_capture_valid_input
