import SJ.Props.C19
#print axioms SJ.Props.C19.runPrefix_feed
#print axioms SJ.Props.C19.c19_captured_reparses
#print axioms SJ.Props.C19.skipWs_prefix
