import SJ.Props.C07
#print axioms SJ.Props.C07.c07_cached_power_accuracy
#print axioms SJ.Props.C07.c07_power_tables
