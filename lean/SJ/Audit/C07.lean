import SJ.Props.C07
#print axioms SJ.Props.C07.c07_cached_power_accuracy
#print axioms SJ.Props.C07.c07_power_tables
#print axioms SJ.Props.C07.c07_split
#print axioms SJ.Props.C07.c07_fast_path_exact
#print axioms SJ.Props.C07.c07_into_float_rne
#print axioms SJ.Props.C07.c07_bhcomp_exact
#print axioms SJ.Props.C07.c07_moderate_path_sound
#print axioms SJ.Props.C07.c07_parse_exact
#print axioms SJ.Props.C07.c07_correct
#print axioms SJ.Props.C07.c07_nearest_even
#print axioms SJ.Props.C07.c07_underflow
#print axioms SJ.Props.C07.c07_other_literals
#print axioms SJ.Props.C07.c07_all_sources
#print axioms SJ.Props.C07.c07_roundtrip
#print axioms SJ.Props.C07.c07_typed_f32_link
#print axioms SJ.Props.C07.c07_typed_nearest
