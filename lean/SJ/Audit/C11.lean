import SJ.Props.C11
#print axioms SJ.Props.C11.c11_within_input
#print axioms SJ.Props.C11.c11_eof_at_end
#print axioms SJ.Props.C11.c11_dead
#print axioms SJ.Props.C11.c11_line
#print axioms SJ.Props.C11.c11_col_after_newline
#print axioms SJ.Props.C11.c11_col_first_line
#print axioms SJ.Props.C11.c11_earliest_step
#print axioms SJ.Props.C11.c11_earliest
#print axioms SJ.Props.C11.c11_earliest_ignored
#print axioms SJ.Props.C11.c11_earliest_str_ap
#print axioms SJ.Props.C11.c11_earliest_grammar
#print axioms SJ.Props.C11.c11_sideOK_needed
