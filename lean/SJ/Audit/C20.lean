import SJ.Props.C20
import SJ.Props.C20Text
#print axioms SJ.Props.C20.c20_verbatim
#print axioms SJ.Props.C20.c20_nested
#print axioms SJ.Props.C20.c20_from_str_sound
#print axioms SJ.Props.C20.c20_accessors
#print axioms SJ.Props.C20.c20_parsed_accessors
#print axioms SJ.Props.C20.c20_as_f32
#print axioms SJ.Props.C20.c20_typed_same
#print axioms SJ.Props.C20.c20_typed_same_value
#print axioms SJ.Props.C20.c20_typed_number_identical
#print axioms SJ.Props.C20.c20_text_roundtrip
#print axioms SJ.Props.C20.c20_text_roundtrip_ap
#print axioms SJ.Props.C20.c20_number_display
