import SJ.Props.C20
#print axioms SJ.Props.C20.c20_verbatim
#print axioms SJ.Props.C20.c20_nested
#print axioms SJ.Props.C20.c20_from_str_sound
#print axioms SJ.Props.C20.c20_accessors
#print axioms SJ.Props.C20.c20_parsed_accessors
#print axioms SJ.Props.C20.c20_as_f32
#print axioms SJ.Props.C20.c20_typed_same
#print axioms SJ.Props.C20.c20_typed_same_value
#print axioms SJ.Props.C20.c20_typed_number_identical
