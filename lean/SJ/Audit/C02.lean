import SJ.Props.C02
import SJ.Props.C02Map
import SJ.Props.C06Int
import SJ.Props.C01Ap
import SJ.Props.C01Rv
import SJ.Props.C02Floats
#print axioms SJ.Props.C02Map.c02_bytesLt_strict_total_order
#print axioms SJ.Props.C02Map.c02_mkObj_eq_objectOf
#print axioms SJ.Props.C02Map.c02_canonM_eq_canon
#print axioms SJ.Props.C02Map.c02_object_keys_distinct
#print axioms SJ.Props.C02Map.c02_object_last_duplicate_wins
#print axioms SJ.Props.C02Map.c02_object_sorted_default
#print axioms SJ.Props.C02Map.c02_object_first_occurrence_order
#print axioms SJ.Props.C06Int.c06_overflow_guard_spec
#print axioms SJ.Props.C06Int.c06_digit_loop
#print axioms SJ.Props.C06Int.c06_parse_integer
#print axioms SJ.Props.C06Int.c06_parse_integer_intClass
#print axioms SJ.Props.C06Int.c06_minus_zero
#print axioms SJ.Props.C06Int.c06_out_of_integer_range
#print axioms SJ.Props.C02.c02_denotes
#print axioms SJ.Props.C02.c19_skip_sound
#print axioms SJ.Props.C02.c19_skip_value
#print axioms SJ.Props.C02.c02_array_order
#print axioms SJ.Props.C02.c02_string_is_decoded_text
#print axioms SJ.Props.C02.c02_side_conditions
#print axioms SJ.Props.C01Ap.c02_ap_value_is_canon_tokenfree
#print axioms SJ.Props.C01Ap.c01_ap_token_language
#print axioms SJ.Props.C01Rv.c02_rv_value_is_canon_tokenfree
#print axioms SJ.Props.C01Rv.c01_rv_token_language
#print axioms SJ.Props.C02Floats.c02_floats_nearest_fr
#print axioms SJ.Props.C02Floats.c02_float_document_nearest_fr
#print axioms SJ.Props.C02Floats.c02_floats_5ulp_default
