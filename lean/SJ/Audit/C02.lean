import SJ.Props.C02
#print axioms SJ.Props.C02.c02_denotes
#print axioms SJ.Props.C02.c19_skip_sound
#print axioms SJ.Props.C02.c19_skip_value
#print axioms SJ.Props.C02.c02_array_order
#print axioms SJ.Props.C02.c02_string_is_decoded_text
#print axioms SJ.Props.C02.c02_side_conditions
