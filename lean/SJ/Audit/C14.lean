import SJ.Props.C14
import SJ.Props.TypedDepth
import SJ.Props.TypedUtf8
import SJ.Props.StreamTypedDepth
import SJ.Props.C14Fallbacks
#print axioms SJ.Props.C14.c14_again_once
#print axioms SJ.Props.C14.c14_depth_bounded
#print axioms SJ.Props.C14.c14_limit_hit
#print axioms SJ.Props.C14.c14_utf8
#print axioms SJ.Props.C14.c14_utf8_at_closing_quote
#print axioms SJ.Props.C14.c14_no_fuel
#print axioms SJ.Props.C14.c14_no_fuel_f64_from_parts
#print axioms SJ.Props.C14.c14_no_fuel_roundtrip
#print axioms SJ.Props.C14.c14_no_fuel_machine
#print axioms SJ.Props.C14.c14_no_fuel_literal
#print axioms SJ.Props.TypedDepth.c14_typed_depth_bounded
#print axioms SJ.Props.TypedDepth.c14_typed_limit_hit
#print axioms SJ.Props.TypedDepth.c14_typed_tower
#print axioms SJ.Props.TypedDepth.c14_typed_value_depth
#print axioms SJ.Props.TypedDepth.c14_typed_wrapper_depth
#print axioms SJ.Props.C14.c14_stream_depth_restored
#print axioms SJ.Props.C14.c14_stream_item_budget
#print axioms SJ.Props.TypedUtf8.c14_typed_utf8
#print axioms SJ.Props.StreamTypedDepth.c14_typed_depth_restored
#print axioms SJ.Props.StreamTypedDepth.c14_typed_depth_restored_ok
#print axioms SJ.Props.StreamTypedDepth.c14_typed_stream_depth_restored
#print axioms SJ.Props.C14Fallbacks.c14_no_fallback
#print axioms SJ.Props.C14Fallbacks.c14_no_fallback_dispatched
#print axioms SJ.Props.C14Fallbacks.c14_closeArr_live
#print axioms SJ.Props.C14Fallbacks.c14_closeObj_live
#print axioms SJ.Props.C14Fallbacks.c14_keyEnd_live
#print axioms SJ.Props.C14Fallbacks.c14_step_live
#print axioms SJ.Props.C14Fallbacks.c14_numValue_live
