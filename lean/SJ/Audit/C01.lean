import SJ.Props.C01
import SJ.Props.C01Iff
import SJ.Props.C01Ap
import SJ.Props.C01Rv
import SJ.Props.C01Range
import SJ.Props.C01NoFuel
#print axioms SJ.Props.C01.c01_complete_value
#print axioms SJ.Props.C01.c01_complete_sideConditions
#print axioms SJ.Props.C01.c01_complete_value_ap
#print axioms SJ.Props.C01.c01_complete_ignored
#print axioms SJ.Props.C01.c01_empty_rejected
#print axioms SJ.Props.C01.c01_trailing_ws
#print axioms SJ.Props.C01.c01_leading_ws
#print axioms SJ.Props.C01Iff.c01_accepts_iff
#print axioms SJ.Props.C01Iff.c02_value_is_canon
#print axioms SJ.Props.C01Iff.c19_skip_language
#print axioms SJ.Props.C01Ap.c01_ap_conservative
#print axioms SJ.Props.C01Ap.c01_ap_conservative_cst
#print axioms SJ.Props.C01Ap.c01_ap_complete_tokenfree
#print axioms SJ.Props.C01Ap.c01_ap_accepts_iff_tokenfree
#print axioms SJ.Props.C01Ap.c01_ap_number_from_str
#print axioms SJ.Props.C01Ap.c01_ap_token_object
#print axioms SJ.Props.C01Ap.c01_ap_token_language
#print axioms SJ.Props.C01Ap.c01_ap_token_value_not_string
#print axioms SJ.Props.C01Ap.c01_ap_token_not_number
#print axioms SJ.Props.C01Ap.c01_ap_token_extra_member
#print axioms SJ.Props.C01Ap.c01_ap_token_eof
#print axioms SJ.Props.C01Ap.c01_ap_accepts_iff_partial
#print axioms SJ.Props.C01Ap.c01_ap_sound
#print axioms SJ.Props.C01Ap.c01_ap_accepts_iff
#print axioms SJ.Props.C01Ap.c01_ap_accepts_iff_run
#print axioms SJ.Props.C01Rv.c01_rv_recursion
#print axioms SJ.Props.C01Rv.c01_rv_fuel_irrelevant
#print axioms SJ.Props.C01Rv.c01_rv_off
#print axioms SJ.Props.C01Rv.c01_rv_conservative
#print axioms SJ.Props.C01Rv.c01_rv_conservative_machine
#print axioms SJ.Props.C01Rv.c01_rv_conservative_machine_noap
#print axioms SJ.Props.C01Rv.c01_rv_accepts_iff_tokenfree
#print axioms SJ.Props.C01Rv.c01_rv_token_object
#print axioms SJ.Props.C01Rv.c01_rv_token_language
#print axioms SJ.Props.C01Rv.c01_rv_token_value_not_string
#print axioms SJ.Props.C01Rv.c01_rv_token_nested_error
#print axioms SJ.Props.C01Rv.c01_rv_token_extra_member
#print axioms SJ.Props.C01Rv.c01_rv_token_eof
#print axioms SJ.Props.C01Rv.c01_rv_sound
#print axioms SJ.Props.C01Range.c01_range_fr
#print axioms SJ.Props.C01Range.c01_accepts_iff_fr
#print axioms SJ.Props.C01Range.c01_range_default_band
#print axioms SJ.Props.C01Range.c01_default_rejects_finite
#print axioms SJ.Props.C01Range.c01_default_accepts_infinite
#print axioms SJ.Props.C01Range.c01_range_oracle
#print axioms SJ.Props.C01NoFuel.c01_range_clause_no_fuel
#print axioms SJ.Props.C01NoFuel.c01_range_clause_isSome
#print axioms SJ.Props.C01NoFuel.c01_accepts_iff_no_fuel
