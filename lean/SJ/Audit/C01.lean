import SJ.Props.C01
#print axioms SJ.Props.C01.c01_complete_value
#print axioms SJ.Props.C01.c01_complete_sideConditions
#print axioms SJ.Props.C01.c01_complete_value_ap
#print axioms SJ.Props.C01.c01_complete_ignored
#print axioms SJ.Props.C01.c01_empty_rejected
#print axioms SJ.Props.C01.c01_trailing_ws
#print axioms SJ.Props.C01.c01_leading_ws
