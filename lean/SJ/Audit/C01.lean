import SJ.Props.C01
import SJ.Props.C01Iff
#print axioms SJ.Props.C01.c01_complete_value
#print axioms SJ.Props.C01.c01_complete_sideConditions
#print axioms SJ.Props.C01.c01_complete_value_ap
#print axioms SJ.Props.C01.c01_complete_ignored
#print axioms SJ.Props.C01.c01_empty_rejected
#print axioms SJ.Props.C01.c01_trailing_ws
#print axioms SJ.Props.C01.c01_leading_ws
#print axioms SJ.Props.C01Iff.c01_accepts_iff
#print axioms SJ.Props.C01Iff.c02_value_is_canon
#print axioms SJ.Props.C01Iff.c19_skip_language
