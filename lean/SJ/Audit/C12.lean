import SJ.Props.C12
import SJ.Props.StreamTyped
import SJ.Props.StreamTypedDepth
import SJ.Props.C12Scalar
#print axioms SJ.Props.C12.c12_fused
#print axioms SJ.Props.C12.c12_error_fails
#print axioms SJ.Props.C12.c12_progress
#print axioms SJ.Props.C12.runPrefix_eof_at_end
#print axioms SJ.Props.C12.c12_values
#print axioms SJ.Props.C12.c12_expected_at
#print axioms SJ.Props.C12.c12_expected_end
#print axioms SJ.Props.C12.c12_values_one
#print axioms SJ.Props.C12.c12_values_canon
#print axioms SJ.Props.StreamTyped.c12_typed_fused
#print axioms SJ.Props.StreamTyped.c12_typed_error_fails
#print axioms SJ.Props.StreamTyped.c12_typed_fused_after
#print axioms SJ.Props.StreamTyped.c12_typed_progress
#print axioms SJ.Props.StreamTyped.c12_typed_history_get
#print axioms SJ.Props.StreamTyped.c12_typed_eof_at_end
#print axioms SJ.Props.StreamTyped.nextT_no_fuel
#print axioms SJ.Props.C12.c12_eof_proper_prefix
#print axioms SJ.Props.C12.c12_syntax_otherwise
#print axioms SJ.Props.StreamTyped.c12_typed_values
#print axioms SJ.Props.StreamTyped.c12_typed_expected_at
#print axioms SJ.Props.StreamTyped.c12_typed_expected_end
#print axioms SJ.Props.StreamTyped.c12_typed_values_agree
#print axioms SJ.Props.StreamTypedDepth.c12_typed_items_full_budget
#print axioms SJ.Props.StreamTypedDepth.c14_typed_stream_depth_restored
#print axioms SJ.Props.C12Scalar.c12_undelimited_scalar_error
#print axioms SJ.Props.C12Scalar.c12_undelimited_literal
#print axioms SJ.Props.C12Scalar.c12_undelimited_number
#print axioms SJ.Props.C12Scalar.next_err_cases
#print axioms SJ.Props.C12Scalar.c12_error_offset_first_byte
#print axioms SJ.Props.C12Scalar.c12_error_offset_first_byte_of_code
