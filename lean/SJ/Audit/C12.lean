import SJ.Props.C12
#print axioms SJ.Props.C12.c12_fused
#print axioms SJ.Props.C12.c12_error_fails
#print axioms SJ.Props.C12.c12_progress
#print axioms SJ.Props.C12.runPrefix_eof_at_end
