import SJ.Props.C12
#print axioms SJ.Props.C12.c12_fused
#print axioms SJ.Props.C12.c12_error_fails
#print axioms SJ.Props.C12.c12_progress
#print axioms SJ.Props.C12.runPrefix_eof_at_end
#print axioms SJ.Props.C12.c12_values
#print axioms SJ.Props.C12.c12_expected_at
#print axioms SJ.Props.C12.c12_expected_end
#print axioms SJ.Props.C12.c12_values_one
#print axioms SJ.Props.C12.c12_values_canon
