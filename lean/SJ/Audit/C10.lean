import SJ.Props.C10
import SJ.Props.Typed
import SJ.Props.StreamTyped
#print axioms SJ.Props.C10.prefix_fails_only_at_end
#print axioms SJ.Props.C10.c10_prefix_ignored
#print axioms SJ.Props.Typed.c10_typed_core
#print axioms SJ.Props.Typed.c10_typed_prefix
#print axioms SJ.Props.Typed.c10_typed_prefix_partial
#print axioms SJ.Props.C10.c10_prefix_value_exact
#print axioms SJ.Props.C10.c10_number_exception
#print axioms SJ.Props.C10.c10_prefix_value_ap
#print axioms SJ.Props.C10.c10_stream_prefix_partial
#print axioms SJ.Props.C10.c10_stream_prefix_ignored
#print axioms SJ.Props.StreamTyped.c10_typed_stream_prefix_partial
#print axioms SJ.Props.StreamTyped.c10_typed_stream_prefix
