import SJ.Props.C09
#print axioms SJ.Props.C09.c09_slice_reader
#print axioms SJ.Props.C09.c09_str_slice_ignored
#print axioms SJ.Props.C09.c09_str_slice_value
#print axioms SJ.Props.C09.c09_str_slice
#print axioms SJ.Props.C09.c09_all_sources
