import SJ.Props.C09
#print axioms SJ.Props.C09.c09_slice_reader
#print axioms SJ.Props.C09.c09_str_slice_ignored
