import SJ.Props.C09
import SJ.Props.TypedSrc
import SJ.Props.C09Stream
import SJ.Props.StreamTyped
import SJ.Props.C09LineCol
import SJ.Props.C09RawNested
import SJ.Props.C09Tok
import SJ.Props.C09Readers
import SJ.Props.C09ReadersRaw
import SJ.Props.TypedSrcFloat
#print axioms SJ.Props.C09.c09_slice_reader
#print axioms SJ.Props.C09.c09_str_slice_ignored
#print axioms SJ.Props.C09.c09_str_slice_value
#print axioms SJ.Props.C09.c09_str_slice
#print axioms SJ.Props.C09.c09_all_sources
#print axioms SJ.Props.TypedSrc.c09_typed_slice_reader
#print axioms SJ.Props.TypedSrc.c09_typed_slice_reader_class
#print axioms SJ.Props.TypedSrc.c09_typed_slice_reader_ok
#print axioms SJ.Props.TypedSrc.c09_typed_slice_reader_err
#print axioms SJ.Props.TypedSrc.c09_typed_str_slice
#print axioms SJ.Props.TypedSrc.c09_typed_all_sources
#print axioms SJ.Props.TypedSrc.typed_within_input
#print axioms SJ.Props.C09.c09_stream_offsets
#print axioms SJ.Props.C09.c09_stream_offsets_from
#print axioms SJ.Props.C09.c09_raw_sources
#print axioms SJ.Props.C09.c09_raw_nested_sources
#print axioms SJ.Props.C09.c09_raw_map_sources
#print axioms SJ.Props.StreamTyped.c09_typed_stream_sources
#print axioms SJ.Props.StreamTyped.c09_typed_stream_str_slice
#print axioms SJ.Props.StreamTyped.c09_typed_stream_offsets
#print axioms SJ.Props.C09.c09_positions_agree
#print axioms SJ.Props.C09.c09_readers_in_step
#print axioms SJ.Props.C09.c09_untyped_line_col
#print axioms SJ.Props.C09.c09_typed_line_col
#print axioms SJ.Props.C09.c09_raw_nested_slice_reader
#print axioms SJ.Props.C09.c09_raw_map_slice_reader
#print axioms SJ.Props.C09.c09_raw_one_slice_reader
#print axioms SJ.Props.C09.c09_raw_nested_class
#print axioms SJ.Props.C09.c09_raw_nested_str_slice
#print axioms SJ.Props.C09Tok.c09_rv_slice_reader_tokenfree
#print axioms SJ.Props.C09Tok.c09_rv_token_not_string_reader_later
#print axioms SJ.Props.C09Tok.c09_ap_token_not_string_reader_later
#print axioms SJ.Props.C09Tok.c09_token_sources_differ
#print axioms SJ.Props.C09.c09_machine_string_steps
#print axioms SJ.Props.C09.c09_slice_str_refines
#print axioms SJ.Props.C09.c09_strread_str_refines
#print axioms SJ.Props.C09.c09_io_str_refines
#print axioms SJ.Props.C09.c09_io_str_state
#print axioms SJ.Props.C09.c09_slice_ignore_refines
#print axioms SJ.Props.C09.c09_io_ignore_refines
#print axioms SJ.Props.C09.c09_str_readers_agree
#print axioms SJ.Props.C09.c09_str_readers_positions
#print axioms SJ.Props.C09.c09_strread_slice
#print axioms SJ.Props.C09.c09_hex_escape_cut
#print axioms SJ.Props.C09.c09_slice_raw_refines
#print axioms SJ.Props.C09.c09_io_raw_refines
#print axioms SJ.Props.C09.c09_raw_readers_agree
#print axioms SJ.Props.TypedSrc.c09_typed_slice_reader_no128
#print axioms SJ.Props.TypedSrc.c09_typed_out_of_range_float_same
#print axioms SJ.Props.TypedSrc.c09_typed_f64_f32_out_of_range_same
#print axioms SJ.Props.TypedSrc.c09_typed_out_of_range_shift_needs_128
#print axioms SJ.Props.TypedSrc.c09_typed_out_of_range_128_shift
