import SJ.Props.C09
import SJ.Props.C09Stream
#print axioms SJ.Props.C09.c09_slice_reader
#print axioms SJ.Props.C09.c09_str_slice_ignored
#print axioms SJ.Props.C09.c09_str_slice_value
#print axioms SJ.Props.C09.c09_str_slice
#print axioms SJ.Props.C09.c09_all_sources
#print axioms SJ.Props.C09.c09_stream_offsets
#print axioms SJ.Props.C09.c09_stream_offsets_from
#print axioms SJ.Props.C09.c09_raw_sources
#print axioms SJ.Props.C09.c09_raw_nested_sources
#print axioms SJ.Props.C09.c09_raw_map_sources
