import SJ.Props.C05
import SJ.Props.C09Readers
import SJ.Props.C05Bytes
import SJ.Props.C05BytesReaders
import SJ.Props.C05Hex
#print axioms SJ.Props.C05.c05_escape_table
#print axioms SJ.Props.C05.c05_escape_spec
#print axioms SJ.Props.C05.c05_escape_buffers_utf8_cut
#print axioms SJ.Props.C05.c05_hex_tables
#print axioms SJ.Props.C05.c05_hex4_spec
#print axioms SJ.Props.C05.c05_swar_first_escape
#print axioms SJ.Props.C05.c05_swar_in_bounds
#print axioms SJ.Props.C05.c05_first_escape_char
#print axioms SJ.Props.C05.c05_decode_spec
#print axioms SJ.Props.C05.c05_decode_reject
#print axioms SJ.Props.C05.c05_roundtrip
#print axioms SJ.Props.C05.c05_roundtrip_written
#print axioms SJ.Props.C05.c05_str_source_utf8
#print axioms SJ.Props.C05.c05_borrowed
#print axioms SJ.Props.C05.c05_borrowed_subslice
#print axioms SJ.Props.C05.c05_bytes_target_total
#print axioms SJ.Props.C05.c05_bytes_target
#print axioms SJ.Props.C05.c05_bytes_target_only
#print axioms SJ.Props.C05.c05_bytes_errors
#print axioms SJ.Props.C05.c05_bytes_entry
#print axioms SJ.Props.C05.c05_bytes_wtf8_form
#print axioms SJ.Props.C05.c05_bytes_lone_surrogate
#print axioms SJ.Props.C05.c05_bytes_raw_passthrough
#print axioms SJ.Props.C05.c05_bytes_vs_str
#print axioms SJ.Props.C05.c05_bytes_vs_str_spec
#print axioms SJ.Props.C05.c05_bytes_control_passes
#print axioms SJ.Props.C05.c05_bytes_target_readers
#print axioms SJ.Props.C05Hex.c05_machine_hex4_spec
#print axioms SJ.Props.C05Hex.c05_hex4_rejects_iff
#print axioms SJ.Props.C05Hex.c05_hex_three_agree
#print axioms SJ.Props.C05Hex.c05_machine_hex_steps
#print axioms SJ.Props.C05Hex.c05_scan_is_naive
