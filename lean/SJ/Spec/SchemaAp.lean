import SJ.Spec.SchemaExcl
import SJ.Spec.Canon
import SJ.Spec.Number
import SJ.Spec.NumberAcc
import SJ.Spec.PrimEq
/-!
# C16 under `arbitrary_precision`: where the three paths part, schema-directed

With the feature a `Value` holds number LITERALS (any RFC 8259 spelling, `Num.lit`), `to_string` prints them verbatim,
`from_value` / `&Value` convert them with `str::parse` (`Number::deserialize_iN` = `self.n.parse::<iN>()`, `deserialize_f64` =
`self.n.parse::<f64>()`, `deserialize_any` with its `as_u64 … as_f64` shortcuts) and the text path with the JSON number
scanner. The three open findings of C16 are exactly the positions where a target MEETS a literal on which the two
conversions differ:

* `apNegZero` — a signed 8–64-bit integer target meets the literal `-0` (`"-0".parse::<i8>() = Ok(0)`; the JSON scanner
  yields the float `-0.0`, which integer visitors refuse): finding `C16-ap-negative-zero`;
* `apNonFinite` — an `f64` target meets a literal whose nearest binary64 is not finite (`"1e400".parse::<f64>() = Ok(inf)`;
  the JSON scanner answers `number out of range`): finding `C16-ap-non-finite-f64`;
* `Model.FromValue.apAnyMoved ext` (`Model/FromValueAp.lean`: it needs `Number::deserialize_any`) — a `Value` target meets a
  value one of whose literals `Number::deserialize_any` does not hand back verbatim (`-0` through the `as_i64` shortcut
  becomes `0`; a literal that equals `f64::to_string` of its value but not `ryu`'s spelling is re-rendered: `0.000001`
  becomes `1e-6`): findings `C16-ap-negative-zero` (second half) and `C16-ap-display-form`.

`Schema.allPos q s v` walks schema and value TOGETHER the way the three deserializers visit them (the positions of
`Schema.svArr`, `Spec/SchemaExcl.lean`) and tests `q` wherever a LEAF target (bool, integer, float, char, string, byte buffer
— with its elements under `u8` —, unit, `IgnoredAny`, `Value`) meets a value. `apAccurate fr` is not an exclusion but the
float hypothesis of the statement ("comparisons involving f64 assume float_roundtrip or short float literals"): the
conversion the build is configured with (`Spec.Canon.numOf`: `Model.Num.convertRoundtrip` / `convertDefault`) returns, for
the literal, the binary64 nearest to its exact value. Import-free, computable: the executable statement of op `c16` uses
these functions.
-/
namespace SJ
open SJ.Spec

mutual
/-- `q` holds wherever a leaf target meets a value, on the way the deserializers visit schema and value -/
def Schema.allPos (q : Schema → JV → Bool) : Schema → JV → Bool
  | .option s, v => (match v with | .null => true | _ => Schema.allPos q s v)
  | .newtype s, v => Schema.allPos q s v
  | .seq s, v => (match v with | .arr xs => xs.all (Schema.allPos q s) | _ => true)
  | .tuple ss, v => (match v with | .arr xs => Schema.allPosList q ss xs | _ => true)
  | .map _ s, v => (match v with | .obj kvs => kvs.all fun kv => Schema.allPos q s kv.2 | _ => true)
  | .struct_ fs _, v =>
    (match v with
     | .arr xs => Schema.allPosFieldsArr q fs xs
     | .obj kvs => kvs.all fun kv => Schema.allPosField q fs kv.1 kv.2
     | _ => true)
  | .enum_ vs, v =>
    (match v with
     | .obj ((k, x) :: _) => Schema.allPosVariants q vs k x
     | _ => true)
  | .bytes, v => q .bytes v && (match v with | .arr xs => xs.all (q (.int .u8)) | _ => true)
  | s, v => q s v
/-- positionwise -/
def Schema.allPosList (q : Schema → JV → Bool) : List Schema → List JV → Bool
  | s :: ss, xs => (match xs with | x :: xs' => Schema.allPos q s x && Schema.allPosList q ss xs' | [] => true)
  | [], _ => true
/-- a struct given as an array: positionwise over the fields -/
def Schema.allPosFieldsArr (q : Schema → JV → Bool) : List (Bytes × Schema) → List JV → Bool
  | (_, s) :: fs, xs => (match xs with | x :: xs' => Schema.allPos q s x && Schema.allPosFieldsArr q fs xs' | [] => true)
  | [], _ => true
/-- a member of a struct given as an object: under the first field of that name -/
def Schema.allPosField (q : Schema → JV → Bool) : List (Bytes × Schema) → Bytes → JV → Bool
  | [], _, _ => true
  | (n, s) :: fs, k, x => if n == k then Schema.allPos q s x else Schema.allPosField q fs k x
/-- the payload `x` of the entry `k` of an enum given as an object: under every variant of that name -/
def Schema.allPosVariants (q : Schema → JV → Bool) : List (Bytes × VariantShape) → Bytes → JV → Bool
  | [], _, _ => true
  | (n, sh) :: vs, k, x => (!(n == k) || VariantShape.allPos q sh x) && Schema.allPosVariants q vs k x
def VariantShape.allPos (q : Schema → JV → Bool) : VariantShape → JV → Bool
  | .unit, _ => true
  | .newtype s, x => Schema.allPos q s x
  | .tuple ss, x => (match x with | .arr xs => Schema.allPosList q ss xs | _ => true)
  | .struct_ fs, x =>
    (match x with
     | .arr xs => Schema.allPosFieldsArr q fs xs
     | .obj kvs => kvs.all fun kv => Schema.allPosField q fs kv.1 kv.2
     | _ => true)
end

/-- finding `C16-ap-negative-zero` (typed half): a signed 8–64-bit integer target meets the literal `-0` -/
def apNegZero : Schema → JV → Bool
  | .int w, .num (.lit l) => w.signed && decide (w.bits ≤ 64) && l == [0x2d, 0x30]
  | _, _ => false

/-- the binary64 nearest to the exact value of a literal (`none`: not a number literal, or the nearest is not finite) -/
def litNearest (l : Bytes) : Option UInt64 :=
  match Decimal.NumLit.parse l with
  | some x => NumberAcc.nearestF64 x
  | none => none

/-- finding `C16-ap-non-finite-f64`: an `f64` target meets a literal beyond the finite range of binary64 -/
def apNonFinite : Schema → JV → Bool
  | .f64, .num (.lit l) => (litNearest l).isNone
  | _, _ => false

/-- the binary64 the JSON number conversion of the build (`float_roundtrip` or not) assigns to a literal: an integer the
    parser classes as `u64` / `i64` is cast by serde's `f64` visitor (`as f64`); `none` = `number out of range` -/
def litConv (fr : Bool) (l : Bytes) : Option UInt64 :=
  match Canon.numOf { fr := fr } (Number.splitNumber l) with
  | some n => PrimEq.numAsF64 n
  | none => none

/-- `conv` is the nearest binary64, when there is a finite one -/
def accOpt (nearest conv : Option UInt64) : Bool :=
  match nearest with
  | some b => conv == some b
  | none => true

/-- the float hypothesis: wherever an `f64` target meets a literal of finite range, the configured conversion is
    correctly rounded on it (`float_roundtrip`: always — C07; default build: for short literals — C08) -/
def apAccurate (fr : Bool) : Schema → JV → Bool
  | .f64, .num (.lit l) => accOpt (litNearest l) (litConv fr l)
  | _, _ => true

/-- the side condition under which C07 applies to a literal at an `f64` position: an RFC 8259 number shorter than
    `2^29 − 20` bytes whose exponent digits pass de.rs's `i32` guard (`parse_exponent_overflow` is not taken) -/
def apLitBounded : Schema → JV → Bool
  | .f64, .num (.lit l) =>
    Number.isNumber l && decide (l.length + 20 < 2 ^ 29) &&
      (match (Canon.partsOf (Number.splitNumber l)).exp with
       | some (_, eds) => !Model.Num.expOverflows eds
       | none => true)
  | _, _ => true

mutual
/-- every literal of the value satisfies `p` -/
def JV.allLits (p : Bytes → Bool) : JV → Bool
  | .num (.lit l) => p l
  | .arr xs => JV.allLitsList p xs
  | .obj kvs => JV.allLitsMembers p kvs
  | _ => true
def JV.allLitsList (p : Bytes → Bool) : List JV → Bool
  | [] => true
  | x :: xs => JV.allLits p x && JV.allLitsList p xs
def JV.allLitsMembers (p : Bytes → Bool) : List (Bytes × JV) → Bool
  | [] => true
  | (_, x) :: kvs => JV.allLits p x && JV.allLitsMembers p kvs
end

end SJ
