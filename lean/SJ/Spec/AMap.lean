import SJ.Spec.Value
/-!
# The reference dictionary for `serde_json::Map<String, Value>` (property C17)

Three small, independent pieces:

* `AMap V := Bytes → Option V` — a dictionary *is* a partial function from keys to values; the
  dictionary operations (`insert`, `remove`, `retain`, `union`, …) are the obvious pointwise ones.
  `Step o d d' r` says what an operation `o` of the `Map` API may do to a dictionary `d` (new
  dictionary `d'`) and what it must return (`r`). Iteration order is *not* part of the dictionary;
* the order rules: `ltB` (Rust `String` order = lexicographic order of the UTF-8 bytes), `Asc`
  (strictly ascending keys — the default build) and `ordStep` (what an operation does to the
  *sequence of keys* of an insertion-ordered map — the `preserve_order` build, as documented by
  `indexmap`: new keys go to the end, `swap_remove` moves the last key into the hole,
  `shift_remove` closes the hole, `shift_insert` moves/inserts at an index, `sort_keys` sorts);
* `Ref` — a computable association list with first-match lookup (`insert` just conses), used by
  the driver to evaluate the specification on what the implementation returned.

Import-free on purpose (the driver must link).
-/
namespace SJ.Spec.AMap
open SJ

/-! ## key order -/

/-- Rust `str`/`String` `Ord`: lexicographic comparison of the UTF-8 bytes. -/
def ltB : Bytes → Bytes → Bool
  | [], [] => false
  | [], _ :: _ => true
  | _ :: _, [] => false
  | a :: as, b :: bs => if a < b then true else if b < a then false else ltB as bs

/-- strictly ascending list of keys -/
def Asc (ks : List Bytes) : Prop := ks.Pairwise (fun a b => ltB a b = true)

/-- executable form of `Asc` for the driver (adjacent comparison) -/
def ascB : List Bytes → Bool
  | [] => true
  | [_] => true
  | a :: b :: r => ltB a b && ascB (b :: r)

/-- insertion of a key into an ascending key list (used to define `sortKeys`) -/
def insKey (k : Bytes) : List Bytes → List Bytes
  | [] => [k]
  | a :: r => if ltB k a then k :: a :: r else a :: insKey k r

/-- ascending rearrangement of a key list (insertion sort) -/
def sortKeys : List Bytes → List Bytes
  | [] => []
  | k :: r => insKey k (sortKeys r)

/-! ## dictionaries as functions -/

abbrev AMap (V : Type) := Bytes → Option V

variable {V : Type}

def empty : AMap V := fun _ => none
def insert (d : AMap V) (k : Bytes) (v : V) : AMap V := fun k' => if k' = k then some v else d k'
def remove (d : AMap V) (k : Bytes) : AMap V := fun k' => if k' = k then none else d k'
def retain (p : Bytes → V → Bool) (d : AMap V) : AMap V :=
  fun k => match d k with
    | some v => if p k v then some v else none
    | none => none
/-- insert a sequence of pairs one after the other (later pairs win) -/
def insertMany (d : AMap V) : List (Bytes × V) → AMap V
  | [] => d
  | (k, v) :: r => insertMany (insert d k v) r

/-- first-match lookup in an association list -/
def lookup (k : Bytes) : List (Bytes × V) → Option V
  | [] => none
  | (k', v) :: r => if k' = k then some v else lookup k r

/-- `l` lists the dictionary `d` exactly once per key (in whatever order). -/
def Entries (d : AMap V) (l : List (Bytes × V)) : Prop :=
  (l.map (·.1)).Nodup ∧ ∀ k, lookup k l = d k

/-- `d` has exactly `n` keys. -/
def HasLen (d : AMap V) (n : Nat) : Prop := ∃ l, Entries d l ∧ l.length = n

/-- two dictionaries have the same keys and `R`-related values (`R := Eq`: they are equal) -/
def DictRel (R : V → V → Prop) (d₁ d₂ : AMap V) : Prop :=
  ∀ k, match d₁ k, d₂ k with
    | none, none => True
    | some a, some b => R a b
    | _, _ => False

/-! ## the operations of `serde_json::Map` and what they return -/

/-- which removal: `remove` (whatever the build forwards it to), `swap_remove`, `shift_remove` -/
inductive Flavour where
  | plain | swap | shift
deriving DecidableEq, Repr

/-- `remove` returns the value, `remove_entry` the stored key and value -/
inductive Shape where
  | value | entry
deriving DecidableEq, Repr

/-- called on the `Map` or on the `OccupiedEntry` obtained from `map.entry(k)` -/
inductive Via where
  | map | occupied
deriving DecidableEq, Repr

inductive Op (V : Type) where
  /-- `insert(k, v) -> Option<Value>` -/
  | insert (k : Bytes) (v : V)
  /-- `shift_insert(i, k, v) -> Option<Value>` (preserve_order only; panics on a bad index) -/
  | shiftInsert (i : Nat) (k : Bytes) (v : V)
  /-- the eight removal methods plus `OccupiedEntry::{remove,…}` reached through `entry(k)` -/
  | remove (fl : Flavour) (sh : Shape) (via : Via) (k : Bytes)
  /-- `get` / `get_key_value` / reading through `get_mut` -/
  | get (k : Bytes)
  | contains (k : Bytes)
  | len
  | isEmpty
  | clear
  /-- `append(&mut other)`; `other` is given by its iteration sequence -/
  | append (other : List (Bytes × V))
  /-- `extend(iter)` / `FromIterator` on the empty map -/
  | extend (kvs : List (Bytes × V))
  | retain (p : Bytes → V → Bool)
  | sortKeys
  /-- `*entry(k).or_insert(v)` (the value the returned reference points at) -/
  | entryOrInsert (k : Bytes) (v : V)
  /-- `match entry(k) { Vacant(e) => { e.insert(v); None }, Occupied(mut e) => Some(e.insert(v)) }` -/
  | entryInsert (k : Bytes) (v : V)
  /-- `*entry(k).and_modify(|x| *x = v).or_insert(w)` -/
  | entryModify (k : Bytes) (v w : V)
  /-- `get_mut(k).map(|x| mem::replace(x, v))` -/
  | setMut (k : Bytes) (v : V)
  /-- `map[k]` (panics when absent) -/
  | index (k : Bytes)
  /-- `map[k] = v` (panics when absent) -/
  | indexSet (k : Bytes) (v : V)
  /-- `iter()` forwards, `iter().rev()`, `keys()`, `values()` -/
  | iter
  | iterRev
  | keys
  | values

/-- the operations that exist without `preserve_order` (`shift_insert`, `swap_*`, `shift_*` are
    `#[cfg(feature = "preserve_order")]`) -/
def Op.inDefault {V : Type} : Op V → Bool
  | .shiftInsert _ _ _ => false
  | .remove .swap _ _ _ => false
  | .remove .shift _ _ _ => false
  | _ => true

inductive Ret (V : Type) where
  | unit
  | optV (o : Option V)
  | optKV (o : Option (Bytes × V))
  | bool (b : Bool)
  | nat (n : Nat)
  | val (v : V)
  | panic
  | kvs (l : List (Bytes × V))
  | keys (l : List Bytes)
  | vals (l : List V)

/-- the return value of a removal in the requested shape -/
def removeRet (sh : Shape) (k : Bytes) (old : Option V) : Ret V :=
  match sh with
  | .value => .optV old
  | .entry => .optKV (old.map fun v => (k, v))

/-- `shift_insert(i, …)`: an existing key may move to `i < len`, a new key may go to `i ≤ len`. -/
def shiftIndexOk (present : Bool) (i len : Nat) : Bool := if present then i < len else i ≤ len

/-- **The dictionary contract.** `Step o d d' r`: operation `o` on a map whose contents are `d`
    leaves contents `d'` and returns `r`. -/
def Step : Op V → AMap V → AMap V → Ret V → Prop
  | .insert k v, d, d', r => d' = insert d k v ∧ r = .optV (d k)
  | .shiftInsert i k v, d, d', r =>
      ∃ n, HasLen d n ∧
        if shiftIndexOk (d k).isSome i n then d' = insert d k v ∧ r = .optV (d k)
        else d' = d ∧ r = .panic
  | .remove _ sh _ k, d, d', r => d' = remove d k ∧ r = removeRet sh k (d k)
  | .get k, d, d', r => d' = d ∧ r = .optV (d k)
  | .contains k, d, d', r => d' = d ∧ r = .bool (d k).isSome
  | .len, d, d', r => d' = d ∧ ∃ n, HasLen d n ∧ r = .nat n
  | .isEmpty, d, d', r => d' = d ∧ ∃ n, HasLen d n ∧ r = .bool (n == 0)
  | .clear, _, d', r => d' = empty ∧ r = .unit
  | .append o, d, d', r => d' = insertMany d o ∧ r = .unit
  | .extend o, d, d', r => d' = insertMany d o ∧ r = .unit
  | .retain p, d, d', r => d' = retain p d ∧ r = .unit
  | .sortKeys, d, d', r => d' = d ∧ r = .unit
  | .entryOrInsert k v, d, d', r =>
      match d k with
      | some x => d' = d ∧ r = .val x
      | none => d' = insert d k v ∧ r = .val v
  | .entryInsert k v, d, d', r => d' = insert d k v ∧ r = .optV (d k)
  | .entryModify k v w, d, d', r =>
      match d k with
      | some _ => d' = insert d k v ∧ r = .val v
      | none => d' = insert d k w ∧ r = .val w
  | .setMut k v, d, d', r =>
      match d k with
      | some x => d' = insert d k v ∧ r = .optV (some x)
      | none => d' = d ∧ r = .optV none
  | .index k, d, d', r =>
      d' = d ∧ match d k with
      | some x => r = .val x
      | none => r = .panic
  | .indexSet k v, d, d', r =>
      match d k with
      | some _ => d' = insert d k v ∧ r = .unit
      | none => d' = d ∧ r = .panic
  | .iter, d, d', r => d' = d ∧ ∃ l, Entries d l ∧ r = .kvs l
  | .iterRev, d, d', r => d' = d ∧ ∃ l, Entries d l ∧ r = .kvs l
  | .keys, d, d', r => d' = d ∧ ∃ l, Entries d l ∧ r = .keys (l.map (·.1))
  | .values, d, d', r => d' = d ∧ ∃ l, Entries d l ∧ r = .vals (l.map (·.2))

/-- the contract for a whole history: the dictionaries and return values along `ops` -/
inductive Run : List (Op V) → AMap V → AMap V → List (Ret V) → Prop where
  | nil (d : AMap V) : Run [] d d []
  | cons {o : Op V} {os : List (Op V)} {d d' d'' : AMap V} {r : Ret V} {rs : List (Ret V)} :
      Step o d d' r → Run os d' d'' rs → Run (o :: os) d d'' (r :: rs)

/-! ## order rules of the insertion-ordered (`preserve_order`) build, on key sequences -/

/-- a new key goes to the end; an existing key keeps its place -/
def ordInsert (ks : List Bytes) (k : Bytes) : List Bytes := if ks.contains k then ks else ks ++ [k]

/-- what is left of `x :: r` when `x` is `swap_remove`d: the last element takes the place of `x` -/
def swapTail {α : Type} (r : List α) : List α :=
  match r.getLast? with
  | some l => l :: r.dropLast
  | none => []

/-- `Vec::swap_remove`: the last key moves into the position of the removed key -/
def ordSwapRemove : List Bytes → Bytes → List Bytes
  | [], _ => []
  | a :: r, k => if a = k then swapTail r else a :: ordSwapRemove r k

/-- `Vec::remove`: the following keys move up by one -/
def ordShiftRemove (ks : List Bytes) (k : Bytes) : List Bytes := ks.filter (· != k)

/-- `Vec::insert(i, k)` -/
def insertAt (i : Nat) (k : α) : List α → List α
  | [] => [k]
  | a :: r => match i with
    | 0 => k :: a :: r
    | i + 1 => a :: insertAt i k r

def ordShiftInsert (ks : List Bytes) (i : Nat) (k : Bytes) : List Bytes :=
  if shiftIndexOk (ks.contains k) i ks.length then insertAt i k (ordShiftRemove ks k) else ks

def ordInsertMany (ks : List Bytes) : List Bytes → List Bytes
  | [] => ks
  | k :: r => ordInsertMany (ordInsert ks k) r

/-- what each operation does to the iteration order (key sequence) of an insertion-ordered map
    whose contents are `d` (plain `remove`/`remove_entry` are documented to swap) -/
def ordStep (o : Op V) (d : AMap V) (ks : List Bytes) : List Bytes :=
  match o with
  | .insert k _ => ordInsert ks k
  | .shiftInsert i k _ => ordShiftInsert ks i k
  | .remove .shift _ _ k => ordShiftRemove ks k
  | .remove _ _ _ k => ordSwapRemove ks k      -- plain `remove` is documented to be `swap_remove`
  | .clear => []
  | .append o => ordInsertMany ks (o.map (·.1))
  | .extend o => ordInsertMany ks (o.map (·.1))
  | .retain p => ks.filter fun k => match d k with
      | some v => p k v
      | none => false
  | .sortKeys => sortKeys ks
  | .entryOrInsert k _ => ordInsert ks k
  | .entryInsert k _ => ordInsert ks k
  | .entryModify k _ _ => ordInsert ks k
  | _ => ks

/-! ## computable reference: association list, first match wins -/

abbrev Ref (V : Type) := List (Bytes × V)

namespace Ref

def sem (r : Ref V) : AMap V := fun k => lookup k r

/-- one entry per key, first occurrence -/
def dedup : Ref V → Ref V
  | [] => []
  | (k, v) :: r => (k, v) :: (dedup r).filter (·.1 != k)

def len (r : Ref V) : Nat := (dedup r).length
def insert (r : Ref V) (k : Bytes) (v : V) : Ref V := (k, v) :: r
def remove (r : Ref V) (k : Bytes) : Ref V := r.filter (·.1 != k)
def insertMany (r : Ref V) : List (Bytes × V) → Ref V
  | [] => r
  | (k, v) :: o => insertMany (insert r k v) o

/-- the reference's state transition and return value; for the four iteration operations the
    returned list is *some* listing (`dedup`), to be compared up to order. -/
def step (o : Op V) (r : Ref V) : Ref V × Ret V :=
  match o with
  | .insert k v => (insert r k v, .optV (lookup k r))
  | .shiftInsert i k v =>
      if shiftIndexOk (lookup k r).isSome i (len r) then (insert r k v, .optV (lookup k r)) else (r, .panic)
  | .remove _ sh _ k => (remove r k, removeRet sh k (lookup k r))
  | .get k => (r, .optV (lookup k r))
  | .contains k => (r, .bool (lookup k r).isSome)
  | .len => (r, .nat (len r))
  | .isEmpty => (r, .bool (len r == 0))
  | .clear => ([], .unit)
  | .append o => (insertMany r o, .unit)
  | .extend o => (insertMany r o, .unit)
  | .retain p => (r.filter (fun kv => match lookup kv.1 r with
      | some v => p kv.1 v
      | none => false), .unit)
  | .sortKeys => (r, .unit)
  | .entryOrInsert k v => match lookup k r with
      | some x => (r, .val x)
      | none => (insert r k v, .val v)
  | .entryInsert k v => (insert r k v, .optV (lookup k r))
  | .entryModify k v w => match lookup k r with
      | some _ => (insert r k v, .val v)
      | none => (insert r k w, .val w)
  | .setMut k v => match lookup k r with
      | some x => (insert r k v, .optV (some x))
      | none => (r, .optV none)
  | .index k => match lookup k r with
      | some x => (r, .val x)
      | none => (r, .panic)
  | .indexSet k v => match lookup k r with
      | some _ => (insert r k v, .unit)
      | none => (r, .panic)
  | .iter => (r, .kvs (dedup r))
  | .iterRev => (r, .kvs (dedup r))
  | .keys => (r, .keys ((dedup r).map (·.1)))
  | .values => (r, .vals ((dedup r).map (·.2)))

end Ref

end SJ.Spec.AMap
