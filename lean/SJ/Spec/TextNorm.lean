import SJ.Spec.Image
import SJ.Spec.Canon
/-!
# The normal form of a JSON text under parse-then-serialise (C20: "changes nothing but whitespace")

Three independent definitions, none of which mentions the parser or the serializer:

* `stripWs bs` — the input with the insignificant whitespace removed: a byte-level scan that drops the four
  RFC 8259 whitespace bytes OUTSIDE string literals and keeps everything else (inside a literal, `\` protects
  the next byte, so `\"` does not end it);
* `normText t` — the compact spelling of a syntax tree: no whitespace, every NUMBER LITERAL byte for byte
  (`p.bytes`), members in source order, every string and key re-spelled as the serializer spells its decoded
  content (`Spec.Image.quote`: only `"`, `\` and U+0000–U+001F escaped — RFC 8259 §7 allows other spellings of
  the same string, e.g. `A`, `\/`, and those do not survive);
* the two provisos under which the `Map` keeps the members as written: `keysInMapOrder po t` — in every object
  the decoded keys are pairwise distinct and, unless `preserve_order`, strictly ascending bytewise (the order of
  `BTreeMap<String, _>`) — and `spelledCanonically t` — every string and key literal already is the
  serializer's spelling of its content.

Import-free.
-/
namespace SJ.Spec.TextNorm
open SJ SJ.Spec.Grammar SJ.Spec.Denote SJ.Spec.Image

/-! ## the input minus insignificant whitespace -/

inductive Mode where
  | out      -- between tokens
  | str      -- inside a string literal
  | esc      -- inside a string literal, right after a backslash
deriving DecidableEq, Repr

def strip : Mode → Bytes → Bytes
  | _, [] => []
  | .out, b :: r => if isWs b then strip .out r else b :: strip (if b == 0x22 then .str else .out) r
  | .str, b :: r => b :: strip (if b == 0x22 then .out else if b == 0x5c then .esc else .str) r
  | .esc, b :: r => b :: strip .str r

/-- remove the whitespace bytes that stand outside string literals -/
def stripWs (bs : Bytes) : Bytes := strip .out bs

/-! ## the compact spelling of a syntax tree -/

/-- the content a string literal stands for (`[]` for a literal with an unpaired surrogate escape, which no
    accepted text contains) -/
def contentOf (items : List StrItem) : Bytes := (decodeItems items).getD []

mutual
def normText : CST → Bytes
  | .null => litNull
  | .true_ => litTrue
  | .false_ => litFalse
  | .num p => p.bytes
  | .str items => quote (contentOf items)
  | .arr xs => [0x5b] ++ normElems xs ++ [0x5d]
  | .obj ms => [0x7b] ++ normMembers ms ++ [0x7d]
def normElems : List CST → Bytes
  | [] => []
  | x :: xs => normText x ++ (if xs.isEmpty then [] else [0x2c]) ++ normElems xs
def normMembers : List (List StrItem × CST) → Bytes
  | [] => []
  | (k, x) :: ms => quote (contentOf k) ++ [0x3a] ++ normText x ++ (if ms.isEmpty then [] else [0x2c]) ++ normMembers ms
end

/-! ## the provisos -/

/-- strictly ascending bytewise (Rust's `str` order = `BTreeMap<String, _>` iteration order) -/
def keysAsc : List Bytes → Bool
  | a :: b :: r => Canon.bytesLt a b && keysAsc (b :: r)
  | _ => true

def keysDistinct : List Bytes → Bool
  | [] => true
  | k :: r => !r.contains k && keysDistinct r

/-- the decoded keys of an object's members, in source order -/
def memberKeys (ms : List (List StrItem × CST)) : List Bytes := ms.map fun m => contentOf m.1

mutual
/-- in every object of the tree: no duplicate key and (default map) keys already in ascending order -/
def keysInMapOrder (po : Bool) : CST → Bool
  | .arr xs => keysInMapOrderList po xs
  | .obj ms => keysDistinct (memberKeys ms) && (po || keysAsc (memberKeys ms)) && keysInMapOrderMembers po ms
  | _ => true
def keysInMapOrderList (po : Bool) : List CST → Bool
  | [] => true
  | x :: xs => keysInMapOrder po x && keysInMapOrderList po xs
def keysInMapOrderMembers (po : Bool) : List (List StrItem × CST) → Bool
  | [] => true
  | (_, x) :: ms => keysInMapOrder po x && keysInMapOrderMembers po ms
end

/-- the literal is the serializer's spelling of its own content -/
def spelledStr (items : List StrItem) : Bool := items == strItems (contentOf items)

mutual
def spelledCanonically : CST → Bool
  | .str items => spelledStr items
  | .arr xs => spelledList xs
  | .obj ms => spelledMembers ms
  | _ => true
def spelledList : List CST → Bool
  | [] => true
  | x :: xs => spelledCanonically x && spelledList xs
def spelledMembers : List (List StrItem × CST) → Bool
  | [] => true
  | (k, x) :: ms => spelledStr k && spelledCanonically x && spelledMembers ms
end

end SJ.Spec.TextNorm
