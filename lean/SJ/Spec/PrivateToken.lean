import SJ.Spec.Grammar
import SJ.Spec.Denote
import SJ.Gen.Token
/-!
# The private Number token of `arbitrary_precision`, as syntax

With `arbitrary_precision`, `Number` travels through serde's data model as a one-entry map keyed by
`number::TOKEN` (`Gen.numberToken` = `"$serde_json::private::Number"`), and `Value`'s visitor reads ANY JSON
object whose FIRST key decodes to that token as such a Number. RFC 8259 knows nothing of this: the predicates
below say, on the bytes and on the syntax tree, where the reading applies and which objects survive it.

* `hasTokenFirstKey bs` — a lexical scan of the bytes (no grammar, no parser model): it tracks only whether it is
  inside a string literal and whether the last non-whitespace byte outside strings is `{`; a string opened right
  after such a `{` is a first key, and when it closes its escape-decoded content is compared with the token.
* `tokenFree t` — no object of the syntax tree has a first key decoding to the token.
* `TokenShaped t` — every object whose first key decodes to the token has exactly that one member and its value
  is a string literal decoding to an RFC 8259 number literal (`IsNumber`) — what `Number::from_str` accepts.

Import-free.
-/
namespace SJ.Spec.PrivateToken
open SJ SJ.Spec.Grammar SJ.Spec.Denote

/-- `number::TOKEN` -/
def token : Bytes := Gen.numberToken

/-! ## string bodies -/

/-- the items of a string body (the bytes between the quotes), `none` if it is not `*char` -/
def parseItems : Bytes → Option (List StrItem)
  | [] => some []
  | b :: r =>
    if b == 0x5c then
      match r with
      | [] => none
      | c :: r' =>
        if c == 0x75 then
          match r' with
          | h1 :: h2 :: h3 :: h4 :: r'' =>
            if isHex h1 && isHex h2 && isHex h3 && isHex h4 then (parseItems r'').map (.uni h1 h2 h3 h4 :: ·) else none
          | _ => none
        else if isSimpleEscape c then (parseItems r').map (.esc c :: ·)
        else none
    else if isUnescaped b then (parseItems r).map (.raw b :: ·)
    else none

/-- the string body decodes (RFC 8259 §7, surrogate pairs merged) to the token -/
def bodyIsToken (body : Bytes) : Bool :=
  match parseItems body with
  | some items => decodeItems items == some token
  | none => false

/-- the key's items decode to the token -/
def isTokenKey (k : List StrItem) : Bool := decodeItems k == some token

/-! ## the lexical scan -/

inductive LMode where
  /-- outside string literals; `brace`: the last byte that is not whitespace is a `{` -/
  | out (brace : Bool)
  /-- inside a string literal; `first`: it was opened right after a `{`; `raw`: its body so far (reversed);
      `esc`: the previous byte is a backslash that is not itself escaped -/
  | str (first : Bool) (raw : Bytes) (esc : Bool)
deriving Repr

structure LexSt where
  mode : LMode := .out false
  /-- a first key decoding to the token has been closed -/
  hit : Bool := false
deriving Repr

def lexStep (l : LexSt) (b : UInt8) : LexSt :=
  match l.mode with
  | .out brace =>
    if b == 0x22 then { l with mode := .str brace [] false }
    else if b == 0x7b then { l with mode := .out true }
    else if isWs b then l
    else { l with mode := .out false }
  | .str first raw esc =>
    if esc then { l with mode := .str first (b :: raw) false }
    else if b == 0x5c then { l with mode := .str first (b :: raw) true }
    else if b == 0x22 then { mode := .out false, hit := l.hit || (first && bodyIsToken raw.reverse) }
    else { l with mode := .str first (b :: raw) false }

def lexRun (l : LexSt) (bs : Bytes) : LexSt := bs.foldl lexStep l

/-- some string literal that directly follows a `{` (whitespace apart) decodes to the token -/
def hasTokenFirstKey (bs : Bytes) : Bool := (lexRun {} bs).hit

/-! ## on syntax trees -/

/-- the first key of the member list decodes to the token -/
def firstKeyIsToken : List (List StrItem × CST) → Bool
  | (k, _) :: _ => isTokenKey k
  | [] => false

mutual
/-- no object of the tree has a first key that decodes to the token -/
def tokenFree : CST → Bool
  | .arr xs => tokenFreeList xs
  | .obj ms => !firstKeyIsToken ms && tokenFreeMembers ms
  | _ => true
def tokenFreeList : List CST → Bool
  | [] => true
  | x :: xs => tokenFree x && tokenFreeList xs
def tokenFreeMembers : List (List StrItem × CST) → Bool
  | [] => true
  | (_, x) :: ms => tokenFree x && tokenFreeMembers ms
end

/-- the one shape of a token-first object that `Value`'s visitor accepts: a single member whose value is a string
    literal decoding to a number literal; `txt` is that literal -/
def TokenObject (ms : List (List StrItem × CST)) (txt : Bytes) : Prop :=
  ∃ k items, ms = [(k, .str items)] ∧ isTokenKey k = true ∧ decodeItems items = some txt ∧ IsNumber txt

/-- what has to follow a first key that decodes to the token for the object to be accepted: `ws : ws string ws }` where
    the string literal decodes to the number literal `txt`; `rest'` is what follows the closing brace -/
def TokenTail (rest txt rest' : Bytes) : Prop :=
  ∃ w₁ w₂ items w₃, rest = w₁ ++ [0x3a] ++ w₂ ++ strBytes items ++ w₃ ++ [0x7d] ++ rest' ∧ Ws w₁ ∧ Ws w₂ ∧ Ws w₃ ∧
    StrWF items = true ∧ decodeItems items = some txt ∧ IsNumber txt

/-- the shape clause of the language accepted under `arbitrary_precision`, on the bytes: every string literal that stands
    directly after a `{` — outside string literals, whitespace apart: the scan is in mode `out true` where it begins — and
    decodes to the token is followed by a well-shaped tail -/
def TokenObjectsShaped (bs : Bytes) : Prop :=
  ∀ (pre : Bytes) (k : List StrItem) (rest : Bytes), bs = pre ++ strBytes k ++ rest → (lexRun {} pre).mode = .out true →
    StrWF k = true → decodeItems k = some token → ∃ txt rest', TokenTail rest txt rest'

mutual
/-- every object whose first key decodes to the token is a `TokenObject` -/
def TokenShaped : CST → Prop
  | .arr xs => TokenShapedList xs
  | .obj ms => if firstKeyIsToken ms then ∃ txt, TokenObject ms txt else TokenShapedMembers ms
  | _ => True
def TokenShapedList : List CST → Prop
  | [] => True
  | x :: xs => TokenShaped x ∧ TokenShapedList xs
def TokenShapedMembers : List (List StrItem × CST) → Prop
  | [] => True
  | (_, x) :: ms => TokenShaped x ∧ TokenShapedMembers ms
end

/-! ## on values -/

mutual
/-- no object of the `Value` has the token as its first key in iteration order (the order `to_string` writes: sorted in
    the default build, insertion order under `preserve_order`) -/
def valueTokenFree : JV → Bool
  | .arr xs => valuesTokenFree xs
  | .obj kvs => (match kvs with | (k, _) :: _ => k != token | [] => true) && membersTokenFree kvs
  | _ => true
def valuesTokenFree : List JV → Bool
  | [] => true
  | x :: xs => valueTokenFree x && valuesTokenFree xs
def membersTokenFree : List (Bytes × JV) → Bool
  | [] => true
  | (_, x) :: kvs => valueTokenFree x && membersTokenFree kvs
end

end SJ.Spec.PrivateToken
