import SJ.Spec.Grammar
/-!
# Where does a byte string stop being a prefix of JSON? (specification side of C11 / C10 / C12)

A recursive-descent scanner, independent of the byte-step machine, that classifies an input as
`ok` (one JSON text), `eof` (a proper prefix of some JSON text — more input could complete it) or
`dead d …` (byte number `d`, 0-based, is the first byte after which no continuation is JSON).
For a fault inside a string literal it also reports the literal's extent, because property C11
only requires the reported position to lie between the offending byte and the end of the literal.
Import-free.
-/
namespace SJ.Spec.Pos
open SJ SJ.Spec.Grammar

/-- extent of the string literal a fault lies in: index of the opening quote, and the largest
    index the implementation may still report (end of literal / end of a 4-byte hex group) -/
structure StrInfo where
  start : Nat
  hexEnd : Nat       -- 0 if the fault is not inside a `\u` group, else index just past the group
deriving Repr

inductive R where
  | ok (rest : Bytes) (pos : Nat)              -- construct scanned; remaining input and its index
  | eof                                        -- input ended inside the construct
  | dead (idx : Nat) (str : Option StrInfo)
deriving Repr

def skipWs : Bytes → Nat → Bytes × Nat
  | [], p => ([], p)
  | b :: r, p => if isWs b then skipWs r (p + 1) else (b :: r, p)

/-- after the opening quote (at index `start`) -/
def scanStr (start : Nat) : Bytes → Nat → R
  | [], _ => .eof
  | b :: r, p =>
    if b == 0x22 then .ok r (p + 1)
    else if b == 0x5c then
      match r with
      | [] => .eof
      | c :: r' =>
        if c == 0x75 then
          -- four hex digits at p+2 … p+5
          let he := p + 6
          match r' with
          | [] => .eof
          | h1 :: r1 => if !isHex h1 then .dead (p + 2) (some ⟨start, he⟩) else
            match r1 with
            | [] => .eof
            | h2 :: r2 => if !isHex h2 then .dead (p + 3) (some ⟨start, he⟩) else
              match r2 with
              | [] => .eof
              | h3 :: r3 => if !isHex h3 then .dead (p + 4) (some ⟨start, he⟩) else
                match r3 with
                | [] => .eof
                | h4 :: r4 => if !isHex h4 then .dead (p + 5) (some ⟨start, he⟩) else scanStr start r4 (p + 6)
        else if isSimpleEscape c then scanStr start r' (p + 2)
        else .dead (p + 1) (some ⟨start, 0⟩)
    else if isUnescaped b then scanStr start r (p + 1)
    else .dead p (some ⟨start, 0⟩)
termination_by bs => bs.length
decreasing_by all_goals simp_wf <;> omega

def skipDigits : Bytes → Nat → Bytes × Nat
  | [], p => ([], p)
  | b :: r, p => if isDigit b then skipDigits r (p + 1) else (b :: r, p)

/-- `[ minus ] int [ frac ] [ exp ]`, byte-exact about where it dies -/
def scanNum (bs : Bytes) (p : Nat) : R :=
  let (r0, p0) := match bs with
    | 0x2d :: r => (r, p + 1)
    | _ => (bs, p)
  match r0 with
  | [] => .eof
  | d :: r1 =>
    if !isDigit d then .dead p0 none else
    -- int
    let afterInt : Option (Bytes × Nat) :=
      if d == 0x30 then
        match r1 with
        | e :: _ => if isDigit e then none else some (r1, p0 + 1)
        | [] => some (r1, p0 + 1)
      else some (skipDigits r1 (p0 + 1))
    match afterInt with
    | none => .dead (p0 + 1) none            -- leading zero followed by a digit
    | some (r2, p2) =>
      -- frac
      let afterFrac : Except R (Bytes × Nat) :=
        match r2 with
        | 0x2e :: r3 =>
          match r3 with
          | [] => .error .eof
          | f :: r4 => if isDigit f then .ok (skipDigits r4 (p2 + 2)) else .error (.dead (p2 + 1) none)
        | _ => .ok (r2, p2)
      match afterFrac with
      | .error e => e
      | .ok (r5, p5) =>
        match r5 with
        | e :: r6 =>
          if e == 0x65 || e == 0x45 then
            let (r7, p7) := match r6 with
              | s :: t => if s == 0x2b || s == 0x2d then (t, p5 + 2) else (r6, p5 + 1)
              | [] => (r6, p5 + 1)
            match r7 with
            | [] => .eof
            | x :: r8 => if isDigit x then (let (r9, p9) := skipDigits r8 (p7 + 1); .ok r9 p9) else .dead p7 none
          else .ok r5 p5
        | [] => .ok r5 p5

def scanLit (expect : Bytes) : Bytes → Nat → R
  | bs, p =>
    match expect, bs with
    | [], _ => .ok bs p
    | _ :: _, [] => .eof
    | e :: es, b :: r => if b == e then scanLit es r (p + 1) else .dead p none

mutual
/-- one value; leading whitespace allowed -/
def scanValue : Nat → Bytes → Nat → R
  | 0, _, _ => .eof
  | fuel + 1, bs, p =>
    let (bs, p) := skipWs bs p
    match bs with
    | [] => .eof
    | b :: r =>
      if b == 0x6e then scanLit [0x75, 0x6c, 0x6c] r (p + 1)
      else if b == 0x74 then scanLit [0x72, 0x75, 0x65] r (p + 1)
      else if b == 0x66 then scanLit [0x61, 0x6c, 0x73, 0x65] r (p + 1)
      else if b == 0x22 then scanStr p r (p + 1)
      else if b == 0x2d || isDigit b then scanNum (b :: r) p
      else if b == 0x5b then
        let (r', p') := skipWs r (p + 1)
        match r' with
        | [] => .eof
        | c :: r'' => if c == 0x5d then .ok r'' (p' + 1) else scanElems fuel r' p'
      else if b == 0x7b then
        let (r', p') := skipWs r (p + 1)
        match r' with
        | [] => .eof
        | c :: r'' => if c == 0x7d then .ok r'' (p' + 1) else scanMembers fuel r' p'
      else .dead p none

def scanElems : Nat → Bytes → Nat → R
  | 0, _, _ => .eof
  | fuel + 1, bs, p =>
    match scanValue fuel bs p with
    | .ok r p1 =>
      let (r, p1) := skipWs r p1
      match r with
      | [] => .eof
      | c :: r' =>
        if c == 0x5d then .ok r' (p1 + 1)
        else if c == 0x2c then scanElems fuel r' (p1 + 1)
        else .dead p1 none
    | e => e

def scanMembers : Nat → Bytes → Nat → R
  | 0, _, _ => .eof
  | fuel + 1, bs, p =>
    let (bs, p) := skipWs bs p
    match bs with
    | [] => .eof
    | q :: r =>
      if q != 0x22 then .dead p none else
      match scanStr p r (p + 1) with
      | .ok r1 p1 =>
        let (r1, p1) := skipWs r1 p1
        match r1 with
        | [] => .eof
        | c :: r2 =>
          if c != 0x3a then .dead p1 none else
          match scanValue fuel r2 (p1 + 1) with
          | .ok r3 p3 =>
            let (r3, p3) := skipWs r3 p3
            match r3 with
            | [] => .eof
            | d :: r4 =>
              if d == 0x7d then .ok r4 (p3 + 1)
              else if d == 0x2c then scanMembers fuel r4 (p3 + 1)
              else .dead p3 none
          | e => e
      | e => e
end

inductive Verdict where
  | json                                   -- exactly one JSON text
  | prefix                                 -- proper prefix of a JSON text (or empty / whitespace)
  | dead (idx : Nat) (str : Option StrInfo)
deriving Repr

def verdict (bs : Bytes) : Verdict :=
  -- fuel: each nesting level and each element / member costs at most two units per byte consumed
  match scanValue (2 * bs.length + 4) bs 0 with
  | .eof => .prefix
  | .dead d s => .dead d s
  | .ok r p =>
    let (r, p) := skipWs r p
    match r with
    | [] => .json
    | _ :: _ => .dead p none

/-- one value at the head of a stream (leading whitespace allowed): where it ends -/
def valueEnd (bs : Bytes) : R := scanValue (2 * bs.length + 4) bs 0

/-- index just past the string literal that starts at `start` when scanned leniently (first
    unescaped quote), or the input length -/
def literalEnd (bs : Bytes) (start : Nat) : Nat :=
  let rec go (r : Bytes) (p : Nat) (esc : Bool) : Nat :=
    match r with
    | [] => p
    | b :: r' => if esc then go r' (p + 1) false
                 else if b == 0x5c then go r' (p + 1) true
                 else if b == 0x22 then p + 1
                 else go r' (p + 1) false
  go (bs.drop (start + 1)) (start + 1) false


/-- fuel is ample: nested openers followed by a dead byte are `dead` at that byte, not "prefix" -/
example : (match verdict [0x5b, 0x5b, 0x5b, 0x78] with | .dead 3 _ => true | _ => false) = true := by decide
example : (match verdict ((List.replicate 50 0x5b) ++ [0x78] ++ List.replicate 40 0x5d) with | .dead 50 _ => true | _ => false) = true := by decide +kernel

end SJ.Spec.Pos
