import SJ.Spec.Grammar
/-!
# Which opening bracket raises the nesting depth to the limit? (specification side of C11, nesting-limit clause)

C11: "a nesting-limit error [is positioned] at the 128th opening bracket". `depthOpener limit bs` finds that bracket by a
purely lexical scan, independent of the byte-step machine and of `Spec.Pos.scanValue`: outside string literals every `[`
and `{` opens a container and every `]` and `}` closes one; the answer is the index of the first opener at which the number
of open containers reaches `limit`. String literals are skipped leniently (the closing quote is the first quote that is
not the second byte of a backslash pair) — on a grammatical prefix, the only place where the parser can raise the
nesting-limit error, this is exactly the literal. Successive stream items are covered by the same scan (a completed item
has closed all its containers). Kept in its own file (namespace `SJ.Spec.Pos`) so that `SJ/Spec/Pos.lean`, which proof
modules import, is not touched. Import-free.
-/
namespace SJ.Spec.Pos
open SJ

/-- scan state: index `p`, open containers `depth`, inside a string literal, after a backslash inside one -/
def depthOpenerGo (limit : Nat) : Bytes → Nat → Nat → Bool → Bool → Option Nat
  | [], _, _, _, _ => none
  | b :: r, p, depth, inStr, esc =>
    if inStr then
      if esc then depthOpenerGo limit r (p + 1) depth true false
      else if b == 0x5c then depthOpenerGo limit r (p + 1) depth true true
      else if b == 0x22 then depthOpenerGo limit r (p + 1) depth false false
      else depthOpenerGo limit r (p + 1) depth true false
    else if b == 0x22 then depthOpenerGo limit r (p + 1) depth true false
    else if b == 0x5b || b == 0x7b then
      if limit ≤ depth + 1 then some p else depthOpenerGo limit r (p + 1) (depth + 1) false false
    else if b == 0x5d || b == 0x7d then depthOpenerGo limit r (p + 1) (depth - 1) false false
    else depthOpenerGo limit r (p + 1) depth false false

/-- 0-based index of the opening bracket (`[` or `{`, outside string literals) that raises the nesting depth to `limit` -/
def depthOpener (limit : Nat) (bs : Bytes) : Option Nat := depthOpenerGo limit bs 0 0 false false

-- `[[` : the second bracket is the 2nd opener
example : depthOpener 2 [0x5b, 0x5b] = some 1 := by decide
-- `[1,{` : a brace counts like a bracket
example : depthOpener 2 [0x5b, 0x31, 0x2c, 0x7b] = some 3 := by decide
-- `[[],[` : a closed container no longer counts
example : depthOpener 2 [0x5b, 0x5b, 0x5d, 0x2c, 0x5b] = some 1 := by decide
example : depthOpener 3 [0x5b, 0x5b, 0x5d, 0x2c, 0x5b, 0x7b] = some 5 := by decide
-- `["[",[` : brackets inside a string literal do not count
example : depthOpener 2 [0x5b, 0x22, 0x5b, 0x22, 0x2c, 0x5b] = some 5 := by decide
-- `["\"[",{` : an escaped quote does not end the literal
example : depthOpener 2 [0x5b, 0x22, 0x5c, 0x22, 0x5b, 0x22, 0x2c, 0x7b] = some 7 := by decide
-- `["\\",[` : an escaped backslash does not escape the closing quote
example : depthOpener 2 [0x5b, 0x22, 0x5c, 0x5c, 0x22, 0x2c, 0x5b] = some 6 := by decide
-- `{"a":\n{` : key, colon and newline in between
example : depthOpener 2 [0x7b, 0x22, 0x61, 0x22, 0x3a, 0x0a, 0x7b] = some 6 := by decide
-- never reached
example : depthOpener 3 [0x5b, 0x5b, 0x5d, 0x5d] = none := by decide
-- 127 brackets and a brace: the brace is the 128th opener; a following stream item starts from depth 0 again
example : depthOpener 128 (List.replicate 127 0x5b ++ [0x7b, 0x7d]) = some 127 := by decide +kernel
example : depthOpener 128 (List.replicate 127 0x5b ++ List.replicate 127 0x5d ++ [0x20] ++ List.replicate 127 0x5b) = none := by decide +kernel
example : depthOpener 128 ([0x31, 0x0a] ++ List.replicate 128 0x5b) = some 129 := by decide +kernel

end SJ.Spec.Pos
