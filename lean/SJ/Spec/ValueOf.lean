import SJ.Spec.Image
import SJ.Spec.Canon
/-!
# C15: the `Value` a data-model image denotes, and the stated exceptions as predicates on programs

* `valueOfImage cfg d` — the `Value` obtained from the JSON value `d` exactly as property C02 says a
  parse result is obtained from a syntax tree: numbers are classified from their literal text by
  `Spec.Canon.numOf` (exact integer in [i64::MIN, u64::MAX], otherwise float; the literal itself under
  `arbitrary_precision`), objects are folded through the map specification `Spec.Canon.objectOf`
  (one entry per distinct key, last duplicate wins, sorted / first-occurrence order). It is `none`
  only if a number literal is out of the finite `f64` range. `canon cfg (cstOf d) = valueOfImage cfg d`
  (`SJ.Proofs.ToValueImage.canon_cstOf`).
* `widenF32 ap p` — the statement's first exception: inside a `Value` an `f32` is held as the `f64`
  of the same value (not under `arbitrary_precision`, where `Number::from_f32` keeps the `f32` text).
  Map keys are not touched: both key serializers print an `f32` key with `ryu::<f32>`.
* `has128OutOfRange p` — the second exception: a 128-bit integer outside [i64::MIN, u64::MAX] in
  value position.
* `hasSomeKey p` — **pinned-tree deviation**: some map key is `Some(_)` (possibly behind newtype
  structs); the text key serializer forwards `serialize_some`, `value::ser::MapKeySerializer` rejects it.
* `inScope p` — the Rust types: every integer lies in the range of its entry point's type; no
  `numberLit` (a program only `Number`'s own `Serialize` produces, `arbitrary_precision` only).
* `floatsRT cfg ext p` — the statement's proviso on `f64` comparisons: every finite `f64` the program
  serialises as a value is read back from its printed text as itself (under `float_roundtrip` this is
  C07 + `ryu` prints a decimal that rounds to the input; by default it holds for short literals, C08).
Import-free.
-/
namespace SJ.Spec.ValueOf
open SJ SJ.Spec.Grammar SJ.Spec.Denote SJ.Spec.Program SJ.Spec.Image SJ.Spec.Canon

mutual
def valueOfImage (cfg : Cfg) : DV → Option JV
  | .null => some .null
  | .bool b => some (.bool b)
  | .num p => (numOf cfg p).map .num
  | .str s => some (.str s)
  | .arr xs => (valueOfImages cfg xs).map .arr
  | .obj ms => (valueOfMembers cfg ms).map (objectOf cfg)
def valueOfImages (cfg : Cfg) : List DV → Option (List JV)
  | [] => some []
  | x :: xs => match valueOfImage cfg x, valueOfImages cfg xs with
    | some v, some vs => some (v :: vs)
    | _, _ => none
def valueOfMembers (cfg : Cfg) : List (Bytes × DV) → Option (List (Bytes × JV))
  | [] => some []
  | (k, x) :: ms => match valueOfImage cfg x, valueOfMembers cfg ms with
    | some v, some r => some ((k, v) :: r)
    | _, _ => none
end

/-! ## f32 widening -/

/-- the `f64` bit pattern with the value of a finite `f32` bit pattern: same sign; exponent field
    re-biased by `1023 - 127 = 896` and the 23 fraction bits moved to the top of the 52 (normal numbers);
    a subnormal `m · 2^-149` is normalised around its leading bit `k = ⌊log2 m⌋`; ±0 stay ±0 -/
def widen32 (b : UInt32) : UInt64 :=
  let s := (b >>> 31).toNat
  let e := ((b >>> 23) &&& 0xff).toNat
  let m := (b &&& 0x7fffff).toNat
  if e == 0 then
    if m == 0 then UInt64.ofNat (s * 2 ^ 63)
    else UInt64.ofNat (s * 2 ^ 63 + (874 + Nat.log2 m) * 2 ^ 52 + (m - 2 ^ Nat.log2 m) * 2 ^ (52 - Nat.log2 m))
  else UInt64.ofNat (s * 2 ^ 63 + (e + 896) * 2 ^ 52 + m * 2 ^ 29)

mutual
/-- every finite `f32` in value position replaced by the `f64` of the same value (identity under `ap`) -/
def widenF32 (ap : Bool) : SVal → SVal
  | .f32 b => if !ap && finite32 b then .f64 (widen32 b) else .f32 b
  | .some p => .some (widenF32 ap p)
  | .newtypeStruct p => .newtypeStruct (widenF32 ap p)
  | .newtypeVariant n p => .newtypeVariant n (widenF32 ap p)
  | .seq h xs => .seq h (widenList ap xs)
  | .tuple xs => .tuple (widenList ap xs)
  | .tupleStruct xs => .tupleStruct (widenList ap xs)
  | .tupleVariant n xs => .tupleVariant n (widenList ap xs)
  | .map h es => .map h (widenEntries ap es)
  | .struct_ fs => .struct_ (widenFields ap fs)
  | .structVariant n fs => .structVariant n (widenFields ap fs)
  | p => p
termination_by structural p => p
def widenList (ap : Bool) : List SVal → List SVal
  | [] => []
  | x :: xs => widenF32 ap x :: widenList ap xs
def widenEntries (ap : Bool) : List (SVal × SVal) → List (SVal × SVal)
  | [] => []
  | (k, v) :: es => (k, widenF32 ap v) :: widenEntries ap es
def widenFields (ap : Bool) : List (Bytes × SVal) → List (Bytes × SVal)
  | [] => []
  | (n, v) :: fs => (n, widenF32 ap v) :: widenFields ap fs
end

/-! ## predicates on programs (value positions: everything except map keys) -/

/-- `n` does not fit `u64` nor `i64` -/
def outOf64 (n : Int) : Bool := decide (n < -(2 ^ 63)) || decide ((2 ^ 64 : Int) ≤ n)

mutual
/-- a 128-bit integer outside [i64::MIN, u64::MAX] is serialised as a value -/
def has128OutOfRange : SVal → Bool
  | .int w n => (w == .i128 || w == .u128) && outOf64 n
  | .some p | .newtypeStruct p | .newtypeVariant _ p => has128OutOfRange p
  | .seq _ xs | .tuple xs | .tupleStruct xs | .tupleVariant _ xs => has128List xs
  | .map _ es => has128Entries es
  | .struct_ fs | .structVariant _ fs => has128Fields fs
  | _ => false
termination_by structural p => p
def has128List : List SVal → Bool
  | [] => false
  | x :: xs => has128OutOfRange x || has128List xs
def has128Entries : List (SVal × SVal) → Bool
  | [] => false
  | (_, v) :: es => has128OutOfRange v || has128Entries es
def has128Fields : List (Bytes × SVal) → Bool
  | [] => false
  | (_, v) :: fs => has128OutOfRange v || has128Fields fs
end

/-- the key is `Some(_)`, possibly behind newtype structs (the calls that reach `serialize_some` on a
    key serializer) -/
def keyIsSome : SVal → Bool
  | .some _ => true
  | .newtypeStruct k => keyIsSome k
  | _ => false

mutual
/-- some map of the program (in value position) has a `Some(_)` key -/
def hasSomeKey : SVal → Bool
  | .some p | .newtypeStruct p | .newtypeVariant _ p => hasSomeKey p
  | .seq _ xs | .tuple xs | .tupleStruct xs | .tupleVariant _ xs => hasSomeKeyList xs
  | .map _ es => hasSomeKeyEntries es
  | .struct_ fs | .structVariant _ fs => hasSomeKeyFields fs
  | _ => false
termination_by structural p => p
def hasSomeKeyList : List SVal → Bool
  | [] => false
  | x :: xs => hasSomeKey x || hasSomeKeyList xs
def hasSomeKeyEntries : List (SVal × SVal) → Bool
  | [] => false
  | (k, v) :: es => keyIsSome k || hasSomeKey v || hasSomeKeyEntries es
def hasSomeKeyFields : List (Bytes × SVal) → Bool
  | [] => false
  | (_, v) :: fs => hasSomeKey v || hasSomeKeyFields fs
end

mutual
/-- integers fit their Rust type, and there is no `numberLit` (value positions) -/
def inScope : SVal → Bool
  | .int w n => w.inRange n
  | .numberLit _ => false
  | .some p | .newtypeStruct p | .newtypeVariant _ p => inScope p
  | .seq _ xs | .tuple xs | .tupleStruct xs | .tupleVariant _ xs => inScopeList xs
  | .map _ es => inScopeEntries es
  | .struct_ fs | .structVariant _ fs => inScopeFields fs
  | _ => true
termination_by structural p => p
def inScopeList : List SVal → Bool
  | [] => true
  | x :: xs => inScope x && inScopeList xs
def inScopeEntries : List (SVal × SVal) → Bool
  | [] => true
  | (_, v) :: es => inScope v && inScopeEntries es
def inScopeFields : List (Bytes × SVal) → Bool
  | [] => true
  | (_, v) :: fs => inScope v && inScopeFields fs
end

/-- the printed text of the finite double `b` is read back as `b` (vacuous under `arbitrary_precision`,
    where the text itself is kept) -/
def f64RT (cfg : Cfg) (ext : Ext) (b : UInt64) : Bool :=
  cfg.ap || !finite64 b || numOf cfg (Number.splitNumber (ext.ryu64 b)) == some (.float b)

mutual
/-- `f64RT` for every `f64` serialised as a value -/
def floatsRT (cfg : Cfg) (ext : Ext) : SVal → Bool
  | .f64 b => f64RT cfg ext b
  | .some p | .newtypeStruct p | .newtypeVariant _ p => floatsRT cfg ext p
  | .seq _ xs | .tuple xs | .tupleStruct xs | .tupleVariant _ xs => floatsRTList cfg ext xs
  | .map _ es => floatsRTEntries cfg ext es
  | .struct_ fs | .structVariant _ fs => floatsRTFields cfg ext fs
  | _ => true
termination_by structural p => p
def floatsRTList (cfg : Cfg) (ext : Ext) : List SVal → Bool
  | [] => true
  | x :: xs => floatsRT cfg ext x && floatsRTList cfg ext xs
def floatsRTEntries (cfg : Cfg) (ext : Ext) : List (SVal × SVal) → Bool
  | [] => true
  | (_, v) :: es => floatsRT cfg ext v && floatsRTEntries cfg ext es
def floatsRTFields (cfg : Cfg) (ext : Ext) : List (Bytes × SVal) → Bool
  | [] => true
  | (_, v) :: fs => floatsRT cfg ext v && floatsRTFields cfg ext fs
end

end SJ.Spec.ValueOf
