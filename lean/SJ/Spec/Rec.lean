import SJ.Spec.Grammar
import SJ.Spec.Denote
/-!
# An executable recogniser for the RFC 8259 grammar (recursive descent, fuelled)

Independent of the byte-step machine: it is the *specification side* of the correspondence runs
(`spec` verdicts of C01/C02/C10/C11/C19) — the implementation's accept/reject and value are
compared with what this recogniser and `Spec.Denote` say. Import-free.
-/
namespace SJ.Spec.Rec
open SJ SJ.Spec.Grammar

def skipWs : Bytes → Bytes
  | [] => []
  | b :: r => if isWs b then skipWs r else b :: r

def stripPrefix (p : Bytes) (bs : Bytes) : Option Bytes :=
  if p.isPrefixOf bs then some (bs.drop p.length) else none

/-- items of a string literal after the opening quote, up to and including the closing quote -/
def pString : Bytes → Option (List StrItem × Bytes)
  | [] => none
  | b :: r =>
    if b == 0x22 then some ([], r)
    else if b == 0x5c then
      match r with
      | c :: r' =>
        if c == 0x75 then
          match r' with
          | h1 :: h2 :: h3 :: h4 :: r'' =>
            if isHex h1 && isHex h2 && isHex h3 && isHex h4 then
              (pString r'').map fun (is, rest) => (.uni h1 h2 h3 h4 :: is, rest)
            else none
          | _ => none
        else if isSimpleEscape c then (pString r').map fun (is, rest) => (.esc c :: is, rest)
        else none
      | [] => none
    else if isUnescaped b then (pString r).map fun (is, rest) => (.raw b :: is, rest)
    else none
termination_by bs => bs.length
decreasing_by all_goals simp_wf <;> omega

def spanDigits (bs : Bytes) : Bytes × Bytes := (bs.takeWhile isDigit, bs.dropWhile isDigit)

/-- longest prefix that is a `number` -/
def pNumber (bs : Bytes) : Option (NumParts × Bytes) :=
  let (minus, r) := match bs with
    | 0x2d :: r => (true, r)
    | _ => (false, bs)
  match r with
  | [] => none
  | d :: r1 =>
    if !isDigit d then none else
    let (int, r2) := if d == 0x30 then ([d], r1) else let (ds, rest) := spanDigits r1; (d :: ds, rest)
    let (frac, r3) := match r2 with
      | 0x2e :: r' =>
        let (ds, rest) := spanDigits r'
        if ds.isEmpty then ([], r2) else (0x2e :: ds, rest)
      | _ => ([], r2)
    let (exp, r4) := match r3 with
      | e :: r' =>
        if e == 0x65 || e == 0x45 then
          let (sign, r'') := match r' with
            | s :: t => if s == 0x2b || s == 0x2d then ([s], t) else ([], r')
            | [] => ([], r')
          let (ds, rest) := spanDigits r''
          if ds.isEmpty then ([], r3) else (e :: sign ++ ds, rest)
        else ([], r3)
      | [] => ([], r3)
    some ({ minus := minus, int := int, frac := frac, exp := exp }, r4)

mutual
/-- one `value` at the head of the input (no leading whitespace) -/
def pValue : Nat → Bytes → Option (CST × Bytes)
  | 0, _ => none
  | _ + 1, [] => none
  | fuel + 1, b :: r =>
    if b == 0x6e then (stripPrefix [0x75, 0x6c, 0x6c] r).map (.null, ·)
    else if b == 0x74 then (stripPrefix [0x72, 0x75, 0x65] r).map (.true_, ·)
    else if b == 0x66 then (stripPrefix [0x61, 0x6c, 0x73, 0x65] r).map (.false_, ·)
    else if b == 0x22 then (pString r).map fun (is, rest) => (.str is, rest)
    else if b == 0x5b then
      match skipWs r with
      | 0x5d :: rest => some (.arr [], rest)
      | r' => (pElems fuel r').map fun (xs, rest) => (.arr xs, rest)
    else if b == 0x7b then
      match skipWs r with
      | 0x7d :: rest => some (.obj [], rest)
      | r' => (pMembers fuel r').map fun (ms, rest) => (.obj ms, rest)
    else if b == 0x2d || isDigit b then (pNumber (b :: r)).map fun (p, rest) => (.num p, rest)
    else none

/-- `value *( ws "," ws value ) ws "]"` -/
def pElems : Nat → Bytes → Option (List CST × Bytes)
  | 0, _ => none
  | fuel + 1, bs =>
    match pValue fuel bs with
    | none => none
    | some (t, r) =>
      match skipWs r with
      | 0x5d :: rest => some ([t], rest)
      | 0x2c :: r' => (pElems fuel (skipWs r')).map fun (ts, rest) => (t :: ts, rest)
      | _ => none

/-- `member *( ws "," ws member ) ws "}"` -/
def pMembers : Nat → Bytes → Option (List (List StrItem × CST) × Bytes)
  | 0, _ => none
  | fuel + 1, bs =>
    match bs with
    | 0x22 :: r =>
      match pString r with
      | none => none
      | some (k, r1) =>
        match skipWs r1 with
        | 0x3a :: r2 =>
          match pValue fuel (skipWs r2) with
          | none => none
          | some (t, r3) =>
            match skipWs r3 with
            | 0x7d :: rest => some ([(k, t)], rest)
            | 0x2c :: r4 => (pMembers fuel (skipWs r4)).map fun (ms, rest) => ((k, t) :: ms, rest)
            | _ => none
        | _ => none
    | _ => none
end

/-- `JSON-text = ws value ws`: the syntax tree, if `bs` is exactly one JSON text -/
def recognise (bs : Bytes) : Option CST :=
  match pValue (bs.length + 1) (skipWs bs) with
  | some (t, rest) => if (skipWs rest).isEmpty then some t else none
  | none => none

/-- the longest prefix of `bs` (after leading whitespace) that is one `value`: tree and remainder -/
def recogniseValuePrefix (bs : Bytes) : Option (CST × Bytes) := pValue (bs.length + 1) bs

/-! ### raw bytes of strings must be UTF-8 (for byte sources) -/
def strRaw (items : List StrItem) : Bytes := items.flatMap StrItem.bytes

end SJ.Spec.Rec
