import SJ.Spec.Value
/-!
# Direct container access on a `Value` (reference for `get` / `Index` / `IndexMut` / `take`)

An object is an association list with pairwise distinct keys in iteration order, an array a list.
"Direct container access" is first-match lookup in the association list and `nth` in the list;
nothing else answers a probe (a key never selects in an array, a position never in an object).

`insertIfMissing` is the reference for what `value[key]` in a mutable context does to an object:
a present key changes nothing; a missing key gains a `null` member — at the position the container
dictates (ascending key order by default, at the end under `preserve_order`).

Import-free and computable (the driver evaluates these on the implementation's observations).
-/
namespace SJ.Spec.Index
open SJ

/-- first-match lookup in an association list -/
def lookup (k : Bytes) : List (Bytes × JV) → Option JV
  | [] => none
  | (k', v) :: r => if k' = k then some v else lookup k r

/-- the member `k` of an object; nothing else has members -/
def member (k : Bytes) : JV → Option JV
  | .obj kvs => lookup k kvs
  | _ => none

/-- the element at position `i` of an array; nothing else has positions -/
def element (i : Nat) : JV → Option JV
  | .arr xs => xs[i]?
  | _ => none

/-- a probe: a member name or a position -/
inductive Sel where
  | key (k : Bytes)
  | pos (i : Nat)
deriving Repr, DecidableEq

/-- direct container access -/
def select : Sel → JV → Option JV
  | .key k, v => member k v
  | .pos i, v => element i v

/-- `value[probe]` in an immutable context never fails: a miss is `null` -/
def orNull : Option JV → JV
  | some v => v
  | none => .null

/-- Rust `String` order: lexicographic on the UTF-8 bytes -/
def ltBytes : Bytes → Bytes → Bool
  | [], [] => false
  | [], _ :: _ => true
  | _ :: _, [] => false
  | a :: as, b :: bs => if a < b then true else if b < a then false else ltBytes as bs

/-- place a new member in front of the first member with a greater key -/
def insertAscending (k : Bytes) (v : JV) : List (Bytes × JV) → List (Bytes × JV)
  | [] => [(k, v)]
  | (k', v') :: r => if ltBytes k k' then (k, v) :: (k', v') :: r else (k', v') :: insertAscending k v r

/-- the members after `value[k]` was mentioned in a mutable context -/
def insertIfMissing (po : Bool) (k : Bytes) (m : List (Bytes × JV)) : List (Bytes × JV) :=
  match lookup k m with
  | some _ => m
  | none => if po then m ++ [(k, .null)] else insertAscending k .null m

/-- replace the value of member `k` (first match) -/
def setMember (k : Bytes) (x : JV) : List (Bytes × JV) → List (Bytes × JV)
  | [] => []
  | (k', v) :: r => if k' = k then (k', x) :: r else (k', v) :: setMember k x r

/-- The outcome of `value[k]` in a mutable context (`IndexMut<&str>`): `none` is a panic; otherwise
    the members of the document afterwards (`null` counts as the empty object). The reference
    returned addresses member `k` of that object. -/
def indexMutKey (po : Bool) (k : Bytes) : JV → Option (List (Bytes × JV))
  | .null => some (insertIfMissing po k [])
  | .obj m => some (insertIfMissing po k m)
  | _ => none

/-- The outcome of `value[i]` in a mutable context (`IndexMut<usize>`): the element addressed, or
    `none` for a panic — anything but an array, or a position past the end. Nothing is created. -/
def indexMutIdx (i : Nat) : JV → Option JV
  | .arr xs => xs[i]?
  | _ => none

/-- replace the element at position `i` -/
def setElement (i : Nat) (x : JV) : List JV → List JV
  | [] => []
  | v :: r => match i with
    | 0 => x :: r
    | i + 1 => v :: setElement i x r

/-- `value[probe]` in a mutable context: `none` = panic, otherwise the document afterwards (the
    reference returned addresses `probe` in it) -/
def indexMut (po : Bool) : Sel → JV → Option JV
  | .key k, v => (indexMutKey po k v).map .obj
  | .pos i, v => (indexMutIdx i v).map fun _ => v

/-- overwrite what `probe` addresses (no effect when it addresses nothing) -/
def write (x : JV) : Sel → JV → JV
  | .key k, .obj m => .obj (setMember k x m)
  | .pos i, .arr l => .arr (setElement i x l)
  | _, v => v

end SJ.Spec.Index
