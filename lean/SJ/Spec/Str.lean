import SJ.Spec.Value
/-!
# JSON string escaping, hex digits, and "first escape byte" — the statement's own definitions

Independent of the code and of its tables: these are what C05's sentences say, at byte level.
All characters that JSON requires to be escaped are ASCII, and every byte of a multi-byte UTF-8
sequence is ≥ 0x80, so the per-character map of the statement is a per-byte map.
-/
namespace SJ.Spec.Str
open SJ

/-- lower-case hex digit of a nibble (`0-9a-f`) -/
def hexLower (n : Nat) : UInt8 := if n < 10 then UInt8.ofNat (0x30 + n) else UInt8.ofNat (0x61 + (n - 10))

/-- must this byte be escaped?  `"`, `\` and the C0 controls U+0000–U+001F. -/
def needsEscape (b : UInt8) : Bool := b == 0x22 || b == 0x5c || b < 0x20

/-- The escaped spelling of one byte: `"`→`\"`, `\`→`\\`, U+0008 `\b`, U+0009 `\t`, U+000A `\n`,
    U+000C `\f`, U+000D `\r`, any other control → `\u00XX` (lower-case hex); everything else verbatim. -/
def escapeByte (b : UInt8) : Bytes :=
  if b == 0x22 then [0x5c, 0x22]            -- \"
  else if b == 0x5c then [0x5c, 0x5c]       -- \\
  else if b == 0x08 then [0x5c, 0x62]       -- \b
  else if b == 0x09 then [0x5c, 0x74]       -- \t
  else if b == 0x0a then [0x5c, 0x6e]       -- \n
  else if b == 0x0c then [0x5c, 0x66]       -- \f
  else if b == 0x0d then [0x5c, 0x72]       -- \r
  else if b < 0x20 then [0x5c, 0x75, 0x30, 0x30, hexLower (b.toNat / 16), hexLower (b.toNat % 16)]
  else [b]

/-- The JSON string literal for the (UTF-8) string `s`. -/
def escapeSpec (s : Bytes) : Bytes := [0x22] ++ s.flatMap escapeByte ++ [0x22]

/-- value of one hex digit, either case -/
def hexDigitVal (b : UInt8) : Option Nat :=
  if 0x30 ≤ b ∧ b ≤ 0x39 then some (b.toNat - 0x30)          -- 0-9
  else if 0x61 ≤ b ∧ b ≤ 0x66 then some (b.toNat - 0x61 + 10)  -- a-f
  else if 0x41 ≤ b ∧ b ≤ 0x46 then some (b.toNat - 0x41 + 10)  -- A-F
  else none

/-- value of a four-digit group `XXXX` (RFC 8259 §7 `4HEXDIG`), `none` unless all four are hex digits -/
def hex4Val (a b c d : UInt8) : Option Nat := do
  let x ← hexDigitVal a
  let y ← hexDigitVal b
  let z ← hexDigitVal c
  let w ← hexDigitVal d
  pure (x * 4096 + y * 256 + z * 16 + w)

/-- Does the string scanner have to stop at this byte?  Always at `"` and `\`; at a control byte
    only when control characters are forbidden (text targets; byte targets let them through). -/
def stopsScan (b : UInt8) (forbidControl : Bool) : Bool :=
  b == 0x22 || b == 0x5c || (forbidControl && b < 0x20)

/-- number of leading bytes that do not stop the scan -/
def runLength (l : Bytes) (forbidControl : Bool) : Nat :=
  (l.takeWhile fun b => !stopsScan b forbidControl).length

/-- The smallest `i ≥ index` such that `i = slice.length` or `slice[i]` stops the scan
    (characterised by `c05_first_escape_char`). -/
def firstEscape (slice : Bytes) (index : Nat) (forbidControl : Bool) : Nat :=
  index + runLength (slice.drop index) forbidControl

end SJ.Spec.Str
