import SJ.Spec.Schema
/-!
# C16's exclusion "a struct variant written as an array", schema-directed

The statement of C16 leaves out "struct variants written as arrays (accepted from text only)": an enum target with a struct
variant `name`, given the single-key object `{name: [...]}`. `JV.hasArrayPayload` (`Spec/Schema.lean`) over-approximates it —
it looks for such an object ANYWHERE in the value, for the name of ANY struct variant of the schema, so that e.g.
`(Map<String, Vec<u8>>, enum { S { x: bool } })` on `[{"S":[1]}, {"S":{"x":true}}]` was dropped although all three paths agree
on it. `Schema.svArr s v` walks the schema and the value TOGETHER, the way the three deserializers visit them, and answers
`true` only where an enum target meets a single-key object whose key names one of its struct variants and whose payload is an
array. (Positions: `Option` on a non-null value, newtype, every element of a `Vec`, the i-th element under the i-th tuple /
struct-from-array component, every value of a map, a struct's member under the first field of that name, an enum's payload under
every variant of that name — several only for a schema with duplicate variant names, which no Rust type has; the payload of the
FIRST entry is visited also in a multi-key object, which all three paths refuse anyway.) Import-free, computable: the executable
statement of op `c16` uses it (`c16Excluded2`).
-/
namespace SJ

mutual
/-- an enum target with a struct variant `name` meets `{name: [...]}` somewhere in the positions the deserializers visit -/
def Schema.svArr : Schema → JV → Bool
  | .option s, v => (match v with | .null => false | _ => Schema.svArr s v)
  | .newtype s, v => Schema.svArr s v
  | .seq s, v => (match v with | .arr xs => xs.any (Schema.svArr s) | _ => false)
  | .tuple ss, v => (match v with | .arr xs => Schema.svArrList ss xs | _ => false)
  | .map _ s, v => (match v with | .obj kvs => kvs.any fun kv => Schema.svArr s kv.2 | _ => false)
  | .struct_ fs _, v =>
    (match v with
     | .arr xs => Schema.svArrFieldsArr fs xs
     | .obj kvs => kvs.any fun kv => Schema.svArrField fs kv.1 kv.2
     | _ => false)
  | .enum_ vs, v =>
    (match v with
     | .obj ((k, x) :: rest) => Schema.svArrVariants vs rest.isEmpty k x
     | _ => false)
  | _, _ => false
/-- positionwise -/
def Schema.svArrList : List Schema → List JV → Bool
  | s :: ss, xs => (match xs with | x :: xs' => Schema.svArr s x || Schema.svArrList ss xs' | [] => false)
  | [], _ => false
/-- a struct given as an array: positionwise over the fields -/
def Schema.svArrFieldsArr : List (Bytes × Schema) → List JV → Bool
  | (_, s) :: fs, xs => (match xs with | x :: xs' => Schema.svArr s x || Schema.svArrFieldsArr fs xs' | [] => false)
  | [], _ => false
/-- a member of a struct given as an object: under the first field of that name -/
def Schema.svArrField : List (Bytes × Schema) → Bytes → JV → Bool
  | [], _, _ => false
  | (n, s) :: fs, k, x => if n == k then Schema.svArr s x else Schema.svArrField fs k x
/-- the payload `x` of the entry `k` of an enum given as an object (`single`: the object has no other entry) -/
def Schema.svArrVariants : List (Bytes × VariantShape) → Bool → Bytes → JV → Bool
  | [], _, _, _ => false
  | (n, sh) :: vs, single, k, x => (n == k && VariantShape.svArr sh single x) || Schema.svArrVariants vs single k x
def VariantShape.svArr : VariantShape → Bool → JV → Bool
  | .unit, _, _ => false
  | .newtype s, _, x => Schema.svArr s x
  | .tuple ss, _, x => (match x with | .arr xs => Schema.svArrList ss xs | _ => false)
  | .struct_ fs, single, x =>
    (match x with
     | .arr xs => single || Schema.svArrFieldsArr fs xs       -- the exclusion itself
     | .obj kvs => kvs.any fun kv => Schema.svArrField fs kv.1 kv.2
     | _ => false)
end

/-- the (schema, value) pair lies outside the claim of C16 (the third exclusion schema-directed) -/
def c16Excluded2 (s : Schema) (v : JV) : Bool :=
  s.hasF32 || s.hasEmptyTupleVariant || s.svArr v

end SJ
