import SJ.Spec.AMap
/-!
# Order-free meaning of a JSON value (property C17)

`AVal` is what a `Value` *denotes* when objects are dictionaries: an object is a function from
keys to members (`absent` where there is none), a float is its numeric value (`+0.0` and `-0.0`
are the same number). `Value == Value` is specified as equality of these abstractions.

`canon` is the computable counterpart used by the driver: objects sorted by key at every depth
(first occurrence of a key wins), zero normalised; two values are equal iff their canonical forms
are structurally equal.
-/
namespace SJ.Spec.ValueEq
open SJ SJ.Spec.AMap

/-- both IEEE zeros (`±0.0`) -/
def isZeroBits (b : UInt64) : Bool := b == 0 || b == 0x8000000000000000

/-- NaN: exponent all ones, mantissa non-zero (never stored in a `Number`) -/
def isNaNBits (b : UInt64) : Bool :=
  (b >>> 52) % 2048 == 2047 && b % 0x10000000000000 != 0

/-- a number as an abstract quantity: the two zeros are identified -/
def normNum : Num → Num
  | .float b => if isZeroBits b then .float 0 else .float b
  | n => n

inductive AVal where
  | absent
  | null
  | bool (b : Bool)
  | num (n : Num)
  | str (s : Bytes)
  | arr (xs : List AVal)
  | obj (f : Bytes → AVal)

/-- the member function of an association list (first match) -/
def memberFn (l : List (Bytes × AVal)) : Bytes → AVal := fun k =>
  match lookup k l with
  | some a => a
  | none => .absent

mutual
def abs : JV → AVal
  | .null => .null
  | .bool b => .bool b
  | .num n => .num (normNum n)
  | .str s => .str s
  | .arr xs => .arr (absList xs)
  | .obj m => .obj (memberFn (absMembers m))
def absList : List JV → List AVal
  | [] => []
  | x :: xs => abs x :: absList xs
def absMembers : List (Bytes × JV) → List (Bytes × AVal)
  | [] => []
  | (k, v) :: r => (k, abs v) :: absMembers r
end

/-! ## computable canonical form -/

/-- insert into a list ascending by key; an existing key keeps its (earlier) entry -/
def insKV {V : Type} (kv : Bytes × V) : List (Bytes × V) → List (Bytes × V)
  | [] => [kv]
  | a :: r => if a.1 = kv.1 then a :: r else if ltB kv.1 a.1 then kv :: a :: r else a :: insKV kv r

/-- sort by key, first occurrence of a key wins -/
def sortKV {V : Type} : List (Bytes × V) → List (Bytes × V)
  | [] => []
  | kv :: r => insKV kv ((sortKV r).filter (·.1 != kv.1))

mutual
def canon : JV → JV
  | .num n => .num (normNum n)
  | .arr xs => .arr (canonList xs)
  | .obj m => .obj (sortKV (canonMembers m))
  | v => v
def canonList : List JV → List JV
  | [] => []
  | x :: xs => canon x :: canonList xs
def canonMembers : List (Bytes × JV) → List (Bytes × JV)
  | [] => []
  | (k, v) :: r => (k, canon v) :: canonMembers r
end

mutual
/-- structural equality -/
def structEq : JV → JV → Bool
  | .null, .null => true
  | .bool a, .bool b => a == b
  | .num a, .num b => decide (a = b)
  | .str a, .str b => a == b
  | .arr xs, .arr ys => structEqList xs ys
  | .obj m₁, .obj m₂ => structEqMembers m₁ m₂
  | _, _ => false
def structEqList : List JV → List JV → Bool
  | [], [] => true
  | x :: xs, y :: ys => structEq x y && structEqList xs ys
  | _, _ => false
def structEqMembers : List (Bytes × JV) → List (Bytes × JV) → Bool
  | [], [] => true
  | (k, v) :: r, (k', v') :: r' => k == k' && structEq v v' && structEqMembers r r'
  | _, _ => false
end

/-- executable specification of `Value == Value` (values without NaN) -/
def specEq (a b : JV) : Bool := structEq (canon a) (canon b)

mutual
/-- every object iterates in strictly ascending key order, at every depth -/
def ascAll : JV → Bool
  | .arr xs => ascAllList xs
  | .obj m => ascB (m.map (·.1)) && ascAllMembers m
  | _ => true
def ascAllList : List JV → Bool
  | [] => true
  | x :: xs => ascAll x && ascAllList xs
def ascAllMembers : List (Bytes × JV) → Bool
  | [] => true
  | (_, v) :: r => ascAll v && ascAllMembers r
end

mutual
/-- well-formed values: what `Map`'s representation invariant and `Number`'s "always finite"
    guarantee — every object has strictly ascending keys (default build, `po = false`) or
    pairwise distinct keys (`preserve_order`), and no float is a NaN. -/
def WF (po : Bool) : JV → Prop
  | .num (.float b) => isNaNBits b = false
  | .arr xs => WFList po xs
  | .obj m => (if po then (m.map (·.1)).Nodup else Asc (m.map (·.1))) ∧ WFMembers po m
  | _ => True
def WFList (po : Bool) : List JV → Prop
  | [] => True
  | x :: xs => WF po x ∧ WFList po xs
def WFMembers (po : Bool) : List (Bytes × JV) → Prop
  | [] => True
  | (_, v) :: r => WF po v ∧ WFMembers po r
end

end SJ.Spec.ValueEq
