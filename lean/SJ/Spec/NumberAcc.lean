import SJ.Spec.Decimal
import SJ.Spec.Ieee
import SJ.Spec.Schema
/-!
# What a number literal is worth: integer accessors, integer targets, nearest finite binary64

Everything here is a function of the `Spec.Decimal.NumLit` that the specification's own reader
(`Spec.Decimal.NumLit.parse`) takes off the bytes of an RFC 8259 number literal: sign, integer digits,
fraction digits, exponent sign and digits. Nothing refers to a model.

* `isIntLit l` — the literal is an *integer literal*: no fraction, no exponent.
* `intVal l` — the mathematical value of an integer literal (`-0` ↦ `0`).
* `accInt w l` — what an integer accessor of width `w` (`Number::as_i64/as_u64/as_i128/as_u128` under
  `arbitrary_precision`) returns: the exact value of an integer literal when it lies in `w`'s range,
  `none` otherwise; the unsigned accessors answer `none` for every literal that carries a minus sign,
  `-0` included (there is no unsigned spelling of it).
* `targetInt w l` — what deserialising the literal into the integer type `w` returns (C06): as
  `accInt`, except that the 8–64-bit targets never turn the literal `-0` (the float negative zero)
  into an integer. The 128-bit targets read `-0` as the integer `0` (`i128`) resp. reject the sign
  (`u128`).
* `nearestF64 l` / `nearestF32 l` — IEEE-754 round-to-nearest-even (`Spec.Ieee.roundNE64/32`) of the
  literal's exact rational value `±D·10^e` (`Spec.Decimal.NumLit.exact`); `none` when the rounded
  value is not finite.

Import-free (only other `SJ.Spec.*`), computable.
-/
namespace SJ.Spec.NumberAcc
open SJ SJ.Spec.Decimal SJ.Spec.Ieee

/-- no fraction and no exponent (a `NumLit` read off a literal has digits in a part iff the part is written) -/
def isIntLit (l : NumLit) : Bool := l.fracDigits.isEmpty && l.expDigits.isEmpty

/-- the mathematical value of an integer literal -/
def intVal (l : NumLit) : Int :=
  if l.neg then -(digitsVal l.intDigits : Int) else (digitsVal l.intDigits : Int)

/-- the literal `-0` (as an integer literal) -/
def isNegZero (l : NumLit) : Bool := isIntLit l && l.neg && digitsVal l.intDigits == 0

/-- integer accessor of width `w` on the literal -/
def accInt (w : IntTy) (l : NumLit) : Option Int :=
  if !isIntLit l then none
  else if l.neg && !w.signed then none
  else if w.inRange (intVal l) then some (intVal l) else none

/-- integer target of width `w` on the literal (text, via `Value`, as a map key) -/
def targetInt (w : IntTy) (l : NumLit) : Option Int :=
  if w.bits ≤ 64 && isNegZero l then none else accInt w l

/-- nearest finite binary64 of the literal's exact value, `none` when there is none (overflow) -/
def nearestF64 (l : NumLit) : Option UInt64 := roundNE64 l.neg l.exact.1 l.exact.2

/-- nearest finite binary32 -/
def nearestF32 (l : NumLit) : Option UInt32 := roundNE32 l.neg l.exact.1 l.exact.2

/-- an integer literal whose value a default-build `Value` can hold as an integer:
    not `-0`, and within `[i64::MIN, u64::MAX]` -/
def representable (l : NumLit) : Bool :=
  isIntLit l && !isNegZero l &&
    decide (-9223372036854775808 ≤ intVal l) && decide (intVal l ≤ 18446744073709551615)

end SJ.Spec.NumberAcc
