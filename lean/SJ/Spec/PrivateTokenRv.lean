import SJ.Spec.PrivateToken
/-!
# The private RawValue token of `raw_value`, as syntax

With `raw_value`, `RawValue` travels through serde's data model as a one-entry map keyed by `raw::TOKEN`
(`Gen.rawToken` = `"$serde_json::private::RawValue"`), and `Value`'s visitor reads ANY JSON object whose FIRST key decodes
to that token as such a RawValue: the member's value must be a JSON string, and the DECODED content of that string is
parsed as a complete JSON text (a fresh `from_str`) whose value stands for the whole object. RFC 8259 knows nothing of
this. The predicates below say, on the bytes, where the reading applies and what the rest of such an object must look like.

* `hasRawTokenFirstKey bs` — the lexical scan of `Spec.PrivateToken` (the SAME mode transitions: `lexStep`; inside / outside
  string literals, last non-blank byte outside strings is `{`) with the raw token as the key looked for: a string opened
  right after a `{` is a first key, and when it closes its escape-decoded content is compared with `raw::TOKEN`.
* `RawTail rest txt rest'` — `rest` is `ws : ws "…" ws }` followed by `rest'`, the string literal decoding to `txt`.
* `rawTokenFree t` — no object of the syntax tree has a first key decoding to the raw token.
* `valueRawTokenFree v` — no object of the `Value` has the raw token as its first key in iteration order.

Import-free.
-/
namespace SJ.Spec.PrivateTokenRv
open SJ SJ.Spec.Grammar SJ.Spec.Denote SJ.Spec.PrivateToken

/-- `raw::TOKEN` -/
def token : Bytes := Gen.rawToken

/-- the string body decodes (RFC 8259 §7, surrogate pairs merged) to the raw token -/
def bodyIsRawToken (body : Bytes) : Bool :=
  match parseItems body with
  | some items => decodeItems items == some token
  | none => false

/-- the byte `b` closes a string literal that directly follows a `{` (whitespace apart) and decodes to the raw token;
    `l` is the state of the scan `Spec.PrivateToken.lexStep` before `b` -/
def rawHitStep (l : LexSt) (b : UInt8) : Bool :=
  match l.mode with
  | .str first raw esc => !esc && b == 0x22 && first && bodyIsRawToken raw.reverse
  | .out _ => false

/-- the scan: `lexStep` for the modes, `rawHitStep` for the hit -/
def rawScan (l : LexSt) (hit : Bool) : Bytes → Bool
  | [] => hit
  | b :: bs => rawScan (lexStep l b) (hit || rawHitStep l b) bs

/-- some string literal that directly follows a `{` (whitespace apart) decodes to the raw token -/
def hasRawTokenFirstKey (bs : Bytes) : Bool := rawScan {} false bs

/-- what has to follow a first key that decodes to the raw token for the object to be READ as a RawValue (whether it is
    then accepted depends on the nested parse of `txt`): `ws : ws string ws }` where the string literal decodes to `txt`;
    `rest'` is what follows the closing brace -/
def RawTail (rest txt rest' : Bytes) : Prop :=
  ∃ w₁ w₂ items w₃, rest = w₁ ++ [0x3a] ++ w₂ ++ strBytes items ++ w₃ ++ [0x7d] ++ rest' ∧ Ws w₁ ∧ Ws w₂ ∧ Ws w₃ ∧
    StrWF items = true ∧ decodeItems items = some txt

/-! ## on syntax trees -/

/-- the key's items decode to the raw token -/
def isRawTokenKey (k : List StrItem) : Bool := decodeItems k == some token

/-- the first key of the member list decodes to the raw token -/
def firstKeyIsRawToken : List (List StrItem × CST) → Bool
  | (k, _) :: _ => isRawTokenKey k
  | [] => false

mutual
/-- no object of the tree has a first key that decodes to the raw token -/
def rawTokenFree : CST → Bool
  | .arr xs => rawTokenFreeList xs
  | .obj ms => !firstKeyIsRawToken ms && rawTokenFreeMembers ms
  | _ => true
def rawTokenFreeList : List CST → Bool
  | [] => true
  | x :: xs => rawTokenFree x && rawTokenFreeList xs
def rawTokenFreeMembers : List (List StrItem × CST) → Bool
  | [] => true
  | (_, x) :: ms => rawTokenFree x && rawTokenFreeMembers ms
end

/-! ## on values -/

mutual
/-- no object of the `Value` has the raw token as its first key in iteration order (the order `to_string` writes: sorted in
    the default build, insertion order under `preserve_order`) -/
def valueRawTokenFree : JV → Bool
  | .arr xs => valuesRawTokenFree xs
  | .obj kvs => (match kvs with | (k, _) :: _ => k != token | [] => true) && membersRawTokenFree kvs
  | _ => true
def valuesRawTokenFree : List JV → Bool
  | [] => true
  | x :: xs => valueRawTokenFree x && valuesRawTokenFree xs
def membersRawTokenFree : List (Bytes × JV) → Bool
  | [] => true
  | (_, x) :: kvs => valueRawTokenFree x && membersRawTokenFree kvs
end

end SJ.Spec.PrivateTokenRv
