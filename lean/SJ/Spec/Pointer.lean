import SJ.Spec.Value
/-!
# RFC 6901 (JSON Pointer) reference evaluator

```
json-pointer    = *( "/" reference-token )
reference-token = *( unescaped / escaped )      ; "~0" -> "~", "~1" -> "/", single pass
array-index     = %x30 / ( %x31-39 *(%x30-39) ) ; no leading zeros, no sign, "-" never exists
```
The only addition to the RFC text: an array index must be below `2^64` (`usize`), which no
array can reach anyway.
-/
namespace SJ.Spec.Pointer
open SJ

def slash : UInt8 := 0x2f
def tilde : UInt8 := 0x7e

/-- single left-to-right pass; a `~` not followed by `0`/`1` is literal. -/
def unescape : Bytes → Bytes
  | [] => []
  | [x] => [x]
  | x :: y :: r =>
    if x = tilde ∧ y = 0x30 then tilde :: unescape r
    else if x = tilde ∧ y = 0x31 then slash :: unescape r
    else x :: unescape (y :: r)

/-- split `*( "/" token )` into raw tokens; `none` if a non-empty pointer does not start with `/`. -/
def tokensAux : Nat → Bytes → Option (List Bytes)
  | 0, _ => none
  | _ + 1, [] => some []
  | fuel + 1, c :: r =>
    if c = slash then
      let tok := r.takeWhile (· != slash)
      let rest := r.dropWhile (· != slash)
      (tokensAux fuel rest).map (tok :: ·)
    else none

def tokens (p : Bytes) : Option (List Bytes) := tokensAux (p.length + 1) p

def isDigit (b : UInt8) : Bool := 0x30 ≤ b && b ≤ 0x39

def decVal (ds : Bytes) : Nat := ds.foldl (fun a d => a * 10 + (d.toNat - 0x30)) 0

/-- `0` or `[1-9][0-9]*`, below 2^64. -/
def arrayIndex (tok : Bytes) : Option Nat :=
  match tok with
  | [] => none
  | [d] => if isDigit d then some (d.toNat - 0x30) else none
  | d :: ds =>
    if isDigit d && d != 0x30 && ds.all isDigit then
      let n := decVal (d :: ds)
      if n < 2 ^ 64 then some n else none
    else none

def lookup (k : Bytes) : List (Bytes × JV) → Option JV
  | [] => none
  | (k', v) :: r => if k' = k then some v else lookup k r

def step (v : JV) (tok : Bytes) : Option JV :=
  match v with
  | .obj kvs => lookup tok kvs
  | .arr xs => (arrayIndex tok).bind (xs[·]?)
  | _ => none

def evalTokens : JV → List Bytes → Option JV
  | v, [] => some v
  | v, t :: ts => (step v t).bind (evalTokens · ts)

def eval (v : JV) (p : Bytes) : Option JV :=
  (tokens p).bind fun ts => evalTokens v (ts.map unescape)

/-! ### replacing the addressed node (what a write through `pointer_mut` does) -/

def updAssoc (k : Bytes) (f : JV → Option JV) : List (Bytes × JV) → Option (List (Bytes × JV))
  | [] => none
  | (k', v) :: r =>
    if k' = k then (f v).map (fun v' => (k', v') :: r) else (updAssoc k f r).map ((k', v) :: ·)

def updNth (f : JV → Option JV) : Nat → List JV → Option (List JV)
  | _, [] => none
  | 0, v :: r => (f v).map (· :: r)
  | i + 1, v :: r => (updNth f i r).map (v :: ·)

def setTokens : List Bytes → JV → JV → Option JV
  | [], _, x => some x
  | t :: ts, .obj m, x => (updAssoc t (fun v => setTokens ts v x) m).map .obj
  | t :: ts, .arr l, x => (arrayIndex t).bind fun i => (updNth (fun v => setTokens ts v x) i l).map .arr
  | _ :: _, _, _ => none

/-- the document after `*pointer_mut(p)? = x` -/
def set (v : JV) (p : Bytes) (x : JV) : Option JV :=
  (tokens p).bind fun ts => setTokens (ts.map unescape) v x

end SJ.Spec.Pointer
