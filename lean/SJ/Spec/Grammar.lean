import SJ.Spec.Value
/-!
# RFC 8259 at byte level — the grammar every parser/serializer theorem is stated against

A line-by-line transcription of RFC 8259 §2–§7 as an inductive relation between a byte string and
a concrete syntax tree (`CST`) that keeps spellings (digits, escapes) but drops insignificant
whitespace. Side conditions that the RFC leaves to implementations (nesting depth, surrogate
pairing, UTF-8 validity of the raw bytes, numeric range) are *separate decidable predicates on the
CST*, so that each property can name exactly the ones it needs.

```
JSON-text = ws value ws
ws        = *( %x20 / %x09 / %x0A / %x0D )
value     = false / null / true / object / array / number / string
object    = begin-object [ member *( value-separator member ) ] end-object      ; "{" "}" "," with ws around
member    = string name-separator value                                          ; ":" with ws around
array     = begin-array [ value *( value-separator value ) ] end-array
number    = [ minus ] int [ frac ] [ exp ]
int       = zero / ( digit1-9 *DIGIT ) ;  frac = "." 1*DIGIT ;  exp = ("e"/"E") ["-"/"+"] 1*DIGIT
string    = quotation-mark *char quotation-mark
char      = unescaped / "\" ( %x22 / %x5C / %x2F / "b" / "f" / "n" / "r" / "t" / "u" 4HEXDIG )
unescaped = %x20-21 / %x23-5B / %x5D-10FFFF      ; at byte level: any byte ≥ 0x20 except `"` and `\`
```
Import-free.
-/
namespace SJ.Spec.Grammar
open SJ

/-! ## lexical classes -/

def isWs (b : UInt8) : Bool := b == 0x20 || b == 0x09 || b == 0x0a || b == 0x0d
def isDigit (b : UInt8) : Bool := 0x30 ≤ b && b ≤ 0x39
def isDigit19 (b : UInt8) : Bool := 0x31 ≤ b && b ≤ 0x39
def isHex (b : UInt8) : Bool :=
  (0x30 ≤ b && b ≤ 0x39) || (0x41 ≤ b && b ≤ 0x46) || (0x61 ≤ b && b ≤ 0x66)
/-- `unescaped` at byte level -/
def isUnescaped (b : UInt8) : Bool := 0x20 ≤ b && b != 0x22 && b != 0x5c
/-- the eight single-character escapes: `" \ / b f n r t` -/
def isSimpleEscape (b : UInt8) : Bool :=
  b == 0x22 || b == 0x5c || b == 0x2f || b == 0x62 || b == 0x66 || b == 0x6e || b == 0x72 || b == 0x74

def Ws (bs : Bytes) : Prop := bs.all isWs = true
instance (bs : Bytes) : Decidable (Ws bs) := inferInstanceAs (Decidable (_ = true))

/-! ## numbers -/

/-- `int = zero / ( digit1-9 *DIGIT )` -/
def isInt : Bytes → Bool
  | [] => false
  | [d] => isDigit d
  | d :: ds => isDigit19 d && ds.all isDigit

/-- `frac = decimal-point 1*DIGIT` (or absent) -/
def isFrac : Bytes → Bool
  | [] => true
  | c :: ds => c == 0x2e && !ds.isEmpty && ds.all isDigit

/-- `exp = e [ minus / plus ] 1*DIGIT` (or absent) -/
def isExp : Bytes → Bool
  | [] => true
  | c :: r =>
    (c == 0x65 || c == 0x45) &&
    (match r with
     | s :: ds => if s == 0x2d || s == 0x2b then !ds.isEmpty && ds.all isDigit
                  else isDigit s && ds.all isDigit
     | [] => false)

/-- the pieces of a number literal, each with its exact spelling -/
structure NumParts where
  minus : Bool
  int : Bytes
  frac : Bytes      -- `[]` or `.` digits
  exp : Bytes       -- `[]` or `e|E [+|-] digits`
deriving DecidableEq, Repr

def NumParts.bytes (p : NumParts) : Bytes :=
  (if p.minus then [0x2d] else []) ++ p.int ++ p.frac ++ p.exp

def NumParts.WF (p : NumParts) : Bool := isInt p.int && isFrac p.frac && isExp p.exp

/-- `number = [ minus ] int [ frac ] [ exp ]` -/
def IsNumber (bs : Bytes) : Prop := ∃ p : NumParts, p.WF = true ∧ p.bytes = bs

/-! ## strings -/

inductive StrItem where
  | raw (b : UInt8)                       -- an unescaped byte
  | esc (c : UInt8)                       -- `\` followed by one of `" \ / b f n r t`
  | uni (h1 h2 h3 h4 : UInt8)             -- `\u` followed by four hex digits
deriving DecidableEq, Repr

def StrItem.WF : StrItem → Bool
  | .raw b => isUnescaped b
  | .esc c => isSimpleEscape c
  | .uni a b c d => isHex a && isHex b && isHex c && isHex d

def StrItem.bytes : StrItem → Bytes
  | .raw b => [b]
  | .esc c => [0x5c, c]
  | .uni a b c d => [0x5c, 0x75, a, b, c, d]

/-- the bytes of a string literal, quotes included -/
def strBytes (items : List StrItem) : Bytes := [0x22] ++ items.flatMap StrItem.bytes ++ [0x22]

def StrWF (items : List StrItem) : Bool := items.all StrItem.WF

/-! ## concrete syntax trees -/

inductive CST where
  | null
  | true_
  | false_
  | num (p : NumParts)
  | str (items : List StrItem)
  | arr (xs : List CST)
  | obj (ms : List (List StrItem × CST))
deriving Repr

/-! ## the grammar

`Derives bs t`   : `bs` is exactly one `value` (no surrounding whitespace) with syntax tree `t`.
`Elems bs xs`    : `bs` is `value *( ws "," ws value )`, i.e. the inside of a non-empty array with
                   leading/trailing whitespace stripped by the caller.
`Members bs ms`  : likewise for object members `string ws ":" ws value`.
-/
mutual
inductive Derives : Bytes → CST → Prop
  | null : Derives [0x6e, 0x75, 0x6c, 0x6c] .null
  | true_ : Derives [0x74, 0x72, 0x75, 0x65] .true_
  | false_ : Derives [0x66, 0x61, 0x6c, 0x73, 0x65] .false_
  | num (p : NumParts) (h : p.WF = true) : Derives p.bytes (.num p)
  | str (items : List StrItem) (h : StrWF items = true) : Derives (strBytes items) (.str items)
  | arrEmpty (w : Bytes) (hw : Ws w) : Derives ([0x5b] ++ w ++ [0x5d]) (.arr [])
  | arr (w₁ body w₂ : Bytes) (xs : List CST) (h₁ : Ws w₁) (h₂ : Ws w₂) (hne : xs ≠ [])
      (h : Elems body xs) : Derives ([0x5b] ++ w₁ ++ body ++ w₂ ++ [0x5d]) (.arr xs)
  | objEmpty (w : Bytes) (hw : Ws w) : Derives ([0x7b] ++ w ++ [0x7d]) (.obj [])
  | obj (w₁ body w₂ : Bytes) (ms : List (List StrItem × CST)) (h₁ : Ws w₁) (h₂ : Ws w₂)
      (hne : ms ≠ []) (h : Members body ms) :
      Derives ([0x7b] ++ w₁ ++ body ++ w₂ ++ [0x7d]) (.obj ms)

inductive Elems : Bytes → List CST → Prop
  | one (bs : Bytes) (t : CST) (h : Derives bs t) : Elems bs [t]
  | cons (bs w₁ w₂ rest : Bytes) (t : CST) (ts : List CST) (h : Derives bs t) (h₁ : Ws w₁)
      (h₂ : Ws w₂) (hr : Elems rest ts) : Elems (bs ++ w₁ ++ [0x2c] ++ w₂ ++ rest) (t :: ts)

inductive Members : Bytes → List (List StrItem × CST) → Prop
  | one (k : List StrItem) (hk : StrWF k = true) (w₁ w₂ vb : Bytes) (t : CST) (h₁ : Ws w₁)
      (h₂ : Ws w₂) (h : Derives vb t) :
      Members (strBytes k ++ w₁ ++ [0x3a] ++ w₂ ++ vb) [(k, t)]
  | cons (k : List StrItem) (hk : StrWF k = true) (w₁ w₂ vb w₃ w₄ rest : Bytes) (t : CST)
      (ms : List (List StrItem × CST)) (h₁ : Ws w₁) (h₂ : Ws w₂) (h : Derives vb t) (h₃ : Ws w₃)
      (h₄ : Ws w₄) (hr : Members rest ms) :
      Members (strBytes k ++ w₁ ++ [0x3a] ++ w₂ ++ vb ++ w₃ ++ [0x2c] ++ w₄ ++ rest) ((k, t) :: ms)
end

/-- `JSON-text = ws value ws` -/
def JsonText (bs : Bytes) (t : CST) : Prop :=
  ∃ w₁ v w₂, bs = w₁ ++ v ++ w₂ ∧ Ws w₁ ∧ Ws w₂ ∧ Derives v t

/-! ## side conditions (decidable predicates on the syntax tree) -/

mutual
/-- nesting depth: scalars 0, a container one more than its deepest child -/
def depth : CST → Nat
  | .arr xs => 1 + depthList xs
  | .obj ms => 1 + depthMembers ms
  | _ => 0
def depthList : List CST → Nat
  | [] => 0
  | x :: xs => max (depth x) (depthList xs)
def depthMembers : List (List StrItem × CST) → Nat
  | [] => 0
  | (_, x) :: ms => max (depth x) (depthMembers ms)
end

def hexVal (b : UInt8) : Nat :=
  if 0x30 ≤ b && b ≤ 0x39 then b.toNat - 0x30
  else if 0x41 ≤ b && b ≤ 0x46 then b.toNat - 0x41 + 10
  else b.toNat - 0x61 + 10

def uniVal (a b c d : UInt8) : Nat := hexVal a * 4096 + hexVal b * 256 + hexVal c * 16 + hexVal d

def isHighSurrogate (n : Nat) : Bool := 0xD800 ≤ n && n ≤ 0xDBFF
def isLowSurrogate (n : Nat) : Bool := 0xDC00 ≤ n && n ≤ 0xDFFF

/-- every `\uD800–\uDBFF` escape is immediately followed by a `\uDC00–\uDFFF` escape and no low
    surrogate escape stands alone -/
def surrogatesPairedStr : List StrItem → Bool
  | [] => true
  | .uni a b c d :: rest =>
    let n := uniVal a b c d
    if isHighSurrogate n then
      match rest with
      | .uni e f g h :: rest' => isLowSurrogate (uniVal e f g h) && surrogatesPairedStr rest'
      | _ => false
    else if isLowSurrogate n then false
    else surrogatesPairedStr rest
  | _ :: rest => surrogatesPairedStr rest

mutual
def surrogatesPaired : CST → Bool
  | .str s => surrogatesPairedStr s
  | .arr xs => surrogatesPairedList xs
  | .obj ms => surrogatesPairedMembers ms
  | _ => true
def surrogatesPairedList : List CST → Bool
  | [] => true
  | x :: xs => surrogatesPaired x && surrogatesPairedList xs
def surrogatesPairedMembers : List (List StrItem × CST) → Bool
  | [] => true
  | (k, x) :: ms => surrogatesPairedStr k && surrogatesPaired x && surrogatesPairedMembers ms
end

end SJ.Spec.Grammar
