import SJ.Spec.Value
import SJ.Spec.Ieee
import SJ.Gen.PartialEq
/-!
# "A Value equals a Rust number, bool or string exactly when it holds that value"

* integers: the `Value` is an integer `Number` (`PosInt` / `NegInt`) whose mathematical value is the
  comparand — whatever the Rust type of the comparand is (`holdsInt`); `intRange` lists the value
  range of every Rust integer type that can be compared (a language fact, 64-bit target);
* `bool`, `str`/`String`: same constructor, same content;
* `f64` / `f32`: IEEE-754 equality (`compareQuietEqual`: a NaN equals nothing, `-0.0 = +0.0`,
  otherwise same sign and magnitude) between the comparand and the `Number` *converted to the
  comparand's format* by one round-to-nearest-even (`u64/i64 as f64`, `f64 as f32`) — this is how
  `eq_f64` / `eq_f32` are written, and it is what the statement is read as for floats. Consequences
  worth knowing: `json!(9007199254740993u64) == 9007199254740992.0` and `json!(1e300) == f32::INFINITY`
  both hold.

Import-free and computable.
-/
namespace SJ.Spec.PrimEq
open SJ SJ.Spec.Ieee

/-- the value range of a Rust integer type (64-bit target: `isize = i64`, `usize = u64`);
    `none` for the non-integer types of the table -/
def intRange : Gen.PrimTy → Option (Int × Int)
  | .i8 => some (-128, 127)
  | .i16 => some (-32768, 32767)
  | .i32 => some (-2147483648, 2147483647)
  | .i64 => some (-9223372036854775808, 9223372036854775807)
  | .isize => some (-9223372036854775808, 9223372036854775807)
  | .u8 => some (0, 255)
  | .u16 => some (0, 65535)
  | .u32 => some (0, 4294967295)
  | .u64 => some (0, 18446744073709551615)
  | .usize => some (0, 18446744073709551615)
  | .f32 => none
  | .f64 => none
  | .bool => none

/-- a `Number` of the default build: `PosInt(u64)`, `NegInt(i64)` always negative, `Float` finite -/
def wfNum : Num → Bool
  | .pos n => decide (n < 18446744073709551616)
  | .neg k => decide (-9223372036854775808 ≤ k) && decide (k < 0)
  | .float b => F64.isFinite b
  | .lit _ => false

def wfValue : JV → Bool
  | .num n => wfNum n
  | _ => true

/-- the `Value` is an integer `Number` holding exactly `x` -/
def holdsInt (x : Int) : JV → Bool
  | .num (.pos n) => decide ((n : Int) = x)
  | .num (.neg k) => decide (k = x)
  | _ => false

def holdsBool (b : Bool) : JV → Bool
  | .bool c => c == b
  | _ => false

def holdsStr (s : Bytes) : JV → Bool
  | .str t => t == s
  | _ => false

/-! ### floats -/

/-- IEEE-754 equality on binary64 bit patterns, by value -/
def ieeeEq64 (a b : UInt64) : Bool :=
  if F64.isNaN a || F64.isNaN b then false
  else if F64.isInf a || F64.isInf b then F64.isInf a && F64.isInf b && F64.sign a == F64.sign b
  else F64.mag a == F64.mag b && (F64.mag a == 0 || F64.sign a == F64.sign b)

/-- IEEE-754 equality on binary32 bit patterns, by value -/
def ieeeEq32 (a b : UInt32) : Bool :=
  if F32.isNaN a || F32.isNaN b then false
  else if F32.isInf a || F32.isInf b then F32.isInf a && F32.isInf b && F32.sign a == F32.sign b
  else F32.mag a == F32.mag b && (F32.mag a == 0 || F32.sign a == F32.sign b)

/-- Rust `x as f64` for a 64-bit integer: one rounding to nearest-even -/
def intAsF64 (x : Int) : UInt64 := F64.roundOrInf (decide (x < 0)) x.natAbs 1
/-- Rust `x as f32` for a 64-bit integer -/
def intAsF32 (x : Int) : UInt32 := F32.roundOrInf (decide (x < 0)) x.natAbs 1

/-- the number as binary64 (`Number::as_f64`, default build) -/
def numAsF64 : Num → Option UInt64
  | .pos n => some (intAsF64 n)
  | .neg k => some (intAsF64 k)
  | .float b => some b
  | .lit _ => none

/-- the number as binary32 (`Number::as_f32`, default build) -/
def numAsF32 : Num → Option UInt32
  | .pos n => some (intAsF32 n)
  | .neg k => some (intAsF32 k)
  | .float b => some (F64.toF32 b)
  | .lit _ => none

def holdsF64 (b : UInt64) : JV → Bool
  | .num n => match numAsF64 n with
    | some a => ieeeEq64 a b
    | none => false
  | _ => false

def holdsF32 (b : UInt32) : JV → Bool
  | .num n => match numAsF32 n with
    | some a => ieeeEq32 a b
    | none => false
  | _ => false

end SJ.Spec.PrimEq
