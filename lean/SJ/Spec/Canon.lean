import SJ.Spec.Rec
import SJ.Spec.Utf8
import SJ.Model.Num
/-!
# From a syntax tree to the `Value` it denotes, and the acceptance side conditions

`canon` spells out property C02: null/true/false map to themselves, arrays keep order, strings are
the escape-decoded text, an object holds one entry per distinct key carrying the last duplicate's
value — iterating in ascending key order by default and in first-occurrence order under
`preserve_order` —, and a number is an exact integer when it has no fraction/exponent and lies in
[i64::MIN, u64::MAX] (except `-0`), otherwise a float (value per C07/C08 via `Model.Num`), or the
literal text under `arbitrary_precision`.
-/
namespace SJ.Spec.Canon
open SJ SJ.Spec.Grammar SJ.Spec.Denote SJ.Model.Num

structure Cfg where
  po : Bool := false
  fr : Bool := false
  ap : Bool := false
  limitOff : Bool := false

def partsOf (p : NumParts) : Parts :=
  { neg := p.minus, int := p.int,
    frac := if p.frac.isEmpty then none else some (p.frac.drop 1),
    exp := match p.exp with
      | [] => none
      | _ :: r => match r with
        | s :: ds => if s == 0x2d then some (true, ds) else if s == 0x2b then some (false, ds) else some (false, s :: ds)
        | [] => some (false, []),
    raw := p.bytes }

def convert (cfg : Cfg) (p : NumParts) : NRes :=
  if cfg.fr then convertRoundtrip (partsOf p) else convertDefault (partsOf p)

def numOf (cfg : Cfg) (p : NumParts) : Option Num :=
  if cfg.ap then some (.lit p.bytes)
  else match convert cfg p with
    | .u64 n => some (.pos n)
    | .i64 n => some (.neg n)
    | .f64 b => some (.float b)
    | _ => none

def bytesLt : Bytes → Bytes → Bool
  | [], [] => false
  | [], _ :: _ => true
  | _ :: _, [] => false
  | a :: as, b :: bs => if a < b then true else if a > b then false else bytesLt as bs

def lookupLast (k : Bytes) (ms : List (Bytes × JV)) : Option JV :=
  ms.foldl (fun acc kv => if kv.1 = k then some kv.2 else acc) none

/-- distinct keys in first-occurrence order -/
def distinctKeys : List (Bytes × JV) → List Bytes → List Bytes
  | [], seen => seen.reverse
  | (k, _) :: r, seen => if seen.contains k then distinctKeys r seen else distinctKeys r (k :: seen)

def insertSorted (k : Bytes) : List Bytes → List Bytes
  | [] => [k]
  | k' :: r => if bytesLt k k' then k :: k' :: r else k' :: insertSorted k r

def sortKeys (ks : List Bytes) : List Bytes := ks.foldl (fun acc k => insertSorted k acc) []

/-- one entry per distinct key with the last duplicate's value; ascending (default) or
    first-occurrence order (`preserve_order`) -/
def objectOf (cfg : Cfg) (ms : List (Bytes × JV)) : JV :=
  let ks := distinctKeys ms []
  let ks := if cfg.po then ks else sortKeys ks
  .obj (ks.filterMap fun k => (lookupLast k ms).map (k, ·))

mutual
def canon (cfg : Cfg) : CST → Option JV
  | .null => some .null
  | .true_ => some (.bool true)
  | .false_ => some (.bool false)
  | .num p => (numOf cfg p).map .num
  | .str s => (decodeItems s).map .str
  | .arr xs => (canonList cfg xs).map .arr
  | .obj ms => (canonMembers cfg ms).map (objectOf cfg)
def canonList (cfg : Cfg) : List CST → Option (List JV)
  | [] => some []
  | x :: xs => match canon cfg x, canonList cfg xs with
    | some v, some vs => some (v :: vs)
    | _, _ => none
def canonMembers (cfg : Cfg) : List (List StrItem × CST) → Option (List (Bytes × JV))
  | [] => some []
  | (k, x) :: ms => match decodeItems k, canon cfg x, canonMembers cfg ms with
    | some kb, some v, some r => some ((kb, v) :: r)
    | _, _, _ => none
end

mutual
/-- every decoded string (and key) is valid UTF-8 — what byte sources check -/
def stringsUtf8 : CST → Bool
  | .str s => (decodeItems s).all Spec.Utf8.validUtf8
  | .arr xs => stringsUtf8List xs
  | .obj ms => stringsUtf8Members ms
  | _ => true
def stringsUtf8List : List CST → Bool
  | [] => true
  | x :: xs => stringsUtf8 x && stringsUtf8List xs
def stringsUtf8Members : List (List StrItem × CST) → Bool
  | [] => true
  | (k, x) :: ms => (decodeItems k).all Spec.Utf8.validUtf8 && stringsUtf8 x && stringsUtf8Members ms
end

mutual
/-- no number is rejected as out of range by the configured conversion -/
def numbersInRange (cfg : Cfg) : CST → Bool
  | .num p => (numOf cfg p).isSome
  | .arr xs => numbersInRangeList cfg xs
  | .obj ms => numbersInRangeMembers cfg ms
  | _ => true
def numbersInRangeList (cfg : Cfg) : List CST → Bool
  | [] => true
  | x :: xs => numbersInRange cfg x && numbersInRangeList cfg xs
def numbersInRangeMembers (cfg : Cfg) : List (List StrItem × CST) → Bool
  | [] => true
  | (_, x) :: ms => numbersInRange cfg x && numbersInRangeMembers cfg ms
end

/-- C01's right-hand side for a recognised text -/
def sideConditions (cfg : Cfg) (byteSource : Bool) (t : CST) : Bool :=
  (cfg.limitOff || depth t ≤ 127) && surrogatesPaired t && (!byteSource || stringsUtf8 t) &&
  numbersInRange cfg t

/-- the value the property says `from_*::<Value>` must return, or `none` if it must be rejected -/
def expected (cfg : Cfg) (byteSource : Bool) (bs : Bytes) : Option JV :=
  match Spec.Rec.recognise bs with
  | none => none
  | some t => if sideConditions cfg byteSource t then canon cfg t else none

end SJ.Spec.Canon
