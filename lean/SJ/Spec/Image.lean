import SJ.Spec.Program
import SJ.Spec.Denote
/-!
# The data-model image of a serializer program, and the two layouts of a JSON value (C03)

`image ext p : Except SerErr DV` is *what the program's data is* as a JSON value, in the words of the
property statement:

* non-finite floats are `null`; finite floats and integers are numbers (their literal parts are the
  parts of the text the external printer produces);
* bytes are arrays of numbers; `()`, unit structs and `None` are `null`; `Some(x)` and newtype
  structs are transparent;
* sequences, tuples and tuple structs are arrays; maps and structs are objects, in order;
* the four variant kinds are externally tagged: a unit variant is its name as a string, the others
  are `{name: payload}`;
* map keys: strings, chars, unit variants and `collect_str` are themselves; booleans, integers and
  finite floats are their printed text; `Some(k)` and newtype structs are transparent; anything else
  is an error (`KeyMustBeAString`; a non-finite float key `FloatKeyMustBeFinite`) — the first such
  key in serialisation order decides.

`layout indent` is the pretty layout of the statement (one element per line, depth × indent, `": "`
after keys, `[]` / `{}` for empty containers) and `render` the compact form (no whitespace at all);
both are instances of one structural printer `layoutWith`, which is what "the same token stream"
means. `cstOf` is the syntax tree both print. Import-free.
-/
namespace SJ.Spec.Image
open SJ SJ.Spec.Grammar SJ.Spec.Denote SJ.Spec.Program

/-! ## strings: the escaped spelling chosen by the serializer (RFC 8259 §7 allows others) -/

def hexLower (n : Nat) : UInt8 := if n < 10 then UInt8.ofNat (0x30 + n) else UInt8.ofNat (0x57 + n)

/-- how one byte of string content is spelled: the two mandatory escapes, the short forms
    `\b \t \n \f \r`, `\u00XX` (lower-case hex) for the other control bytes, everything else as is -/
def escItem (b : UInt8) : StrItem :=
  if b == 0x22 then .esc 0x22
  else if b == 0x5c then .esc 0x5c
  else if b == 0x08 then .esc 0x62
  else if b == 0x09 then .esc 0x74
  else if b == 0x0a then .esc 0x6e
  else if b == 0x0c then .esc 0x66
  else if b == 0x0d then .esc 0x72
  else if b < 0x20 then .uni 0x30 0x30 (hexLower (b.toNat / 16)) (hexLower (b.toNat % 16))
  else .raw b

def strItems (s : Bytes) : List StrItem := s.map escItem

/-- the string literal for content `s`, quotes included -/
def quote (s : Bytes) : Bytes := strBytes (strItems s)

/-! ## values -/

mutual
/-- the syntax tree printed for a value -/
def cstOf : DV → CST
  | .null => .null
  | .bool true => .true_
  | .bool false => .false_
  | .num p => .num p
  | .str s => .str (strItems s)
  | .arr xs => .arr (cstOfList xs)
  | .obj ms => .obj (cstOfMembers ms)
def cstOfList : List DV → List CST
  | [] => []
  | x :: xs => cstOf x :: cstOfList xs
def cstOfMembers : List (Bytes × DV) → List (List StrItem × CST)
  | [] => []
  | (k, x) :: ms => (strItems k, cstOf x) :: cstOfMembers ms
end

mutual
/-- every number in the value is a well-formed literal -/
def numbersWF : DV → Bool
  | .num p => p.WF
  | .arr xs => numbersWFList xs
  | .obj ms => numbersWFMembers ms
  | _ => true
def numbersWFList : List DV → Bool
  | [] => true
  | x :: xs => numbersWF x && numbersWFList xs
def numbersWFMembers : List (Bytes × DV) → Bool
  | [] => true
  | (_, x) :: ms => numbersWF x && numbersWFMembers ms
end

mutual
def DV.beq : DV → DV → Bool
  | .null, .null => true
  | .bool a, .bool b => a == b
  | .num p, .num q => decide (p = q)
  | .str s, .str t => s == t
  | .arr xs, .arr ys => DV.beqList xs ys
  | .obj ms, .obj ns => DV.beqMembers ms ns
  | _, _ => false
def DV.beqList : List DV → List DV → Bool
  | [], [] => true
  | x :: xs, y :: ys => DV.beq x y && DV.beqList xs ys
  | _, _ => false
def DV.beqMembers : List (Bytes × DV) → List (Bytes × DV) → Bool
  | [], [] => true
  | (k, x) :: xs, (l, y) :: ys => k == l && DV.beq x y && DV.beqMembers xs ys
  | _, _ => false
end

/-! ## the structural printer -/

def litNull : Bytes := [0x6e, 0x75, 0x6c, 0x6c]
def litTrue : Bytes := [0x74, 0x72, 0x75, 0x65]
def litFalse : Bytes := [0x66, 0x61, 0x6c, 0x73, 0x65]

mutual
/-- Print a value at nesting depth `d`. `sep d` is written before every element or member of a
    container whose contents are at depth `d`, and `sep d` again before the closing bracket of a
    non-empty container at depth `d`; `gap` is written after the `:` of a member. Elements are
    separated by `,`. Empty containers are `[]` and `{}`. -/
def layoutWith (sep : Nat → Bytes) (gap : Bytes) : Nat → DV → Bytes
  | _, .null => litNull
  | _, .bool b => if b then litTrue else litFalse
  | _, .num p => p.bytes
  | _, .str s => quote s
  | d, .arr xs =>
    if xs.isEmpty then [0x5b, 0x5d]
    else [0x5b] ++ layoutElems sep gap (d + 1) xs ++ sep d ++ [0x5d]
  | d, .obj ms =>
    if ms.isEmpty then [0x7b, 0x7d]
    else [0x7b] ++ layoutMembers sep gap (d + 1) ms ++ sep d ++ [0x7d]
/-- elements, each on its own "line" (`sep d` first), a `,` after each but the last -/
def layoutElems (sep : Nat → Bytes) (gap : Bytes) : Nat → List DV → Bytes
  | _, [] => []
  | d, x :: xs =>
    sep d ++ layoutWith sep gap d x ++ (if xs.isEmpty then [] else [0x2c]) ++ layoutElems sep gap d xs
def layoutMembers (sep : Nat → Bytes) (gap : Bytes) : Nat → List (Bytes × DV) → Bytes
  | _, [] => []
  | d, (k, x) :: ms =>
    sep d ++ quote k ++ [0x3a] ++ gap ++ layoutWith sep gap d x ++ (if ms.isEmpty then [] else [0x2c])
      ++ layoutMembers sep gap d ms
end

/-- a line break followed by `depth` copies of the indent string -/
def newline (indent : Bytes) (depth : Nat) : Bytes := 0x0a :: (List.replicate depth indent).flatten

/-- pretty layout: one element per line, depth × indent, `": "`, `[]` / `{}` for empty containers -/
def layout (indent : Bytes) (d : DV) : Bytes := layoutWith (newline indent) [0x20] 0 d

/-- compact layout: the same tokens with no whitespace between them -/
def render (d : DV) : Bytes := layoutWith (fun _ => []) [] 0 d

/-! ## the image of a program -/

/-- the text of a map key -/
def keyText (ext : Ext) : SVal → Except SerErr Bytes
  | .str s => .ok s
  | .char cp => .ok (utf8 cp)
  | .unitVariant v => .ok v
  | .collectStr s => .ok s
  | .bool b => .ok (if b then litTrue else litFalse)
  | .int _ n => .ok (ext.itoa n)
  | .f32 b => if finite32 b then .ok (ext.ryu32 b) else .error .floatKeyMustBeFinite
  | .f64 b => if finite64 b then .ok (ext.ryu64 b) else .error .floatKeyMustBeFinite
  | .some k => keyText ext k
  | .newtypeStruct k => keyText ext k
  | _ => .error .keyMustBeAString
termination_by structural p => p

/-- the number whose text is `bs` -/
def numOf (bs : Bytes) : DV := .num (Number.splitNumber bs)

/-- externally tagged: `{name: payload}` -/
def tagged (name : Bytes) (payload : DV) : DV := .obj [(name, payload)]

mutual
def image (ext : Ext) : SVal → Except SerErr DV
  | .bool b => .ok (.bool b)
  | .int _ n => .ok (numOf (ext.itoa n))
  | .f32 b => .ok (if finite32 b then numOf (ext.ryu32 b) else .null)
  | .f64 b => .ok (if finite64 b then numOf (ext.ryu64 b) else .null)
  | .char cp => .ok (.str (utf8 cp))
  | .str s => .ok (.str s)
  | .bytes bs => .ok (.arr (bs.map fun b => numOf (ext.itoa b.toNat)))
  | .none => .ok .null
  | .some p => image ext p
  | .unit => .ok .null
  | .unitStruct => .ok .null
  | .unitVariant v => .ok (.str v)
  | .newtypeStruct p => image ext p
  | .newtypeVariant v p => (image ext p).map (tagged v)
  | .seq _ xs => (imageList ext xs).map .arr
  | .tuple xs => (imageList ext xs).map .arr
  | .tupleStruct xs => (imageList ext xs).map .arr
  | .tupleVariant v xs => (imageList ext xs).map fun ds => tagged v (.arr ds)
  | .map _ es => (imageEntries ext es).map .obj
  | .struct_ fs => (imageFields ext fs).map .obj
  | .structVariant v fs => (imageFields ext fs).map fun ms => tagged v (.obj ms)
  | .collectStr s => .ok (.str s)
  | .numberLit s => .ok (numOf s)
termination_by structural p => p
def imageList (ext : Ext) : List SVal → Except SerErr (List DV)
  | [] => .ok []
  | x :: xs =>
    match image ext x with
    | .error e => .error e
    | .ok d =>
      match imageList ext xs with
      | .error e => .error e
      | .ok ds => .ok (d :: ds)
def imageEntries (ext : Ext) : List (SVal × SVal) → Except SerErr (List (Bytes × DV))
  | [] => .ok []
  | (k, v) :: es =>
    match keyText ext k with
    | .error e => .error e
    | .ok kt =>
      match image ext v with
      | .error e => .error e
      | .ok d =>
        match imageEntries ext es with
        | .error e => .error e
        | .ok ms => .ok ((kt, d) :: ms)
def imageFields (ext : Ext) : List (Bytes × SVal) → Except SerErr (List (Bytes × DV))
  | [] => .ok []
  | (n, v) :: fs =>
    match image ext v with
    | .error e => .error e
    | .ok d =>
      match imageFields ext fs with
      | .error e => .error e
      | .ok ms => .ok ((n, d) :: ms)
end

/-! ## the image of a `Value` (what `to_string(&value)` must denote) -/

mutual
/-- a `Value` as a JSON value: numbers by their printed text (a non-finite float — which `Number`
    cannot hold — would be `null`), objects in iteration order -/
def imageOfValue (ext : Ext) : JV → DV
  | .null => .null
  | .bool b => .bool b
  | .num (.pos n) => numOf (ext.itoa n)
  | .num (.neg n) => numOf (ext.itoa n)
  | .num (.float b) => if finite64 b then numOf (ext.ryu64 b) else .null
  | .num (.lit s) => numOf s
  | .str s => .str s
  | .arr xs => .arr (imageOfValues ext xs)
  | .obj kvs => .obj (imageOfMembers ext kvs)
def imageOfValues (ext : Ext) : List JV → List DV
  | [] => []
  | x :: xs => imageOfValue ext x :: imageOfValues ext xs
def imageOfMembers (ext : Ext) : List (Bytes × JV) → List (Bytes × DV)
  | [] => []
  | (k, v) :: kvs => (k, imageOfValue ext v) :: imageOfMembers ext kvs
end

mutual
/-- `arbitrary_precision`: every number literal held by the value is an RFC 8259 number (an invariant
    of `Number`: literals come from the parser, from integers or from `ryu`) -/
def valueLitsOK : JV → Bool
  | .num (.lit s) => Number.isNumber s
  | .arr xs => valuesLitsOK xs
  | .obj kvs => membersLitsOK kvs
  | _ => true
def valuesLitsOK : List JV → Bool
  | [] => true
  | x :: xs => valueLitsOK x && valuesLitsOK xs
def membersLitsOK : List (Bytes × JV) → Bool
  | [] => true
  | (_, v) :: kvs => valueLitsOK v && membersLitsOK kvs
end

end SJ.Spec.Image
