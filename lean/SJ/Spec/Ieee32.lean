import SJ.Spec.Ieee
/-!
# IEEE-754 rounding for a parameterised binary format; binary32

`Spec.Ieee` rounds to binary64. Property C07 also speaks about `f32` targets, and its proofs are
carried out once for both formats, so this file states round-to-nearest-even for a format given by
its number of stored fraction bits and its exponent bias, on exact naturals, *independently of*
(and in the same style as) `Spec.Ieee.roundNE64`:

* `roundMag f num den` — bits (sign bit clear) of the value of format `f` nearest to `num/den`,
  ties to the even significand; `none` when the rounded value is not finite (overflow);
* `roundNE32` — binary32 with a sign; `F32.*` — the basic operations as "exact result, rounded once";
* `F32.toF64` — the exact widening `f32 as f64`, `F64x.toF32` — the narrowing cast `f64 as f32`.

It is self-contained: from `Spec.Ieee` it uses only `roundNE64`, `F64.inf`, `F64.isInf` (for the two
casts), always by full name (this namespace is never opened together with `SJ.Spec.Ieee`).
Import-free, computable. `Proofs/LexBridge.lean` proves `roundNE64 = roundMag fmt64` with a sign (bridge lemma).
-/
namespace SJ.Spec.Ieee32

/-- floor(log2 (num/den)) for num, den > 0 -/
def ilog2q (num den : Nat) : Int :=
  let e : Int := (Nat.log2 num : Int) - (Nat.log2 den : Int)
  let ge (e : Int) : Bool := if e ≥ 0 then num ≥ den * 2 ^ e.toNat else num * 2 ^ (-e).toNat ≥ den
  if ge e then e else e - 1

/-- round half to even of num/den -/
def rne (num den : Nat) : Nat :=
  let q := num / den
  let r := num % den
  if 2 * r < den then q else if 2 * r > den then q + 1 else if q % 2 == 0 then q else q + 1

/-- a binary interchange format: `mbits` stored fraction bits, exponent `bias` (= emax) -/
structure Fmt where
  mbits : Nat
  bias : Nat
deriving Repr, DecidableEq

def fmt64 : Fmt := { mbits := 52, bias := 1023 }
def fmt32 : Fmt := { mbits := 23, bias := 127 }

/-- magnitude bits of the value of format `f` nearest to `num/den` (ties to even); `none` on overflow -/
def roundMag (f : Fmt) (num den : Nat) : Option Nat :=
  if num == 0 || den == 0 then some 0 else
  let e := ilog2q num den
  let emin : Int := 1 - (f.bias : Int)
  let e' : Int := if e < emin then emin else e
  let sh : Int := e' - (f.mbits : Int)
  let m := if sh ≥ 0 then rne num (den * 2 ^ sh.toNat) else rne (num * 2 ^ (-sh).toNat) den
  let (m, e') := if m == 2 ^ (f.mbits + 1) then (2 ^ f.mbits, e' + 1) else (m, e')
  if e' > (f.bias : Int) then none
  else if m < 2 ^ f.mbits then some m
  else some (((e' + (f.bias : Int)).toNat) * 2 ^ f.mbits + (m - 2 ^ f.mbits))

/-- magnitude of finite bits of format `f` as num/den -/
def toRatMag (f : Fmt) (b : Nat) : Nat × Nat :=
  let e := b / 2 ^ f.mbits
  let m := b % 2 ^ f.mbits
  if e == 0 then (m, 2 ^ (f.bias - 1 + f.mbits))
  else
    let mm := 2 ^ f.mbits + m
    let k := f.bias + f.mbits
    if e ≥ k then (mm * 2 ^ (e - k), 1) else (mm, 2 ^ (k - e))

/-- bits of +infinity of the format (sign clear) -/
def infMag (f : Fmt) : Nat := (2 * f.bias + 1) * 2 ^ f.mbits

def signBit32 (neg : Bool) : UInt32 := if neg then 0x80000000 else 0

/-- bits of the binary32 nearest to `(-1)^neg · num/den` (ties to even); `none` on overflow -/
def roundNE32 (neg : Bool) (num den : Nat) : Option UInt32 :=
  (roundMag fmt32 num den).map fun m => signBit32 neg ||| UInt32.ofNat m

namespace F32
def inf (neg : Bool) : UInt32 := signBit32 neg ||| 0x7f800000
def isNeg (b : UInt32) : Bool := b >>> 31 == 1
def expField (b : UInt32) : Nat := ((b >>> 23) &&& 0xff).toNat
def mantField (b : UInt32) : Nat := (b &&& 0x7fffff).toNat
def isInf (b : UInt32) : Bool := expField b == 0xff && mantField b == 0
def isZero (b : UInt32) : Bool := expField b == 0 && mantField b == 0
def neg (b : UInt32) : UInt32 := b ^^^ 0x80000000
/-- magnitude of a finite value as num/den -/
def toRat (b : UInt32) : Nat × Nat := toRatMag fmt32 (b &&& 0x7fffffff).toNat
def ofNat (n : Nat) : UInt32 := (roundNE32 false n 1).getD (inf false)
/-- finite × finite, correctly rounded; overflow gives ±inf -/
def mul (a b : UInt32) : UInt32 :=
  let s := isNeg a != isNeg b
  let (n1, d1) := toRat a
  let (n2, d2) := toRat b
  (roundNE32 s (n1 * n2) (d1 * d2)).getD (inf s)
/-- finite / finite non-zero, correctly rounded; overflow gives ±inf -/
def div (a b : UInt32) : UInt32 :=
  let s := isNeg a != isNeg b
  let (n1, d1) := toRat a
  let (n2, d2) := toRat b
  (roundNE32 s (n1 * d2) (d1 * n2)).getD (inf s)
/-- `x as f64` for finite or infinite `x : f32` (exact) -/
def toF64 (b : UInt32) : UInt64 :=
  if isInf b then SJ.Spec.Ieee.F64.inf (isNeg b)
  else let (n, d) := toRat b; (SJ.Spec.Ieee.roundNE64 (isNeg b) n d).getD (SJ.Spec.Ieee.F64.inf (isNeg b))
end F32

namespace F64x
/-- `x as f32` for finite or infinite `x : f64`: correctly rounded, overflow to ±inf -/
def toF32 (b : UInt64) : UInt32 :=
  let neg := b >>> 63 == 1
  if SJ.Spec.Ieee.F64.isInf b then F32.inf neg
  else let (n, d) := toRatMag fmt64 (b &&& 0x7fffffffffffffff).toNat; (roundNE32 neg n d).getD (F32.inf neg)
end F64x

end SJ.Spec.Ieee32
