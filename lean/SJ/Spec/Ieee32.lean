import SJ.Spec.Ieee
/-!
# IEEE-754 rounding for a parameterised binary format; binary32

`Spec.Ieee` (a placeholder in this branch) rounds to binary64. Property C07 also speaks about `f32`
targets and its proofs are carried out once for both formats, so this file states round-to-nearest-even
for a format `Fmt` on exact naturals.

The format-generic core below (`rne`, `Fmt`, `magOfBits`, `roundMag`, `roundBits`) is **verbatim the
generic core of the C08 branch's `Spec/Ieee.lean`** (which replaces the placeholder at the merge), so that
afterwards `Spec.Ieee32.roundMag = Spec.Ieee.roundMag` etc. hold by `rfl` and the nearest/ties/overflow
theorems proved there (`roundMag_nearest`, `roundMag_tie_even`, `roundMag_overflow_iff`) apply. Until then
`Proofs/LexBridge.lean` proves `Spec.Ieee.roundNE64 = roundBits b64` against the placeholder.

Every finite value of the format is an integer multiple of `2^-qexp` (`qexp` = 1074 / 149). A bit
pattern without its sign, `u = E·2^mbits + M`, has magnitude (in units of `2^-qexp`) `M` if `E = 0`,
`(2^mbits + M)·2^(E-1)` otherwise, and `u ↦ magOfBits u` is strictly increasing.

From `Spec.Ieee` only `roundNE64`, `F64.inf`, `F64.isInf` are used (for the two casts), by full name;
this namespace is never opened together with `SJ.Spec.Ieee`. Import-free, computable.
-/
namespace SJ.Spec.Ieee32

/-- nearest natural to `num/den` (`den > 0`), ties to the even one -/
def rne (num den : Nat) : Nat :=
  let q := num / den
  let r := num % den
  if 2 * r < den then q else if den < 2 * r then q + 1 else if q % 2 = 0 then q else q + 1

/-- a binary interchange format: `mbits` stored significand bits, `ebits` exponent bits -/
structure Fmt where
  mbits : Nat
  ebits : Nat
deriving Repr, DecidableEq

def b64 : Fmt := ⟨52, 11⟩
def b32 : Fmt := ⟨23, 8⟩

namespace Fmt
/-- exponent bias: 1023 / 127 -/
def bias (F : Fmt) : Nat := 2 ^ (F.ebits - 1) - 1
/-- every finite value is a multiple of `2^-qexp`: 1074 / 149 -/
def qexp (F : Fmt) : Nat := F.bias - 1 + F.mbits
/-- unsigned bit pattern of +∞ (exponent field all ones, significand 0); finite patterns are below -/
def infBits (F : Fmt) : Nat := (2 ^ F.ebits - 1) * 2 ^ F.mbits
/-- the sign bit -/
def signBit (F : Fmt) : Nat := 2 ^ (F.mbits + F.ebits)
end Fmt

/-- magnitude, in units of `2^-qexp`, of the finite unsigned bit pattern `u` -/
def magOfBits (F : Fmt) (u : Nat) : Nat :=
  let E := u / 2 ^ F.mbits
  let M := u % 2 ^ F.mbits
  if E = 0 then M else (2 ^ F.mbits + M) * 2 ^ (E - 1)

/-- Round-to-nearest-even of `a/b` (already expressed in units of `2^-qexp`, `b > 0`) to an unsigned
    bit pattern. `k` is the binade's spacing exponent: `2^(mbits+k) ≤ a/b < 2^(mbits+k+1)` when
    `k ≥ 1`, and `k = 0` through the subnormals and the first normal binade. The significand
    `rne (a / (b·2^k))` lies in `[2^mbits, 2^(mbits+1)]` (or below `2^mbits` for subnormals), and adding
    it to `k·2^mbits` yields the right pattern in every case, including the carry into the next
    binade. A result `≥ infBits` means the rounded value is not finite (overflow). -/
def roundMag (F : Fmt) (a b : Nat) : Nat :=
  let k := Nat.log2 (a / b) - F.mbits
  k * 2 ^ F.mbits + rne a (b * 2 ^ k)

/-- signed rounding of `±num/den`: `none` on overflow -/
def roundBits (F : Fmt) (neg : Bool) (num den : Nat) : Option Nat :=
  let r := roundMag F (num * 2 ^ F.qexp) den
  if r < F.infBits then some (if neg then F.signBit + r else r) else none

/-- unit in the last place (in units of `2^-qexp`) of the finite unsigned pattern `u` -/
def ulpOfBits (F : Fmt) (u : Nat) : Nat := 2 ^ (u / 2 ^ F.mbits - 1)

/-- bits of the binary32 nearest to `(-1)^neg · num/den` (ties to even); `none` on overflow -/
def roundNE32 (neg : Bool) (num den : Nat) : Option UInt32 :=
  (roundBits b32 neg num den).map UInt32.ofNat

def signBit32 (neg : Bool) : UInt32 := if neg then 0x80000000 else 0

namespace F32
def inf (neg : Bool) : UInt32 := if neg then 0xff800000 else 0x7f800000
def isNeg (b : UInt32) : Bool := b.toNat / 2 ^ 31 == 1
def absBits (b : UInt32) : Nat := b.toNat % 2 ^ 31
def isInf (b : UInt32) : Bool := absBits b == 0x7f800000
def isZero (b : UInt32) : Bool := absBits b == 0
/-- flip the sign bit -/
def neg (b : UInt32) : UInt32 := b + 0x80000000
/-- `|value| · 2^149` (finite patterns) -/
def mag (b : UInt32) : Nat := magOfBits b32 (absBits b)
/-- rounding that overflows to `±∞` (what the hardware operations do) -/
def roundOrInf (neg : Bool) (num den : Nat) : UInt32 := (roundNE32 neg num den).getD (inf neg)
/-- `n as f32` for an unsigned integer -/
def ofNat (n : Nat) : UInt32 := roundOrInf false n 1
/-- finite × finite: exact product, rounded once -/
def mul (a b : UInt32) : UInt32 := roundOrInf (isNeg a != isNeg b) (mag a * mag b) (2 ^ 149 * 2 ^ 149)
/-- finite / finite non-zero: exact quotient, rounded once -/
def div (a b : UInt32) : UInt32 := roundOrInf (isNeg a != isNeg b) (mag a) (mag b)
/-- `x as f64` for finite or infinite `x : f32` (exact) -/
def toF64 (b : UInt32) : UInt64 :=
  if isInf b then SJ.Spec.Ieee.F64.inf (isNeg b)
  else (SJ.Spec.Ieee.roundNE64 (isNeg b) (mag b) (2 ^ 149)).getD (SJ.Spec.Ieee.F64.inf (isNeg b))
end F32

namespace F64x
/-- `x as f32` for finite or infinite `x : f64`: one rounding to nearest-even, overflow to `±∞` -/
def toF32 (b : UInt64) : UInt32 :=
  let neg := b.toNat / 2 ^ 63 == 1
  if SJ.Spec.Ieee.F64.isInf b then F32.inf neg
  else F32.roundOrInf neg (magOfBits b64 (b.toNat % 2 ^ 63)) (2 ^ 1074)
end F64x

end SJ.Spec.Ieee32
