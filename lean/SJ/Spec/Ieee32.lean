import SJ.Spec.Ieee
/-!
# binary32 operations that lexical's fast path and `de.rs` need, on top of `Spec.Ieee`

`Spec.Ieee` has the format-generic rounding (`roundMag`, `roundBits`), `roundNE32` and the binary32
classification functions. The `f32` fast path of lexical multiplies/divides in binary32, and `de.rs` widens
the `f32` result with `as f64`: those three operations are stated here as "exact result, rounded once"
(meaningful for finite operands; lexical only feeds it positive finite values). Import-free, computable.
-/
namespace SJ.Spec.Ieee
namespace F32
/-- finite × finite: exact product, rounded once -/
def mul (a b : UInt32) : UInt32 := roundOrInf (sign a != sign b) (mag a * mag b) (2 ^ 149 * 2 ^ 149)
/-- finite / finite non-zero: exact quotient, rounded once -/
def div (a b : UInt32) : UInt32 := roundOrInf (sign a != sign b) (mag a) (mag b)
/-- `x as f64` for finite or infinite `x : f32` (exact) -/
def toF64 (b : UInt32) : UInt64 :=
  if isInf b then F64.inf (sign b) else F64.roundOrInf (sign b) (mag b) (2 ^ 149)
end F32
end SJ.Spec.Ieee
