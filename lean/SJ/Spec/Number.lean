import SJ.Spec.Grammar
/-!
# Decimal spelling of integers and the parts of a number literal

* `decimal n` — the plain decimal digits of an integer, with a leading `-` for negatives
  (what `itoa` is assumed to print).
* `splitNumber bs` — the `NumParts` of a number literal: optional `-`, the integer part (leading
  digits), the fraction (`.` and the digits after it) and the rest as exponent. It is total; on a
  byte string that is an RFC 8259 number it returns the unique well-formed decomposition
  (`SJ.Proofs.Number.splitNumber_of_isNumber`).
Import-free.
-/
namespace SJ.Spec.Number
open SJ SJ.Spec.Grammar

/-- digits of `n`, most significant first, prepended to `acc`; `fuel` bounds the number of digits -/
def digitsAux : Nat → Nat → Bytes → Bytes
  | 0, _, acc => acc
  | fuel + 1, n, acc =>
    let acc' := UInt8.ofNat (0x30 + n % 10) :: acc
    if n < 10 then acc' else digitsAux fuel (n / 10) acc'

/-- decimal digits of a natural number: `0` ↦ `"0"`, no leading zeros otherwise -/
def natDigits (n : Nat) : Bytes := digitsAux (n + 1) n []

/-- decimal spelling of an integer -/
def decimal (n : Int) : Bytes :=
  if n < 0 then 0x2d :: natDigits n.natAbs else natDigits n.natAbs

/-- `(minus?, rest)` -/
def splitMinus : Bytes → Bool × Bytes
  | [] => (false, [])
  | c :: r => if c == 0x2d then (true, r) else (false, c :: r)

/-- the parts of a number literal (total; meaningful on number literals) -/
def splitNumber (bs : Bytes) : NumParts :=
  let m := (splitMinus bs).1
  let r := (splitMinus bs).2
  let int := r.takeWhile isDigit
  match r.dropWhile isDigit with
  | [] => { minus := m, int := int, frac := [], exp := [] }
  | c :: r' =>
    if c == 0x2e then
      { minus := m, int := int, frac := c :: r'.takeWhile isDigit, exp := r'.dropWhile isDigit }
    else { minus := m, int := int, frac := [], exp := c :: r' }

/-- executable form of `Grammar.IsNumber` (equivalence: `SJ.Proofs.Number.isNumber_iff`) -/
def isNumber (bs : Bytes) : Bool := (splitNumber bs).WF && (splitNumber bs).bytes == bs

end SJ.Spec.Number
