import SJ.Spec.Decimal
import SJ.Spec.Ieee
import SJ.Spec.Grammar
/-!
# "every number within finite f64 range" — the number-range clause of C01, as a specification

`Spec.Canon.numbersInRange` (the clause used by `c01_accepts_iff`) asks whether the *configured
conversion* (`Model.Num.convertDefault` / `convertRoundtrip`) returns a number: it is stated with
the model. This file states the clause with specification notions only — the RFC 8259 grammar
(`Spec.Grammar`), the exact rational value of a literal (`Spec.Decimal`) and IEEE-754 binary64
round-to-nearest-even (`Spec.Ieee`) — and imports nothing else.

A number literal is *within finite f64 range* when it is an integer literal within
`[i64::MIN, u64::MAX]` (kept as an exact integer, C06) or its exact decimal value `num/den` rounds,
to nearest with ties to even, to a finite binary64: `¬ Overflows64 num den`, i.e.
`num/den < 2^1024 − 2^970` (the midpoint between `f64::MAX = 2^1024 − 2^971` and `2^1024`; at the
midpoint the tie goes to the even significand, which is `2^1024`: not finite). The first clause is
implied by the second (`< 2^64`); it is kept because the statement names the two kinds of number.

How the two clauses relate is proved in `Props/C01Range.lean`: under `float_roundtrip` they coincide
(`c01_range_fr`); in the default build they do not — there is a band of 2 ulp around the threshold
in which the crate's answer is not determined by the value (`c01_range_default_band`).
-/
namespace SJ.Spec.Range
open SJ SJ.Spec.Grammar SJ.Spec.Decimal SJ.Spec.Ieee

/-- a grammar-level literal (`[ minus ] int [ frac ] [ exp ]`, each piece with its spelling) as
    `Spec.Decimal` reads it: the fraction without its point, the exponent without `e`/`E` and sign -/
def litOf (p : NumParts) : NumLit :=
  { neg := p.minus
    intDigits := p.int
    fracDigits := p.frac.drop 1
    expNeg := match p.exp with
      | _ :: s :: _ => s == 0x2d
      | _ => false
    expDigits := match p.exp with
      | _ :: s :: ds => if s == 0x2d || s == 0x2b then ds else s :: ds
      | _ => [] }

/-- an integer literal (no fraction, no exponent) whose value lies in `[i64::MIN, u64::MAX]` -/
def IntLitInRange (l : NumLit) : Prop :=
  l.fracDigits = [] ∧ l.expDigits = [] ∧ (if l.neg then l.sigVal ≤ 2 ^ 63 else l.sigVal < 2 ^ 64)

/-- the literal is within finite f64 range -/
def LitFinite (l : NumLit) : Prop := IntLitInRange l ∨ ¬ Overflows64 l.exact.1 l.exact.2

instance (l : NumLit) : Decidable (IntLitInRange l) := by unfold IntLitInRange; exact inferInstance
instance (num den : Nat) : Decidable (Overflows64 num den) := by unfold Overflows64; exact inferInstance
instance (l : NumLit) : Decidable (LitFinite l) := by unfold LitFinite; exact inferInstance

mutual
/-- `P` holds of every number literal of the syntax tree -/
def allNums (P : NumParts → Prop) : CST → Prop
  | .num p => P p
  | .arr xs => allNumsList P xs
  | .obj ms => allNumsMembers P ms
  | _ => True
def allNumsList (P : NumParts → Prop) : List CST → Prop
  | [] => True
  | x :: xs => allNums P x ∧ allNumsList P xs
def allNumsMembers (P : NumParts → Prop) : List (List StrItem × CST) → Prop
  | [] => True
  | (_, x) :: ms => allNums P x ∧ allNumsMembers P ms
end

/-- **C01's number-range clause.** Every number literal of the tree is within finite f64 range. -/
def finiteRange (t : CST) : Prop := allNums (fun p => LitFinite (litOf p)) t

/-! ## executable form (for the driver)

`NumLit.exact` of `1e99999999999` is not something to compute. With the written exponent clamped to
`cap ≥ 400 + number of digits` the verdict is the same (`Proofs/RangeClamp.lean`:
`litFiniteB_iff`), and the value can be compared with the thresholds of the default-build band. -/

def capOf (l : NumLit) : Nat := 1200 + l.digits.length

/-- `LitFinite`, computed on the clamped exact value through `roundNE64` -/
def litFiniteB (l : NumLit) : Bool :=
  (roundNE64 l.neg (l.exactClamped (capOf l)).1 (l.exactClamped (capOf l)).2).isSome

/-- where a literal's exact value lies relative to the rounding threshold `T = 2^1024 − 2^970` and the
    band `[T − 2^972, 2^1024 + 2^972 + 2^965)` outside of which the default build's answer is proved
    (`c08p_overflow_direction_partial`) -/
inductive Zone where
  /-- `< T − 2^972`: finite, and the default build accepts -/
  | below
  /-- in `[T − 2^972, T)`: finite (rounds to a value ≤ `f64::MAX`), the default build may reject -/
  | bandFinite
  /-- in `[T, 2^1024 + 2^972 + 2^965)`: not finite, the default build may accept -/
  | bandInfinite
  /-- `≥ 2^1024 + 2^972 + 2^965`: not finite, and the default build rejects -/
  | above
deriving DecidableEq, Repr

def zoneOf (l : NumLit) : Zone :=
  let (num, den) := l.exactClamped (capOf l)
  if num < (2 ^ 1024 - 2 ^ 970 - 2 ^ 972) * den then .below
  else if num < (2 ^ 1024 - 2 ^ 970) * den then .bandFinite
  else if num < (2 ^ 1024 + 2 ^ 972 + 2 ^ 965) * den then .bandInfinite
  else .above

mutual
/-- the number literals of a tree, in document order -/
def numsOf : CST → List NumParts
  | .num p => [p]
  | .arr xs => numsOfList xs
  | .obj ms => numsOfMembers ms
  | _ => []
def numsOfList : List CST → List NumParts
  | [] => []
  | x :: xs => numsOf x ++ numsOfList xs
def numsOfMembers : List (List StrItem × CST) → List NumParts
  | [] => []
  | (_, x) :: ms => numsOf x ++ numsOfMembers ms
end

/-- `finiteRange`, executable -/
def finiteRangeB (t : CST) : Bool := (numsOf t).all fun p => litFiniteB (litOf p)

end SJ.Spec.Range
