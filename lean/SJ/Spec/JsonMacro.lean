import SJ.Spec.Value
import SJ.Spec.Canon
/-!
# JSON-shaped literals as Rust token trees, and the value they denote

`TT` is the token tree `json!` receives, cut at the granularity the macro can observe:
the identifiers `null` / `true` / `false`, the punctuation `,` and `:`, bracketed and braced groups,
and *expression units* — a literal token (`1`, `-2.5`, `"s"`), an opaque interpolated expression
(a variable, a call, `a + b`, …: a maximal token run that rustc's expression parser takes as one
`$e:expr` and that contains no top-level `,` or `:`), or a parenthesised expression `( e )`.
An expression unit carries the `Value` it evaluates to (`to_value(&e).unwrap()`).

`shape` reads a token tree as a JSON-shaped literal (`Lit`): elements separated by commas, members
`key : value` separated by commas, one optional trailing comma, keys being expression units whose
value is a string. `eval` is the value of that literal *as JSON text would be parsed*: arrays keep
their order and an object is `Spec.Canon.objectOf` of its members in source order — the very function
property C02 specifies the parser with (one entry per distinct key, the last duplicate's value;
ascending keys by default, first-occurrence order under `preserve_order`).

Import-free and computable.
-/
namespace SJ.Spec.JsonMacro
open SJ

inductive TT where
  | null                  -- the identifier `null`
  | true_                 -- `true`
  | false_                -- `false`
  | comma                 -- `,`
  | colon                 -- `:`
  | lit (v : JV)          -- a literal token (number, possibly negated; string), with its value
  | expr (v : JV)         -- an opaque interpolated expression, with the value it evaluates to
  | paren (v : JV)        -- `( e )`, with the value `e` evaluates to
  | arr (ts : List TT)    -- `[ … ]`
  | obj (ts : List TT)    -- `{ … }`
deriving Repr, Inhabited

/-- a JSON-shaped literal -/
inductive Lit where
  | null
  | bool (b : Bool)
  | leaf (v : JV)                       -- a literal or interpolated expression, already a value
  | arr (xs : List Lit)
  | obj (ms : List (Bytes × Lit))       -- members in source order, duplicates kept
deriving Repr, Inhabited

mutual
/-- the value of the literal, as parsing the equivalent JSON text gives it (`Spec.Canon.canon`'s
    clauses, leaves being values already) -/
def eval (po : Bool) : Lit → JV
  | .null => .null
  | .bool b => .bool b
  | .leaf v => v
  | .arr xs => .arr (evalList po xs)
  | .obj ms => Spec.Canon.objectOf { po := po } (evalMembers po ms)
def evalList (po : Bool) : List Lit → List JV
  | [] => []
  | x :: xs => eval po x :: evalList po xs
def evalMembers (po : Bool) : List (Bytes × Lit) → List (Bytes × JV)
  | [] => []
  | (k, x) :: ms => (k, eval po x) :: evalMembers po ms
end

/-- a key: an expression unit whose value is a string -/
def keyOf : TT → Option Bytes
  | .lit (.str s) => some s
  | .expr (.str s) => some s
  | .paren (.str s) => some s
  | _ => none

mutual
/-- read a token tree as a JSON-shaped literal; `none` if it is not one -/
def shape : TT → Option Lit
  | .null => some .null
  | .true_ => some (.bool true)
  | .false_ => some (.bool false)
  | .lit v => some (.leaf v)
  | .expr v => some (.leaf v)
  | .paren v => some (.leaf v)
  | .arr ts => (shapeElems ts).map .arr
  | .obj ts => (shapeMembers ts).map .obj
  | .comma => none
  | .colon => none
/-- `value , value , … [,]` -/
def shapeElems : List TT → Option (List Lit)
  | [] => some []
  | [t] => (shape t).map fun l => [l]
  | t :: .comma :: rest =>
    match shape t, shapeElems rest with
    | some l, some ls => some (l :: ls)
    | _, _ => none
  | _ :: _ :: _ => none
/-- `key : value , key : value , … [,]` -/
def shapeMembers : List TT → Option (List (Bytes × Lit))
  | [] => some []
  | [k, .colon, t] =>
    match keyOf k, shape t with
    | some s, some l => some [(s, l)]
    | _, _ => none
  | k :: .colon :: t :: .comma :: rest =>
    match keyOf k, shape t, shapeMembers rest with
    | some s, some l, some ms => some ((s, l) :: ms)
    | _, _, _ => none
  | _ => none
end

end SJ.Spec.JsonMacro
