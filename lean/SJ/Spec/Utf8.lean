import SJ.Spec.Value
/-!
# UTF-8 well-formedness (Unicode §3.9, Table 3-7) — what `str::from_utf8` accepts

`validUtf8` is the table-driven recogniser: no overlong forms, no surrogates (ED A0..BF), nothing
above U+10FFFF. Import-free.
-/
namespace SJ.Spec.Utf8
open SJ

def cont (b : UInt8) : Bool := 0x80 ≤ b && b ≤ 0xBF

def validUtf8 : Bytes → Bool
  | [] => true
  | b0 :: r =>
    if b0 < 0x80 then validUtf8 r
    else if 0xC2 ≤ b0 && b0 ≤ 0xDF then
      match r with
      | b1 :: r' => cont b1 && validUtf8 r'
      | _ => false
    else if b0 == 0xE0 then
      match r with
      | b1 :: b2 :: r' => (0xA0 ≤ b1 && b1 ≤ 0xBF) && cont b2 && validUtf8 r'
      | _ => false
    else if (0xE1 ≤ b0 && b0 ≤ 0xEC) || b0 == 0xEE || b0 == 0xEF then
      match r with
      | b1 :: b2 :: r' => cont b1 && cont b2 && validUtf8 r'
      | _ => false
    else if b0 == 0xED then
      match r with
      | b1 :: b2 :: r' => (0x80 ≤ b1 && b1 ≤ 0x9F) && cont b2 && validUtf8 r'
      | _ => false
    else if b0 == 0xF0 then
      match r with
      | b1 :: b2 :: b3 :: r' => (0x90 ≤ b1 && b1 ≤ 0xBF) && cont b2 && cont b3 && validUtf8 r'
      | _ => false
    else if 0xF1 ≤ b0 && b0 ≤ 0xF3 then
      match r with
      | b1 :: b2 :: b3 :: r' => cont b1 && cont b2 && cont b3 && validUtf8 r'
      | _ => false
    else if b0 == 0xF4 then
      match r with
      | b1 :: b2 :: b3 :: r' => (0x80 ≤ b1 && b1 ≤ 0x8F) && cont b2 && cont b3 && validUtf8 r'
      | _ => false
    else false

end SJ.Spec.Utf8
