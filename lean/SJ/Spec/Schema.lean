import SJ.Spec.Value
/-!
# The typed universe: `Schema` (target "type programs") and `TVal` (typed results)

One universe on both sides (DESIGN §4 "Typed data uses one universe on both sides"): the Rust harness
interprets a `Schema` with a universal `DeserializeSeed` (`harness/src/schema.rs`) that issues
exactly the `deserialize_*` request matching the schema node and uses visitors of the standard
shapes (serde's own impls for the leaves, the shapes `serde_derive` generates for the containers);
the result is a `TVal`. The Lean models (`SJ.Model.FromValue`, later `SJ.Model.Typed`) interpret the
same `Schema`.

| schema node | request issued | visitor (what it accepts) |
|---|---|---|
| `bool` | `deserialize_bool` | `visit_bool` |
| `int w` | `deserialize_i8 … u128` | serde's `PrimitiveVisitor`: every 8–64-bit integer visit (and `visit_i128/u128` for the 128-bit targets), range-checked |
| `f64` / `f32` | `deserialize_f64` / `_f32` | float visits and every 8–64-bit integer visit (`as`) |
| `char` | `deserialize_char` | `visit_char`, `visit_str` with exactly one character |
| `string` | `deserialize_string` | `visit_str`, `visit_string` (and UTF-8 `visit_bytes`) |
| `bytes` | `deserialize_byte_buf` | `serde_bytes::ByteBuf`: bytes, str/string, seq of `u8` |
| `option s` | `deserialize_option` | `visit_none`/`visit_unit` ↦ none, `visit_some(d)` ↦ some (s on d) |
| `unit` / `unitStruct` | `deserialize_unit` / `deserialize_unit_struct` | `visit_unit` |
| `newtype s` | `deserialize_newtype_struct` | `visit_newtype_struct(d)` ↦ s on d; `visit_seq` of one element |
| `seq s` | `deserialize_seq` | `visit_seq`: elements until exhausted |
| `tuple ss` | `deserialize_tuple(len)` | `visit_seq`: exactly `len` elements, `invalid_length(i)` when the i-th is missing |
| `map k s` | `deserialize_map` | `visit_map`: entries until exhausted, keys by `KeyKind` |
| `struct_ fs deny` | `deserialize_struct(name, fields)` | `visit_seq` (every field in order, `invalid_length`) or `visit_map` (field identifiers by `deserialize_identifier`; unknown ignored through `IgnoredAny` or denied; duplicates rejected; a missing field is `none` when its schema is `option _`, an error otherwise) |
| `enum_ vs` | `deserialize_enum(name, variants)` | `visit_enum`: variant identifier, then `unit_variant` / `newtype_variant_seed` / `tuple_variant(len, tuple visitor)` / `struct_variant(fields, struct visitor)` |
| `ignored` | `deserialize_ignored_any` | `IgnoredAny` (accepts everything) |
| `any` | `deserialize_any` | `Value`'s own visitor |

Import-free apart from `SJ.Spec.Value` (the driver must link).
-/
namespace SJ

/-- the twelve integer targets -/
inductive IntTy where
  | i8 | i16 | i32 | i64 | i128 | u8 | u16 | u32 | u64 | u128
deriving DecidableEq, Repr, Inhabited

namespace IntTy
def signed : IntTy → Bool
  | i8 | i16 | i32 | i64 | i128 => true
  | _ => false
def bits : IntTy → Nat
  | i8 | u8 => 8 | i16 | u16 => 16 | i32 | u32 => 32 | i64 | u64 => 64 | i128 | u128 => 128
def lo (w : IntTy) : Int := if w.signed then -((2 : Int) ^ (w.bits - 1)) else 0
def hi (w : IntTy) : Int := if w.signed then (2 : Int) ^ (w.bits - 1) - 1 else (2 : Int) ^ w.bits - 1
def inRange (w : IntTy) (n : Int) : Bool := decide (w.lo ≤ n) && decide (n ≤ w.hi)
/-- wire tag: lower case = signed, upper case = unsigned; a/b/c/d/e = 8/16/32/64/128 bits -/
def tag : IntTy → Char
  | i8 => 'a' | i16 => 'b' | i32 => 'c' | i64 => 'd' | i128 => 'e'
  | u8 => 'A' | u16 => 'B' | u32 => 'C' | u64 => 'D' | u128 => 'E'
def ofTag : Char → Option IntTy
  | 'a' => some i8 | 'b' => some i16 | 'c' => some i32 | 'd' => some i64 | 'e' => some i128
  | 'A' => some u8 | 'B' => some u16 | 'C' => some u32 | 'D' => some u64 | 'E' => some u128
  | _ => none
end IntTy

/-- kinds of typed map keys -/
inductive KeyKind where
  | string
  | int (w : IntTy)
  | bool
  | char
  | unitEnum (names : List Bytes)     -- an enum of unit variants, by name
deriving DecidableEq, Repr, Inhabited

mutual
inductive Schema where
  | bool
  | int (w : IntTy)
  | f64
  | f32                                     -- outside the claim of C16; kept for C04/C06
  | char
  | string
  | bytes                                   -- byte buffer: a string or an array of u8
  | option (s : Schema)
  | unit
  | unitStruct
  | newtype (s : Schema)
  | seq (s : Schema)
  | tuple (ss : List Schema)
  | map (k : KeyKind) (s : Schema)
  | struct_ (fields : List (Bytes × Schema)) (denyUnknown : Bool)
  | enum_ (variants : List (Bytes × VariantShape))
  | ignored                                 -- IgnoredAny
  | any                                     -- Value itself
inductive VariantShape where
  | unit
  | newtype (s : Schema)
  | tuple (ss : List Schema)
  | struct_ (fields : List (Bytes × Schema))
end

instance : Inhabited Schema := ⟨.unit⟩
instance : Inhabited VariantShape := ⟨.unit⟩

/-- typed results -/
inductive TVal where
  | bool (b : Bool)
  | int (i : Int)
  | f64 (bits : UInt64)
  | f32 (bits : UInt32)
  | char (c : Nat)                          -- Unicode scalar value
  | str (s : Bytes)
  | bytes (b : Bytes)
  | none
  | some (v : TVal)
  | unit
  | seq (xs : List TVal)
  | map (kvs : List (TVal × TVal))          -- pairs in visiting order
  | struct_ (fs : List TVal)                -- field values in declaration order
  | variant (idx : Nat) (payload : TVal)
  | ignored
  | any (v : JV)

instance : Inhabited TVal := ⟨.unit⟩

/-! ## structural equality (Bool-valued; `deriving DecidableEq` does not cover nested inductives) -/

mutual
def Schema.beq : Schema → Schema → Bool
  | .bool, .bool | .f64, .f64 | .f32, .f32 | .char, .char | .string, .string | .bytes, .bytes
  | .unit, .unit | .unitStruct, .unitStruct | .ignored, .ignored | .any, .any => true
  | .int a, .int b => a == b
  | .option a, .option b | .newtype a, .newtype b | .seq a, .seq b => Schema.beq a b
  | .tuple a, .tuple b => Schema.beqList a b
  | .map k a, .map l b => k == l && Schema.beq a b
  | .struct_ f d, .struct_ g e => d == e && Schema.beqFields f g
  | .enum_ a, .enum_ b => Schema.beqVariants a b
  | _, _ => false
def Schema.beqList : List Schema → List Schema → Bool
  | [], [] => true
  | a :: as, b :: bs => Schema.beq a b && Schema.beqList as bs
  | _, _ => false
def Schema.beqFields : List (Bytes × Schema) → List (Bytes × Schema) → Bool
  | [], [] => true
  | (k, a) :: as, (l, b) :: bs => k == l && Schema.beq a b && Schema.beqFields as bs
  | _, _ => false
def Schema.beqVariants : List (Bytes × VariantShape) → List (Bytes × VariantShape) → Bool
  | [], [] => true
  | (k, a) :: as, (l, b) :: bs => k == l && VariantShape.beq a b && Schema.beqVariants as bs
  | _, _ => false
def VariantShape.beq : VariantShape → VariantShape → Bool
  | .unit, .unit => true
  | .newtype a, .newtype b => Schema.beq a b
  | .tuple a, .tuple b => Schema.beqList a b
  | .struct_ a, .struct_ b => Schema.beqFields a b
  | _, _ => false
end

instance : BEq JV := ⟨JV.beq⟩
instance : BEq Schema := ⟨Schema.beq⟩
instance : BEq VariantShape := ⟨VariantShape.beq⟩

/-- equality of typed results; with `floats := false` the bit patterns of `f64` leaves (also inside
    `any` values) are not compared (C16: "comparisons involving f64 assume float_roundtrip or short
    float literals") -/
def Num.eqv (floats : Bool) : Num → Num → Bool
  | .float a, .float b => !floats || a == b
  | a, b => a == b

mutual
def JV.eqv (floats : Bool) : JV → JV → Bool
  | .null, .null => true
  | .bool a, .bool b => a == b
  | .num a, .num b => Num.eqv floats a b
  | .str a, .str b => a == b
  | .arr a, .arr b => JV.eqvList floats a b
  | .obj a, .obj b => JV.eqvMembers floats a b
  | _, _ => false
def JV.eqvList (floats : Bool) : List JV → List JV → Bool
  | [], [] => true
  | a :: as, b :: bs => JV.eqv floats a b && JV.eqvList floats as bs
  | _, _ => false
def JV.eqvMembers (floats : Bool) : List (Bytes × JV) → List (Bytes × JV) → Bool
  | [], [] => true
  | (k, a) :: as, (l, b) :: bs => k == l && JV.eqv floats a b && JV.eqvMembers floats as bs
  | _, _ => false
end

mutual
def TVal.eqv (floats : Bool) : TVal → TVal → Bool
  | .bool a, .bool b => a == b
  | .int a, .int b => a == b
  | .f64 a, .f64 b => !floats || a == b
  | .f32 a, .f32 b => a == b
  | .char a, .char b => a == b
  | .str a, .str b => a == b
  | .bytes a, .bytes b => a == b
  | .none, .none | .unit, .unit | .ignored, .ignored => true
  | .some a, .some b => TVal.eqv floats a b
  | .seq a, .seq b | .struct_ a, .struct_ b => TVal.eqvList floats a b
  | .map a, .map b => TVal.eqvPairs floats a b
  | .variant i a, .variant j b => i == j && TVal.eqv floats a b
  | .any a, .any b => JV.eqv floats a b
  | _, _ => false
def TVal.eqvList (floats : Bool) : List TVal → List TVal → Bool
  | [], [] => true
  | a :: as, b :: bs => TVal.eqv floats a b && TVal.eqvList floats as bs
  | _, _ => false
def TVal.eqvPairs (floats : Bool) : List (TVal × TVal) → List (TVal × TVal) → Bool
  | [], [] => true
  | (k, a) :: as, (l, b) :: bs => TVal.eqv floats k l && TVal.eqv floats a b && TVal.eqvPairs floats as bs
  | _, _ => false
end

instance : BEq TVal := ⟨TVal.eqv true⟩

/-! ## wire codecs (one token each, no spaces)

```
schema ::= b | i<tag> | d | g | c | s | y | O schema | u | U | N schema | Q schema
         | T<n>; schema*            tuple
         | M key schema             map
         | S<0|1><n>; (<hex>; schema)*      struct (deny flag, fields)
         | E<n>; (<hex>; shape)*    enum
         | x                        ignored
         | a                        any
tag    ::= a b c d e (i8 i16 i32 i64 i128) | A B C D E (u8 … u128)
key    ::= s | i<tag> | b | c | e<n>; (<hex>;)*
shape  ::= u | n schema | t<n>; schema* | r<n>; (<hex>; schema)*

tval   ::= t | f | i<dec>; | j<dec>; (negative, magnitude) | d<16 hex> | g<8 hex> | c<hex code point>;
         | s<hex>; | y<hex>; | n | S tval | u | Q<n>; tval* | M<n>; (tval tval)* | R<n>; tval*
         | V<idx>; tval | x | a <value wire of SJ.Spec.Value>
```
-/

def hexNat (n : Nat) : String := String.ofList (Nat.toDigits 16 n)

def hex8 (w : UInt32) : String :=
  String.ofList ((List.range 8).map fun i => hexDigit ((w.toNat / 16 ^ (7 - i)) % 16))

def KeyKind.enc : KeyKind → String
  | .string => "s"
  | .int w => "i" ++ String.singleton w.tag
  | .bool => "b"
  | .char => "c"
  | .unitEnum names => s!"e{names.length};" ++ String.join (names.map fun n => hexOfBytes n ++ ";")

mutual
def Schema.enc : Schema → String
  | .bool => "b"
  | .int w => "i" ++ String.singleton w.tag
  | .f64 => "d"
  | .f32 => "g"
  | .char => "c"
  | .string => "s"
  | .bytes => "y"
  | .option s => "O" ++ Schema.enc s
  | .unit => "u"
  | .unitStruct => "U"
  | .newtype s => "N" ++ Schema.enc s
  | .seq s => "Q" ++ Schema.enc s
  | .tuple ss => s!"T{ss.length};" ++ Schema.encList ss
  | .map k s => "M" ++ k.enc ++ Schema.enc s
  | .struct_ fs d => "S" ++ (if d then "1" else "0") ++ s!"{fs.length};" ++ Schema.encFields fs
  | .enum_ vs => s!"E{vs.length};" ++ Schema.encVariants vs
  | .ignored => "x"
  | .any => "a"
def Schema.encList : List Schema → String
  | [] => ""
  | s :: ss => Schema.enc s ++ Schema.encList ss
def Schema.encFields : List (Bytes × Schema) → String
  | [] => ""
  | (n, s) :: r => hexOfBytes n ++ ";" ++ Schema.enc s ++ Schema.encFields r
def Schema.encVariants : List (Bytes × VariantShape) → String
  | [] => ""
  | (n, sh) :: r => hexOfBytes n ++ ";" ++ VariantShape.enc sh ++ Schema.encVariants r
def VariantShape.enc : VariantShape → String
  | .unit => "u"
  | .newtype s => "n" ++ Schema.enc s
  | .tuple ss => s!"t{ss.length};" ++ Schema.encList ss
  | .struct_ fs => s!"r{fs.length};" ++ Schema.encFields fs
end

mutual
def TVal.enc : TVal → String
  | .bool true => "t"
  | .bool false => "f"
  | .int i => if i < 0 then s!"j{(-i).toNat};" else s!"i{i.toNat};"
  | .f64 b => "d" ++ hex16 b
  | .f32 b => "g" ++ hex8 b
  | .char c => "c" ++ hexNat c ++ ";"
  | .str s => "s" ++ hexOfBytes s ++ ";"
  | .bytes s => "y" ++ hexOfBytes s ++ ";"
  | .none => "n"
  | .some v => "S" ++ TVal.enc v
  | .unit => "u"
  | .seq xs => s!"Q{xs.length};" ++ TVal.encList xs
  | .map kvs => s!"M{kvs.length};" ++ TVal.encPairs kvs
  | .struct_ fs => s!"R{fs.length};" ++ TVal.encList fs
  | .variant i p => s!"V{i};" ++ TVal.enc p
  | .ignored => "x"
  | .any v => "a" ++ encJV v
def TVal.encList : List TVal → String
  | [] => ""
  | v :: r => TVal.enc v ++ TVal.encList r
def TVal.encPairs : List (TVal × TVal) → String
  | [] => ""
  | (k, v) :: r => TVal.enc k ++ TVal.enc v ++ TVal.encPairs r
end

/-! ### decoders (fuel bounded by the input length) -/

def decCount (cs : List Char) : Option (Nat × List Char) := do
  let (d, r) ← takeUntilSemi [] cs
  let n ← natOfDecChars d
  pure (n, r)

def decName (cs : List Char) : Option (Bytes × List Char) := do
  let (d, r) ← takeUntilSemi [] cs
  let b ← bytesOfHexChars d
  pure (b, r)

def decNames : Nat → List Char → List Bytes → Option (List Bytes × List Char)
  | 0, r, acc => some (acc.reverse, r)
  | k + 1, r, acc => match decName r with
    | some (n, r) => decNames k r (n :: acc)
    | none => none

def KeyKind.dec : List Char → Option (KeyKind × List Char)
  | 's' :: r => some (.string, r)
  | 'i' :: t :: r => (IntTy.ofTag t).map fun w => (.int w, r)
  | 'b' :: r => some (.bool, r)
  | 'c' :: r => some (.char, r)
  | 'e' :: r => do
      let (n, r) ← decCount r
      let (ns, r) ← decNames n r []
      pure (.unitEnum ns, r)
  | _ => none

mutual
def Schema.dec : Nat → List Char → Option (Schema × List Char)
  | 0, _ => none
  | fuel + 1, cs =>
    match cs with
    | 'b' :: r => some (.bool, r)
    | 'i' :: t :: r => (IntTy.ofTag t).map fun w => (.int w, r)
    | 'd' :: r => some (.f64, r)
    | 'g' :: r => some (.f32, r)
    | 'c' :: r => some (.char, r)
    | 's' :: r => some (.string, r)
    | 'y' :: r => some (.bytes, r)
    | 'u' :: r => some (.unit, r)
    | 'U' :: r => some (.unitStruct, r)
    | 'x' :: r => some (.ignored, r)
    | 'a' :: r => some (.any, r)
    | 'O' :: r => (Schema.dec fuel r).map fun (s, r) => (.option s, r)
    | 'N' :: r => (Schema.dec fuel r).map fun (s, r) => (.newtype s, r)
    | 'Q' :: r => (Schema.dec fuel r).map fun (s, r) => (.seq s, r)
    | 'T' :: r => do
        let (n, r) ← decCount r
        let (ss, r) ← Schema.decList fuel n r
        pure (.tuple ss, r)
    | 'M' :: r => do
        let (k, r) ← KeyKind.dec r
        let (s, r) ← Schema.dec fuel r
        pure (.map k s, r)
    | 'S' :: d :: r => do
        let (n, r) ← decCount r
        let (fs, r) ← Schema.decFields fuel n r
        pure (.struct_ fs (d == '1'), r)
    | 'E' :: r => do
        let (n, r) ← decCount r
        let (vs, r) ← Schema.decVariants fuel n r
        pure (.enum_ vs, r)
    | _ => none
def Schema.decList : Nat → Nat → List Char → Option (List Schema × List Char)
  | 0, _, _ => none
  | _ + 1, 0, r => some ([], r)
  | fuel + 1, k + 1, r => do
      let (s, r) ← Schema.dec fuel r
      let (ss, r) ← Schema.decList fuel k r
      pure (s :: ss, r)
def Schema.decFields : Nat → Nat → List Char → Option (List (Bytes × Schema) × List Char)
  | 0, _, _ => none
  | _ + 1, 0, r => some ([], r)
  | fuel + 1, k + 1, r => do
      let (n, r) ← decName r
      let (s, r) ← Schema.dec fuel r
      let (fs, r) ← Schema.decFields fuel k r
      pure ((n, s) :: fs, r)
def Schema.decVariants : Nat → Nat → List Char → Option (List (Bytes × VariantShape) × List Char)
  | 0, _, _ => none
  | _ + 1, 0, r => some ([], r)
  | fuel + 1, k + 1, r => do
      let (n, r) ← decName r
      let (sh, r) ← VariantShape.dec fuel r
      let (vs, r) ← Schema.decVariants fuel k r
      pure ((n, sh) :: vs, r)
def VariantShape.dec : Nat → List Char → Option (VariantShape × List Char)
  | 0, _ => none
  | fuel + 1, cs =>
    match cs with
    | 'u' :: r => some (.unit, r)
    | 'n' :: r => (Schema.dec fuel r).map fun (s, r) => (.newtype s, r)
    | 't' :: r => do
        let (n, r) ← decCount r
        let (ss, r) ← Schema.decList fuel n r
        pure (.tuple ss, r)
    | 'r' :: r => do
        let (n, r) ← decCount r
        let (fs, r) ← Schema.decFields fuel n r
        pure (.struct_ fs, r)
    | _ => none
end

def Schema.decode (s : String) : Option Schema :=
  let cs := s.toList
  match Schema.dec (2 * cs.length + 2) cs with
  | some (v, []) => some v
  | _ => none

mutual
def TVal.dec : Nat → List Char → Option (TVal × List Char)
  | 0, _ => Option.none
  | fuel + 1, cs =>
    match cs with
    | 't' :: r => Option.some (.bool true, r)
    | 'f' :: r => Option.some (.bool false, r)
    | 'i' :: r => (decCount r).map fun (n, r) => (.int n, r)
    | 'j' :: r => (decCount r).map fun (n, r) => (.int (-(n : Int)), r)
    | 'd' :: r =>
        let h := r.take 16
        if h.length == 16 then (natOfHexChars h).map fun n => (.f64 (UInt64.ofNat n), r.drop 16) else Option.none
    | 'g' :: r =>
        let h := r.take 8
        if h.length == 8 then (natOfHexChars h).map fun n => (.f32 (UInt32.ofNat n), r.drop 8) else Option.none
    | 'c' :: r => do
        let (d, r) ← takeUntilSemi [] r
        let n ← natOfHexChars d
        pure (.char n, r)
    | 's' :: r => (decName r).map fun (b, r) => (.str b, r)
    | 'y' :: r => (decName r).map fun (b, r) => (.bytes b, r)
    | 'n' :: r => Option.some (.none, r)
    | 'u' :: r => Option.some (.unit, r)
    | 'x' :: r => Option.some (.ignored, r)
    | 'S' :: r => (TVal.dec fuel r).map fun (v, r) => (.some v, r)
    | 'Q' :: r => do
        let (n, r) ← decCount r
        let (xs, r) ← TVal.decList fuel n r
        pure (.seq xs, r)
    | 'R' :: r => do
        let (n, r) ← decCount r
        let (xs, r) ← TVal.decList fuel n r
        pure (.struct_ xs, r)
    | 'M' :: r => do
        let (n, r) ← decCount r
        let (xs, r) ← TVal.decPairs fuel n r
        pure (.map xs, r)
    | 'V' :: r => do
        let (i, r) ← decCount r
        let (v, r) ← TVal.dec fuel r
        pure (.variant i v, r)
    | 'a' :: r => (decJV (r.length + 1) r).map fun (v, r) => (.any v, r)
    | _ => Option.none
def TVal.decList : Nat → Nat → List Char → Option (List TVal × List Char)
  | 0, _, _ => Option.none
  | _ + 1, 0, r => Option.some ([], r)
  | fuel + 1, k + 1, r => do
      let (v, r) ← TVal.dec fuel r
      let (vs, r) ← TVal.decList fuel k r
      pure (v :: vs, r)
def TVal.decPairs : Nat → Nat → List Char → Option (List (TVal × TVal) × List Char)
  | 0, _, _ => Option.none
  | _ + 1, 0, r => Option.some ([], r)
  | fuel + 1, k + 1, r => do
      let (a, r) ← TVal.dec fuel r
      let (b, r) ← TVal.dec fuel r
      let (vs, r) ← TVal.decPairs fuel k r
      pure ((a, b) :: vs, r)
end

def TVal.decode (s : String) : Option TVal :=
  let cs := s.toList
  match TVal.dec (2 * cs.length + 2) cs with
  | Option.some (v, []) => Option.some v
  | _ => Option.none

/-! ## the structural exclusions of property C16 -/

mutual
/-- the schema mentions an `f32` target -/
def Schema.hasF32 : Schema → Bool
  | .f32 => true
  | .option s | .newtype s | .seq s | .map _ s => Schema.hasF32 s
  | .tuple ss => Schema.hasF32List ss
  | .struct_ fs _ => Schema.hasF32Fields fs
  | .enum_ vs => Schema.hasF32Variants vs
  | _ => false
def Schema.hasF32List : List Schema → Bool
  | [] => false
  | s :: r => Schema.hasF32 s || Schema.hasF32List r
def Schema.hasF32Fields : List (Bytes × Schema) → Bool
  | [] => false
  | (_, s) :: r => Schema.hasF32 s || Schema.hasF32Fields r
def Schema.hasF32Variants : List (Bytes × VariantShape) → Bool
  | [] => false
  | (_, sh) :: r => VariantShape.hasF32 sh || Schema.hasF32Variants r
def VariantShape.hasF32 : VariantShape → Bool
  | .unit => false
  | .newtype s => Schema.hasF32 s
  | .tuple ss => Schema.hasF32List ss
  | .struct_ fs => Schema.hasF32Fields fs
end

mutual
/-- the schema has a tuple variant of length zero -/
def Schema.hasEmptyTupleVariant : Schema → Bool
  | .option s | .newtype s | .seq s | .map _ s => Schema.hasEmptyTupleVariant s
  | .tuple ss => Schema.hasETVList ss
  | .struct_ fs _ => Schema.hasETVFields fs
  | .enum_ vs => Schema.hasETVVariants vs
  | _ => false
def Schema.hasETVList : List Schema → Bool
  | [] => false
  | s :: r => Schema.hasEmptyTupleVariant s || Schema.hasETVList r
def Schema.hasETVFields : List (Bytes × Schema) → Bool
  | [] => false
  | (_, s) :: r => Schema.hasEmptyTupleVariant s || Schema.hasETVFields r
def Schema.hasETVVariants : List (Bytes × VariantShape) → Bool
  | [] => false
  | (_, sh) :: r => VariantShape.hasETV sh || Schema.hasETVVariants r
def VariantShape.hasETV : VariantShape → Bool
  | .unit => false
  | .newtype s => Schema.hasEmptyTupleVariant s
  | .tuple ss => ss.isEmpty || Schema.hasETVList ss
  | .struct_ fs => Schema.hasETVFields fs
end

mutual
/-- names of the struct variants occurring anywhere in the schema -/
def Schema.structVariantNames : Schema → List Bytes
  | .option s | .newtype s | .seq s | .map _ s => Schema.structVariantNames s
  | .tuple ss => Schema.svnList ss
  | .struct_ fs _ => Schema.svnFields fs
  | .enum_ vs => Schema.svnVariants vs
  | _ => []
def Schema.svnList : List Schema → List Bytes
  | [] => []
  | s :: r => Schema.structVariantNames s ++ Schema.svnList r
def Schema.svnFields : List (Bytes × Schema) → List Bytes
  | [] => []
  | (_, s) :: r => Schema.structVariantNames s ++ Schema.svnFields r
def Schema.svnVariants : List (Bytes × VariantShape) → List Bytes
  | [] => []
  | (n, sh) :: r => VariantShape.svn n sh ++ Schema.svnVariants r
def VariantShape.svn (name : Bytes) : VariantShape → List Bytes
  | .unit => []
  | .newtype s => Schema.structVariantNames s
  | .tuple ss => Schema.svnList ss
  | .struct_ fs => name :: Schema.svnFields fs
end

mutual
/-- the value contains a single-key object `{name: [...]}` for one of the given names
    (a struct variant written as an array) -/
def JV.hasArrayPayload (names : List Bytes) : JV → Bool
  | .arr xs => JV.hasArrayPayloadList names xs
  | .obj kvs =>
    (match kvs with
      | [(k, .arr _)] => names.contains k
      | _ => false) || JV.hasArrayPayloadMembers names kvs
  | _ => false
def JV.hasArrayPayloadList (names : List Bytes) : List JV → Bool
  | [] => false
  | x :: r => JV.hasArrayPayload names x || JV.hasArrayPayloadList names r
def JV.hasArrayPayloadMembers (names : List Bytes) : List (Bytes × JV) → Bool
  | [] => false
  | (_, x) :: r => JV.hasArrayPayload names x || JV.hasArrayPayloadMembers names r
end

/-- the (schema, value) pair lies outside the claim of C16 -/
def c16Excluded (s : Schema) (v : JV) : Bool :=
  s.hasF32 || s.hasEmptyTupleVariant || v.hasArrayPayload s.structVariantNames

end SJ
