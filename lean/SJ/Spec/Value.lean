/-!
# Abstract JSON values (`serde_json::Value`) and the wire codec shared with the Rust harness

Strings are UTF-8 byte lists. Objects are association lists in *iteration order*.
Numbers mirror `serde_json::number::N` (`PosInt`/`NegInt`/`Float`) plus, for the
`arbitrary_precision` build, the literal text.

Import-free on purpose (the driver must link).
-/
namespace SJ

abbrev Bytes := List UInt8

inductive Num where
  | pos (n : Nat)            -- N::PosInt(u64)
  | neg (n : Int)            -- N::NegInt(i64), always < 0 when well-formed
  | float (bits : UInt64)    -- N::Float(f64) as IEEE-754 bits
  | lit (s : Bytes)          -- arbitrary_precision: the literal text
deriving DecidableEq, Repr, Inhabited

inductive JV where
  | null
  | bool (b : Bool)
  | num (n : Num)
  | str (s : Bytes)
  | arr (xs : List JV)
  | obj (kvs : List (Bytes × JV))
deriving Repr, Inhabited

mutual
/-- structural equality test (computable; `JV` is a nested inductive, so no derived `DecidableEq`) -/
def JV.beq : JV → JV → Bool
  | .null, .null => true
  | .bool a, .bool b => a == b
  | .num a, .num b => a == b
  | .str a, .str b => a == b
  | .arr xs, .arr ys => JV.beqList xs ys
  | .obj xs, .obj ys => JV.beqMembers xs ys
  | _, _ => false
def JV.beqList : List JV → List JV → Bool
  | [], [] => true
  | x :: xs, y :: ys => JV.beq x y && JV.beqList xs ys
  | _, _ => false
def JV.beqMembers : List (Bytes × JV) → List (Bytes × JV) → Bool
  | [], [] => true
  | (k, x) :: xs, (l, y) :: ys => k == l && JV.beq x y && JV.beqMembers xs ys
  | _, _ => false
end

/-! ## hex helpers -/

def hexDigit (n : Nat) : Char :=
  if n < 10 then Char.ofNat (48 + n) else Char.ofNat (87 + n)

def hexOfByte (b : UInt8) : List Char := [hexDigit (b.toNat / 16), hexDigit (b.toNat % 16)]

def hexOfBytes (bs : Bytes) : String := String.ofList (bs.flatMap hexOfByte)

def hexVal (c : Char) : Option Nat :=
  if '0' ≤ c ∧ c ≤ '9' then some (c.toNat - 48)
  else if 'a' ≤ c ∧ c ≤ 'f' then some (c.toNat - 87)
  else if 'A' ≤ c ∧ c ≤ 'F' then some (c.toNat - 55)
  else none

def bytesOfHexChars : List Char → Option Bytes
  | [] => some []
  | [_] => none
  | a :: b :: rest =>
    match hexVal a, hexVal b, bytesOfHexChars rest with
    | some x, some y, some r => some (UInt8.ofNat (x * 16 + y) :: r)
    | _, _, _ => none

/-- `-` denotes the empty byte string on the wire (so that fields are never empty). -/
def bytesOfHex (s : String) : Option Bytes :=
  if s == "-" then some [] else bytesOfHexChars s.toList

def hexField (bs : Bytes) : String := if bs.isEmpty then "-" else hexOfBytes bs

def hex16 (w : UInt64) : String :=
  String.ofList ((List.range 16).map fun i => hexDigit ((w.toNat / 16 ^ (15 - i)) % 16))

def natOfHexChars (cs : List Char) : Option Nat :=
  cs.foldl (fun acc c => match acc, hexVal c with
    | some a, some v => some (a * 16 + v)
    | _, _ => none) (some 0)

def natOfDecChars (cs : List Char) : Option Nat :=
  if cs.isEmpty then none else
  cs.foldl (fun acc c => match acc with
    | some a => if '0' ≤ c ∧ c ≤ '9' then some (a * 10 + (c.toNat - 48)) else none
    | none => none) (some 0)

/-! ## wire codec for values

```
n | t | f | i<dec>; | j<dec>;  (NegInt magnitude) | d<16 hex> | l<hex>; | s<hex>; |
a<count>; v* | o<count>; (s<hex>; v)*
```
-/

def takeUntilSemi : List Char → List Char → Option (List Char × List Char)
  | _, [] => none
  | acc, c :: cs => if c == ';' then some (acc.reverse, cs) else takeUntilSemi (c :: acc) cs

mutual
def encNum : Num → String
  | .pos n => s!"i{n};"
  | .neg n => s!"j{(-n).toNat};"
  | .float b => "d" ++ hex16 b
  | .lit s => "l" ++ hexOfBytes s ++ ";"
end

partial def encJV : JV → String
  | .null => "n"
  | .bool true => "t"
  | .bool false => "f"
  | .num n => encNum n
  | .str s => "s" ++ hexOfBytes s ++ ";"
  | .arr xs => s!"a{xs.length};" ++ String.join (xs.map encJV)
  | .obj kvs => s!"o{kvs.length};" ++
      String.join (kvs.map fun (k, v) => "s" ++ hexOfBytes k ++ ";" ++ encJV v)

/-- decoder with fuel (bounded by the input length). -/
def decJV : Nat → List Char → Option (JV × List Char)
  | 0, _ => none
  | fuel + 1, cs =>
    match cs with
    | [] => none
    | 'n' :: r => some (.null, r)
    | 't' :: r => some (.bool true, r)
    | 'f' :: r => some (.bool false, r)
    | 'i' :: r => do
        let (d, r) ← takeUntilSemi [] r
        let n ← natOfDecChars d
        pure (.num (.pos n), r)
    | 'j' :: r => do
        let (d, r) ← takeUntilSemi [] r
        let n ← natOfDecChars d
        pure (.num (.neg (-(n : Int))), r)
    | 'd' :: r =>
        let h := r.take 16
        if h.length == 16 then
          (natOfHexChars h).map fun n => (.num (.float (UInt64.ofNat n)), r.drop 16)
        else none
    | 'l' :: r => do
        let (d, r) ← takeUntilSemi [] r
        let b ← bytesOfHexChars d
        pure (.num (.lit b), r)
    | 's' :: r => do
        let (d, r) ← takeUntilSemi [] r
        let b ← bytesOfHexChars d
        pure (.str b, r)
    | 'a' :: r => do
        let (d, r) ← takeUntilSemi [] r
        let n ← natOfDecChars d
        let rec elems (k : Nat) (r : List Char) (acc : List JV) : Option (List JV × List Char) :=
          match k with
          | 0 => some (acc.reverse, r)
          | k + 1 => match decJV fuel r with
            | some (v, r) => elems k r (v :: acc)
            | none => none
        let (xs, r) ← elems n r []
        pure (.arr xs, r)
    | 'o' :: r => do
        let (d, r) ← takeUntilSemi [] r
        let n ← natOfDecChars d
        let rec membs (k : Nat) (r : List Char) (acc : List (Bytes × JV)) :
            Option (List (Bytes × JV) × List Char) :=
          match k with
          | 0 => some (acc.reverse, r)
          | k + 1 => match r with
            | 's' :: r => match takeUntilSemi [] r with
              | some (d, r) => match bytesOfHexChars d, decJV fuel r with
                | some key, some (v, r) => membs k r ((key, v) :: acc)
                | _, _ => none
              | none => none
            | _ => none
        let (kvs, r) ← membs n r []
        pure (.obj kvs, r)
    | _ => none

def decodeJV (s : String) : Option JV :=
  let cs := s.toList
  match decJV (cs.length + 1) cs with
  | some (v, []) => some v
  | _ => none

end SJ
