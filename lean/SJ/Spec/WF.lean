import SJ.Spec.Canon
import SJ.Spec.Number
import SJ.Spec.Program
/-!
# The representation invariant of a `Value` (C04)

`wfValue cfg v` says that `v` is a value that `serde_json::Value` can actually hold in the build
described by `cfg`, and that is within the parser's nesting limit:

* numbers mirror `number::N`: `PosInt(u64)` is below 2^64, `NegInt(i64)` is negative and at least
  −2^63 (`Number::from(i64)` stores non-negative values as `PosInt`), `Float(f64)` is finite
  (`Number::from_f64` refuses NaN and ±inf); under `arbitrary_precision` a number is its literal text
  instead, an RFC 8259 number;
* strings and keys are valid UTF-8 (they are Rust `String`s);
* an object has no key twice; its entries iterate in strictly ascending byte order
  (`BTreeMap<String, Value>`; `bytesLt` is Rust's `Ord for String`) — under `preserve_order` in any
  order (`IndexMap`);
* nesting depth at most 127 unless the recursion limit is disabled (deeper values serialise but the
  parser refuses to read them back: `RecursionLimitExceeded`).
Import-free, computable (the driver evaluates it on every generated value).
-/
namespace SJ.Spec.WF
open SJ SJ.Spec.Canon

def wfNum (cfg : Cfg) : Num → Bool
  | .pos n => !cfg.ap && decide (n < 2 ^ 64)
  | .neg k => !cfg.ap && decide (-(2 ^ 63 : Int) ≤ k) && decide (k < 0)
  | .float b => !cfg.ap && Program.finite64 b
  | .lit s => cfg.ap && Number.isNumber s

/-- strictly ascending w.r.t. `bytesLt` (adjacent pairs; `bytesLt` is transitive) -/
def ascending : List Bytes → Bool
  | [] => true
  | [_] => true
  | a :: b :: r => bytesLt a b && ascending (b :: r)

def distinct : List Bytes → Bool
  | [] => true
  | a :: r => !r.contains a && distinct r

def keysOK (cfg : Cfg) (ks : List Bytes) : Bool := if cfg.po then distinct ks else ascending ks

mutual
/-- nesting depth: scalars 0, a container one more than its deepest child -/
def depthJV : JV → Nat
  | .arr xs => 1 + depthJVs xs
  | .obj kvs => 1 + depthJVm kvs
  | _ => 0
def depthJVs : List JV → Nat
  | [] => 0
  | x :: xs => max (depthJV x) (depthJVs xs)
def depthJVm : List (Bytes × JV) → Nat
  | [] => 0
  | (_, x) :: kvs => max (depthJV x) (depthJVm kvs)
end

mutual
/-- numbers, strings and key sets are well-formed throughout -/
def shapeOK (cfg : Cfg) : JV → Bool
  | .null => true
  | .bool _ => true
  | .num n => wfNum cfg n
  | .str s => Utf8.validUtf8 s
  | .arr xs => shapeOKs cfg xs
  | .obj kvs => keysOK cfg (kvs.map Prod.fst) && shapeOKm cfg kvs
def shapeOKs (cfg : Cfg) : List JV → Bool
  | [] => true
  | x :: xs => shapeOK cfg x && shapeOKs cfg xs
def shapeOKm (cfg : Cfg) : List (Bytes × JV) → Bool
  | [] => true
  | (k, x) :: kvs => Utf8.validUtf8 k && shapeOK cfg x && shapeOKm cfg kvs
end

/-- the representation invariant -/
def wfValue (cfg : Cfg) (v : JV) : Bool := shapeOK cfg v && (cfg.limitOff || decide (depthJV v ≤ 127))

mutual
/-- no `Float` anywhere in the value -/
def noFloat : JV → Bool
  | .num (.float _) => false
  | .arr xs => noFloats xs
  | .obj kvs => noFloatm kvs
  | _ => true
def noFloats : List JV → Bool
  | [] => true
  | x :: xs => noFloat x && noFloats xs
def noFloatm : List (Bytes × JV) → Bool
  | [] => true
  | (_, x) :: kvs => noFloat x && noFloatm kvs
end

mutual
/-- every `Float` in the value is finite -/
def finiteFloats : JV → Bool
  | .num (.float b) => Program.finite64 b
  | .arr xs => finiteFloatss xs
  | .obj kvs => finiteFloatsm kvs
  | _ => true
def finiteFloatss : List JV → Bool
  | [] => true
  | x :: xs => finiteFloats x && finiteFloatss xs
def finiteFloatsm : List (Bytes × JV) → Bool
  | [] => true
  | (_, x) :: kvs => finiteFloats x && finiteFloatsm kvs
end

/-- the printer/parser pair returns this double: the text `ryu` prints for `b`, read as a number
    literal and converted by the configured algorithm, is `Float(b)` again -/
def floatRT (cfg : Cfg) (ext : Program.Ext) (b : UInt64) : Bool :=
  match numOf cfg (Number.splitNumber (ext.ryu64 b)) with
  | some (.float b') => b' == b
  | _ => false

mutual
/-- every `Float` in the value is returned by the printer/parser pair -/
def floatsRT (cfg : Cfg) (ext : Program.Ext) : JV → Bool
  | .num (.float b) => floatRT cfg ext b
  | .arr xs => floatsRTs cfg ext xs
  | .obj kvs => floatsRTm cfg ext kvs
  | _ => true
def floatsRTs (cfg : Cfg) (ext : Program.Ext) : List JV → Bool
  | [] => true
  | x :: xs => floatsRT cfg ext x && floatsRTs cfg ext xs
def floatsRTm (cfg : Cfg) (ext : Program.Ext) : List (Bytes × JV) → Bool
  | [] => true
  | (_, x) :: kvs => floatsRT cfg ext x && floatsRTm cfg ext kvs
end

end SJ.Spec.WF
