import SJ.Spec.Number
/-!
# Serializer programs — the quantification domain of C03 / C04 / C13 / C15

A *serializer program* `SVal` is a tree with one constructor per `serde::Serializer` entry point: it
is what a `Serialize` implementation *does* to a serializer (the universal replayer
`harness/src/prog.rs` turns a program back into exactly those calls, against any serde
`Serializer`). Type names (`_name: &'static str`) and variant indices are not recorded: the default
build of `serde_json` ignores them. (With the `arbitrary_precision` / `raw_value` features
`serialize_struct` special-cases the names `$serde_json::private::Number` / `…RawValue`; the only
such program that `serde_json` itself produces — `Number`'s own `Serialize` — is the constructor
`numberLit`; other uses of the magic names are outside the modelled fragment.)

The types live in `SJ/Spec` because the data-model image (`Spec.Image`) is defined on them; they are
re-exported as `SJ.Model.Ser.SVal` etc. Import-free.
-/
namespace SJ.Spec.Program
open SJ SJ.Spec.Grammar

/-- which of the twelve integer entry points (`serialize_i8` … `serialize_u128`) -/
inductive IntW where
  | i8 | i16 | i32 | i64 | i128 | u8 | u16 | u32 | u64 | u128
deriving DecidableEq, Repr, Inhabited

def IntW.bits : IntW → Nat
  | .i8 | .u8 => 8 | .i16 | .u16 => 16 | .i32 | .u32 => 32 | .i64 | .u64 => 64 | .i128 | .u128 => 128
def IntW.signed : IntW → Bool
  | .i8 | .i16 | .i32 | .i64 | .i128 => true
  | _ => false
/-- the values the Rust type can hold -/
def IntW.inRange (w : IntW) (n : Int) : Bool :=
  if w.signed then decide (-(2 ^ (w.bits - 1) : Int) ≤ n) && decide (n < (2 ^ (w.bits - 1) : Int))
  else decide (0 ≤ n) && decide (n < (2 ^ w.bits : Int))

inductive SVal where
  | bool (b : Bool)
  /-- `serialize_i8` … `serialize_u128`: the mathematical value and the entry point used -/
  | int (w : IntW) (n : Int)
  | f32 (bits : UInt32)
  | f64 (bits : UInt64)
  /-- `serialize_char`: the code point -/
  | char (cp : Nat)
  /-- `serialize_str`: the UTF-8 bytes -/
  | str (s : Bytes)
  | bytes (bs : Bytes)
  | none
  | some (p : SVal)
  | unit
  | unitStruct
  | unitVariant (variant : Bytes)
  | newtypeStruct (p : SVal)
  | newtypeVariant (variant : Bytes) (p : SVal)
  /-- `serialize_seq(hint)`, one `serialize_element` per element, `end` -/
  | seq (hint : Option Nat) (elems : List SVal)
  /-- `serialize_tuple(len)` with `len` = number of elements -/
  | tuple (elems : List SVal)
  | tupleStruct (elems : List SVal)
  | tupleVariant (variant : Bytes) (elems : List SVal)
  /-- `serialize_map(hint)`, `serialize_key` / `serialize_value` per entry, `end`; keys are programs -/
  | map (hint : Option Nat) (entries : List (SVal × SVal))
  /-- `serialize_struct(_, len)` with `len` = number of fields, `serialize_field(name, v)`, `end` -/
  | struct_ (fields : List (Bytes × SVal))
  | structVariant (variant : Bytes) (fields : List (Bytes × SVal))
  /-- `collect_str(&display)`: the text `Display` produces (handed over in one `write_str`) -/
  | collectStr (s : Bytes)
  /-- `arbitrary_precision` only: what `impl Serialize for Number` does there (a one-field struct
      with the magic name carrying the literal text) -/
  | numberLit (s : Bytes)
deriving Repr, Inhabited

/-- how serialisation fails (`ErrorCode`); I/O errors are the writer's, see C13 -/
inductive SerErr where
  | keyMustBeAString
  | floatKeyMustBeFinite
  /-- `value::Serializer` only (C15): a 128-bit integer outside [i64::MIN, u64::MAX] without
      `arbitrary_precision` (`ErrorCode::NumberOutOfRange`); the text serializer never raises it -/
  | numberOutOfRange
deriving DecidableEq, Repr, Inhabited

/-- external printers (crates `itoa`, `ryu`) as parameters -/
structure Ext where
  /-- `itoa::Buffer::format` at any of the twelve integer types -/
  itoa : Int → Bytes
  /-- `ryu::Buffer::format_finite::<f64>` on the IEEE-754 bit pattern -/
  ryu64 : UInt64 → Bytes
  /-- `ryu::Buffer::format_finite::<f32>` -/
  ryu32 : UInt32 → Bytes

/-- `f64::is_finite` on the bit pattern: exponent field not all ones -/
def finite64 (b : UInt64) : Bool := (b >>> 52) &&& 0x7ff != 0x7ff
/-- `f32::is_finite` on the bit pattern -/
def finite32 (b : UInt32) : Bool := (b >>> 23) &&& 0xff != 0xff

/-- the recorded assumptions about the external printers -/
structure ExtOK (ext : Ext) : Prop where
  /-- `itoa` prints the plain decimal digits of the value -/
  itoa_decimal : ∀ n, ext.itoa n = Number.decimal n
  /-- `ryu` prints finite doubles as RFC 8259 numbers -/
  ryu64_number : ∀ b, finite64 b = true → IsNumber (ext.ryu64 b)
  ryu32_number : ∀ b, finite32 b = true → IsNumber (ext.ryu32 b)

/-! ## well-formed programs: the serde contract on length hints -/

def hintOK (hint : Option Nat) (len : Nat) : Bool :=
  match hint with
  | none => true
  | some n => n == len

mutual
/-- every `seq`/`map` hint is `None` or `Some(exact length)`; a `numberLit` carries a number literal -/
def SVal.wf : SVal → Bool
  | .some p | .newtypeStruct p | .newtypeVariant _ p => p.wf
  | .seq h xs => hintOK h xs.length && wfList xs
  | .tuple xs | .tupleStruct xs | .tupleVariant _ xs => wfList xs
  | .map h es => hintOK h es.length && wfEntries es
  | .struct_ fs | .structVariant _ fs => wfFields fs
  | .numberLit s => Number.isNumber s
  | _ => true
termination_by structural p => p
def wfList : List SVal → Bool
  | [] => true
  | x :: xs => x.wf && wfList xs
def wfEntries : List (SVal × SVal) → Bool
  | [] => true
  | (k, v) :: es => k.wf && v.wf && wfEntries es
def wfFields : List (Bytes × SVal) → Bool
  | [] => true
  | (_, v) :: fs => v.wf && wfFields fs
end

/-! ## rewriting the hints (C03 `c03_hints`) -/

mutual
/-- replace every length hint: by `None` (`exact = false`) or by `Some(actual length)` -/
def SVal.setHints (exact : Bool) : SVal → SVal
  | .some p => .some (p.setHints exact)
  | .newtypeStruct p => .newtypeStruct (p.setHints exact)
  | .newtypeVariant n p => .newtypeVariant n (p.setHints exact)
  | .seq _ xs => .seq (if exact then Option.some xs.length else Option.none) (setHintsList exact xs)
  | .tuple xs => .tuple (setHintsList exact xs)
  | .tupleStruct xs => .tupleStruct (setHintsList exact xs)
  | .tupleVariant n xs => .tupleVariant n (setHintsList exact xs)
  | .map _ es => .map (if exact then Option.some es.length else Option.none) (setHintsEntries exact es)
  | .struct_ fs => .struct_ (setHintsFields exact fs)
  | .structVariant n fs => .structVariant n (setHintsFields exact fs)
  | p => p
termination_by structural p => p
def setHintsList (exact : Bool) : List SVal → List SVal
  | [] => []
  | x :: xs => x.setHints exact :: setHintsList exact xs
def setHintsEntries (exact : Bool) : List (SVal × SVal) → List (SVal × SVal)
  | [] => []
  | (k, v) :: es => (k.setHints exact, v.setHints exact) :: setHintsEntries exact es
def setHintsFields (exact : Bool) : List (Bytes × SVal) → List (Bytes × SVal)
  | [] => []
  | (n, v) :: fs => (n, v.setHints exact) :: setHintsFields exact fs
end

end SJ.Spec.Program
