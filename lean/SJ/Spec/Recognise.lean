import SJ.Spec.Number
/-!
# An independent recogniser for JSON texts (used to check the implementation's output bytes)

A small fuelled recursive descent over the RFC 8259 grammar of `Spec.Grammar`, producing the same
`CST`. `recognise ws bs`: with `ws = true` insignificant whitespace is accepted wherever the grammar
allows it; with `ws = false` none is accepted anywhere (the "compact" language: no whitespace
outside strings). It shares nothing with the serializer model or with `Spec.Image`.

Soundness (`recognise ws bs = some t → JsonText bs t`) is `SJ.Proofs.Recognise.recognise_sound`.
Import-free.
-/
namespace SJ.Spec.Recognise
open SJ SJ.Spec.Grammar

def skipWs (ws : Bool) (bs : Bytes) : Bytes := if ws then bs.dropWhile isWs else bs

/-- after the opening quote: the items up to the closing quote, and what follows it -/
def strTail : Bytes → Option (List StrItem × Bytes)
  | [] => none
  | c :: r =>
    if c == 0x22 then some ([], r)
    else if c == 0x5c then
      match r with
      | [] => none
      | e :: r' =>
        if e == 0x75 then
          match r' with
          | h1 :: h2 :: h3 :: h4 :: r'' =>
            if isHex h1 && isHex h2 && isHex h3 && isHex h4 then
              match strTail r'' with
              | some (items, rest) => some (.uni h1 h2 h3 h4 :: items, rest)
              | none => none
            else none
          | _ => none
        else if isSimpleEscape e then
          match strTail r' with
          | some (items, rest) => some (.esc e :: items, rest)
          | none => none
        else none
    else if isUnescaped c then
      match strTail r with
      | some (items, rest) => some (.raw c :: items, rest)
      | none => none
    else none

/-- bytes that can occur in a number literal -/
def isNumByte (b : UInt8) : Bool :=
  isDigit b || b == 0x2d || b == 0x2b || b == 0x2e || b == 0x65 || b == 0x45

/-- a number: the longest run of number bytes, which must be a number literal -/
def number (bs : Bytes) : Option (CST × Bytes) :=
  let tok := bs.takeWhile isNumByte
  if Number.isNumber tok then some (.num (Number.splitNumber tok), bs.dropWhile isNumByte) else none

/-- `bs` starts with `lit` -/
def literal (lit : Bytes) (t : CST) (bs : Bytes) : Option (CST × Bytes) :=
  if bs.take lit.length == lit then some (t, bs.drop lit.length) else none

mutual
/-- one `value` at the head of `bs` (no leading whitespace): its tree and the remaining bytes -/
def value (ws : Bool) : Nat → Bytes → Option (CST × Bytes)
  | 0, _ => none
  | fuel + 1, bs =>
    match bs with
    | [] => none
    | c :: r =>
      if c == 0x6e then literal [0x6e, 0x75, 0x6c, 0x6c] .null bs
      else if c == 0x74 then literal [0x74, 0x72, 0x75, 0x65] .true_ bs
      else if c == 0x66 then literal [0x66, 0x61, 0x6c, 0x73, 0x65] .false_ bs
      else if c == 0x22 then
        match strTail r with
        | some (items, rest) => some (.str items, rest)
        | none => none
      else if c == 0x5b then
        match skipWs ws r with
        | [] => none
        | d :: r' =>
          if d == 0x5d then some (.arr [], r')
          else match elems ws fuel (d :: r') with
            | some (ts, rest) => some (.arr ts, rest)
            | none => none
      else if c == 0x7b then
        match skipWs ws r with
        | [] => none
        | d :: r' =>
          if d == 0x7d then some (.obj [], r')
          else match members ws fuel (d :: r') with
            | some (ms, rest) => some (.obj ms, rest)
            | none => none
      else number bs
/-- `value ws *( "," ws value ws ) "]"` -/
def elems (ws : Bool) : Nat → Bytes → Option (List CST × Bytes)
  | 0, _ => none
  | fuel + 1, bs =>
    match value ws fuel bs with
    | none => none
    | some (t, r) =>
      match skipWs ws r with
      | [] => none
      | c :: r' =>
        if c == 0x5d then some ([t], r')
        else if c == 0x2c then
          match elems ws fuel (skipWs ws r') with
          | some (ts, rest) => some (t :: ts, rest)
          | none => none
        else none
/-- `string ws ":" ws value ws *( "," ws member ws ) "}"` -/
def members (ws : Bool) : Nat → Bytes → Option (List (List StrItem × CST) × Bytes)
  | 0, _ => none
  | fuel + 1, bs =>
    match bs with
    | [] => none
    | q :: r =>
      if q == 0x22 then
        match strTail r with
        | none => none
        | some (k, r) =>
          match skipWs ws r with
          | [] => none
          | c :: r' =>
            if c == 0x3a then
              match value ws fuel (skipWs ws r') with
              | none => none
              | some (t, r) =>
                match skipWs ws r with
                | [] => none
                | c :: r' =>
                  if c == 0x7d then some ([(k, t)], r')
                  else if c == 0x2c then
                    match members ws fuel (skipWs ws r') with
                    | some (ms, rest) => some ((k, t) :: ms, rest)
                    | none => none
                  else none
            else none
      else none
end

/-- `JSON-text = ws value ws` (with `ws = false`: exactly one value and no whitespace at all) -/
def recognise (ws : Bool) (bs : Bytes) : Option CST :=
  match value ws (2 * bs.length + 2) (skipWs ws bs) with
  | some (t, rest) => if (skipWs ws rest).isEmpty then some t else none
  | none => none

end SJ.Spec.Recognise
