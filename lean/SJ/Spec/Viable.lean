import SJ.Spec.Utf8
/-!
# Viable prefixes — "the bytes delivered so far do not yet doom the input"

C13 lets a reader fault surface as something other than `Io` only when the bytes delivered before the fault are already
wrong. "Already wrong" is a statement about the PREFIX alone: no continuation makes it an acceptable document. This file
decides a sufficient condition for the opposite, independently of every model and of the crate:

`strictViable p = true` ⟹ some continuation `c` makes `p ++ c` one RFC 8259 JSON text (surrounded by optional
whitespace) which every untyped target of the crate accepts (`Value`, `IgnoredAny`, `Box<RawValue>`): its strings are
valid UTF-8 without bare control characters and without `\u` escapes in the surrogate range, its numbers are far inside the
`f64` range, and it nests less than 100 deep. In particular a prefix that ends INSIDE a multi-byte UTF-8 character is
viable when the missing continuation bytes can still be supplied (`utf8Viable`); it is not an invalid document.

The test is one pass of a byte automaton over the RFC 8259 grammar (`step`) plus `Spec.Utf8.validUtf8` on the prefix
extended by each of the nine shortest candidate completions of a truncated character. It errs on the side of `false`
(surrogate escapes, huge numbers and deep nesting are "not sure"), so it can only be used in the direction
"viable ⟹ the outcome must be Io". Import-free (only `SJ.Spec.Utf8`).
-/
namespace SJ.Spec.Viable
open SJ

/-- where inside a number token the prefix stands -/
inductive NumSt
  | minus | zero | int | dot | frac | e | esign | exp
  deriving DecidableEq, Repr

inductive Mode
  /-- a value must start here (`close`: directly after `[`, so `]` may come instead) -/
  | value (close : Bool)
  /-- an object key must start here (`close`: directly after `{`, so `}` may come instead) -/
  | key (close : Bool)
  | colon
  /-- a value has just ended -/
  | after
  /-- inside a string; `esc = 0` plain, `1` after a backslash, `2..5` = before hex digit `esc - 1` of `\u`; `acc` = hex value so far -/
  | str (isKey : Bool) (esc : Nat) (acc : Nat)
  /-- inside a number; `n` counts integer digits resp. exponent digits -/
  | num (st : NumSt) (n : Nat)
  /-- inside `true` / `false` / `null`: the bytes still expected -/
  | lit (rest : Bytes)
  | bad
  deriving DecidableEq, Repr

structure St where
  /-- open containers, innermost first (`true` = object) -/
  stack : List Bool := []
  mode : Mode := .value false
  /-- something the conservative test does not vouch for was seen (surrogate escape, huge number, deep nesting) -/
  unsure : Bool := false
  deriving Repr

def isWs (b : UInt8) : Bool := b == 0x20 || b == 0x09 || b == 0x0a || b == 0x0d
def isDigit (b : UInt8) : Bool := 0x30 ≤ b && b ≤ 0x39

def hexVal (b : UInt8) : Option Nat :=
  if 0x30 ≤ b && b ≤ 0x39 then some (b.toNat - 0x30)
  else if 0x41 ≤ b && b ≤ 0x46 then some (b.toNat - 0x41 + 10)
  else if 0x61 ≤ b && b ≤ 0x66 then some (b.toNat - 0x61 + 10)
  else none

/-- a byte that follows a complete value -/
def afterValue (s : St) (b : UInt8) : St :=
  if isWs b then { s with mode := .after }
  else match s.stack, b with
    | false :: _, 0x2c => { s with mode := .value false }
    | true :: _, 0x2c => { s with mode := .key false }
    | false :: r, 0x5d => { s with stack := r, mode := .after }
    | true :: r, 0x7d => { s with stack := r, mode := .after }
    | _, _ => { s with mode := .bad }

def startValue (s : St) (close : Bool) (b : UInt8) : St :=
  if isWs b then s
  else if b == 0x22 then { s with mode := .str false 0 0 }
  else if b == 0x5b then { s with stack := false :: s.stack, mode := .value true, unsure := s.unsure || s.stack.length ≥ 99 }
  else if b == 0x7b then { s with stack := true :: s.stack, mode := .key true, unsure := s.unsure || s.stack.length ≥ 99 }
  else if b == 0x2d then { s with mode := .num .minus 0 }
  else if b == 0x30 then { s with mode := .num .zero 1 }
  else if isDigit b then { s with mode := .num .int 1 }
  else if b == 0x74 then { s with mode := .lit [0x72, 0x75, 0x65] }
  else if b == 0x66 then { s with mode := .lit [0x61, 0x6c, 0x73, 0x65] }
  else if b == 0x6e then { s with mode := .lit [0x75, 0x6c, 0x6c] }
  else if b == 0x5d && close then
    match s.stack with
    | false :: r => { s with stack := r, mode := .after }
    | _ => { s with mode := .bad }
  else { s with mode := .bad }

def stepNum (s : St) (st : NumSt) (n : Nat) (b : UInt8) : St :=
  let big (k : Nat) : Bool := s.unsure || k > 200
  match st with
  | .minus => if b == 0x30 then { s with mode := .num .zero 1 } else if isDigit b then { s with mode := .num .int 1 } else { s with mode := .bad }
  | .zero =>
    if b == 0x2e then { s with mode := .num .dot 0 } else if b == 0x65 || b == 0x45 then { s with mode := .num .e 0 }
    else if isDigit b then { s with mode := .bad } else afterValue s b
  | .int =>
    if isDigit b then { s with mode := .num .int (n + 1), unsure := big (n + 1) }
    else if b == 0x2e then { s with mode := .num .dot 0 } else if b == 0x65 || b == 0x45 then { s with mode := .num .e 0 }
    else afterValue s b
  | .dot => if isDigit b then { s with mode := .num .frac 0 } else { s with mode := .bad }
  | .frac =>
    if isDigit b then s else if b == 0x65 || b == 0x45 then { s with mode := .num .e 0 } else afterValue s b
  | .e => if b == 0x2b || b == 0x2d then { s with mode := .num .esign 0 } else if isDigit b then { s with mode := .num .exp 1 } else { s with mode := .bad }
  | .esign => if isDigit b then { s with mode := .num .exp 1 } else { s with mode := .bad }
  | .exp => if isDigit b then { s with mode := .num .exp (n + 1), unsure := s.unsure || n + 1 > 2 } else afterValue s b

def step (s : St) (b : UInt8) : St :=
  match s.mode with
  | .bad => s
  | .value close => startValue s close b
  | .key close =>
    if isWs b then s
    else if b == 0x22 then { s with mode := .str true 0 0 }
    else if b == 0x7d && close then
      match s.stack with
      | true :: r => { s with stack := r, mode := .after }
      | _ => { s with mode := .bad }
    else { s with mode := .bad }
  | .colon => if isWs b then s else if b == 0x3a then { s with mode := .value false } else { s with mode := .bad }
  | .after => afterValue s b
  | .str k 0 _ =>
    if b == 0x22 then { s with mode := if k then .colon else .after }
    else if b == 0x5c then { s with mode := .str k 1 0 }
    else if b < 0x20 then { s with mode := .bad }
    else s
  | .str k 1 _ =>
    if b == 0x75 then { s with mode := .str k 2 0 }
    else if [0x22, 0x5c, 0x2f, 0x62, 0x66, 0x6e, 0x72, 0x74].contains b then { s with mode := .str k 0 0 }
    else { s with mode := .bad }
  | .str k esc acc =>
    match hexVal b with
    | none => { s with mode := .bad }
    | some v =>
      let acc' := acc * 16 + v
      if esc ≥ 5 then { s with mode := .str k 0 0, unsure := s.unsure || (0xD800 ≤ acc' && acc' ≤ 0xDFFF) }
      else { s with mode := .str k (esc + 1) acc' }
  | .num st n => stepNum s st n b
  | .lit rest =>
    match rest with
    | [] => { s with mode := .bad }
    | c :: r => if b == c then { s with mode := if r.isEmpty then .after else .lit r } else { s with mode := .bad }

def run (p : Bytes) : St := p.foldl step {}

/-- the shortest completions of a truncated UTF-8 character: `80` fits a general / ED / F4 lead, `A0` an E0 lead, `90` an F0 lead -/
def utf8Completions : List Bytes :=
  [[], [0x80], [0x90], [0xA0], [0x80, 0x80], [0x90, 0x80], [0xA0, 0x80], [0x80, 0x80, 0x80], [0x90, 0x80, 0x80]]

/-- some continuation makes the prefix valid UTF-8: it is valid up to a character that its last 0..3 bytes may still begin -/
def utf8Viable (p : Bytes) : Bool := utf8Completions.any fun c => Utf8.validUtf8 (p ++ c)

/-- grammar viability alone: the automaton has not rejected a byte (every non-`bad` state has a completion) -/
def grammarViable (p : Bytes) : Bool := (run p).mode != .bad

/-- the conservative test of the header -/
def strictViable (p : Bytes) : Bool :=
  let s := run p
  s.mode != .bad && !s.unsure && utf8Viable p

/-- first byte that is not whitespace (`none`: the prefix is blank) -/
def firstByte (p : Bytes) : Option UInt8 := (p.dropWhile isWs).head?

-- `"é` cut between the two bytes of `é` is viable; with a wrong continuation byte it is not; a complete document is;
-- a bare control character, a leading zero, a mismatched bracket are not
example : strictViable [0x22, 0xc3] = true := by decide
example : strictViable [0x22, 0xc3, 0x22] = false := by decide
example : strictViable [0x22, 0xe0, 0x80] = false := by decide
example : strictViable [0x5b, 0x22, 0xf0, 0x9f, 0x98] = true := by decide
example : strictViable [0x7b, 0x22, 0x61, 0x22, 0x3a, 0x5b, 0x31, 0x2c, 0x74, 0x72] = true := by decide
example : strictViable [0x5b, 0x31, 0x5d, 0x20] = true := by decide
example : strictViable [0x5b, 0x30, 0x31] = false := by decide
example : strictViable [0x5b, 0x7d] = false := by decide
example : strictViable [0x22, 0x0a] = false := by decide
example : strictViable [0x5b, 0x31, 0x5d, 0x2c] = false := by decide

end SJ.Spec.Viable
