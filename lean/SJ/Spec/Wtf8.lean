import SJ.Spec.Denote
/-!
# A JSON string literal decoded to BYTES (C05, last sentence of the statement)

"Deserialised as bytes, the same decoding applies except that unpaired surrogates come out in WTF-8
form and raw non-UTF-8 bytes pass through unchanged."

The literal is taken as a list of items (`Spec.Grammar.StrItem`: a raw byte, `\c`, `\uXXXX`), exactly
as for the text targets (`Spec.Denote.decodeItems`), with three differences, each of which is what the
crate does with `validate = false` (`Read::parse_str_raw`, `src/read.rs`):

* an UNPAIRED surrogate escape (a high one not followed by a low one, a low one not preceded by a
  high one) is not an error: it decodes to its three-byte generalized UTF-8 (WTF-8) encoding
  `ED A0..BF 80..BF` (`Spec.Denote.utf8` of the surrogate code point);
* raw bytes are copied without UTF-8 validation (`0x80–0xFF` in any arrangement);
* a raw byte is anything but `"` and `\` — a bare control character `0x00–0x1F` is COPIED, not
  rejected (observed on the crate for all three sources: `"\n"` as `ByteBuf` is `[0x0a]`; the same
  convention as `Spec.Str.stopsScan … (forbidControl := false)`).

A paired escape decodes, as for text, to the four-byte UTF-8 of the scalar. Import-free.
-/
namespace SJ.Spec.Wtf8
open SJ SJ.Spec.Grammar SJ.Spec.Denote

/-- well-formed item of a literal read as bytes: the escapes of RFC 8259 §7; a raw byte is any byte
    other than `"` and `\` (no lower bound `0x20`, no UTF-8 requirement) -/
def ItemOK : StrItem → Bool
  | .raw b => b != 0x22 && b != 0x5c
  | .esc c => isSimpleEscape c
  | .uni a b c d => isHex a && isHex b && isHex c && isHex d

def ItemsOK (items : List StrItem) : Bool := items.all ItemOK

/-- the scalar a surrogate pair stands for -/
def pairVal (hi lo : Nat) : Nat := 0x10000 + (hi - 0xD800) * 0x400 + (lo - 0xDC00)

/-- The bytes a literal stands for: raw bytes copied, simple escapes replaced, `\uXXXX` → UTF-8 of the
    code point, a high surrogate escape IMMEDIATELY followed by a low surrogate escape → the four-byte
    UTF-8 of the pair's scalar, any other surrogate escape → its three-byte WTF-8 form. Total. -/
def decodeBytes : List StrItem → Bytes
  | [] => []
  | .raw b :: rest => b :: decodeBytes rest
  | .esc c :: rest => simpleEscape c :: decodeBytes rest
  | .uni a b c d :: rest =>
    let n := uniVal a b c d
    -- the escape on its own: scalars, a low surrogate standing alone, an unpaired high surrogate (WTF-8);
    -- the next escape then starts afresh
    let alone := utf8 n ++ decodeBytes rest
    if isHighSurrogate n then
      match rest with
      | .uni e f g h :: rest' =>
        let m := uniVal e f g h
        if isLowSurrogate m then utf8 (pairVal n m) ++ decodeBytes rest' else alone
      | _ => alone
    else alone

/-! ## splitting the input into items (what "the literal" of an arbitrary byte string is) -/

/-- result of reading items up to the closing quote -/
inductive Lex where
  /-- the items, and what follows the closing quote -/
  | ok (items : List StrItem) (rest : Bytes)
  /-- `\` followed by a byte that starts no escape, or `\u` followed by four bytes that are not all hex
      digits; `n` = number of bytes up to and including the offending one (the fourth of the group) -/
  | badEscape (n : Nat)
  /-- the input ends before the closing quote (also: inside an escape) -/
  | eof
deriving Repr, DecidableEq

def Lex.cons (it : StrItem) : Lex → Lex
  | .ok items rest => .ok (it :: items) rest
  | .badEscape n => .badEscape (it.bytes.length + n)
  | .eof => .eof

/-- RFC 8259 §7 item structure, read from just after the opening quote -/
def lex : Bytes → Lex
  | [] => .eof
  | b :: r =>
    if b == 0x22 then .ok [] r
    else if b == 0x5c then
      match r with
      | [] => .eof
      | c :: r1 =>
        if c == 0x75 then
          match r1 with
          | h1 :: h2 :: h3 :: h4 :: r2 =>
            if isHex h1 && isHex h2 && isHex h3 && isHex h4 then (lex r2).cons (.uni h1 h2 h3 h4)
            else .badEscape 6
          | _ => .eof
        else if isSimpleEscape c then (lex r1).cons (.esc c)
        else .badEscape 2
    else (lex r).cons (.raw b)

end SJ.Spec.Wtf8
