import SJ.Spec.Value
/-!
# The exact value of a JSON number literal (RFC 8259 §6)

```
number = [ minus ] int [ frac ] [ exp ]
int    = zero / ( digit1-9 *DIGIT )
frac   = decimal-point 1*DIGIT
exp    = e [ minus / plus ] 1*DIGIT
```
A literal is kept as its digit strings; its value is `± D · 10^(±E − |frac|)` where `D` is the number
written by the integer digits followed by the fraction digits and `E` the number written by the
exponent digits. Everything is a pair of naturals (no `ℚ`: the driver links this file).
-/
namespace SJ.Spec.Decimal
open SJ

structure NumLit where
  neg : Bool
  /-- ASCII digits of `int` -/
  intDigits : Bytes
  /-- ASCII digits after the decimal point; empty when there is no `frac` -/
  fracDigits : Bytes
  /-- the exponent carries a `-` -/
  expNeg : Bool
  /-- ASCII digits of the exponent; empty when there is no `exp` -/
  expDigits : Bytes
deriving Repr, DecidableEq, Inhabited

def isDigit (b : UInt8) : Bool := 0x30 ≤ b && b ≤ 0x39

/-- the digit a byte writes (`b - '0'`) -/
def digitVal (b : UInt8) : Nat := b.toNat - 48

/-- the natural number written by a string of ASCII digits, most significant first -/
def digitsVal (ds : Bytes) : Nat := ds.foldl (fun a d => a * 10 + digitVal d) 0

/-- all significand digits, integer part first -/
def NumLit.digits (l : NumLit) : Bytes := l.intDigits ++ l.fracDigits

/-- `D`: the significand read as an integer -/
def NumLit.sigVal (l : NumLit) : Nat := digitsVal l.digits

/-- `E`: the number written by the exponent digits (0 when absent) -/
def NumLit.expVal (l : NumLit) : Nat := digitsVal l.expDigits

/-- net decimal exponent of the integer significand: value `= ± D · 10^netExp` -/
def NumLit.netExp (l : NumLit) : Int :=
  (if l.expNeg then -(l.expVal : Int) else (l.expVal : Int)) - (l.fracDigits.length : Int)

/-- `D · 10^e` as a fraction -/
def scale10 (D : Nat) (e : Int) : Nat × Nat :=
  if e ≥ 0 then (D * 10 ^ e.toNat, 1) else (D, 10 ^ (-e).toNat)

/-- `(num, den)` with `|value| = num/den`, `den > 0` -/
def NumLit.exact (l : NumLit) : Nat × Nat := scale10 l.sigVal l.netExp

/-- the same with the written exponent clamped to `cap` (for the driver: `1e99999999999` must not be
    expanded). If `cap ≥ 1100 + number of digits`, a non-zero value stays `≥ 10^1100` resp.
    `≤ 10^-1100`, far outside the finite/non-zero range of binary64, so no verdict that compares with
    binary64 values changes. -/
def NumLit.exactClamped (l : NumLit) (cap : Nat) : Nat × Nat :=
  let E := min l.expVal cap
  scale10 l.sigVal ((if l.expNeg then -(E : Int) else (E : Int)) - (l.fracDigits.length : Int))

/-- grammatical well-formedness of the pieces -/
def NumLit.WF (l : NumLit) : Bool :=
  l.intDigits.all isDigit && l.fracDigits.all isDigit && l.expDigits.all isDigit &&
  (match l.intDigits with
   | [] => false
   | [_] => true
   | d :: _ => d != 0x30) &&
  (!l.expDigits.isEmpty || !l.expNeg)

/-! ## Parsing the RFC 8259 number grammar -/

def takeDigits (bs : Bytes) : Bytes × Bytes := (bs.takeWhile isDigit, bs.dropWhile isDigit)

/-- `none` unless the whole byte string is exactly one `number` -/
def NumLit.parse (bs : Bytes) : Option NumLit :=
  let (neg, bs) := match bs with
    | 0x2d :: r => (true, r)
    | _ => (false, bs)
  let (int, rest) := takeDigits bs
  let intOk := match int with
    | [] => false
    | [_] => true
    | d :: _ => d != 0x30
  if !intOk then none else
  -- frac
  let fracRes : Option (Bytes × Bytes) := match rest with
    | 0x2e :: r =>
      let (fr, r') := takeDigits r
      if fr.isEmpty then none else some (fr, r')
    | _ => some ([], rest)
  match fracRes with
  | none => none
  | some (frac, rest) =>
    match rest with
    | [] => some ⟨neg, int, frac, false, []⟩
    | c :: r =>
      if c == 0x65 || c == 0x45 then
        let (eneg, r) := match r with
          | 0x2d :: r' => (true, r')
          | 0x2b :: r' => (false, r')
          | _ => (false, r)
        let (ex, r') := takeDigits r
        if ex.isEmpty || !r'.isEmpty then none else some ⟨neg, int, frac, eneg, ex⟩
      else none

end SJ.Spec.Decimal
