/-!
# IEEE-754 binary64 / binary32 on exact integers

Lean's `Float` is opaque to the kernel, so floats are *bit patterns* (`UInt64`, `UInt32`) with an
exact dyadic semantics, and rounding is defined on exact naturals.

Every finite binary64 value is an integer multiple of `2^-1074` (binary32: `2^-149`). With
`P = 2^52`, a bit pattern without its sign, `u = E·P + M`, has magnitude (in units of `2^-1074`)

    mag u = M                      if E = 0      (subnormal, zero)
          = (P + M) · 2^(E-1)      if 1 ≤ E ≤ 2046

and `u ↦ mag u` is strictly increasing, which is what makes "round, then add the exponent to the
bit pattern" correct across binade and subnormal boundaries.

Import-free and computable (the driver links it); the theorems are in `SJ/Proofs/Ieee.lean`.
-/
namespace SJ.Spec.Ieee

/-! ## Round-half-even of a non-negative rational to a natural -/

/-- nearest natural to `num/den` (`den > 0`), ties to the even one -/
def rne (num den : Nat) : Nat :=
  let q := num / den
  let r := num % den
  if 2 * r < den then q else if den < 2 * r then q + 1 else if q % 2 = 0 then q else q + 1

/-! ## Format-generic core on naturals -/

/-- a binary interchange format: `mbits` stored significand bits, `ebits` exponent bits -/
structure Fmt where
  mbits : Nat
  ebits : Nat
deriving Repr, DecidableEq

def b64 : Fmt := ⟨52, 11⟩
def b32 : Fmt := ⟨23, 8⟩

namespace Fmt
/-- exponent bias: 1023 / 127 -/
def bias (F : Fmt) : Nat := 2 ^ (F.ebits - 1) - 1
/-- every finite value is a multiple of `2^-qexp`: 1074 / 149 -/
def qexp (F : Fmt) : Nat := F.bias - 1 + F.mbits
/-- unsigned bit pattern of +∞ (exponent field all ones, significand 0); finite patterns are below -/
def infBits (F : Fmt) : Nat := (2 ^ F.ebits - 1) * 2 ^ F.mbits
/-- the sign bit -/
def signBit (F : Fmt) : Nat := 2 ^ (F.mbits + F.ebits)
end Fmt

/-- magnitude, in units of `2^-qexp`, of the finite unsigned bit pattern `u` -/
def magOfBits (F : Fmt) (u : Nat) : Nat :=
  let E := u / 2 ^ F.mbits
  let M := u % 2 ^ F.mbits
  if E = 0 then M else (2 ^ F.mbits + M) * 2 ^ (E - 1)

/-- Round-to-nearest-even of `a/b` (already expressed in units of `2^-qexp`, `b > 0`) to an unsigned
    bit pattern. `k` is the binade's spacing exponent: `2^(mbits+k) ≤ a/b < 2^(mbits+k+1)` when
    `k ≥ 1`, and `k = 0` through the subnormals and the first normal binade. The significand
    `rne (a / (b·2^k))` lies in `[2^mbits, 2^(mbits+1)]` (or below `2^mbits` for subnormals), and adding
    it to `k·2^mbits` yields the right pattern in every case, including the carry into the next
    binade. A result `≥ infBits` means the rounded value is not finite (overflow). -/
def roundMag (F : Fmt) (a b : Nat) : Nat :=
  let k := Nat.log2 (a / b) - F.mbits
  k * 2 ^ F.mbits + rne a (b * 2 ^ k)

/-- signed rounding of `±num/den`: `none` on overflow -/
def roundBits (F : Fmt) (neg : Bool) (num den : Nat) : Option Nat :=
  let r := roundMag F (num * 2 ^ F.qexp) den
  if r < F.infBits then some (if neg then F.signBit + r else r) else none

/-- unit in the last place (in units of `2^-qexp`) of the finite unsigned pattern `u` -/
def ulpOfBits (F : Fmt) (u : Nat) : Nat := 2 ^ (u / 2 ^ F.mbits - 1)

/-! ## binary64 as `UInt64` -/

namespace F64
def sign (b : UInt64) : Bool := b.toNat / 2 ^ 63 == 1
def expField (b : UInt64) : Nat := b.toNat / 2 ^ 52 % 2 ^ 11
def mantField (b : UInt64) : Nat := b.toNat % 2 ^ 52
/-- the pattern without its sign bit -/
def absBits (b : UInt64) : Nat := b.toNat % 2 ^ 63
def isNaN (b : UInt64) : Bool := expField b == 2047 && mantField b != 0
def isInf (b : UInt64) : Bool := expField b == 2047 && mantField b == 0
def isFinite (b : UInt64) : Bool := expField b != 2047

def posInf : UInt64 := 0x7ff0000000000000
def negInf : UInt64 := 0xfff0000000000000
def nan : UInt64 := 0x7ff8000000000000
def inf (neg : Bool) : UInt64 := if neg then negInf else posInf
def zero (neg : Bool) : UInt64 := if neg then 0x8000000000000000 else 0

/-- `(m, e)` with value `= m · 2^e` (sign in `m`; `±0 ↦ (0, -1074)`); `none` for NaN and ±∞ -/
def toDyadic (b : UInt64) : Option (Int × Int) :=
  if expField b = 2047 then none
  else
    let m : Nat := if expField b = 0 then mantField b else 2 ^ 52 + mantField b
    let e : Int := if expField b = 0 then -1074 else (expField b : Int) - 1075
    some (if sign b then -(m : Int) else (m : Int), e)

/-- `|value| · 2^1074` as a natural (meaningful for finite patterns) -/
def mag (b : UInt64) : Nat := magOfBits b64 (absBits b)

/-- `f == 0.0` -/
def isZero (b : UInt64) : Bool := absBits b == 0

/-- flip the sign bit (adding `2^63` modulo `2^64` is the same as xor-ing it) -/
def neg (b : UInt64) : UInt64 := b + 0x8000000000000000
end F64

/-- IEEE-754 round-to-nearest-even of the rational `±num/den` (`den > 0`) to binary64; `none` when the
    rounded result is not finite (`num/den ≥ 2^1024 − 2^970`); `num = 0` gives `±0` by sign -/
def roundNE64 (neg : Bool) (num den : Nat) : Option UInt64 :=
  (roundBits b64 neg num den).map UInt64.ofNat

namespace F64
/-- rounding that overflows to `±∞` (what the hardware operations do) -/
def roundOrInf (neg : Bool) (num den : Nat) : UInt64 := (roundNE64 neg num den).getD (inf neg)

/-- IEEE multiplication: exact product, rounded once -/
def mul (a b : UInt64) : UInt64 :=
  let s := sign a != sign b
  if isNaN a || isNaN b then nan
  else if isInf a || isInf b then
    if isZero a || isZero b then nan else inf s
  else roundOrInf s (mag a * mag b) (2 ^ 1074 * 2 ^ 1074)

/-- IEEE division: exact quotient, rounded once -/
def div (a b : UInt64) : UInt64 :=
  let s := sign a != sign b
  if isNaN a || isNaN b then nan
  else if isInf a then (if isInf b then nan else inf s)
  else if isInf b then zero s
  else if isZero b then (if isZero a then nan else inf s)
  else roundOrInf s (mag a) (mag b)

/-- `n as f64` for an unsigned integer -/
def ofU64 (n : Nat) : UInt64 := roundOrInf false n 1
end F64

/-! ## binary32 as `UInt32` -/

namespace F32
def sign (b : UInt32) : Bool := b.toNat / 2 ^ 31 == 1
def expField (b : UInt32) : Nat := b.toNat / 2 ^ 23 % 2 ^ 8
def mantField (b : UInt32) : Nat := b.toNat % 2 ^ 23
def absBits (b : UInt32) : Nat := b.toNat % 2 ^ 31
def isNaN (b : UInt32) : Bool := expField b == 255 && mantField b != 0
def isInf (b : UInt32) : Bool := expField b == 255 && mantField b == 0
def isFinite (b : UInt32) : Bool := expField b != 255
def posInf : UInt32 := 0x7f800000
def negInf : UInt32 := 0xff800000
def nan : UInt32 := 0x7fc00000
def inf (neg : Bool) : UInt32 := if neg then negInf else posInf

def toDyadic (b : UInt32) : Option (Int × Int) :=
  if expField b = 255 then none
  else
    let m : Nat := if expField b = 0 then mantField b else 2 ^ 23 + mantField b
    let e : Int := if expField b = 0 then -149 else (expField b : Int) - 150
    some (if sign b then -(m : Int) else (m : Int), e)

/-- `|value| · 2^149` -/
def mag (b : UInt32) : Nat := magOfBits b32 (absBits b)
end F32

def roundNE32 (neg : Bool) (num den : Nat) : Option UInt32 :=
  (roundBits b32 neg num den).map UInt32.ofNat

namespace F32
def roundOrInf (neg : Bool) (num den : Nat) : UInt32 := (roundNE32 neg num den).getD (inf neg)
/-- `n as f32` for an unsigned integer -/
def ofU64 (n : Nat) : UInt32 := roundOrInf false n 1
/-- flip the sign bit -/
def neg (b : UInt32) : UInt32 := b + 0x80000000
end F32

/-- Rust `x as f32` for `x : f64`: one rounding to nearest-even, overflow to `±∞`, NaN stays NaN -/
def F64.toF32 (bits : UInt64) : UInt32 :=
  if F64.isNaN bits then (if F64.sign bits then 0xffc00000 else 0x7fc00000)
  else if F64.isInf bits then F32.inf (F64.sign bits)
  else F32.roundOrInf (F64.sign bits) (F64.mag bits) (2 ^ 1074)

/-! ## The specification of rounding, in the standard's words

`x = num/den ≥ 0`, sign `neg`. A finite double `f` has `toDyadic f = (m, e)` with `e ≥ -1074`;
its distance from `±x` is compared after multiplying through by `den · 2^1074`. -/

/-- `|value f| · 2^1074` read off the dyadic form -/
def F64.scaled (f : UInt64) : Nat :=
  match F64.toDyadic f with
  | some (m, e) => m.natAbs * 2 ^ (e + 1074).toNat
  | none => 0

/-- `| |value f| − num/den | · den · 2^1074` -/
def dist64 (num den : Nat) (f : UInt64) : Nat :=
  ((F64.scaled f * den : Nat) - (num * 2 ^ 1074 : Nat) : Int).natAbs

/-- `r` is *the* IEEE round-to-nearest-even image of `±num/den`: finite, carrying the sign, at least as
    close as every other finite double, and with an even significand whenever another double is
    equally close. -/
def IsNearestEven64 (neg : Bool) (num den : Nat) (r : UInt64) : Prop :=
  F64.isFinite r = true ∧ F64.sign r = neg ∧
  (∀ f : UInt64, F64.isFinite f = true → dist64 num den r ≤ dist64 num den f) ∧
  (∀ f : UInt64, F64.isFinite f = true → F64.scaled f ≠ F64.scaled r →
      dist64 num den f = dist64 num den r → F64.mantField r % 2 = 0)

/-- `num/den ≥ 2^1024 − 2^970`, the point from which round-to-nearest yields infinity -/
def Overflows64 (num den : Nat) : Prop := (2 ^ 1024 - 2 ^ 970) * den ≤ num

def F32.scaled (f : UInt32) : Nat :=
  match F32.toDyadic f with
  | some (m, e) => m.natAbs * 2 ^ (e + 149).toNat
  | none => 0

def dist32 (num den : Nat) (f : UInt32) : Nat :=
  ((F32.scaled f * den : Nat) - (num * 2 ^ 149 : Nat) : Int).natAbs

def IsNearestEven32 (neg : Bool) (num den : Nat) (r : UInt32) : Prop :=
  F32.isFinite r = true ∧ F32.sign r = neg ∧
  (∀ f : UInt32, F32.isFinite f = true → dist32 num den r ≤ dist32 num den f) ∧
  (∀ f : UInt32, F32.isFinite f = true → F32.scaled f ≠ F32.scaled r →
      dist32 num den f = dist32 num den r → F32.mantField r % 2 = 0)

def Overflows32 (num den : Nat) : Prop := (2 ^ 128 - 2 ^ 103) * den ≤ num

/-! ## Executable tolerance check (used by the driver on the implementation's output) -/

/-- ulp (units of `2^-1074`) of the correctly rounded image of `num/den`; when that overflows, the ulp
    of the largest finite double (`2^971`) -/
def ulpOfExact64 (num den : Nat) : Nat :=
  let r := roundMag b64 (num * 2 ^ 1074) den
  if r < b64.infBits then ulpOfBits b64 r else 2 ^ 2045

/-- `(| |value r| − num/den | · den · 2^1074,  ulp · den)`: the error of `r` is `fst / snd` ulps, where
    the ulp is that of the correctly rounded value -/
def ulpDist (num den : Nat) (r : UInt64) : Nat × Nat :=
  (dist64 num den r, ulpOfExact64 num den * den)

/-- `r` is finite, carries the sign `neg`, and `| |value r| − num/den | ≤ k · ulp(roundNE64 (num/den))` -/
def withinUlps (k : Nat) (neg : Bool) (num den : Nat) (r : UInt64) : Bool :=
  F64.isFinite r && (F64.sign r == neg) &&
    decide ((ulpDist num den r).1 ≤ k * (ulpDist num den r).2)

end SJ.Spec.Ieee
