/-!
# IEEE-754 binary64 on integers (PLACEHOLDER by the lead — to be replaced by the C08 branch's
# full `Spec.Ieee`, same names and signatures)

Round-to-nearest-even of a non-negative rational to binary64 bits, and the basic operations as
"exact result, then round once". Import-free, computable.
-/
namespace SJ.Spec.Ieee

/-- floor(log2 (num/den)) for num, den > 0 -/
def ilog2q (num den : Nat) : Int :=
  let e : Int := (Nat.log2 num : Int) - (Nat.log2 den : Int)
  let ge (e : Int) : Bool := if e ≥ 0 then num ≥ den * 2 ^ e.toNat else num * 2 ^ (-e).toNat ≥ den
  if ge e then e else e - 1

/-- round half to even of num/den -/
def rne (num den : Nat) : Nat :=
  let q := num / den
  let r := num % den
  if 2 * r < den then q else if 2 * r > den then q + 1 else if q % 2 == 0 then q else q + 1

def signBit (neg : Bool) : UInt64 := if neg then 0x8000000000000000 else 0

/-- bits of the binary64 nearest to `(-1)^neg · num/den` (ties to even); `none` on overflow. -/
def roundNE64 (neg : Bool) (num den : Nat) : Option UInt64 :=
  if num == 0 || den == 0 then some (signBit neg) else
  let e := ilog2q num den
  let e' : Int := if e < -1022 then -1022 else e
  let sh : Int := e' - 52
  let m := if sh ≥ 0 then rne num (den * 2 ^ sh.toNat) else rne (num * 2 ^ (-sh).toNat) den
  let (m, e') := if m == 2 ^ 53 then (2 ^ 52, e' + 1) else (m, e')
  if e' > 1023 then none
  else if m < 2 ^ 52 then some (signBit neg ||| UInt64.ofNat m)
  else some (signBit neg ||| UInt64.ofNat (((e' + 1023).toNat) * 2 ^ 52 + (m - 2 ^ 52)))

namespace F64
def inf (neg : Bool) : UInt64 := signBit neg ||| 0x7ff0000000000000
def isNeg (b : UInt64) : Bool := b >>> 63 == 1
def expField (b : UInt64) : Nat := ((b >>> 52) &&& 0x7ff).toNat
def mantField (b : UInt64) : Nat := (b &&& 0xfffffffffffff).toNat
def isFinite (b : UInt64) : Bool := expField b != 0x7ff
def isInf (b : UInt64) : Bool := expField b == 0x7ff && mantField b == 0
def isNaN (b : UInt64) : Bool := expField b == 0x7ff && mantField b != 0
def isZero (b : UInt64) : Bool := expField b == 0 && mantField b == 0
def neg (b : UInt64) : UInt64 := b ^^^ 0x8000000000000000

/-- magnitude of a finite value as num/den -/
def toRat (b : UInt64) : Nat × Nat :=
  let e := expField b
  let m := mantField b
  if e == 0 then (m, 2 ^ 1074)
  else
    let mm := 2 ^ 52 + m
    if e ≥ 1075 then (mm * 2 ^ (e - 1075), 1) else (mm, 2 ^ (1075 - e))

def ofNat (n : Nat) : UInt64 := (roundNE64 false n 1).getD (inf false)
def ofU64 (n : Nat) : UInt64 := ofNat n

/-- finite × finite, correctly rounded; overflow gives ±inf -/
def mul (a b : UInt64) : UInt64 :=
  let s := isNeg a != isNeg b
  let (n1, d1) := toRat a
  let (n2, d2) := toRat b
  (roundNE64 s (n1 * n2) (d1 * d2)).getD (inf s)

/-- finite / finite non-zero, correctly rounded; overflow gives ±inf -/
def div (a b : UInt64) : UInt64 :=
  let s := isNeg a != isNeg b
  let (n1, d1) := toRat a
  let (n2, d2) := toRat b
  (roundNE64 s (n1 * d2) (d1 * n2)).getD (inf s)
end F64

end SJ.Spec.Ieee
