import SJ.Spec.PrimEq
import SJ.Spec.NumberAcc
import SJ.Spec.Number
/-!
# "A Value equals a Rust number" when numbers are kept as their literal text (`arbitrary_precision`)

The `Value` holds the text of a number literal; the specification reads it with its own reader
(`Spec.Decimal.NumLit.parse`) and says:

* integer comparand `x` of a signed type: the literal is an *integer literal* (no fraction, no exponent) whose
  value is `x`; of an unsigned type: the same, and the literal carries no minus sign — so the literal `-0`
  equals `0i8 … 0i64, 0isize` and does NOT equal `0u8 … 0u64, 0usize` (`"-0".parse::<u64>()` fails). A literal
  with a fraction or an exponent (`1.0`, `1e2`) equals no integer, as in the default build where it is a float;
* `f64` / `f32` comparand: IEEE-754 equality with the nearest finite binary64 / binary32 of the literal's exact
  value (ONE rounding from the decimal text, also for `f32` — the default build rounds an `f64` again);
  a literal whose nearest float is not finite equals nothing;
* bool, strings: as in `Spec.PrimEq`.
Import-free, computable (the driver evaluates `nearestF64` through the guarded `Model.NumberAp.f64OfLit`,
proved equal in `SJ.Proofs.NumberAp`).
-/
namespace SJ.Spec.PrimEqAp
open SJ SJ.Spec.Decimal SJ.Spec.NumberAcc SJ.Spec.PrimEq

/-- the literal a `Value` holds, as the specification reads it -/
def litOfValue : JV → Option NumLit
  | .num (.lit s) => NumLit.parse s
  | _ => none

/-- a `Value` of an `arbitrary_precision` build: every number is the text of an RFC 8259 number -/
def wfValue : JV → Bool
  | .num (.lit s) => Spec.Number.isNumber s
  | .num _ => false
  | _ => true

/-- the literal is an integer literal with value `x` (and no minus sign when the comparand's type is unsigned) -/
def holdsIntLit (signed : Bool) (x : Int) (l : NumLit) : Bool :=
  isIntLit l && (signed || !l.neg) && intVal l == x

def holdsInt (signed : Bool) (x : Int) (v : JV) : Bool :=
  match litOfValue v with
  | some l => holdsIntLit signed x l
  | none => false

/-- IEEE equality with an optional float (`None` equals nothing) -/
def eqOpt64 (o : Option UInt64) (b : UInt64) : Bool :=
  match o with
  | some a => ieeeEq64 a b
  | none => false

def eqOpt32 (o : Option UInt32) (b : UInt32) : Bool :=
  match o with
  | some a => ieeeEq32 a b
  | none => false

def holdsF64 (b : UInt64) (v : JV) : Bool :=
  match litOfValue v with
  | some l => eqOpt64 (nearestF64 l) b
  | none => false

def holdsF32 (b : UInt32) (v : JV) : Bool :=
  match litOfValue v with
  | some l => eqOpt32 (nearestF32 l) b
  | none => false

/-- signedness of the integer rows of the `partialeq_numeric!` table -/
def signedTy : Gen.PrimTy → Bool
  | .i8 | .i16 | .i32 | .i64 | .isize => true
  | _ => false

end SJ.Spec.PrimEqAp
