import SJ.Spec.Program
import SJ.Spec.Utf8
/-!
# Two more predicates on serializer programs: the Rust string invariant and the nesting depth

* `SVal.utf8OK p` — what Rust's types guarantee of the text a `Serialize` implementation hands over:
  every `&str` payload (`serialize_str`, `collect_str`, variant names, field names, the literal of
  `Number` under `arbitrary_precision`) is well-formed UTF-8 and every `char` is a Unicode scalar
  value. Map keys are programs and are covered. (C03/C13: then every buffer written is UTF-8;
  C15: then the text read back from a byte source passes the UTF-8 check.)
* `SVal.nest p` — how deep the JSON value printed for the program nests: scalars 0, a sequence / map /
  struct one more than its deepest element, a variant with payload one more for its `{name: …}`
  wrapper, `Some(x)` and newtype structs transparent, bytes an array of numbers. It is the depth of
  the program's data-model image (`SJ.Proofs.ProgSide.depth_image`), the quantity the parser's
  recursion limit (127) talks about.
Import-free (definitions only).
-/
namespace SJ.Spec.Program
open SJ SJ.Spec.Utf8

/-- a Unicode scalar value (what a Rust `char` holds): at most U+10FFFF and not a surrogate -/
def isScalar (cp : Nat) : Bool := decide (cp ≤ 0x10FFFF) && !(decide (0xD800 ≤ cp) && decide (cp ≤ 0xDFFF))

mutual
def SVal.utf8OK : SVal → Bool
  | .char cp => isScalar cp
  | .str s | .collectStr s | .numberLit s | .unitVariant s => validUtf8 s
  | .some p | .newtypeStruct p => p.utf8OK
  | .newtypeVariant v p => validUtf8 v && p.utf8OK
  | .seq _ xs | .tuple xs | .tupleStruct xs => utf8OKList xs
  | .tupleVariant v xs => validUtf8 v && utf8OKList xs
  | .map _ es => utf8OKEntries es
  | .struct_ fs => utf8OKFields fs
  | .structVariant v fs => validUtf8 v && utf8OKFields fs
  | _ => true
termination_by structural p => p
def utf8OKList : List SVal → Bool
  | [] => true
  | x :: xs => x.utf8OK && utf8OKList xs
def utf8OKEntries : List (SVal × SVal) → Bool
  | [] => true
  | (k, v) :: es => k.utf8OK && v.utf8OK && utf8OKEntries es
def utf8OKFields : List (Bytes × SVal) → Bool
  | [] => true
  | (n, v) :: fs => validUtf8 n && v.utf8OK && utf8OKFields fs
end

mutual
def SVal.nest : SVal → Nat
  | .bytes _ => 1
  | .some p | .newtypeStruct p => p.nest
  | .newtypeVariant _ p => 1 + p.nest
  | .seq _ xs | .tuple xs | .tupleStruct xs => 1 + nestList xs
  | .tupleVariant _ xs => 2 + nestList xs
  | .map _ es => 1 + nestEntries es
  | .struct_ fs => 1 + nestFields fs
  | .structVariant _ fs => 2 + nestFields fs
  | _ => 0
termination_by structural p => p
def nestList : List SVal → Nat
  | [] => 0
  | x :: xs => max x.nest (nestList xs)
def nestEntries : List (SVal × SVal) → Nat
  | [] => 0
  | (_, v) :: es => max v.nest (nestEntries es)
def nestFields : List (Bytes × SVal) → Nat
  | [] => 0
  | (_, v) :: fs => max v.nest (nestFields fs)
end

end SJ.Spec.Program
