import SJ.Spec.Grammar
/-!
# What a JSON text denotes (RFC 8259 §4–§7)

`den : CST → Option DV` — `none` only when a string contains an unpaired surrogate escape (such
texts denote no Unicode string). Strings denote the UTF-8 encoding of their code points after escape
decoding with surrogate pairs merged; numbers keep their literal parts (their exact decimal value is
`NumParts` read as a rational — see `Spec.Decimal`); arrays keep order; objects keep members in
source order *with duplicates* (how duplicates collapse is a property of the map, see C02/C17).
Import-free.
-/
namespace SJ.Spec.Denote
open SJ SJ.Spec.Grammar

inductive DV where
  | null
  | bool (b : Bool)
  | num (p : NumParts)
  | str (s : Bytes)
  | arr (xs : List DV)
  | obj (ms : List (Bytes × DV))
deriving Repr

/-- UTF-8 encoding of a code point (also used for lone surrogates: generalized UTF-8 / WTF-8) -/
def utf8 (cp : Nat) : Bytes :=
  if cp < 0x80 then [UInt8.ofNat cp]
  else if cp < 0x800 then [UInt8.ofNat (0xC0 + cp / 64), UInt8.ofNat (0x80 + cp % 64)]
  else if cp < 0x10000 then
    [UInt8.ofNat (0xE0 + cp / 4096), UInt8.ofNat (0x80 + cp / 64 % 64), UInt8.ofNat (0x80 + cp % 64)]
  else
    [UInt8.ofNat (0xF0 + cp / 262144), UInt8.ofNat (0x80 + cp / 4096 % 64),
     UInt8.ofNat (0x80 + cp / 64 % 64), UInt8.ofNat (0x80 + cp % 64)]

/-- the character a simple escape stands for -/
def simpleEscape (c : UInt8) : UInt8 :=
  if c == 0x62 then 0x08 else if c == 0x66 then 0x0c else if c == 0x6e then 0x0a
  else if c == 0x72 then 0x0d else if c == 0x74 then 0x09 else c

/-- RFC 8259 §7 decoding of a string's items; `none` on an unpaired surrogate escape -/
def decodeItems : List StrItem → Option Bytes
  | [] => some []
  | .raw b :: rest => (decodeItems rest).map (b :: ·)
  | .esc c :: rest => (decodeItems rest).map (simpleEscape c :: ·)
  | .uni a b c d :: rest =>
    let n := uniVal a b c d
    if isHighSurrogate n then
      match rest with
      | .uni e f g h :: rest' =>
        let m := uniVal e f g h
        if isLowSurrogate m then
          (decodeItems rest').map (utf8 (0x10000 + (n - 0xD800) * 0x400 + (m - 0xDC00)) ++ ·)
        else none
      | _ => none
    else if isLowSurrogate n then none
    else (decodeItems rest).map (utf8 n ++ ·)

mutual
def den : CST → Option DV
  | .null => some .null
  | .true_ => some (.bool true)
  | .false_ => some (.bool false)
  | .num p => some (.num p)
  | .str s => (decodeItems s).map .str
  | .arr xs => (denList xs).map .arr
  | .obj ms => (denMembers ms).map .obj
def denList : List CST → Option (List DV)
  | [] => some []
  | x :: xs => match den x, denList xs with
    | some v, some vs => some (v :: vs)
    | _, _ => none
def denMembers : List (List StrItem × CST) → Option (List (Bytes × DV))
  | [] => some []
  | (k, x) :: ms => match decodeItems k, den x, denMembers ms with
    | some kb, some v, some r => some ((kb, v) :: r)
    | _, _, _ => none
end

end SJ.Spec.Denote
