import SJ.Drv.C18
import SJ.Drv.C01
import SJ.Drv.C06
import SJ.Drv.C06Via
import SJ.Drv.C10
import SJ.Drv.C12
import SJ.Drv.C13
import SJ.Drv.C19
import SJ.Drv.C20
import SJ.Drv.C05
import SJ.Drv.C03
import SJ.Drv.C17
import SJ.Drv.C08
import SJ.Drv.C15
import SJ.Drv.C16
import SJ.Drv.C04
import SJ.Drv.Typed
import SJ.Drv.C07
import SJ.Drv.C16x
import SJ.Drv.StreamRaw
import SJ.Drv.LexMath
import SJ.Drv.StreamTyped
import SJ.Drv.LineCol
import SJ.Drv.C19b
import SJ.Drv.Readers
import SJ.Drv.C19Seq
import SJ.Drv.C10Raw
import SJ.Drv.C20Any
import SJ.Drv.C04Sci
import SJ.Drv.Keys
import SJ.Drv.C02
/-!
`sjdriver` — reads case lines `op args… => impl-observation` on stdin, runs the Lean model and the
executable specification on each, prints
  `D <lineno> model=<obs> :: <line>`   model and implementation disagree
  `S <lineno> <message> :: <line>`     the specification predicate fails on the implementation's output
and finally `SUMMARY total=… modeldiff=… specfail=… bad=…`.
-/
open SJ SJ.Drv

def allHandlers : List (String × Handler) :=
  List.flatten [
    C18.handlers,
    C01.handlers,
    C06Via.handlers,
    C06.handlers,
    C10.handlers,
    C12.handlers,
    C13.handlers,
    C19.handlers,
    C20.handlers,
    C05.handlers,
    C03.handlers,
    C17.handlers,
    C08.handlers,
    C15.handlers,
    C16.handlers,
    C04.handlers,
    C04Sci.handlers,
    Typed.handlers,
    C07.handlers,
    C16x.handlers,
    StreamRaw.handlers,
    LexMath.handlers,
    StreamTyped.handlers,
    LineCol.handlers,
    C19b.handlers,
    Readers.handlers,
    C19Seq.handlers,
    C10Raw.handlers,
    C20Any.handlers,
    Keys.handlers,
    C02.handlers,
  ]

def findHandler (op : String) : Option Handler := (allHandlers.find? (·.1 == op)).map (·.2)

/-- Only the observables a property talks about are compared: `project prop op obs` canonicalises
    an observation (the implementation's and the model's alike) for the property being checked. -/
def project (prop op obs : String) : String :=
  if op == "pv" || op == "pi" then Mach.projectOutcome prop obs else obs

structure Cnt where
  total : Nat := 0
  mdiff : Nat := 0
  sfail : Nat := 0
  bad : Nat := 0
  other : Nat := 0
  /-- specification failures printed so far, per operation (the cap on printed `S` lines is per operation: a flood of
      failures of one op — e.g. the cases of an open known finding — must not hide the first failures of another op) -/
  sops : List (String × Nat) := []

partial def loop (prop : String) (h : IO.FS.Stream) (c : Cnt) (lineno : Nat) : IO Cnt := do
  let line ← h.getLine
  if line.isEmpty then return c
  let line := line.trimAscii.toString
  if line.isEmpty then loop prop h c (lineno + 1) else
  match line.splitOn " => " with
  | [lhs, impl] =>
    match lhs.splitOn " " with
    | op :: args =>
      match findHandler op with
      | none =>
        IO.println s!"B {lineno} unknown-op :: {line}"
        loop prop h { c with total := c.total + 1, bad := c.bad + 1 } (lineno + 1)
      | some f =>
        let o := f args impl
        let mut c := { c with total := c.total + 1 }
        if o.model.startsWith "BADCASE:" then
          c := { c with bad := c.bad + 1 }
          if c.bad ≤ 50 then IO.println s!"B {lineno} {o.model} :: {line}"
        else
          if project prop op o.model != project prop op impl then
            c := { c with mdiff := c.mdiff + 1 }
            if c.mdiff ≤ 200 then IO.println s!"D {lineno} model={o.model} :: {line}"
          for msg in (o.spec.toList ++ o.specs) do
            -- a message `Cxx …` belongs to property Cxx; other properties' verdicts are only counted
            let foreign := msg.startsWith "C" && (msg.drop 3).startsWith " " && !msg.startsWith (prop ++ " ")
            if foreign then c := { c with other := c.other + 1 }
            else
              c := { c with sfail := c.sfail + 1 }
              let seen : Nat := ((c.sops.find? (·.1 == op)).map (·.2)).getD 0
              c := { c with sops := (op, seen + 1) :: c.sops.filter (·.1 != op) }
              if seen < 200 then IO.println s!"S {lineno} {msg} :: {line}"
        loop prop h c (lineno + 1)
    | [] => loop prop h c (lineno + 1)
  | _ =>
    IO.println s!"B {lineno} malformed :: {line}"
    loop prop h { c with total := c.total + 1, bad := c.bad + 1 } (lineno + 1)

def main (args : List String) : IO UInt32 := do
  let stdin ← IO.getStdin
  let prop := args.headD ""
  let c ← loop prop stdin {} 1
  IO.println s!"SUMMARY total={c.total} modeldiff={c.mdiff} specfail={c.sfail} bad={c.bad} otherspec={c.other}"
  return 0
