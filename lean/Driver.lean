import SJ.Drv.C18
import SJ.Drv.C08
/-!
`sjdriver` — reads case lines `op args… => impl-observation` on stdin, runs the Lean model and the
executable specification on each, prints
  `D <lineno> model=<obs> :: <line>`   model and implementation disagree
  `S <lineno> <message> :: <line>`     the specification predicate fails on the implementation's output
and finally `SUMMARY total=… modeldiff=… specfail=… bad=…`.
-/
open SJ SJ.Drv

def allHandlers : List (String × Handler) :=
  C18.handlers ++ C08.handlers

def findHandler (op : String) : Option Handler := (allHandlers.find? (·.1 == op)).map (·.2)

structure Cnt where
  total : Nat := 0
  mdiff : Nat := 0
  sfail : Nat := 0
  bad : Nat := 0

partial def loop (h : IO.FS.Stream) (c : Cnt) (lineno : Nat) : IO Cnt := do
  let line ← h.getLine
  if line.isEmpty then return c
  let line := line.trimAscii.toString
  if line.isEmpty then loop h c (lineno + 1) else
  match line.splitOn " => " with
  | [lhs, impl] =>
    match lhs.splitOn " " with
    | op :: args =>
      match findHandler op with
      | none =>
        IO.println s!"B {lineno} unknown-op :: {line}"
        loop h { c with total := c.total + 1, bad := c.bad + 1 } (lineno + 1)
      | some f =>
        let o := f args impl
        let mut c := { c with total := c.total + 1 }
        if o.model.startsWith "BADCASE:" then
          c := { c with bad := c.bad + 1 }
          if c.bad ≤ 50 then IO.println s!"B {lineno} {o.model} :: {line}"
        else
          if o.model != impl then
            c := { c with mdiff := c.mdiff + 1 }
            if c.mdiff ≤ 200 then IO.println s!"D {lineno} model={o.model} :: {line}"
          match o.spec with
          | some msg =>
            c := { c with sfail := c.sfail + 1 }
            if c.sfail ≤ 200 then IO.println s!"S {lineno} {msg} :: {line}"
          | none => pure ()
        loop h c (lineno + 1)
    | [] => loop h c (lineno + 1)
  | _ =>
    IO.println s!"B {lineno} malformed :: {line}"
    loop h { c with total := c.total + 1, bad := c.bad + 1 } (lineno + 1)

def main : IO UInt32 := do
  let stdin ← IO.getStdin
  let c ← loop stdin {} 1
  IO.println s!"SUMMARY total={c.total} modeldiff={c.mdiff} specfail={c.sfail} bad={c.bad}"
  return 0
