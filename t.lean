import SJ.Model.ValueEq
open SJ SJ.Model.ValueEq
example : beqJV true (.obj [([1], .null)]) (.obj [([1], .null)]) = true := by decide
example : beqJV true (.obj [([1], .null), ([2], .num (.float 0))]) (.obj [([2], .num (.float 0x8000000000000000)), ([1], .null)]) = true := by decide +kernel
example : feq 0 0x8000000000000000 = true := by decide
example : beqJV true (.obj [([1], .null), ([2], .num (.float 0))]) (.obj [([2], .num (.float 0x8000000000000000)), ([1], .null)]) = true := by rfl
