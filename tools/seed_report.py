#!/usr/bin/env python3
"""Merge seed run results (work/seed_results*.json from run_seeds.py copies) into seeded/<id>/meta.json and write
seeded/RESULTS.md."""
import json, glob, os, sys
res = {}
for f in sys.argv[1:]:
    try: res.update(json.load(open(f)))
    except Exception as e: print("skip", f, e)
rows = []
for d in sorted(glob.glob("/verif/seeded/C??-*")):
    sid = os.path.basename(d)
    mp = os.path.join(d, "meta.json")
    meta = json.load(open(mp))
    conf = meta.get("confirmed", {}).get("status", "?")
    runs = res.get(sid) or meta.get("checks_run") or []
    if sid in res: meta["checks_run"] = runs
    json.dump(meta, open(mp, "w"), indent=1)
    caught = [r for r in runs if r["rc"] == 1]
    concrete = [r for r in caught if "no-failing-input-found" not in r.get("line", "")]
    if conf != "confirmed": verdict = "— (" + conf.split("(")[0].strip() + ")"
    elif not runs: verdict = "not run yet"
    elif concrete: verdict = "CAUGHT with failing input by " + ", ".join(r["check"] for r in concrete)
    elif caught: verdict = "caught (broken obligation/correspondence, no failing input found) by " + ", ".join(r["check"] for r in caught)
    else: verdict = "MISSED by " + ", ".join(r["check"] for r in runs)
    title = (meta.get("title") or "").replace("|", "/")[:110]
    needs = (meta.get("needs_to_manifest") or "").replace("|", "/").replace("\n", " ")[:160]
    rows.append((sid, title, needs, verdict))
with open("/verif/seeded/RESULTS.md", "w") as f:
    f.write("# Seeded changes and what the checks report for them\n\n"
            "Each change was written by an independent sub-agent that saw only the property text and a scratch worktree; it compiles, "
            "passes the existing test suite and fails its own demonstration (`demo.rs`). `confirmed` in each `meta.json` records the "
            "re-confirmation done here (tools/verify_seeds.py); `checks_run` records what `./check <id> quick` printed with the change applied "
            "(tools/run_seeds.py on scratch copies via VERIF_REPO, or tools/tryseed.sh on /repo).\n\n"
            "| seed | change | needs | verdict |\n|---|---|---|---|\n")
    for r in rows: f.write("| %s | %s | %s | %s |\n" % r)
    n = len(rows); c = sum(1 for r in rows if r[3].startswith("CAUGHT")); o = sum(1 for r in rows if r[3].startswith("caught")); m = sum(1 for r in rows if r[3].startswith("MISSED"))
    f.write(f"\n{n} seeds: {c} caught with a concrete failing input, {o} caught by a broken obligation/correspondence only, {m} missed, "
            f"{n - c - o - m} not applicable/not run.\n")
print("written", len(rows))
