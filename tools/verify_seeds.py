#!/usr/bin/env python3
"""Confirm seeded changes in scratch worktrees of /repo's current HEAD (steps: patch applies; demo passes on the
clean tree; demo fails on the patched tree; the existing test suite passes on the patched tree). Results go to
/verif/seeded/<Cxx>-<n>/ (patch.diff, demo.rs, meta.json with a `confirmed` section)."""
import json, os, subprocess, sys, shutil, glob
from concurrent.futures import ThreadPoolExecutor

SEED = os.environ.get("SEED_DIR", "/tmp/seed")
OFFSET = int(os.environ.get("SEED_OFFSET", "0"))   # round 2: outputs 1, 2 are stored as <Cxx>-4, <Cxx>-5
OUT = "/verif/seeded"
ENV = dict(os.environ, CARGO_NET_OFFLINE="true")

def sh(cmd, cwd, env=None, timeout=1800):
    p = subprocess.run(cmd, cwd=cwd, env=env or ENV, stdout=subprocess.PIPE, stderr=subprocess.STDOUT, text=True, timeout=timeout)
    return p.returncode, p.stdout

def tests_failed(out):
    n = 0
    for l in out.splitlines():
        if l.startswith("test result:"):
            try: n += int(l.split("passed;")[1].split("failed")[0].strip())
            except Exception: pass
    return n

def verify(worker, items):
    wt = f"/tmp/sv/w{worker}"
    shutil.rmtree(wt, ignore_errors=True)
    subprocess.run(["git", "-C", "/repo", "worktree", "prune"])
    rc, out = sh(["git", "-C", "/repo", "worktree", "add", "--detach", "-f", wt, "HEAD"], "/")
    env = dict(ENV, CARGO_TARGET_DIR=f"/tmp/sv/target{worker}")
    for prop, n, d in items:
        res = dict(property=prop, seed=n)
        meta = {}
        try: meta = json.load(open(os.path.join(d, "meta.json")))
        except Exception as e: res["meta_error"] = str(e)
        feats = (meta.get("features") or "").strip()
        fargs = ["--features", feats] if feats else []
        patch = os.path.join(d, "patch.diff")
        sh(["git", "checkout", "--", "."], wt); 
        if os.path.exists(f"{wt}/tests/seed_demo.rs"): os.remove(f"{wt}/tests/seed_demo.rs")
        rc, out = sh(["git", "apply", "--check", patch], wt)
        res["applies_to_current_head"] = (rc == 0)
        if rc != 0:
            res["status"] = "patch does not apply to the current /repo HEAD (a fix: commit changed the same lines)"
        else:
            shutil.copy(os.path.join(d, "demo.rs"), f"{wt}/tests/seed_demo.rs")
            rc1, o1 = sh(["cargo", "test", "--offline", "--test", "seed_demo"] + fargs, wt, env)
            res["clean_demo_passes"] = (rc1 == 0)
            sh(["git", "apply", patch], wt)
            rc2, o2 = sh(["cargo", "test", "--offline", "--test", "seed_demo"] + fargs, wt, env)
            res["patched_demo_fails"] = (rc2 != 0 and "error: could not compile" not in o2 and "error[E" not in o2)
            os.remove(f"{wt}/tests/seed_demo.rs")
            rc3, o3 = sh(["cargo", "test", "--offline"], wt, env)
            res["patched_suite_passes"] = (rc3 == 0 and tests_failed(o3) == 0)
            res["commands"] = ["git apply --check patch.diff", "cargo test --offline --test seed_demo " + " ".join(fargs) + "   (clean tree)",
                               "git apply patch.diff; cargo test --offline --test seed_demo " + " ".join(fargs), "cargo test --offline   (patched, without the demo)"]
            ok = res["clean_demo_passes"] and res["patched_demo_fails"] and res["patched_suite_passes"]
            res["status"] = "confirmed" if ok else "NOT confirmed"
            if not ok: res["log_tail"] = (o1[-600:] if not res["clean_demo_passes"] else "") + (o2[-600:] if not res["patched_demo_fails"] else "") + (o3[-600:] if not res["patched_suite_passes"] else "")
            sh(["git", "checkout", "--", "."], wt)
        od = os.path.join(OUT, f"{prop}-{int(n) + OFFSET}")
        os.makedirs(od, exist_ok=True)
        for f in ("patch.diff", "demo.rs"):
            shutil.copy(os.path.join(d, f), os.path.join(od, f))
        meta_out = dict(property=prop, seed=int(n) + OFFSET, round={0: 1, 3: 2, 5: 3, 7: 4}.get(OFFSET, 0), title=meta.get("title"), breaks_clause=meta.get("breaks_clause"),
                        needs_to_manifest=meta.get("needs_to_manifest"), features=feats, demo_cmd=meta.get("demo_cmd"),
                        files_changed=meta.get("files_changed"), author="independent sub-agent given only the property text and a scratch worktree",
                        confirmed=res)
        json.dump(meta_out, open(os.path.join(od, "meta.json"), "w"), indent=1)
        print(prop, n, res["status"], flush=True)
    subprocess.run(["git", "-C", "/repo", "worktree", "remove", "--force", wt])
    shutil.rmtree(f"/tmp/sv/target{worker}", ignore_errors=True)

def main():
    only = sys.argv[1:]
    items = []
    for d in sorted(glob.glob(f"{SEED}/C??-out/[0-9]")):
        prop = os.path.basename(os.path.dirname(d))[:3]; n = os.path.basename(d)
        if only and prop not in only: continue
        if os.path.exists(os.path.join(d, "patch.diff")) and os.path.exists(os.path.join(d, "demo.rs")):
            items.append((prop, n, d))
    W = 4
    os.makedirs("/tmp/sv", exist_ok=True)
    chunks = [items[i::W] for i in range(W)]
    with ThreadPoolExecutor(W) as ex:
        list(ex.map(lambda t: verify(*t), enumerate(chunks)))

if __name__ == "__main__":
    main()
