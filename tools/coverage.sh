#!/bin/bash
# Measure which lines of /repo/src the harness's quick generators execute (generator-quality evidence, not a check).
# usage: tools/coverage.sh [cfg ...]   (default: d fr po ap rv ud) ; output: work/cov/<cfg>.txt (uncovered lines per file) and work/cov/summary.txt
set -e
ROOT="$(cd "$(dirname "$0")/.." && pwd)"
COV=$ROOT/work/cov; mkdir -p $COV
BIN=$(dirname $(rustup +nightly which rustc))/../lib/rustlib/x86_64-unknown-linux-gnu/bin
REPO=${VERIF_REPO:-/repo}
cfgs="${@:-d fr po ap rv ud}"
PROPS_ALL="C01 C02 C03 C04 C05 C06 C08 C09 C10 C11 C12 C13 C14 C15 C16 C17 C18 C19 C20 C07"
cd $ROOT/harness
for c in $cfgs; do
  f=""; case $c in d) f="";; *) f="$c";; esac
  rm -rf $COV/prof-$c; mkdir -p $COV/prof-$c
  LLVM_PROFILE_FILE=$COV/prof-$c/build-%p.profraw CARGO_TARGET_DIR=$COV/target-$c RUSTFLAGS="-Awarnings -C instrument-coverage" cargo +nightly build --release --offline --quiet ${f:+--features $f}
  for p in $PROPS_ALL; do
    LLVM_PROFILE_FILE=$COV/prof-$c/$p-%p.profraw timeout 600 $COV/target-$c/release/sjh $p quick 1 $COV/stats-$c-$p.json > /dev/null 2>&1 || true
  done
  $BIN/llvm-profdata merge -sparse $COV/prof-$c/*.profraw -o $COV/$c.profdata
  $BIN/llvm-cov report $COV/target-$c/release/sjh -instr-profile=$COV/$c.profdata $(ls $REPO/src/*.rs $REPO/src/*/*.rs) 2>/dev/null > $COV/report-$c.txt || true
  $BIN/llvm-cov show $COV/target-$c/release/sjh -instr-profile=$COV/$c.profdata --show-line-counts-or-regions=false $(ls $REPO/src/*.rs $REPO/src/*/*.rs) 2>/dev/null > $COV/show-$c.txt || true
  rm -rf $COV/prof-$c
done
echo done
