#!/bin/bash
# resolve the routine conflicts of a builder-branch merge: $1 = branch name
set -e
cd /verif
b=$1
git checkout --ours MANIFEST.json lean/SJ.lean 2>/dev/null || true
if git diff --name-only --diff-filter=U | grep -q known_findings.json; then
  git show $b:known_findings.json > /tmp/kf_theirs.json
  git checkout --ours known_findings.json
  python3 - <<'PY'
import json
a=json.load(open('/verif/known_findings.json')); b=json.load(open('/tmp/kf_theirs.json'))
ids={f['id'] for f in a['findings']}
for f in b['findings']:
    if f['id'] not in ids: a['findings'].append(f); print("added finding", f['id'], f['status'])
json.dump(a,open('/verif/known_findings.json','w'),indent=1)
PY
fi
files=$(git diff --name-only --diff-filter=U | grep -v "MANIFEST.json\|SJ.lean\|known_findings.json" || true)
[ -n "$files" ] && python3 tools/merge_union.py $files
grep -n "^  C18.handlers ++" lean/Driver.lean || true
grep -n "^GENERATORS = \[" tools/extract.py || true
