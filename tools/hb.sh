#!/bin/bash
# rebuild the harness for the given configurations (default: d)
cd "$(dirname "$0")/../harness"
for c in "${@:-d}"; do
  f=""; case $c in d) f="";; frap) f="fr,ap";; rvpofr) f="rv,po,fr";; poap) f="po,ap";; rvap) f="rv,ap";; *) f="$c";; esac
  CARGO_TARGET_DIR=$PWD/target-$c RUSTFLAGS=-Awarnings cargo build --release --offline --quiet ${f:+--features $f} 2>&1 | grep -E "^error" -A8 | head -30 &
done
wait
