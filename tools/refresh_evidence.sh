#!/bin/bash
# re-run every claimed check (quick) on the unchanged tree so that the committed evidence comes from clean runs
cd /verif
test -z "$(git -C /repo status --porcelain --untracked-files=no)" || { echo "/repo has uncommitted changes"; exit 2; }
rc=0
for p in $(python3 -c "import sys; sys.path.insert(0,'tools'); import props; print(' '.join(sorted(props.PROPS)))"); do
  VERIF_SEED=1 ./check $p quick | grep -v KNOWN-FINDING | tail -1 || rc=1
done
exit $rc
