#!/usr/bin/env python3
"""
Translator: /repo/src/*.rs  ->  /verif/lean/SJ/Gen/*.lean   (run at the start of every check)

Everything in the source that is *data* — constants, tables, literal sets, match arms that map one
enum to another — is copied mechanically into Lean definitions; the theorems in SJ/Props are then
re-checked against what the code says now. A construct that can no longer be found is reported as
`MISSING <key> …` (the checks of the properties that consume that key then report a broken tie).
Files are rewritten only when their content changes, so unchanged sources cost no rebuild.
"""
import re, os, sys

REPO = os.environ.get("VERIF_REPO", "/repo")
OUT = os.path.join(os.path.dirname(os.path.abspath(__file__)), "..", "lean", "SJ", "Gen")
missing = []


def src(name):
    with open(os.path.join(REPO, "src", name), encoding="utf-8") as f:
        return f.read()


def miss(key, why):
    missing.append((key, why))


def lean_bytes(b):
    return "[" + ", ".join("0x%02x" % x for x in b) + "]"


def rust_str_bytes(lit):
    """bytes of a Rust string/char literal body (handles the escapes that occur in this crate)"""
    out = bytearray()
    i = 0
    while i < len(lit):
        c = lit[i]
        if c == "\\":
            n = lit[i + 1]
            m = {"n": 10, "t": 9, "r": 13, "\\": 92, '"': 34, "'": 39, "0": 0}
            if n == "x":
                out.append(int(lit[i + 2:i + 4], 16)); i += 4; continue
            if n == "u":
                j = lit.index("}", i)
                out += chr(int(lit[i + 3:j], 16)).encode(); i = j + 1; continue
            out.append(m[n]); i += 2; continue
        out += c.encode(); i += 1
    return bytes(out)


def fn_body(text, header_re):
    """source text of the function whose header matches header_re (balanced braces)"""
    m = re.search(header_re, text)
    if not m: return None
    i = text.index("{", m.end() - 1)
    depth, j = 0, i
    while True:
        if text[j] == "{": depth += 1
        elif text[j] == "}":
            depth -= 1
            if depth == 0: break
        j += 1
    return text[i:j + 1]


# ------------------------------------------------------------------ value/mod.rs (C18)
def gen_pointer(lines):
    t = src("value/mod.rs")
    for fn in ("pointer", "pointer_mut"):
        body = fn_body(t, r"pub fn %s\b[^{]*\{" % fn)
        reps = re.findall(r'\.replace\(\s*"((?:[^"\\]|\\.)*)"\s*,\s*"((?:[^"\\]|\\.)*)"\s*\)', body or "")
        if body is None or not reps:
            miss("pointer." + fn, "no .replace(..) chain found in Value::%s" % fn); reps = []
        name = "ptrReplace" if fn == "pointer" else "ptrMutReplace"
        lines.append("/-- the `.replace(a, b)` chain of `Value::%s`, in source order -/" % fn)
        lines.append("def %s : List (List UInt8 × List UInt8) := [%s]" % (
            name, ", ".join("(%s, %s)" % (lean_bytes(rust_str_bytes(a)), lean_bytes(rust_str_bytes(b))) for a, b in reps)))
        sp = re.search(r"\.split\(\s*'((?:[^'\\]|\\.)*)'\s*\)\s*\.skip\(\s*(\d+)\s*\)", body or "")
        if not sp: miss("pointer." + fn + ".split", "split(c).skip(n) not found")
        c, n = (rust_str_bytes(sp.group(1))[0], int(sp.group(2))) if sp else (0, 0)
        lines.append("def %sSplit : UInt8 × Nat := (0x%02x, %d)" % (name, c, n))
        st = re.search(r"!\s*pointer\.starts_with\(\s*'((?:[^'\\]|\\.)*)'\s*\)", body or "")
        if not st: miss("pointer." + fn + ".starts_with", "leading-slash guard not found")
        lines.append("def %sLead : UInt8 := 0x%02x" % (name, rust_str_bytes(st.group(1))[0] if st else 0))
    body = fn_body(t, r"fn parse_index\b[^{]*\{")
    m = re.search(r"s\.starts_with\('(.)'\)\s*\|\|\s*\(\s*s\.starts_with\('(.)'\)\s*&&\s*s\.len\(\)\s*!=\s*(\d+)\s*\)", body or "")
    if not m or not re.search(r"s\.parse\(\)\.ok\(\)", body or ""):
        miss("pointer.parse_index", "guard `starts_with('+') || (starts_with('0') && len != 1)` / `s.parse().ok()` not found")
        g = (0, 0, 0)
    else:
        g = (ord(m.group(1)), ord(m.group(2)), int(m.group(3)))
    lines.append("/-- `parse_index`: (rejected first byte, leading-zero byte, the only length a leading zero may have) -/")
    lines.append("def parseIndexGuard : UInt8 × UInt8 × Nat := (0x%02x, 0x%02x, %d)" % g)


# ------------------------------------------------------------------ map.rs / number.rs (C17)
def cfg_return(body, feature_on):
    """the expression after `#[cfg(feature = "preserve_order")]` (or `not(...)`) inside a fn body"""
    attr = r'#\[cfg\(feature\s*=\s*"preserve_order"\)\]' if feature_on else r'#\[cfg\(not\(feature\s*=\s*"preserve_order"\)\)\]'
    m = re.search(attr + r"\s*(?:return\s+)?([^;]*);", body or "", re.S)
    return re.sub(r"\s+", "", m.group(1)) if m else None


def gen_map(lines):
    t = src("map.rs")
    i_map = t.index("impl Map<String, Value>")
    i_occ = t.index("impl<'a> OccupiedEntry<'a>")
    mp, oc = t[i_map:i_occ], t[i_occ:]
    # which IndexMap removal the order-agnostic names forward to: 0 = swap_*, 1 = shift_*
    for name, text, fn in (("mapRemoveFwd", mp, "remove"), ("mapRemoveEntryFwd", mp, "remove_entry"),
                           ("occRemoveFwd", oc, "remove"), ("occRemoveEntryFwd", oc, "remove_entry")):
        body = fn_body(text, r"pub fn %s\b[^{]*\{" % fn)
        e = cfg_return(body, True)
        suffix = "_entry" if fn.endswith("_entry") else ""
        code = None
        if e is not None:
            mm = re.fullmatch(r"self\.(?:map\.|occupied\.)?(swap|shift)_remove%s\((?:key)?\)" % suffix, e)
            if mm: code = 0 if mm.group(1) == "swap" else 1
        if code is None:
            miss("map." + name, "preserve_order arm of %s is not a swap_/shift_ forward: %r" % (fn, e)); code = 2
        d = cfg_return(body, False)
        if d is None or not re.fullmatch(r"self\.(map|occupied)\.%s\((?:key)?\)" % fn, d):
            miss("map." + name + ".default", "default arm of %s does not forward to BTreeMap::%s: %r" % (fn, fn, d))
        owner = "Map" if text is mp else "OccupiedEntry"
        lines.append("/-- `%s::%s` under preserve_order forwards to: 0 = `swap_%s`, 1 = `shift_%s` -/" % (owner, fn, fn, fn))
        lines.append("def %s : Nat := %d" % (name, code))
    body = fn_body(mp, r"pub fn append\b[^{]*\{")
    po, df = cfg_return(body, True), cfg_return(body, False)
    ok_po = po is not None and re.fullmatch(r"self\.map\.extend\(mem::replace\(&mutother\.map,MapImpl::default\(\)\)\)", po)
    ok_df = df == "self.map.append(&mutother.map)"
    if not ok_po: miss("map.append.po", "preserve_order append is not extend(mem::replace(other)): %r" % po)
    if not ok_df: miss("map.append.default", "default append is not BTreeMap::append: %r" % df)
    lines.append("/-- `append`: preserve_order = `extend(mem::replace(&mut other.map, default))`, default = `BTreeMap::append` -/")
    lines.append("def mapAppendAsDocumented : Bool := %s" % ("true" if ok_po and ok_df else "false"))
    body = fn_body(mp, r"pub fn sort_keys\b[^{]*\{")
    e = cfg_return(body, True)
    srt = e in ("self.map.sort_unstable_keys()", "self.map.sort_keys()")
    if not srt: miss("map.sort_keys", "preserve_order sort_keys does not call sort_(unstable_)keys: %r" % e)
    lines.append("/-- `sort_keys` under preserve_order sorts by key (`%s`); the default build does nothing -/" % e)
    lines.append("def mapSortKeysSorts : Bool := %s" % ("true" if srt else "false"))
    for fn in ("insert", "retain", "clear", "len", "get", "contains_key"):
        body = fn_body(mp, r"pub fn %s\b[^{]*\{" % fn)
        if body is None or not re.search(r"self\.map\.%s\(" % fn, body):
            miss("map.forward." + fn, "Map::%s no longer forwards to self.map.%s" % (fn, fn))
    # impl Hash for Map: preserve_order collects, sorts by key, hashes the Vec
    i_h = t.index("impl Hash for Map<String, Value>")
    body = fn_body(t[i_h:], r"fn hash\b[^{]*\{")
    b = re.sub(r"\s+", "", body or "")
    sorts = "kv.sort_unstable_by(|a,b|a.0.cmp(b.0));kv.hash(state);" in b and "Vec::from_iter(&self.map)" in b
    if not sorts: miss("map.hash.sort", "preserve_order Hash does not sort the entries by key before hashing")
    if "self.map.hash(state);" not in b: miss("map.hash.default", "default Hash does not forward to BTreeMap::hash")
    lines.append("/-- `impl Hash for Map` (preserve_order): entries collected, sorted by key, then hashed as a Vec -/")
    lines.append("def mapHashSortsEntries : Bool := %s" % ("true" if sorts else "false"))
    # impl PartialEq for Map forwards to the backing store
    i_e = t.index("impl PartialEq for Map<String, Value>")
    body = fn_body(t[i_e:], r"fn eq\b[^{]*\{")
    if "self.map.eq(&other.map)" not in re.sub(r"\s+", "", body or ""):
        miss("map.eq", "Map::eq does not forward to the backing store's eq")
    # number.rs: Hash for N
    n = src("number.rs")
    i_n = n.index("impl Hash for N")
    body = re.sub(r"\s+", "", re.sub(r"//[^\n]*", "", fn_body(n[i_n:], r"fn hash\b[^{]*\{") or ""))
    norm = "N::Float(f)=>{iff==0.0f64{0.0f64.to_bits().hash(h);}else{f.to_bits().hash(h);}}" in body
    if not norm: miss("map.number.hash", "Hash for N no longer hashes +0.0's bits for both zeros")
    ints = "N::PosInt(i)=>i.hash(h),N::NegInt(i)=>i.hash(h)," in body
    if not ints: miss("map.number.hash.int", "Hash for N: integer arms changed")
    lines.append("/-- `impl Hash for N`: `Float(f)` hashes `0.0f64.to_bits()` when `f == 0.0`, else `f.to_bits()` -/")
    lines.append("def numHashZeroNormalised : Bool := %s" % ("true" if norm else "false"))
    i_p = n.index("impl PartialEq for N")
    body = re.sub(r"\s+", "", fn_body(n[i_p:], r"fn eq\b[^{]*\{") or "")
    want = "(N::PosInt(a),N::PosInt(b))=>a==b,(N::NegInt(a),N::NegInt(b))=>a==b,(N::Float(a),N::Float(b))=>a==b,_=>false,"
    if want not in body: miss("map.number.eq", "PartialEq for N changed")
    # value/mod.rs: derive on Value, sort_all_objects
    v = src("value/mod.rs")
    if not re.search(r"#\[derive\(([^)]*)\)\]\s*pub enum Value", v) or not all(
            x in re.search(r"#\[derive\(([^)]*)\)\]\s*pub enum Value", v).group(1) for x in ("Eq", "PartialEq", "Hash")):
        miss("map.value.derive", "Value no longer derives Eq, PartialEq, Hash")
    body = re.sub(r"\s+", "", fn_body(v, r"pub fn sort_all_objects\b[^{]*\{") or "")
    rec = ("Value::Object(map)=>{map.sort_keys();map.values_mut().for_each(Value::sort_all_objects);}" in body
           and "Value::Array(list)=>{list.iter_mut().for_each(Value::sort_all_objects);}" in body)
    if not rec: miss("map.sort_all_objects", "sort_all_objects is not sort_keys + recursion into object values and array elements")
    lines.append("/-- `sort_all_objects` = `sort_keys` on every object, recursing through object values and array elements -/")
    lines.append("def sortAllRecurses : Bool := %s" % ("true" if rec else "false"))


GENERATORS = [("Pointer", gen_pointer), ("Map", gen_map)]


def main():
    os.makedirs(OUT, exist_ok=True)
    for name, fn in GENERATORS:
        lines = ["/-! GENERATED by tools/extract.py from /repo/src — do not edit. -/", "namespace SJ.Gen", ""]
        try:
            fn(lines)
        except Exception as e:  # a restructured source must not crash the check: report it
            miss(name, "extractor failed: %r" % (e,))
        lines += ["", "end SJ.Gen", ""]
        text = "\n".join(lines)
        path = os.path.join(OUT, name + ".lean")
        old = open(path, encoding="utf-8").read() if os.path.exists(path) else None
        if old != text:
            with open(path, "w", encoding="utf-8") as f: f.write(text)
            print("UPDATED", os.path.relpath(path))
    for k, why in missing:
        print("MISSING", k, "—", why)
    print("extract.py: %d generator(s), %d missing construct(s)" % (len(GENERATORS), len(missing)))
    return 0


if __name__ == "__main__":
    sys.exit(main())
