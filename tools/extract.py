#!/usr/bin/env python3
"""
Translator: /repo/src/*.rs  ->  /verif/lean/SJ/Gen/*.lean   (run at the start of every check)

Everything in the source that is *data* — constants, tables, literal sets, match arms that map one
enum to another — is copied mechanically into Lean definitions; the theorems in SJ/Props are then
re-checked against what the code says now. A construct that can no longer be found is reported as
`MISSING <key> …` (the checks of the properties that consume that key then report a broken tie).
Files are rewritten only when their content changes, so unchanged sources cost no rebuild.
"""
import re, os, sys

REPO = os.environ.get("VERIF_REPO", "/repo")
OUT = os.path.join(os.path.dirname(os.path.abspath(__file__)), "..", "lean", "SJ", "Gen")
missing = []


def src(name):
    with open(os.path.join(REPO, "src", name), encoding="utf-8") as f:
        return f.read()


def miss(key, why):
    missing.append((key, why))


def lean_bytes(b):
    return "[" + ", ".join("0x%02x" % x for x in b) + "]"


def rust_str_bytes(lit):
    """bytes of a Rust string/char literal body (handles the escapes that occur in this crate)"""
    out = bytearray()
    i = 0
    while i < len(lit):
        c = lit[i]
        if c == "\\":
            n = lit[i + 1]
            m = {"n": 10, "t": 9, "r": 13, "\\": 92, '"': 34, "'": 39, "0": 0}
            if n == "x":
                out.append(int(lit[i + 2:i + 4], 16)); i += 4; continue
            if n == "u":
                j = lit.index("}", i)
                out += chr(int(lit[i + 3:j], 16)).encode(); i = j + 1; continue
            out.append(m[n]); i += 2; continue
        out += c.encode(); i += 1
    return bytes(out)


def fn_body(text, header_re):
    """source text of the function whose header matches header_re (balanced braces; braces inside
    string, byte-string and char literals and in comments are not counted)"""
    m = re.search(header_re, text)
    if not m: return None
    i = text.index("{", m.end() - 1)
    depth, j, n = 0, i, len(text)
    while j < n:
        c = text[j]
        if c == '"':
            j += 1
            while text[j] != '"':
                j += 2 if text[j] == "\\" else 1
            j += 1; continue
        if c == "'":
            mm = re.match(r"'(?:[^'\\]|\\.[^']*)'", text[j:])
            if mm: j += mm.end(); continue
        if text.startswith("//", j):
            while j < n and text[j] != "\n": j += 1
            continue
        if c == "{": depth += 1
        elif c == "}":
            depth -= 1
            if depth == 0: break
        j += 1
    return text[i:j + 1]


# ------------------------------------------------------------------ value/mod.rs (C18)
def gen_pointer(lines):
    t = src("value/mod.rs")
    for fn in ("pointer", "pointer_mut"):
        body = fn_body(t, r"pub fn %s\b[^{]*\{" % fn)
        reps = re.findall(r'\.replace\(\s*"((?:[^"\\]|\\.)*)"\s*,\s*"((?:[^"\\]|\\.)*)"\s*\)', body or "")
        if body is None or not reps:
            miss("pointer." + fn, "no .replace(..) chain found in Value::%s" % fn); reps = []
        name = "ptrReplace" if fn == "pointer" else "ptrMutReplace"
        lines.append("/-- the `.replace(a, b)` chain of `Value::%s`, in source order -/" % fn)
        lines.append("def %s : List (List UInt8 × List UInt8) := [%s]" % (
            name, ", ".join("(%s, %s)" % (lean_bytes(rust_str_bytes(a)), lean_bytes(rust_str_bytes(b))) for a, b in reps)))
        sp = re.search(r"\.split\(\s*'((?:[^'\\]|\\.)*)'\s*\)\s*\.skip\(\s*(\d+)\s*\)", body or "")
        if not sp: miss("pointer." + fn + ".split", "split(c).skip(n) not found")
        c, n = (rust_str_bytes(sp.group(1))[0], int(sp.group(2))) if sp else (0, 0)
        lines.append("def %sSplit : UInt8 × Nat := (0x%02x, %d)" % (name, c, n))
        st = re.search(r"!\s*pointer\.starts_with\(\s*'((?:[^'\\]|\\.)*)'\s*\)", body or "")
        if not st: miss("pointer." + fn + ".starts_with", "leading-slash guard not found")
        lines.append("def %sLead : UInt8 := 0x%02x" % (name, rust_str_bytes(st.group(1))[0] if st else 0))
    body = fn_body(t, r"fn parse_index\b[^{]*\{")
    m = re.search(r"s\.starts_with\('(.)'\)\s*\|\|\s*\(\s*s\.starts_with\('(.)'\)\s*&&\s*s\.len\(\)\s*!=\s*(\d+)\s*\)", body or "")
    if not m or not re.search(r"s\.parse\(\)\.ok\(\)", body or ""):
        miss("pointer.parse_index", "guard `starts_with('+') || (starts_with('0') && len != 1)` / `s.parse().ok()` not found")
        g = (0, 0, 0)
    else:
        g = (ord(m.group(1)), ord(m.group(2)), int(m.group(3)))
    lines.append("/-- `parse_index`: (rejected first byte, leading-zero byte, the only length a leading zero may have) -/")
    lines.append("def parseIndexGuard : UInt8 × UInt8 × Nat := (0x%02x, 0x%02x, %d)" % g)


# ------------------------------------------------------------------ ser.rs formatters (C03, C13)
def gen_ser(lines):
    """the literal byte strings written by the `Formatter` trait's default methods (= CompactFormatter)
    and by `impl Formatter for PrettyFormatter`, method by method, in source order"""
    t = src("ser.rs")
    trait = fn_body(t, r"pub trait Formatter\s*\{")
    pretty = fn_body(t, r"impl<'a>\s*Formatter\s+for\s+PrettyFormatter<'a>\s*\{")
    if trait is None: miss("ser.trait", "`pub trait Formatter {` not found"); trait = ""
    if pretty is None: miss("ser.pretty", "`impl<'a> Formatter for PrettyFormatter<'a> {` not found"); pretty = ""
    LIT = r'b"((?:[^"\\]|\\.)*)"'

    def lits(block, fn, key):
        body = fn_body(block, r"fn %s<[^{]*\{" % fn)
        if body is None:
            miss(key, "method %s not found" % fn); return None, ""
        return [rust_str_bytes(x) for x in re.findall(LIT, body)], body

    def emit(name, doc, val):
        lines.append("/-- %s -/" % doc)
        lines.append("def %s : List UInt8 := %s" % (name, lean_bytes(val)))

    def single(block, pre, fn, name, doc, require=None):
        key = "ser.%s.%s" % (pre, fn)
        ls, body = lits(block, fn, key)
        if ls is None or len(ls) != 1 or len(re.findall(r"write_all\(", body)) != 1 or (require and not re.search(require, body)):
            if ls is not None: miss(key, "expected exactly one write_all(b\"…\") in %s" % fn)
            ls = [b""]
        emit(name, doc, ls[0])

    # --- default methods (CompactFormatter is `impl Formatter for CompactFormatter {}`)
    if not re.search(r"impl\s+Formatter\s+for\s+CompactFormatter\s*\{\s*\}", t):
        miss("ser.compact", "`impl Formatter for CompactFormatter {}` (no overrides) not found")
    single(trait, "default", "write_null", "serNull", "`Formatter::write_null`")
    ls, body = lits(trait, "write_bool", "ser.default.write_bool")
    m = re.search(r"if\s+value\s*\{\s*%s[^}]*\}\s*else\s*\{\s*%s" % (LIT, LIT), body)
    if not m: miss("ser.default.write_bool", "`if value { b\"true\" } else { b\"false\" }` not found")
    emit("serTrue", "`Formatter::write_bool(true)`", rust_str_bytes(m.group(1)) if m else b"")
    emit("serFalse", "`Formatter::write_bool(false)`", rust_str_bytes(m.group(2)) if m else b"")
    single(trait, "default", "begin_string", "serBeginString", "`Formatter::begin_string`")
    single(trait, "default", "end_string", "serEndString", "`Formatter::end_string`")
    single(trait, "default", "begin_array", "cBeginArray", "default `begin_array`")
    single(trait, "default", "end_array", "cEndArray", "default `end_array`")
    single(trait, "default", "begin_object", "cBeginObject", "default `begin_object`")
    single(trait, "default", "end_object", "cEndObject", "default `end_object`")
    single(trait, "default", "begin_object_value", "cObjectValue", "default `begin_object_value`")
    for fn, name in (("begin_array_value", "cArrayValueRest"), ("begin_object_key", "cObjectKeyRest")):
        ls, body = lits(trait, fn, "ser.default." + fn)
        m = re.search(r"if\s+first\s*\{\s*Ok\(\(\)\)\s*\}\s*else\s*\{\s*writer\.write_all\(%s\)\s*\}" % LIT, body)
        if not m: miss("ser.default." + fn, "`if first { Ok(()) } else { writer.write_all(b\"…\") }` not found")
        emit(name, "default `%s(first = false)`; nothing is written when `first`" % fn, rust_str_bytes(m.group(1)) if m else b"")
    for fn in ("end_array_value", "end_object_key", "end_object_value"):
        body = fn_body(trait, r"fn %s<[^{]*\{" % fn)
        if body is None or "write_all" in body or not re.search(r"\{\s*Ok\(\(\)\)\s*\}", body):
            miss("ser.default." + fn, "expected a body that is just `Ok(())`")
    # the byte-array writer must be the generic begin_array / begin_array_value / write_u8 loop
    body = fn_body(trait, r"fn write_byte_array<[^{]*\{") or ""
    if not re.search(r"begin_array\(writer\).*let mut first = true;.*for byte in value.*begin_array_value\(writer, first\).*"
                     r"write_u8\(writer, \*byte\).*end_array_value\(writer\).*first = false;.*end_array\(writer\)", body, re.S):
        miss("ser.default.write_byte_array", "loop shape changed")

    # --- PrettyFormatter
    single(pretty, "pretty", "begin_array", "pBeginArray", "pretty `begin_array`")
    single(pretty, "pretty", "begin_object", "pBeginObject", "pretty `begin_object`")
    single(pretty, "pretty", "begin_object_value", "pObjectValue", "pretty `begin_object_value`")
    for fn, n1, n2 in (("end_array", "pEndArrayNl", "pEndArray"), ("end_object", "pEndObjectNl", "pEndObject")):
        ls, body = lits(pretty, fn, "ser.pretty." + fn)
        m = re.search(r"if\s+self\.has_value\s*\{\s*tri!\(writer\.write_all\(%s\)\);\s*tri!\(indent\(writer,\s*self\.current_indent,\s*self\.indent\)\);\s*\}\s*"
                      r"writer\.write_all\(%s\)" % (LIT, LIT), body)
        if not m: miss("ser.pretty." + fn, "`if self.has_value { write b\"\\n\"; indent } write b\"]\"` not found")
        emit(n1, "pretty `%s`: written before the indentation when `has_value`" % fn, rust_str_bytes(m.group(1)) if m else b"")
        emit(n2, "pretty `%s`: the closing bracket" % fn, rust_str_bytes(m.group(2)) if m else b"")
    for fn, n1, n2 in (("begin_array_value", "pArrayValueFirst", "pArrayValueRest"),
                       ("begin_object_key", "pObjectKeyFirst", "pObjectKeyRest")):
        ls, body = lits(pretty, fn, "ser.pretty." + fn)
        m = re.search(r"writer\.write_all\(if\s+first\s*\{\s*%s\s*\}\s*else\s*\{\s*%s\s*\}\)\);\s*indent\(writer,\s*self\.current_indent,\s*self\.indent\)" % (LIT, LIT), body)
        if not m: miss("ser.pretty." + fn, "`write_all(if first { … } else { … }); indent(…)` not found")
        emit(n1, "pretty `%s(first = true)`, followed by the indentation" % fn, rust_str_bytes(m.group(1)) if m else b"")
        emit(n2, "pretty `%s(first = false)`, followed by the indentation" % fn, rust_str_bytes(m.group(2)) if m else b"")
    # methods PrettyFormatter overrides (anything else falls back to the defaults above)
    over = re.findall(r"fn\s+(\w+)<", pretty)
    lines.append("/-- the methods `PrettyFormatter` overrides, in source order -/")
    lines.append("def prettyOverrides : List String := [%s]" % ", ".join('"%s"' % o for o in over))


GENERATORS = [("Pointer", gen_pointer), ("Ser", gen_ser)]


def main():
    os.makedirs(OUT, exist_ok=True)
    for name, fn in GENERATORS:
        lines = ["/-! GENERATED by tools/extract.py from /repo/src — do not edit. -/", "namespace SJ.Gen", ""]
        try:
            fn(lines)
        except Exception as e:  # a restructured source must not crash the check: report it
            miss(name, "extractor failed: %r" % (e,))
        lines += ["", "end SJ.Gen", ""]
        text = "\n".join(lines)
        path = os.path.join(OUT, name + ".lean")
        old = open(path, encoding="utf-8").read() if os.path.exists(path) else None
        if old != text:
            with open(path, "w", encoding="utf-8") as f: f.write(text)
            print("UPDATED", os.path.relpath(path))
    for k, why in missing:
        print("MISSING", k, "—", why)
    print("extract.py: %d generator(s), %d missing construct(s)" % (len(GENERATORS), len(missing)))
    return 0


if __name__ == "__main__":
    sys.exit(main())
